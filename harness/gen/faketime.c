/* faketime.c — LD_PRELOAD shim: shifts the wall clock seen by the process by VF_TIME_OFFSET seconds
 * (time, gettimeofday, clock_gettime(CLOCK_REALTIME)), to show that generated code does not depend on time. */
#define _GNU_SOURCE
#include <dlfcn.h>
#include <stdlib.h>
#include <sys/time.h>
#include <time.h>
static long off(void) { const char* s = getenv("VF_TIME_OFFSET"); return s ? atol(s) : 0; }
time_t time(time_t* t) {
  static time_t (*real)(time_t*) = 0;
  if (!real) real = (time_t(*)(time_t*))dlsym(RTLD_NEXT, "time");
  time_t v = real(0) + off();
  if (t) *t = v;
  return v;
}
int gettimeofday(struct timeval* tv, void* tz) {
  static int (*real)(struct timeval*, void*) = 0;
  if (!real) real = (int (*)(struct timeval*, void*))dlsym(RTLD_NEXT, "gettimeofday");
  int r = real(tv, tz);
  if (tv) tv->tv_sec += off();
  return r;
}
int clock_gettime(clockid_t c, struct timespec* ts) {
  static int (*real)(clockid_t, struct timespec*) = 0;
  if (!real) real = (int (*)(clockid_t, struct timespec*))dlsym(RTLD_NEXT, "clock_gettime");
  int r = real(c, ts);
  if (ts && c == CLOCK_REALTIME) ts->tv_sec += off();
  return r;
}
