"""C03 — the eight symmetric eigen-solvers return a valid spectral decomposition."""
import re

import vfcore

META = {
    "engine": "math", "level": "exploration", "design_ref": "DESIGN.md §4.1 C03",
    "technique": "ASan+UBSan+assert harness calling computeEigenValues/computeEigenVectors of all 8 solvers on stratified "
                 "tensors; eigenvalues judged against a long-double cyclic Jacobi, eigenvectors by residual / orthonormality / "
                 "reconstruction recomputed in long double, tolerance = 1024 x (double) / 512 x (float) the documented Delta_inf of each solver",
    "text": "Every case (2D and 3D, float and double) of 19 named strata - random, diagonal, nearly diagonal, numerically-zero "
            "shear, one/two zero eigenvalues, zero tensor, a*I, exactly repeated pair in a generic frame, nearly repeated with gaps "
            "1e-1..1e-16 (5 bins), pure shear + pressure (J3=0), badly scaled, mixed component scales, extreme scale - goes through "
            "the 8 solvers; finite outputs, eigenvalue error, |S v - l v|, |V^T V - I| and |V L V^T - S| are judged relative to |S| "
            "with the accuracy documented in docs/web/release-notes-5.0.md times a safety factor (eigenvector quantities of the "
            "closed-form/Cuppen solvers scaled by 1/gap, capped so that O(1) errors are never accepted). Library assertions are "
            "caught and reported per case. Held on the cases executed; no claim beyond them.",
    "note": "Trusted: long-double Jacobi of harness/ref.hxx (eigenvalues to ~1e-19 |S|), g++, sanitizer runtimes. long double "
            "instantiations are not judged (the reference has the same precision). Violation keys are "
            "<solver><N,T>:<stratum>:<class>, class in accuracy|gross (error > 1e-2 |S|)|nonfinite|assert (library assertion)|crash (SIGSEGV inside the call)|layout2d.",
}

SOLVERS = ["TFEL", "FSESJACOBI", "FSESQL", "FSESCUPPEN", "FSESANALYTICAL", "FSESHYBRID", "GTESYMMETRICQR", "HARARI"]
STRATA = ["random", "diagonal", "near_diagonal", "tiny_shear", "zero1", "zero2", "zero_tensor", "repeated3", "repeated2",
          "nearrep_g1e-1..1e-3", "nearrep_g1e-3..1e-6", "nearrep_g1e-6..1e-9", "nearrep_g1e-9..1e-12",
          "nearrep_g1e-12..1e-16", "shear_pressure", "scaled", "mixed_scale", "extreme_big", "extreme_small"]
# the harness recovers from SIGSEGV itself (unbounded recursion in the library): keep the ASan runtime off that signal
SEGV_ENV = {"ASAN_OPTIONS": vfcore.SAN_ENV["ASAN_OPTIONS"] + ":handle_segv=0"}
SRC = vfcore.VERIF / "harness/math/c03.cxx"


def build(ctx):
    jobs = [("c03d", "asan", "double"), ("c03f", "asan", "float")]
    if ctx.thorough:
        jobs.append(("c03d", "O2", "double"))
    out = vfcore.pmap(lambda j: vfcore.compile_cxx(j[0], [SRC], j[1], flags=("-DC03_REAL=" + j[2],)), jobs)
    return {(j[1], j[2]): b for j, b in zip(jobs, out)}


def keymap(key, e):
    m = re.match(r"\[(\w+)\]", e.get("msg", ""))
    return "%s:%s" % (key, m.group(1) if m else "accuracy")


def require(t, mn):
    return [("%s<%d,%s>" % (s, n, t), st, mn) for s in SOLVERS for n in (2, 3) for st in STRATA]


def run(ctx):
    bins = build(ctx)
    ctx.cov["rule"] = ("case = (N in {2,3}, stratum, symmetric tensor rounded to the scalar type, refine flag) drawn from "
                       "(VERIF_SEED, index) and pushed through the 8 solvers; distinct = distinct hash of the rounded components "
                       "per (solver<N,T>, stratum); non-trivial = every case but the single zero tensor")
    if ctx.replay:
        return replay(ctx, bins)
    # 5 judged quantities (+2 layout checks in 2D) per solver and case; 1/64 of the cases is the zero tensor
    nd, nf = ctx.n(240000, 1600000), ctx.n(80000, 480000)
    ctx.run_events(bins[("asan", "double")], nd, require=require("double", 5 * ctx.n(60, 400)), keymap=keymap, timeout=3000, env=SEGV_ENV)
    ctx.run_events(bins[("asan", "float")], nf, require=require("float", 5 * ctx.n(20, 120)), keymap=keymap, timeout=3000, env=SEGV_ENV)
    if ctx.thorough:
        # what users run: -O2 -DNDEBUG (library assertions compiled out)
        ctx.run_events(bins[("O2", "double")], 1600000, require=[], timeout=3000,
                       keymap=keymap, env=SEGV_ENV)
    ctx.assumptions += [
        "documented accuracy = Delta_inf columns of docs/web/release-notes-5.0.md (float, double), taken relative to |S|_F",
        "FSESHYBRID::computeEigenValues runs the analytical formula (syevc3): judged with the FSESANALYTICAL figure",
        "float strata: 'scaled' spans 1e-4..1e4, 'mixed_scale' 1e-3..1e3, 'extreme' 1e+-12, because cubes/sixth powers of larger "
        "magnitudes overflow the float range by construction; double: 1e+-12, 1e+-6, 1e+-150",
        "the refine/aggressive boolean of the API alternates between cases and is part of the replay data, not of the key",
    ]


def replay(ctx, bins):
    c = ctx.replay.get("case") or {}
    e = c.get("event") or {}
    t = (e.get("in") or {}).get("T", "double")
    b = bins[("asan", "float" if t == "float" else "double")]
    r = vfcore.run([b, "--seed", ctx.seed, "--only", e.get("case", 0), "--tier", ctx.tier], timeout=300, cwd=ctx.work, env=SEGV_ENV)
    summ = {}
    ctx.fold_events(r, summ, where="replay", keymap=keymap, replay_base=c)
    ctx.merge_summary(summ)
