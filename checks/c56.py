"""C56 — SlipSystemsDescription: crystallographic validity of generated slip systems."""
import vfcore

META = {
    "engine": "math", "level": "exploration", "design_ref": "DESIGN.md §4.1 C56",
    "technique": "ASan+UBSan harness on libTFELMaterial/libTFELNUMODIS; families compared with point-group orbits computed independently on integer indices (48 signed permutations for cubic structures, 24 Miller-Bravais operations for HCP), geometry with the lattice vectors in long double",
    "text": "For Cubic, FCC, BCC (62 families) and HCP (69 families) — every orbit of a primitive (Burgers, plane) pair with indices <= 3 and b.n = 0, handed to the library through a random representative with random signs — the generated systems are pairwise distinct up to sign, as many as and equal to the orbit under the point group, each has integer b.n = 0, unit normal orthogonal to the unit slip direction and parallel to the lattice geometry of its indices, orientation tensor m(x)n and climb tensor n(x)n in the tensor storage order; Schmid factors for a random integer loading direction lie in [-1/2,1/2] and equal (d.n)(d.m); an equivalent family is refused; the interaction-matrix structure is a partition of the ordered pairs, consistent with getRank, with rank 0 = self interactions, invariant under the point group; the documented FCC <1,-1,0>{1,1,1} example (12 systems, 7 coefficients, rank 1 = coplanar pairs) is reproduced. Quick: 200 random families per structure; thorough: every family about 20 times. Held on the cases executed; nothing is claimed beyond them.",
    "note": "Trusted: the orbit / lattice code of harness/material/c56.cxx. The symmetry rank(g1,g2) = rank(g2,g1) of the property is counted, not judged: the documented FCC matrix (ImplicitII-keywords.md) is itself not symmetric (glissile interactions).",
}

H = vfcore.VERIF / "harness/material"
LIBS = ("TFELMaterial", "TFELNUMODIS", "TFELMath", "TFELUtilities", "TFELException")
STRUCT = ("Cubic", "FCC", "BCC", "HCP")


def build(ctx):
    return {"asan": vfcore.compile_cxx("c56", [H / "c56.cxx"], "asan", libs=LIBS)}


def keymap(key, e):
    # one defect (r[i] instead of r[idx]) whatever the index stratum
    if "Schmid factor=(d.n)(d.m)" in key:
        return key.rsplit(":", 1)[0]
    return key


def run(ctx):
    b = build(ctx)
    ctx.cov["rule"] = ("family = orbit of a primitive (b, n), |indices| <= 3, b.n = 0, under the point group; case = (structure, family, random "
                       "representative and signs, random loading direction); distinct = hash of the representative; every family has >= 1 system")
    req = []
    for s in STRUCT:
        for a in ("no-duplicate-up-to-sign", "family-size=orbit-size", "family=orbit-under-point-group", "unit normal and direction",
                  "normal orthogonal to direction", "orientation tensor=m(x)n", "Schmid factor in [-1/2,1/2]", "Schmid factor=(d.n)(d.m)",
                  "interaction:every ordered pair in exactly one rank", "interaction:rank invariant under the point group"):
            req.append(("%s:%s" % (s, a), None, 20))
    req.append(("FCC:<1,-1,0>{1,1,1}:7 independent interaction coefficients", None, 1))
    ctx.run_events(b["asan"], ctx.n(800, 6000), shards=vfcore.NCPU, require=req, timeout=3600, keymap=keymap)
    c = ctx.cov.get("counters", {})
    ctx.cov["interaction_rank_symmetry"] = {s: {"asymmetric_pairs": c.get("note:%s:unordered pairs with rank(g1,g2)!=rank(g2,g1)" % s, 0),
                                                "pairs": c.get("note:%s:unordered pairs examined" % s, 0)} for s in STRUCT}
    ctx.assumptions += [
        "two slip systems are the same when they differ by the signs of b and/or n; point groups m-3m (Cubic, FCC, BCC) and 6/mmm (HCP) act on b and n simultaneously",
        "HCP lattice: a1 = (sqrt3/2,1/2,0), a2 = (-sqrt3/2,1/2,0), a3 = (0,-1,0), c/a = sqrt(8/3) (NUMODIS/HCP.cxx); direction [uvtw] = u a1 + v a2 + t a3 + w c, normal of (hkil) parallel to 2/3 (h a1 + k a2 + i a3) + l c/|c|^2; tolerance 2e-9 (c/a stored with 10 digits)",
        "orientation tensor = m (x) n (slip direction (x) normal) stored as [xx yy zz xy yx xz zx yz zy] (comment of getOrientationTensor and TFEL tensor convention)",
        "rank(g1,g2) = rank(g2,g1) is NOT demanded: the documented FCC interaction matrix (docs/web/ImplicitII-keywords.md, 7 coefficients) is not symmetric (e.g. entries (0,5)=4 and (5,0)=6); the number of asymmetric pairs is recorded in coverage.interaction_rank_symmetry; what is judged instead is the partition, rank 0 = self interactions (documented) and the invariance of the rank under the point group ('many interactions between slip systems are equivalent')",
        "only primitive index vectors (gcd 1) are used as family representatives",
    ]
