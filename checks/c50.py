"""C50 — a rejected MTest step leaves no trace (DESIGN.md §4.6)."""
import math

import vfcore
from checks import mt_common as M
from checks import c48, c49

META = {
    "engine": "mtest", "level": "fault_enumeration", "design_ref": "DESIGN.md §4.6 C50",
    "technique": "scripted step refusals (behaviour refusing dt > dtmax, refusing chosen integration calls before/after the integration, or too few Newton iterations allowed) enumerated over periods, iterations, nesting depth, prediction policies and acceleration algorithms; run A (sub-stepping, every accepted period written) against run B (time grid = the steps A accepted, no refusal): rows compared bit for bit when the time arithmetic is exact, within C49's tolerance otherwise; accepted-attempt iteration counts and period counters compared",
    "text": "Behaviours VfNorton, VfImplicitNorton and VfPlasticity (reference .mfront files plus a control block) refuse an integration when the time step exceeds a material property or when the index of the integration call is listed in an environment variable, either before the integration or after it (state already computed). A dry run gives the number of iterations of each period, from which the call index of (period p, iteration i) is computed; run A is then made with refusals at that position, optionally repeated on the first attempts of the halved step (nesting), or with a small @MaximumNumberOfIterations (refusal by non convergence). With @OutputFrequency 'EveryPeriod' and 17 digits A's result file lists every accepted sub-step; run B uses exactly these times as @Times with no refusal. The property demands the same states: on grids whose sub-step times are exact binary numbers (same t, dt in both runs) every column of every row must be bit-identical, and the iteration count of every accepted attempt and the period counter must coincide; on other grids the rows must agree within C49's tolerance. Enumerated: 4 prediction policies x 6 acceleration settings x 3 behaviours x failure position (period 1..5, iteration 1..4) x nesting 1..3 x refusal mode. A second family runs a rate-form (hypoelastic, explicit viscous flow) control law whose result depends on every begin-of-step quantity handed to the behaviour (stress, strain, internal variables, temperature, dissipated energy), and the other control laws, (a) plain, (b) through the behaviour wrappers an input file can select with the generic interface (mtest/src/*BehaviourWrapper.cxx: LogarithmicStrain1D in mtest and in ptest, SmallStrainTridimensionalBehaviourWrapper in the 1D/2D hypotheses) and (c) in PipeTest without wrapper, with refusals placed at period >= 2 so that the rejected attempt starts from non-zero strain and stress; result rows (and, for ptest, every Gauss point profile line) must be bit-identical between the run with rejected attempts and the run made of the accepted steps.",
    "note": "Trusted: the control block really refuses where planned (the evidence counts planned positions reached). Runs where A's own time loop overshoots the requested time (finding C48:GenericSolver:sub-stepping-overshoots-requested-time) are counted and not judged here. Lagrange multipliers are observed through the imposed-stress components. AsterLogarithmicStrainBehaviourWrapper needs the aster interface (not built) and is not exercised. Begin-of-step quantities are not printed by mtest: they are observed through the rate-form law, which folds each of them into its state.",
}

NEEDED = ["VfNorton", "VfImplicitNorton", "VfPlasticity", "VfHypo"]
# second family of cases: behaviour wrappers of mtest/src/*BehaviourWrapper.cxx reachable from an input file with the
# generic interface (SingleStructureScheme::setBehaviour: LogarithmicStrain1D, SmallStrainTridimensionalBehaviourWrapper;
# AsterLogarithmicStrainBehaviourWrapper needs the aster interface, which is not built) and the rate-form law VfHypo,
# whose result depends on every begin-of-step quantity (stress, strain, internal variables, temperature, energies)
VARIANTS = [("mtest", None), ("mtest", "LogarithmicStrain1D"), ("ptest", "LogarithmicStrain1D"),
            ("mtest", "SmallStrainTridimensionalBehaviourWrapper"), ("ptest", None)]
TRIDIM_HYPS = ["AxisymmetricalGeneralisedPlaneStrain", "Axisymmetrical", "PlaneStrain", "GeneralisedPlaneStrain"]


def vname(case):
    return "%s:%s" % (case.get("scheme", "mtest"), case.get("wrapper") or "no-wrapper")
ACCS = ["none", "UseCastem", "Secant", "IronsTuck", "UAnderson", "Steffensen"]
HYPS = ["Tridimensional", "Axisymmetrical", "GeneralisedPlaneStrain", "AxisymmetricalGeneralisedPlaneStrain"]


def build(ctx):
    return M.build_libs(NEEDED)


def gen_case(seed, i, libs):
    g = vfcore.rng(seed, "c50", i)
    name = NEEDED[i % 3]
    pred = c49.PRED[(i // 3) % 4]
    acc = ACCS[(i // 12) % len(ACCS)]
    hyp = g.choice(HYPS)
    law = M.LAW[name]
    mp, info, eamp, samp = M.rand_material(g, law)
    plan = ["dtmax", "at", "at", "at", "itermax"][(i // 72 + i) % 5] if g.random() < 0.85 else g.choice(["dtmax", "at", "itermax"])
    exact = g.random() < 0.75
    nsteps = 1 if plan == "dtmax" and g.random() < 0.5 else g.randrange(2, 7)
    if exact:
        unit = 2.0 ** g.randrange(-4, 7)
        ts = [0.0]
        for _ in range(nsteps):
            ts.append(ts[-1] + unit * 64 * g.randrange(1, 5))
    else:
        T = 10.0 ** g.uniform(0, 3.5)
        ts = [0.0]
        for _ in range(nsteps):
            ts.append(ts[-1] + T / nsteps * g.uniform(0.5, 1.5))
    cons = M.rand_control(g, hyp, eamp, samp, ts[0], ts[-1], pfree=0.3, pstress=0.4)
    eeps = 10.0 ** g.uniform(-13, -11)
    seps = 10.0 ** g.uniform(-3, -1) * (info["E"] / 1.5e11)
    case = {"i": i, "behaviour": name, "law": law, "hyp": hyp, "mp": mp, "info": info, "times": ts, "cons": cons, "eeps": eeps, "seps": seps,
            "lib": libs[name], "pred": pred, "acc": acc, "plan": plan, "exact": exact, "ktype": g.choice(c49.KTYPE),
            "mode": g.randrange(2), "itermax": None, "dtmax": 0.0, "fail_at": None}
    steps = [b - a for a, b in zip(ts, ts[1:])]
    if plan == "dtmax":
        case["dtmax"] = max(steps) / g.choice([1.5, 3.0, 6.0, 12.0])
    elif plan == "at":
        case["target"] = (g.randrange(1, min(5, nsteps) + 1), g.randrange(1, 5), g.randrange(1, 4))   # period, iteration, nesting depth
    else:
        case["itermax"] = g.randrange(2, 6)
    return case


def gen_wcase(seed, j, libs, base):
    """wrapper / rate-form family; `base` offsets the directory and replay index"""
    g = vfcore.rng(seed, "c50", "wrap", j)
    scheme, wrapper = VARIANTS[j % len(VARIANTS)]
    others = ["VfNorton", "VfImplicitNorton", "VfPlasticity"]
    name = "VfHypo" if (wrapper is None or (j // len(VARIANTS)) % 2 == 0) else others[(j // (2 * len(VARIANTS))) % 3]
    acc = ACCS[(j // len(VARIANTS)) % len(ACCS)]
    pred = c49.PRED[(j // len(VARIANTS) + j // (len(VARIANTS) * len(ACCS))) % 4]
    law = M.LAW[name]
    mp, info, eamp, samp = M.rand_material(g, law)
    if wrapper == "LogarithmicStrain1D" or scheme == "ptest":
        hyp = "AxisymmetricalGeneralisedPlaneStrain"
    elif wrapper:
        hyp = g.choice(TRIDIM_HYPS)
    else:
        hyp = g.choice(HYPS)
    plan = g.choice(["dtmax", "dtmax", "dtmax", "at", "at", "at", "at", "at", "at", "itermax"])
    if law == "hypo" and plan == "itermax":
        plan = "at"          # this law converges in two iterations: a small @MaximumNumberOfIterations rejects nothing
    nsteps = g.randrange(2, 6)
    unit = 2.0 ** g.randrange(-4, 7)
    ts = [0.0]
    for _ in range(nsteps):
        ts.append(ts[-1] + unit * 64 * g.randrange(1, 5))
    if law == "hypo":
        mp["ReferenceCreepRate"] = 0.3 * eamp / ts[-1] * g.uniform(0.1, 1.0)
    cons = M.rand_control(g, hyp, eamp, samp, ts[0], ts[-1], pfree=0.3, pstress=0.4)
    eeps = 10.0 ** g.uniform(-13, -11)
    seps = 10.0 ** g.uniform(-3, -1) * (info["E"] / 1.5e11)
    case = {"i": base + j, "behaviour": name, "law": law, "hyp": hyp, "mp": mp, "info": info, "times": ts, "cons": cons, "eeps": eeps, "seps": seps,
            "lib": libs[name], "pred": pred, "acc": acc, "plan": plan, "exact": True, "ktype": g.choice(c49.KTYPE),
            "mode": g.randrange(2), "itermax": None, "dtmax": 0.0, "fail_at": None, "scheme": scheme, "wrapper": wrapper,
            "temperature": M.lpi([(ts[0], 293.15), (ts[-1], 293.15 + g.uniform(0, 100))])}
    if scheme == "ptest":
        Ri = 10.0 ** g.uniform(-3, 0)
        th = 10.0 ** g.uniform(-1, 0)
        etype = g.choice(["Linear", "Quadratic"])
        nel = g.randrange(1, 4)
        # pressures giving hoop strains of the order of eamp
        P = info["E"] * eamp * th / (1 + th) * g.uniform(0.5, 2.0)
        case["pipe"] = {"Ri": Ri, "Re": Ri * (1 + th), "etype": etype, "nel": nel, "gauss": nel * (2 if etype == "Linear" else 3),
                        "axial": g.choice(["None", "EndCapEffect"]),
                        # PipeTest::checkBehaviourConsistency: the wrapped law is a finite-strain (ETO_PK1) one, the plain law a small-strain one
                        "hpp": wrapper is None,
                        "Pi": M.lpi([(ts[0], 0.0), (ts[-1], P)]) if g.random() < 0.7 else M.lpi([(ts[0], 0.3 * P), (ts[-1] / 2, P), (ts[-1], 0.5 * P)]),
                        "Pe": P * g.uniform(0, 0.3), "reps": max(1e-3, 1e-9 * P * (1 + th) / th)}
    steps = [b - a for a, b in zip(ts, ts[1:])]
    if plan == "dtmax":
        case["dtmax"] = max(steps) / g.choice([1.5, 3.0, 6.0])
    elif plan == "at":
        case["target"] = (g.randrange(2, min(5, nsteps) + 1), g.randrange(1, 4), g.randrange(1, 4))   # period >= 2: non-zero state when refused
    else:
        case["itermax"] = g.randrange(2, 5)
    return case


def ptest_text(case, times, maxsub, dtmax, itermax):
    pp = case["pipe"]
    mp = dict(case["mp"])
    mp["MaximalAcceptedTimeStep"] = dtmax
    L = ["@InnerRadius %s;" % M.fl(pp["Ri"]), "@OuterRadius %s;" % M.fl(pp["Re"]), "@NumberOfElements %d;" % pp["nel"],
         "@ElementType '%s';" % pp["etype"], "@AxialLoading '%s';" % pp["axial"], "@PerformSmallStrainAnalysis %s;" % ("true" if pp["hpp"] else "false"),
         "@Behaviour<generic%s> '%s' '%s';" % ("," + case["wrapper"] if case["wrapper"] else "", case["lib"], M.SPECS[case["behaviour"]][1])]
    for k, v in mp.items():
        L.append("@MaterialProperty<constant> '%s' %s;" % (k, M.fl(v)))
    L.append("@ExternalStateVariable<evolution> 'Temperature' %s;" % case["temperature"].text)
    L.append("@InnerPressureEvolution %s;" % pp["Pi"].text)
    L.append("@OuterPressureEvolution %s;" % M.fl(pp["Pe"]))
    L.append("@ResidualEpsilon %s;" % M.fl(pp["reps"]))
    L += [l for l in c49.config_lines((case["acc"], case["pred"], case["ktype"], "ToNearest", maxsub))]
    L += ["@OutputFrequency 'EveryPeriod';", "@OutputFilePrecision 17;", "@MaximumNumberOfSubSteps %d;" % maxsub]
    if itermax:
        L.append("@MaximumNumberOfIterations %d;" % itermax)
    L.append("@Profile 'prof.res' {'SRR','STT','SZZ','ERR','ETT','EZZ'};")
    L.append("@Times {%s};" % ",".join(M.fl(t) for t in times))
    return "\n".join(L) + "\n"


class PRes:
    """ptest result file (time, radii, displacements, axial growth...) + the Gauss point profiles of every written time"""

    def __init__(self, d):
        self.names, self.rows, self.profile, self.ok = [], [], [], False
        try:
            for l in (d / "a.res").read_text().splitlines():
                if l.strip() and not l.startswith("#"):
                    self.rows.append([float(x) for x in l.split()])
            for l in (d / "prof.res").read_text().splitlines():
                if l.startswith("#Time"):
                    self.profile.append([float(l.split()[1])])
                elif l.strip() and not l.startswith("#"):
                    self.profile.append([float(x) for x in l.split()])
        except (OSError, ValueError, IndexError):
            return
        n = len(self.rows[0]) if self.rows else 0
        self.names = (["time", "InnerRadius", "OuterRadius", "InnerDisplacement", "OuterDisplacement", "AxialGrowth"] + ["col%d" % k for k in range(7, n + 1)])[:n]
        self.ok = bool(self.rows) and all(len(r) == n for r in self.rows) and bool(self.profile)


def text(case, times, maxsub, dtmax, itermax):
    if case.get("scheme") == "ptest":
        return ptest_text(case, times, maxsub, dtmax, itermax)
    mp = dict(case["mp"])
    mp["MaximalAcceptedTimeStep"] = dtmax
    extra = c49.config_lines((case["acc"], case["pred"], case["ktype"], "ToNearest", maxsub)) + ["@OutputFrequency 'EveryPeriod';"]
    return M.mtest_text(case["lib"], M.SPECS[case["behaviour"]][1], case["hyp"], mp, times, case["cons"], case["eeps"], case["seps"],
                        extra=extra, maxsub=maxsub, itermax=itermax, wrapper=case.get("wrapper"), temperature=case.get("temperature"))


def one(ctx, case, tag, txt, envx):
    d = ctx.work / ("k%d" % case["i"]) / tag
    d.mkdir(parents=True, exist_ok=True)
    ptest = case.get("scheme") == "ptest"
    fn = "a.ptest" if ptest else "a.mtest"
    (d / fn).write_text(txt)
    r = M.run_mtest(d, fn, args=["--verbose=level1"] + (["--scheme=ptest"] if ptest else []), timeout=180, extra_env=envx)
    crash = ctx.classify_crash(r, recognised_terminate=True)
    o = {"status": None, "res": None, "att": None, "stats": None, "text": txt, "env": envx}
    if crash == "hang":
        o["status"] = "timeout"
    elif crash:
        o["status"] = "crash:" + crash
        o["tail"] = r.out[-1500:]
    elif not M.completed(r):
        o["status"] = "failed:" + c48.failure_reason(r.out)
    else:
        o["att"], o["stats"] = M.parse_log(r.out)
        res = PRes(d) if ptest else M.Res(d / "a.res")
        o["status"] = "ok" if res.ok else "unreadable"
        o["res"] = res
    return o


def same_float(a, b):
    return (a == b) or (a != a and b != b)


def run_case(ctx, case, doctor=None):
    """-> dict(status, viol=[(key, what)], info)"""
    out = {"status": None, "viol": [], "reached": None, "nfail": 0, "maxdepth": 0, "runs": 0, "bitwise": None, "ratio": None}
    envA = {}
    if case["plan"] == "at":
        a0 = one(ctx, case, "A0", text(case, case["times"], 1, 0.0, None), {})
        out["runs"] += 1
        if a0["status"] != "ok":
            out["status"] = "dry-run-" + a0["status"].split(":")[0]
            return out
        p, it, depth = case["target"]
        iters = [a["iters"] for a in a0["att"]]
        p = min(p, len(iters))
        it = min(it, iters[p - 1])
        idx = sum(iters[:p - 1]) + it
        if case.get("scheme") == "ptest":
            # one integration call per Gauss point and iteration: the refusal is placed at a chosen Gauss point
            G = case["pipe"]["gauss"]
            idx = (sum(iters[:p - 1]) + it - 1) * G + 1 + (case["i"] * 7) % G
        # nesting: the first attempt(s) of the halved step are refused too (at their first or second call)
        fa = [idx]
        for _ in range(depth - 1):
            fa.append(fa[-1] + 1 + (case["i"] % 2))
        case["fail_at"] = fa
        case["target_eff"] = (p, it, depth)
        envA = {"VF_FAIL_AT": ",".join(map(str, fa)), "VF_FAIL_MODE": str(case["mode"])}
    a = one(ctx, case, "A", text(case, case["times"], 12, case["dtmax"], case["itermax"]), envA)
    out["runs"] += 1
    if a["status"] != "ok":
        out["status"] = "A-" + a["status"].split(":")[0]
        if a["status"].startswith("crash"):
            out["viol"].append(("mtest-crash:%s" % a["status"][6:], "mtest died in run A\n%s" % a.get("tail", "")))
        return out
    att = a["att"]
    out["nfail"] = sum(1 for x in att if not x["ok"])
    if out["nfail"] == 0:
        out["status"] = "no-step-rejected"
        return out
    if case["plan"] == "at":
        # was the refusal where it was planned?  first refused attempt = period p (1-based among accepted), iteration it
        nacc = 0
        for x in att:
            if not x["ok"]:
                out["reached"] = (nacc + 1 == case["target_eff"][0]) and (x["iters"] == case["target_eff"][1] - 1)
                break
            nacc += 1
    loop, consistent = M.replay_time_loop(case["times"], att)
    if not consistent:
        out["status"] = "log-not-followed"
        return out
    if any(iv["t_final"] - iv["te"] > 0.25 * iv["dt_last"] > 0 for iv in loop):
        out["status"] = "A-overshoots(C48-finding)"
        return out
    out["maxdepth"] = max(int(round(math.log2((iv["te"] - iv["ti"]) / iv["dt_last"]))) for iv in loop)
    resA = a["res"]
    tA = [r[0] for r in resA.rows]
    exp = [case["times"][0]] + [b for iv in loop for (_, b) in iv["accepted"]]
    # the last accepted sub-step of an interval is printed with the requested time
    k = 0
    for iv in loop:
        k += len(iv["accepted"])
        exp[k] = iv["te"]
    if len(tA) != len(exp) or any(abs(x - y) > 64 * M.ulp(y) for x, y in zip(tA, exp)):
        out["viol"].append(("EveryPeriod-output:accepted-steps-do-not-match-log", "times of A's result file %s, accepted steps of its log %s" % (tA, exp)))
        out["status"] = "judged"
        return out
    arith_exact = case["exact"] and all(x == y for x, y in zip(tA, exp))
    b = one(ctx, case, "B", text(case, tA, 1, 0.0, case["itermax"]), {})
    out["runs"] += 1
    key_cfg = "%s:%s:%s:%s" % (case["behaviour"], case["plan"] + ("-mode%d" % case["mode"] if case["plan"] == "at" else ""), case["pred"], case["acc"])
    if "scheme" in case:
        key_cfg += ":" + vname(case)
    # refused attempts that started from a non-zero state (after the first accepted step)
    out["nonzero_state_refusals"] = sum(1 for x in att if not x["ok"] and float(x["t0"]) > case["times"][0])
    if b["status"] != "ok":
        if b["status"].startswith("crash"):
            out["viol"].append(("mtest-crash:%s" % b["status"][6:], "mtest died in run B\n%s" % b.get("tail", "")))
        elif arith_exact and b["status"].startswith("failed"):
            out["viol"].append(("direct-run-fails:%s" % key_cfg,
                                "run B (grid = steps accepted by A, same t and dt, no refusal) fails (%s) although every one of these steps converged in A" % b["status"]))
        out["status"] = "B-" + b["status"].split(":")[0]
        return out
    resB = b["res"]
    if doctor:
        doctor(case, resA, resB, a, b)
    out["status"] = "judged"
    if len(resB.rows) != len(resA.rows):
        out["viol"].append(("rows:%s" % key_cfg, "A has %d rows, B %d" % (len(resA.rows), len(resB.rows))))
        return out
    itA = [x["iters"] for x in att if x["ok"]]
    itB = [x["iters"] for x in b["att"] if x["ok"]]
    perA, perB = a["stats"].get("period"), b["stats"].get("period")
    if perA != perB or perA != len(tA) - 1:
        out["viol"].append(("counters:periods:%s" % key_cfg, "number of period: A %s, B %s, accepted steps %d" % (perA, perB, len(tA) - 1)))
    if a["stats"].get("sub-steps") != out["nfail"]:
        out["viol"].append(("counters:sub-steps:%s" % key_cfg, "A reports %s sub-steps, its log shows %d refused attempts" % (a["stats"].get("sub-steps"), out["nfail"])))
    names = resA.names
    if arith_exact:
        out["bitwise"] = True
        for k in range(len(tA)):
            for c in range(len(names)):
                if not same_float(resA.rows[k][c], resB.rows[k][c]):
                    out["bitwise"] = False
                    out["viol"].append(("state-differs-bitwise:%s" % key_cfg,
                                        "same t and dt in both runs, yet %s at t=%r is %r after the rejected step(s) and %r in the direct run "
                                        "(refused attempts: %d, deepest halving 2^-%d, %s, %s, fail_at=%s, itermax=%s, dtmax=%r)" %
                                        (names[c], tA[k], resA.rows[k][c], resB.rows[k][c], out["nfail"], out["maxdepth"], case["hyp"], case["ktype"],
                                         case["fail_at"], case["itermax"], case["dtmax"])))
                    break
            if out["bitwise"] is False:
                break
        if out["bitwise"] and case.get("scheme") == "ptest":
            pa, pb = resA.profile, resB.profile
            if len(pa) != len(pb):
                out["bitwise"] = False
                out["viol"].append(("profile-differs:%s" % key_cfg, "Gauss point profiles: %d lines in A, %d in B" % (len(pa), len(pb))))
            else:
                for la, lb in zip(pa, pb):
                    if len(la) != len(lb) or not all(same_float(x, y) for x, y in zip(la, lb)):
                        out["bitwise"] = False
                        out["viol"].append(("state-differs-bitwise:%s" % key_cfg,
                                            "same t and dt in both runs, yet a Gauss point line of the profile is %s after the rejected step(s) and %s in "
                                            "the direct run (refused attempts %d, %s)" % (la, lb, out["nfail"], case["pipe"])))
                        break
        if itA != itB:
            out["viol"].append(("iterations-differ:%s" % key_cfg,
                                "iterations of the accepted attempts: A %s, B %s (same t, dt and starting state expected)" % (itA, itB)))
    # tolerance comparison (always; it is the weaker statement)
    class _R:
        pass
    ref = _R()
    ref.names, ref.rows = names, resB.rows
    if case.get("scheme") == "ptest":
        ratio = math.inf            # structure run: judged bit for bit only (its grids are always exact binary numbers)
    elif case["law"] == "hypo":
        ratio = 3.0                 # elastic tangent (the flow is explicit)
    else:
        ratio = c49.stiffness_ratio(case, ref)
    if ratio <= 1e4:
        E = case["info"]["E"]
        te = case["eeps"] + ratio * case["seps"] / E
        tsig = case["seps"] + 3 * E * te
        te_all = te + 3 * tsig / E
        worst = 0.0
        for c, n in enumerate(names):
            kind = c49.column_kind(n)
            if kind is None:
                continue
            for k in range(1, len(tA)):
                tol = 10.0 * k * (tsig if kind == "stress" else te_all)
                err = abs(resA.rows[k][c] - resB.rows[k][c])
                r = err / tol if math.isfinite(err) else math.inf
                if r > worst:
                    worst = r
                    wk = (k, c, n, tol)
        out["ratio"] = worst
        if worst > 1.0:
            k, c, n, tol = wk
            out["viol"].append(("state-differs:%s" % key_cfg,
                                "%s at t=%r: %r after rejected step(s), %r in the direct run, tolerance %.3g (%s, refused attempts %d)" %
                                (n, tA[k], resA.rows[k][c], resB.rows[k][c], tol, case["hyp"], out["nfail"])))
    else:
        out["ratio"] = None
    out["replay"] = {"A": a["text"], "A_env": a["env"], "B": b["text"]}
    return out


def run(ctx, doctor=None):
    libs = build(ctx)
    n = ctx.n(72, 2880)
    ctx.cov["rule"] = ("case = pair (run A with scripted refusals, run B on the accepted steps); enumerated axes: behaviour(3) x prediction policy(4) x "
                       "acceleration(6) x plan (dtmax | refusal at (period, iteration, nesting) before/after integration | non convergence by itermax); "
                       "distinct = judged pairs; non-trivial = at least one step was rejected in A")
    nw = ctx.n(75, 1500)
    ctx.cov["rule"] += ("; second family (%d pairs): rate-form law VfHypo (reads every begin-of-step quantity) and the 3 other control behaviours x variant "
                        "(%s) x prediction x acceleration x plan, refusals placed at period >= 2 so that the rejected attempt starts from a non-zero state" %
                        (nw, ", ".join("%s/%s" % v for v in VARIANTS)))
    cases = [gen_case(ctx.seed, i, libs) for i in range(n)] + [gen_wcase(ctx.seed, j, libs, 100000) for j in range(nw)]
    n += nw
    outs = vfcore.pmap(lambda c: run_case(ctx, c, doctor), cases, workers=min(vfcore.NCPU, 12))
    judged = 0
    pos = set()
    for case, o in zip(cases, outs):
        ctx.add_eval(o["runs"])
        ctx.count("pairs:" + o["status"])
        for key, what in o["viol"]:
            ctx.violation(key, what, o.get("replay") or {"case": {k: v for k, v in case.items() if k not in ("cons", "lib")},
                                                         "constraints": [(k, c, e.text) for k, c, e in case["cons"]]})
        if o["status"] != "judged":
            continue
        judged += 1
        ctx.add_distinct("k%d" % case["i"])
        ctx.count("judged:plan=%s" % case["plan"])
        ctx.count("judged:pred=%s" % case["pred"])
        ctx.count("judged:acc=%s" % case["acc"])
        ctx.count("judged:%s" % case["behaviour"])
        ctx.count("judged:exact-arithmetic" if o["bitwise"] is not None else "judged:tolerance-only")
        if "scheme" in case:
            ctx.count("judged:variant=%s" % vname(case))
            ctx.count("judged:variant=%s:%s" % (vname(case), case["behaviour"]))
            ctx.count("refusals_from_nonzero_state:%s" % vname(case), o.get("nonzero_state_refusals", 0))
        ctx.count("refused_attempts", o["nfail"])
        ctx.count("judged:halving-depth=%d" % o["maxdepth"])
        if o["bitwise"]:
            ctx.count("bitwise_identical_pairs")
        if o["ratio"] is not None:
            ctx.maxstat("max_diff_over_tol", float("%.3g" % min(o["ratio"], 1e30)))
        if case["plan"] == "at":
            ctx.count("planned_position_reached" if o["reached"] else "planned_position_missed")
            if o["reached"]:
                pos.add(case["target_eff"][:2])
                ctx.count("judged:mode=%d" % case["mode"])
        ctx.sample({"i": case["i"], "variant": vname(case), "behaviour": case["behaviour"], "hyp": case["hyp"], "plan": case["plan"], "pred": case["pred"], "acc": case["acc"],
                    "times": case["times"], "fail_at": case["fail_at"], "dtmax": case["dtmax"], "itermax": case["itermax"],
                    "refused": o["nfail"], "depth": o["maxdepth"], "bitwise": o["bitwise"]})
    ctx.cov["failure_positions_reached(period,iteration)"] = sorted(pos)
    cnt = ctx.cov.get("counters", {})
    ctx.require(judged >= n // 3, "only %d of %d pairs could be judged" % (judged, n))
    for p in c49.PRED:
        ctx.require(cnt.get("judged:pred=%s" % p, 0) > 0, "no judged pair with prediction policy %s" % p)
    for a in ACCS:
        ctx.require(cnt.get("judged:acc=%s" % a, 0) > 0, "no judged pair with acceleration %s" % a)
    for b in NEEDED:
        ctx.require(cnt.get("judged:%s" % b, 0) > 0, "no judged pair with behaviour %s" % b)
    for pl in ("dtmax", "at", "itermax"):
        ctx.require(cnt.get("judged:plan=%s" % pl, 0) > 0, "no judged pair with plan %s" % pl)
    ctx.require(cnt.get("judged:exact-arithmetic", 0) >= judged // 3, "too few pairs with exact time arithmetic")
    for v in VARIANTS:
        vn = "%s:%s" % (v[0], v[1] or "no-wrapper")
        ctx.require(cnt.get("judged:variant=%s" % vn, 0) >= ctx.n(4, 60), "only %d judged pairs for variant %s" % (cnt.get("judged:variant=%s" % vn, 0), vn))
        ctx.require(cnt.get("judged:variant=%s:VfHypo" % vn, 0) >= ctx.n(2, 30), "too few judged pairs of the rate-form law for variant %s" % vn)
        ctx.require(cnt.get("refusals_from_nonzero_state:%s" % vn, 0) >= ctx.n(4, 60),
                    "variant %s: only %d refused attempts started from a non-zero state" % (vn, cnt.get("refusals_from_nonzero_state:%s" % vn, 0)))
    ctx.require(len(pos) >= ctx.n(5, 14), "only %d distinct (period, iteration) failure positions reached" % len(pos))
    nto = cnt.get("pairs:A-timeout", 0) + cnt.get("pairs:B-timeout", 0)
    if nto > max(2, n // 50):
        ctx.inconc("%d runs hit the watchdog" % nto)
