// C01 — symmetric tensor algebra = 3x3 symmetric-matrix meaning (DESIGN.md §4.1)
#define VFH_MAIN
#include "ref.hxx"
#include "TFEL/Math/stensor.hxx"
#include "TFEL/Math/tmatrix.hxx"
#include "TFEL/Math/tvector.hxx"
#include "TFEL/Math/Stensor/StensorConceptIO.hxx"

using namespace ref;
namespace tfm = tfel::math;

static vf::Reporter R;

template <typename T>
struct Eps { static constexpr L v = std::numeric_limits<T>::epsilon(); };

static const char* STRATA[] = {"random", "diagonal", "single", "scaled", "nearsing", "mixedscale"};

// build the reference matrix of a case
static M3 gen_sym(vf::Rng& g, int N, int st) {
  M3 m = zero();
  switch (st) {
    case 0: m = random_sym(g, N); break;
    case 1: for (int i = 0; i < 3; ++i) m[i][i] = g.uni(-1, 1); break;
    case 2: { int k = g.irange(0, ssize(N) - 1); L v = g.uni(-2, 2); m[SI[k]][SJ[k]] = v; m[SJ[k]][SI[k]] = v; break; }
    case 3: m = random_sym(g, N, g.logmag(-12, 12)); break;
    case 4: {  // nearly singular: two nearly dependent directions
      M3 q = random_rotation(g, N);
      M3 d = zero(); d[0][0] = g.uni(0.5, 2) * g.sign(); d[1][1] = g.uni(0.5, 2) * g.sign(); d[2][2] = g.logmag(-9, -1) * g.sign();
      m = mul(mul(q, d), tr(q)); m = sym(m);
      break;
    }
    default: {  // components of very different magnitudes
      for (int k = 0; k < ssize(N); ++k) { L v = g.sign() * g.logmag(-6, 6); m[SI[k]][SJ[k]] = v; m[SJ[k]][SI[k]] = v; }
    }
  }
  return m;
}

template <unsigned short N, typename T>
static tfm::stensor<N, T> mk(const M3& m) {
  tfm::stensor<N, T> s;
  auto v = to_st(m, N);
  for (int k = 0; k < ssize(N); ++k) s[k] = static_cast<T>(v[k]);
  return s;
}

template <unsigned short N, typename T>
static void one_case(const vf::Args& a, uint64_t idx, const char* tname) {
  vf::Rng g(a.seed, 101 + N * 7 + sizeof(T), idx);
  const int st = int(idx % 6);
  const char* S = STRATA[st];
  const L eps = Eps<T>::v;
  // inputs are rounded to T first: the reference sees exactly what the library sees
  auto s1 = mk<N, T>(gen_sym(g, N, st));
  auto s2 = mk<N, T>(gen_sym(g, N, st == 4 ? 0 : st));
  const M3 A = from_st(s1, N), B = from_st(s2, N);
  const L nA = norm(A), nB = norm(B);
  const uint64_t h = vf::hash_arr(&s1[0], ssize(N), vf::hash_arr(&s2[0], ssize(N)));
  auto dump = [&] {
    vf::J j; j.s("T", tname).i("N", N).arr("s1", &s1[0], &s1[0] + ssize(N)).arr("s2", &s2[0], &s2[0] + ssize(N));
    return j.str();
  };
  char api[64];
  auto nm = [&](const char* f) { std::snprintf(api, sizeof api, "%s<%d,%s>", f, int(N), tname); vf::set_case(api, S, idx); return api; };
  const L K = 32;
  // --- scalars
  // trace/det/sigmaeq are sums of products: the rounding bound is relative to the sum of
  // the absolute values of the terms, bounded below by the norms used here
  R.check(nm("trace"), S, idx, h, std::fabs(L(tfm::trace(s1)) - trace(A)), K * eps * (std::fabs(A[0][0]) + std::fabs(A[1][1]) + std::fabs(A[2][2])) + 0, dump);
  {
    L amax = maxabs(A);
    R.check(nm("det"), S, idx, h, std::fabs(L(tfm::det(s1)) - det(A)), K * eps * 6 * amax * amax * amax, dump);
  }
  R.check(nm("contract"), S, idx, h, std::fabs(L(s1 | s2) - dot(A, B)), K * eps * nA * nB, dump);
  {
    M3 D = dev(A);
    L vm = std::sqrt(1.5L * dot(D, D));
    // cancellation in the deviator: error relative to |A|
    R.check(nm("sigmaeq"), S, idx, h, std::fabs(L(tfm::sigmaeq(s1)) - vm), K * eps * nA * 4, dump);
    auto d = tfm::deviator(s1);
    R.check(nm("deviator"), S, idx, h, dist(from_st(d, N), D), K * eps * nA, dump);
  }
  // --- tensor valued
  {
    auto q = tfm::square(s1);
    R.check(nm("square"), S, idx, h, dist(from_st(q, N), mul(A, A)), K * eps * nA * nA, dump);
  }
  {
    auto p = tfm::symmetric_product(s1, s2);
    R.check(nm("symmetric_product"), S, idx, h, dist(from_st(p, N), scal(add(mul(A, B), mul(B, A)), 0.5L)), K * eps * nA * nB, dump,
            "(s1*s2+s2*s1)/2 as documented in docs/web/tensors.md (release-notes-3.0.18, issue 998)");
  }
  {
    const L d = det(A);
    if (d != 0 && std::isfinite((double)(1 / d))) {
      M3 Ai = inv(A);
      // condition number in Frobenius norm
      L kappa = nA * norm(Ai);
      if (kappa * eps < 0.01L) {
        auto si = tfm::invert(s1);
        R.check(nm("invert"), S, idx, h, dist(from_st(si, N), Ai), K * eps * kappa * kappa * norm(Ai) + 0, dump);
      } else R.skip(nm("invert"), S);
    } else R.skip(nm("invert"), S);
  }
  // --- change of basis: change_basis(s, r) = r^T S r  (documented; used by square_root etc.)
  for (int kind = 0; kind < 4; ++kind) {
    M3 Rm = random_rotation(g, N, kind);
    tfm::rotation_matrix<T> r;
    for (int i = 0; i < 3; ++i) for (int j = 0; j < 3; ++j) r(i, j) = static_cast<T>(Rm[i][j]);
    M3 Rr; for (int i = 0; i < 3; ++i) for (int j = 0; j < 3; ++j) Rr[i][j] = L(r(i, j));
    auto c = tfm::change_basis(s1, r);
    M3 expect = mul(mul(tr(Rr), A), Rr);
    static const char* KN[] = {"change_basis/random", "change_basis/identity", "change_basis/perm", "change_basis/nearid"};
    R.check(nm(KN[kind]), S, idx, h, dist(from_st(c, N), sym(expect)), K * eps * 9 * nA, dump);
    auto c2 = s1; c2.changeBasis(r);
    R.check(nm("changeBasis(member)"), S, idx, h, dist(from_st(c2, N), from_st(c, N)), 0, dump);
  }
  // --- conversions (exact up to one rounding of sqrt2 products)
  {
    T tab[6], tab2[6];
    s1.exportTab(tab);
    L e = 0;
    for (int k = 0; k < ssize(N); ++k) e = std::max(e, std::fabs(L(tab[k]) - A[SI[k]][SJ[k]]));
    R.check(nm("exportTab"), S, idx, h, e, 16 * eps * maxabs(A), dump);
    tfm::stensor<N, T> b; b.importTab(tab);
    e = 0; for (int k = 0; k < ssize(N); ++k) e = std::max(e, std::fabs(L(b[k]) - L(s1[k])));
    R.check(nm("importTab(exportTab)"), S, idx, h, e, 16 * eps * maxabs(A) * SQ2, dump);
    // importVoigt: engineering strains (2 e_xy)
    for (int k = 0; k < ssize(N); ++k) tab2[k] = static_cast<T>(k < 3 ? A[k][k] : 2 * A[SI[k]][SJ[k]]);
    tfm::stensor<N, T> c; c.importVoigt(tab2);
    e = 0; for (int k = 0; k < ssize(N); ++k) e = std::max(e, std::fabs(L(c[k]) - L(s1[k])));
    R.check(nm("importVoigt"), S, idx, h, e, 16 * eps * maxabs(A) * SQ2, dump);
    T w[6]; s1.write(w);
    tfm::stensor<N, T> d; d.import(w);
    bool same = true; for (int k = 0; k < ssize(N); ++k) same = same && (w[k] == s1[k]) && (d[k] == s1[k]);
    R.expect(nm("import/write"), S, idx, h, same, dump);
  }
  {  // get/setComponent and buildFromMatrix
    L e = 0, e2 = 0;
    tfm::stensor<N, T> b(T(0));
    tfm::tmatrix<3, 3, T> mm(T(0));
    for (int i = 0; i < 3; ++i) for (int j = 0; j < 3; ++j) {
      if (!in_dim(i, j, N)) continue;
      e = std::max(e, std::fabs(L(tfm::getComponent(s1, i, j)) - A[i][j]));
      tfm::setComponent<T>(b, i, j, static_cast<T>(A[i][j]));
      mm(i, j) = static_cast<T>(A[i][j]);
    }
    for (int k = 0; k < ssize(N); ++k) e2 = std::max(e2, std::fabs(L(b[k]) - L(s1[k])));
    R.check(nm("getComponent"), S, idx, h, e, 16 * eps * maxabs(A), dump);
    R.check(nm("setComponent"), S, idx, h, e2, 16 * eps * maxabs(A) * SQ2, dump);
    auto f = tfm::stensor<N, T>::buildFromMatrix(mm);
    M3 Mm; for (int i = 0; i < 3; ++i) for (int j = 0; j < 3; ++j) Mm[i][j] = L(mm(i, j));
    R.check(nm("buildFromMatrix"), S, idx, h, dist(from_st(f, N), sym(Mm)), 8 * eps * norm(Mm), dump);
  }
  {  // dyadic builders
    tfm::tvector<3, T> u, v;
    for (int i = 0; i < 3; ++i) { u[i] = static_cast<T>((N == 3 || i < int(N)) ? g.uni(-1, 1) : 0); v[i] = static_cast<T>((N == 3 || i < int(N)) ? g.uni(-1, 1) : 0); }
    if (N == 1) { for (int i = 0; i < 3; ++i) { u[i] = static_cast<T>(g.uni(-1, 1)); v[i] = u[i]; } }
    M3 uu, uv;
    for (int i = 0; i < 3; ++i) for (int j = 0; j < 3; ++j) { uu[i][j] = L(u[i]) * L(u[j]); uv[i][j] = L(u[i]) * L(v[j]) + L(v[i]) * L(u[j]); }
    if (N != 1) {
      if (N == 2) { /* third component of the vectors is dropped by construction above */ }
      auto d1 = tfm::stensor<N, T>::buildFromVectorDiadicProduct(u);
      M3 e1 = uu; if (N == 2) { e1[0][2] = e1[2][0] = e1[1][2] = e1[2][1] = 0; }
      R.check(nm("buildFromVectorDiadicProduct"), S, idx, h, dist(from_st(d1, N), e1), 16 * eps * norm(uu), dump);
      auto d2 = tfm::stensor<N, T>::buildFromVectorsSymmetricDiadicProduct(u, v);
      M3 e2 = uv; if (N == 2) { e2[0][2] = e2[2][0] = e2[1][2] = e2[2][1] = 0; }
      R.check(nm("buildFromVectorsSymmetricDiadicProduct"), S, idx, h, dist(from_st(d2, N), e2), 16 * eps * (norm(uv) + 1e-300L), dump);
    }
  }
  {  // buildFromEigenValuesAndVectors: sum v_i n_i x n_i with n_i the columns of m
    M3 Rm = random_rotation(g, N);
    tfm::rotation_matrix<T> r;
    for (int i = 0; i < 3; ++i) for (int j = 0; j < 3; ++j) r(i, j) = static_cast<T>(Rm[i][j]);
    T v0 = static_cast<T>(g.uni(-2, 2)), v1 = static_cast<T>(g.uni(-2, 2)), v2 = static_cast<T>(g.uni(-2, 2));
    auto b = tfm::stensor<N, T>::buildFromEigenValuesAndVectors(v0, v1, v2, r);
    M3 e = zero(); L vv[3] = {L(v0), L(v1), L(v2)};
    for (int k = 0; k < 3; ++k) for (int i = 0; i < 3; ++i) for (int j = 0; j < 3; ++j) e[i][j] += vv[k] * L(r(i, k)) * L(r(j, k));
    R.check(nm("buildFromEigenValuesAndVectors"), S, idx, h, dist(from_st(b, N), e), K * eps * 3 * (std::fabs(vv[0]) + std::fabs(vv[1]) + std::fabs(vv[2])), dump);
  }
}

template <typename T>
static void dispatch(const vf::Args& a, uint64_t idx, const char* tname) {
  switch ((idx / 6) % 3) {
    case 0: one_case<1, T>(a, idx, tname); break;
    case 1: one_case<2, T>(a, idx, tname); break;
    default: one_case<3, T>(a, idx, tname);
  }
}

int main(int argc, char** argv) {
  vf::Args a(argc, argv);
  for (long i = 0; i < a.cases; ++i) {
    const uint64_t idx = a.only >= 0 ? uint64_t(a.only) : a.gidx(i);
    switch ((idx / 18) % 3) {
      case 0: dispatch<double>(a, idx, "double"); break;
      case 1: dispatch<float>(a, idx, "float"); break;
      default: dispatch<long double>(a, idx, "ldouble");
    }
    if (a.only >= 0) break;
  }
  R.finish();
  return 0;
}
