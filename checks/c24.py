"""C24 — LogarithmicStrainHandler is energetically consistent."""
import vfcore

META = {
    "engine": "math", "level": "exploration", "design_ref": "DESIGN.md §4.1 C24",
    "technique": "ASan+UBSan+assert harnesses on LogarithmicStrainHandler<N,double> in both settings; strain, dual-stress and tangent conversions judged against long-double references built from the definitions: cyclic Jacobi for 1/2 log C, Richardson central differences for dE_log/dE_GL and for the derivative of the converted stress (nested differences for a general quadratic potential)",
    "text": "For N=1,2,3, both settings, and deformation gradients F = R.U (stretches 0.2..5, exactly equal stretches on the axes and rotated, eigenvalues of C 1e-1 .. 1e-17 apart, i.e. on both sides of the handler's eps = 1e-14): the Hencky strain is compared with 1/2 log C; S = convertToSecondPiolaKirchhoffStress(T) with T : (dE_log/dE_GL) for a general symmetric T and through the stress power T : dE_log = S : dE_GL along random rates F'; the 'From' conversions with the inverse maps; the Cauchy variants with F.S.F^T/J in both settings; for T = A : E_log (isotropic A, and a general major-symmetric positive A so that T is not coaxial with C) the material, spatial, Truesdell and Abaqus moduli with the derivative of the converted stress; the raw-pointer (Abaqus-convention) overloads with the object ones. Held on the cases executed; nothing is claimed beyond them.",
    "note": "Trusted: harness/ref.hxx, harness/material/fs_ref.hxx, g++, the sanitizer runtimes. Tolerance = 50 x FD error estimate + (K eps + 1e-14/vpmin) x scale x kappa, kappa = (1 + vpmax/gap)^order for eigenvalues of C not merged by eps (order 1 for stresses, 2 for tangents: divided differences of the algorithm, as accepted for C05), capped at 1e-3 x |reference|. In the EULERIAN setting the handler is documented (member comments, upstream test) to keep the lagrangian Hencky strain 1/2 log C and its dual and to deliver spatial stresses/moduli: 1/2 log C is the oracle in both settings (see findings/C24-eulerian-setting-strain.md; --strict-eulerian 1 switches the harness to 1/2 log b).",
}

H = vfcore.VERIF / "harness/material"
LIBS = ("TFELMaterial", "TFELMath", "TFELUtilities", "TFELException")
CASES = {1: (3400, 102000), 2: (5100, 153000), 3: (5100, 153000)}
SET = ("LAGRANGIAN", "EULERIAN")


def build(ctx):
    out = vfcore.pmap(lambda n: (n, vfcore.compile_cxx("c24_%d" % n, [H / "c24.cxx"], "asan", libs=LIBS, flags=("-DC24_DIM=%d" % n,))),
                      (1, 2, 3), workers=3)
    return dict(out)


def run(ctx):
    b = build(ctx)
    ctx.cov["rule"] = ("case = (N, stratum, F, symmetric dual stress T, elastic tensor A (isotropic 3 times out of 4)) drawn from (VERIF_SEED, index); "
                       "distinct = hash of the rounded F per (API, stratum); non-trivial = every case (det F > 0, T and A non-zero)")
    for n in (1, 2, 3):
        req = []
        for s in SET:
            req += [("getHenckyLogarithmicStrain==1/2logC<%d>@%s" % (n, s), None, 500),
                    ("convertToCauchyStress==F.S.F^T/J<%d>@%s" % (n, s), None, 500),
                    ("convertFromCauchyStress(convertTo...)==T<%d>@%s" % (n, s), None, 500)]
            for law in ("isotropic", "anisotropic"):
                req += [("convertToSpatialTangentModuli==push_forward(dS/dEgl)<%d>@%s,%s" % (n, s, law), None, 200),
                        ("convertToCauchyStressTruesdellRateTangentModuli==spatial/J<%d>@%s,%s" % (n, s, law), None, 200)]
                if n > 1:
                    req.append(("convertToAbaqusTangentModuli==JaumannModuli(tau)/J<%d>@%s,%s" % (n, s, law), None, 200))
        req += [("convertToSecondPiolaKirchhoffStress==T:dElog/dEgl<%d>@LAGRANGIAN" % n, None, 500),
                ("stress-power T:dElog==S:dEgl<%d>@LAGRANGIAN" % n, None, 500),
                ("convertFromSecondPiolaKirchhoffStress(convertTo...)==T<%d>@LAGRANGIAN" % n, None, 500),
                ("convertToMaterialTangentModuli==dS/dEgl<%d>@LAGRANGIAN,isotropic" % n, None, 200),
                ("convertToMaterialTangentModuli==dS/dEgl<%d>@LAGRANGIAN,anisotropic" % n, None, 200)]
        ctx.run_events(b[n], ctx.n(*CASES[n]), require=req, timeout=3600)
    ctx.assumptions += [
        "EULERIAN setting: the strain returned is 1/2 log C (as the library documents and as its users need: the dual stress T is contracted with tensors built on the eigenvectors of C); the literal '1/2 log b' of the property text is not judged (principal values, which both readings share, are)",
        "T is the work conjugate of the lagrangian Hencky strain: S = T : dE_log/dE_GL, sigma = F.S.F^T/J; spatial moduli = push forward of dS/dE_GL, Truesdell moduli = spatial/J, Abaqus moduli = (spatial moduli + d.tau + tau.d terms)/J",
        "accepted conditioning of the handler's divided differences: (1 + vpmax/gap) per order between eigenvalues of C that eps = 1e-14 does not merge, capped at a relative error of 1e-3; within 8 ulps(vpmax) of eps either branch is accepted",
        "the convertTo/FromSecondPiolaKirchhoffStress and convertToMaterialTangentModuli members are documented to throw in the EULERIAN setting (N = 2, 3): only that is checked there",
        "raw-pointer overloads: stresses in Voigt order [xx yy zz xy xz yz] (plain components), strains with engineering shears, tangent as a column-major Voigt matrix; compared with the object overloads only where the conversions are well conditioned",
    ]
