// C34 — glossary lookups (DESIGN.md §4.2).  c34_members.inc is generated at build time by
// checks/c34.py from include/TFEL/Glossary/Glossary.hxx: one line  M(<member>)  per static member.
#define VFH_MAIN
#include "vfh.hxx"
#include <algorithm>
#include <cerrno>
#include <map>
#include <set>
#include "TFEL/Glossary/Glossary.hxx"
#include "TFEL/Glossary/GlossaryEntry.hxx"

using namespace tfel::glossary;
using S = std::string;
static vf::Reporter R;

struct Member { const char* name; const GlossaryEntry* e; };
static const Member MEMBERS[] = {
#define M(X) {#X, &Glossary::X},
#include "c34_members.inc"
#undef M
};

static bool parse_number(const S& s, double& v) {
  if (s.empty() || std::isspace(static_cast<unsigned char>(s[0]))) return false;
  errno = 0;
  char* e = nullptr;
  v = std::strtod(s.c_str(), &e);
  return e == s.c_str() + s.size() && std::isfinite(v);
}
static bool same_entry(const GlossaryEntry& a, const GlossaryEntry& b) {
  return a.getKey() == b.getKey() && a.getNames() == b.getNames() && a.getUnits() == b.getUnits() &&
         a.getType() == b.getType() && a.getShortDescription() == b.getShortDescription() &&
         a.getDescription() == b.getDescription() && a.getNotes() == b.getNotes();
}

int main(int argc, char** argv) {
  vf::Args a(argc, argv);
  const auto& g = Glossary::getGlossary();
  const auto& keys = g.getKeys();
  // every string that names an entry, with the keys of the entries that carry it (built from the
  // public accessors only, never through the lookup under test)
  std::map<S, std::vector<S>> owners;
  std::set<S> systems = {"SI"};
  const S mode = a.get("--mode", "exhaustive");
  uint64_t idx = 0;
  for (const auto& k : keys) {
    vf::set_case("getGlossaryEntry", "key", idx);
    const GlossaryEntry* e = nullptr;
    try { e = &g.getGlossaryEntry(k); } catch (std::exception&) {}
    if (e == nullptr) continue;  // judged below
    owners[e->getKey()].push_back(k);
    for (const auto& n : e->getNames()) if (n != e->getKey()) owners[n].push_back(k);
    for (const auto& u : e->getUnits()) systems.insert(u.first);
  }
  if (mode == "exhaustive") {
    // duplicates in the key list itself
    {
      std::set<S> seen;
      for (const auto& k : keys) {
        R.expect("getKeys", "unique", idx, vf::hash_bytes(k.data(), k.size()), seen.insert(k).second,
                 [&] { return vf::J().s("key", k).str(); }, "key listed twice");
        ++idx;
      }
    }
    for (const auto& k : keys) {
      const uint64_t h = vf::hash_bytes(k.data(), k.size());
      vf::set_case("contains", "key", idx);
      R.expect("contains", "key", idx, h, g.contains(k), [&] { return vf::J().s("key", k).str(); });
      bool ok = false; S got;
      try { const auto& e = g.getGlossaryEntry(k); got = e.getKey(); ok = (got == k); } catch (std::exception& ex) { got = S("exception: ") + ex.what(); }
      R.expect("getGlossaryEntry", "key", idx, h, ok, [&] { return vf::J().s("key", k).s("got", got).str(); }, "getGlossaryEntry(k).getKey() != k");
      ++idx;
    }
    // every key / alternative name names exactly one entry and the lookup returns that entry
    for (const auto& o : owners) {
      const S& n = o.first;
      const uint64_t h = vf::hash_bytes(n.data(), n.size());
      S own;
      for (const auto& k : o.second) own += k + " ";
      R.expect("names", "exactly-one-entry", idx, h, o.second.size() == 1u,
               [&] { return vf::J().s("name", n).s("entries", own).str(); }, "name or key carried by several entries");
      vf::set_case("contains", "name", idx);
      R.expect("contains", "name", idx, h, g.contains(n), [&] { return vf::J().s("name", n).str(); });
      bool ok = false; S got;
      try {
        const auto& e = g.getGlossaryEntry(n);
        got = e.getKey();
        ok = std::find(o.second.begin(), o.second.end(), got) != o.second.end();
      } catch (std::exception& ex) { got = S("exception: ") + ex.what(); }
      R.expect("getGlossaryEntry", "name", idx, h, ok, [&] { return vf::J().s("name", n).s("got", got).s("entries", own).str(); });
      ++idx;
    }
    // static members
    for (const auto& m : MEMBERS) {
      const S n = m.name;
      const uint64_t h = vf::hash_bytes(n.data(), n.size());
      vf::set_case("static-member", "all", idx);
      bool ok = false; S got = m.e->getKey();
      try {
        const auto& e = g.getGlossaryEntry(n);
        ok = (m.e->getKey() == n) && same_entry(e, *m.e);
      } catch (std::exception& ex) { got += S(" / exception: ") + ex.what(); }
      R.expect("static-member", "all", idx, h, ok, [&] { return vf::J().s("member", n).s("key", got).str(); },
               "Glossary::X is not the entry registered under X");
      ++idx;
    }
    // physical bounds
    for (const auto& k : keys) {
      const GlossaryEntry* e = nullptr;
      try { e = &g.getGlossaryEntry(k); } catch (std::exception&) { continue; }
      for (const auto& sys : systems) {
        const uint64_t h = vf::hash_bytes(sys.data(), sys.size(), vf::hash_bytes(k.data(), k.size()));
        vf::set_case("bounds", "all", idx);
        const bool hl = e->hasLowerPhysicalBound(sys), hu = e->hasUpperPhysicalBound(sys);
        if (!hl && !hu) { R.skip("bounds", "none"); continue; }
        S l, u; double lv = 0, uv = 0; bool ok = true; const char* why = "";
        if (hl) { l = e->getLowerPhysicalBound(sys); if (!parse_number(l, lv)) { ok = false; why = "lower bound is not a number"; } }
        if (hu) { u = e->getUpperPhysicalBound(sys); if (!parse_number(u, uv)) { ok = false; why = "upper bound is not a number"; } }
        if (ok && hl && hu && !(lv <= uv)) { ok = false; why = "lower bound > upper bound"; }
        R.expect("bounds", hl && hu ? "both" : (hl ? "lower" : "upper"), idx, h, ok,
                 [&] { return vf::J().s("key", k).s("system", sys).s("lower", l).s("upper", u).str(); }, why);
        ++idx;
      }
    }
  } else {
    // random non-entry strings: pure noise and near misses of real names
    std::vector<S> all;
    for (const auto& o : owners) all.push_back(o.first);
    static const S AL = "abcdefghijklmnopqrstuvwxyzABCDEFGHIJKLMNOPQRSTUVWXYZ0123456789_ ()>.%/-";
    for (long i = 0; i < a.cases; ++i) {
      const uint64_t id = a.only >= 0 ? uint64_t(a.only) : a.gidx(i);
      vf::Rng r(a.seed, 3401, id);
      S s; const char* st;
      const int kind = int(id % 4);
      if (kind == 0 || all.empty()) {
        st = "noise";
        const int n = r.irange(0, 24);
        for (int k = 0; k < n; ++k) s += AL[r.u64() % AL.size()];
      } else {
        st = "near-miss";
        s = r.pick(all);
        switch (r.irange(0, 6)) {
          case 0: s[r.u64() % s.size()] ^= 0x20; break;                         // change case
          case 1: s.erase(r.u64() % s.size(), 1); break;                         // drop a character
          case 2: s.insert(r.u64() % (s.size() + 1), 1, AL[r.u64() % AL.size()]); break;
          case 3: s += ' '; break;
          case 4: s = " " + s; break;
          case 5: s = s.substr(0, 1 + r.u64() % s.size()); break;               // prefix
          default: { const S& t = r.pick(all); s += t; }                         // concatenation of two names
        }
      }
      if (owners.count(s)) { R.skip("contains", "is-an-entry"); if (a.only >= 0) break; continue; }
      vf::set_case("contains", st, id);
      const uint64_t h = vf::hash_bytes(s.data(), s.size());
      R.expect("contains", st, id, h, !g.contains(s), [&] { return vf::J().s("s", s).str(); }, "non-entry string accepted");
      bool threw = false;
      try { (void)g.getGlossaryEntry(s).getKey(); } catch (std::exception&) { threw = true; }
      R.expect("getGlossaryEntry", st, id, h, threw, [&] { return vf::J().s("s", s).str(); }, "non-entry string resolved");
      if (a.only >= 0) break;
    }
  }
  R.finish();
  return 0;
}
