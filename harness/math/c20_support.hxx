// c20_support.hxx — fixed part of the generated C20 programs (DESIGN.md §4.1 C20).
// The programs themselves (SSA form: one statement per sub-expression) are emitted by
// lib/qtgen.py together with the unit of every sub-expression computed by the generator's own
// exponent-vector algebra (python Fractions).  Here: the machinery that turns the static type of
// a value into a canonical exponent pack, so that the generated
//     VFQ_TYPE(t3, double, 1,1,-1,0,0,0,0, 2,2,1,1,1,1,1);
// is  static_assert(std::is_same_v<unit of decltype(t3), vfq::U<1,1,-1,...>>).
// A raw arithmetic value counts as dimensionless (all exponents 0/1): the library itself makes
// qt<NoUnit,T> and T interchangeable.
#ifndef VERIF_C20_SUPPORT_HXX
#define VERIF_C20_SUPPORT_HXX
#include <cstring>
#include <type_traits>
#include "TFEL/Math/qt.hxx"

namespace vfq {

template <int N1, int N2, int N3, int N4, int N5, int N6, int N7, int D1, int D2, int D3, int D4, int D5, int D6, int D7>
struct U {};

template <typename X, bool is_arith = std::is_arithmetic_v<X>>
struct unit_of;

template <typename X>
struct unit_of<X, true> {
  using type = U<0, 0, 0, 0, 0, 0, 0, 1, 1, 1, 1, 1, 1, 1>;
  using base = X;
};

template <typename Q>
struct unit_of<Q, false> {
  using unit = typename tfel::math::QuantityTraits<Q>::UnitType;
  static constexpr auto e = tfel::math::unit::get_unit_exponents(unit{});
  using type = U<e.exponents[0].numerator, e.exponents[1].numerator, e.exponents[2].numerator, e.exponents[3].numerator,
                 e.exponents[4].numerator, e.exponents[5].numerator, e.exponents[6].numerator,
                 int(e.exponents[0].denominator), int(e.exponents[1].denominator), int(e.exponents[2].denominator),
                 int(e.exponents[3].denominator), int(e.exponents[4].denominator), int(e.exponents[5].denominator),
                 int(e.exponents[6].denominator)>;
  using base = typename tfel::math::QuantityTraits<Q>::ValueType;
};

template <typename X>
using unit_of_t = typename unit_of<std::remove_cv_t<std::remove_reference_t<X>>>::type;
template <typename X>
using base_of_t = typename unit_of<std::remove_cv_t<std::remove_reference_t<X>>>::base;

// value of a quantity / raw number / bool as its base type, without going through the unit system
template <typename X>
constexpr auto raw(const X& x) {
  if constexpr (std::is_arithmetic_v<X>) {
    return x;
  } else {
    return x.getValue();
  }
}

template <typename T>
inline bool same_bits(T a, T b) {
  constexpr int n = std::is_same_v<T, long double> ? 10 : int(sizeof(T));
  return std::memcmp(&a, &b, n) == 0;
}

}  // namespace vfq

#define VFQ_TYPE(x, T, ...)                                                                                   \
  static_assert(std::is_same_v<vfq::unit_of_t<decltype(x)>, vfq::U<__VA_ARGS__>>, "VFQ_UNIT " #x);             \
  static_assert(std::is_same_v<vfq::base_of_t<decltype(x)>, T>, "VFQ_BASE " #x)

#endif
