"""C07 — dense linear solvers: true solutions or a report."""
import vfcore

META = {
    "engine": "math", "level": "exploration", "design_ref": "DESIGN.md §4.1 C07",
    "technique": "ASan+UBSan harnesses on LUSolve/LUDecomp/QRDecomp (matrix, tmatrix) and TinyMatrixSolve/TinyMatrixInvert N=1..12; "
                 "residual judged against K·eps·kappa_F·|A||x| with kappa from an independent long-double full-pivot Gauss-Jordan; "
                 "exactly singular systems with exact elimination must be reported",
    "text": "For float/double/long double and sizes 1..12 the harness builds well-conditioned, graded-SVD (kappa up to 1e12), "
            "zero/small leading pivot, 0.1-threshold, permutation, triangular, globally and row-scaled and unimodular matrices, three "
            "right-hand sides each (nonsingular matrices with kappa_F >= 500 are filed under the stratum 'illcond' whatever their generator), and runs LUSolve::exe (2- and 4-argument, matrix and tmatrix), LUSolve::back_substitute on the kept "
            "factorisation, LUDecomp<true|false>+back substitution, QRDecomp exe+tq_product+back_substitute, TinyMatrixSolve exe "
            "(vector and matrix right-hand sides, exceptions on/off, closed forms N=1,2,3 named separately), decomp+back_substitute, "
            "TinyMatrixInvert. Success requires ||Ax-b|| <= (1600+40n)·eps·kappa_F·||A||_F·||x|| (cases with kappa·eps>1e-2 skipped and "
            "counted); a well-conditioned system must not be reported singular. Exactly singular families on which elimination is exact "
            "in floating point for every pivot order (zero row, zero column, zero matrix, duplicated row of a totally unimodular interval "
            "matrix, power-of-two rank-one, digraph incidence matrices, all with power-of-two scalings) must be reported by exception or "
            "false. Held on the cases executed.",
    "note": "Trusted: the long-double full-pivot Gauss-Jordan reference (its own detection of an exact zero pivot gates the 'must "
            "report' verdict), total unimodularity of interval/incidence matrices, g++ and the sanitizer runtimes. For QR only zero "
            "column / zero matrix are exactly detectable and judged.",
}

NONSING = ["wellcond", "graded", "pivot-zero", "pivot-threshold", "permutation", "triangular", "scaled", "rowscaled", "unimodular",
           "illcond"]  # illcond = any generator, kappa_F >= 500 (mostly graded and rowscaled)
SING = ["sing-zero-row", "sing-zero-col", "sing-zero-matrix", "sing-dup-row", "sing-rank1-pow2", "sing-incidence"]
DYN_APIS = ["LUSolve::exe(matrix,vector)", "LUSolve::exe(matrix,vector,x,p)", "LUSolve::exe(tmatrix,tvector)",
            "LUDecomp<true>+back_substitute", "LUDecomp<false>+back_substitute", "QRDecomp::exe+tq_product+back_substitute"]
TINY_APIS = ["TinyMatrixSolve<%s,T,%s>::exe(%s)" % (n, e, r) for n in ("1", "2", "3", "N>=4") for e in ("true", "false")
             for r in ("vector", "matrix")] + \
            ["TinyMatrixSolve<N,T,%s>::decomp+back_substitute" % e for e in ("true", "false")] + ["TinyMatrixInvert<N,T>::exe"]
TYPES = {"d": 0, "f": 1, "l": 2}
# many small heap objects per case: a smaller ASan quarantine avoids spending the run in page faults
ENV = {"ASAN_OPTIONS": vfcore.SAN_ENV["ASAN_OPTIONS"] + ":quarantine_size_mb=16"}


def build(ctx):
    jobs = [("c07_dyn", "harness/math/c07_dyn.cxx", ())]
    jobs += [("c07_tiny_" + k, "harness/math/c07_tiny.cxx", ("-DC07_ONLY_TYPE=%d" % v,)) for k, v in TYPES.items()]

    def one(j):
        return j[0], vfcore.compile_cxx(j[0], [vfcore.VERIF / j[1]], "asan", flags=j[2])
    return dict(vfcore.pmap(one, jobs, workers=4))


def run(ctx):
    b = build(ctx)
    ctx.cov["rule"] = ("case = (scalar type, n in 1..12, stratum, matrix, 3 right-hand sides) drawn from (VERIF_SEED, index), inputs "
                       "rounded to the scalar type first; distinct = distinct hash of the rounded matrix per (API, stratum); non-trivial "
                       "= every case (the zero matrix is the only repeated input)")
    req = []
    for api in DYN_APIS:
        for st in NONSING:
            req.append((api, st, 10 if st in ("graded", "rowscaled") else 30))  # most of those two go to 'illcond'
        for st in SING:
            if api.startswith("QR") and st not in ("sing-zero-col", "sing-zero-matrix"):
                continue
            req.append((api, st, 30))
    ctx.run_events(b["c07_dyn"], ctx.n(60000, 1350000), require=req, env=ENV)
    req = []
    for api in TINY_APIS:
        for st in NONSING + SING:
            if st == "illcond" and "<1," in api:
                continue  # a 1x1 matrix has kappa = 1
            req.append((api, st, 10 if ("<1," in api or "<2," in api or "<3," in api or st in ("graded", "rowscaled")) else 30))
    # the three TinyMatrixSolve binaries (one scalar type each) emit the same (API, stratum) keys: fold them into ONE summary
    n = ctx.n(45000, 675000)
    shards = max(1, min(vfcore.NCPU // 3, n // 2000))
    per = (n + shards - 1) // shards
    jobs = [(k, i) for k in TYPES for i in range(shards)]

    def one(j):
        k, i = j
        cmd = [b["c07_tiny_" + k], "--seed", ctx.seed, "--cases", per, "--shard", i, "--nshards", shards, "--tier", ctx.tier]
        return j, vfcore.run(cmd, timeout=1800, cwd=ctx.work, env=ENV)
    summ = {}
    for (k, i), r in vfcore.pmap(one, jobs, workers=len(jobs)):
        ctx.fold_events(r, summ, where="c07_tiny_%s shard %d/%d" % (k, i, shards),
                        replay_base={"harness": str(b["c07_tiny_" + k]), "shard": i, "nshards": shards, "cases": per, "extra": []})
    ctx.merge_summary(summ, req)
    ctx.assumptions += [
        "entries within 1e±12 (float: 1e±6) around unit scale; beyond that the absolute thresholds 100*min of the closed-form "
        "determinants reject nonsingular systems (extreme-scale stratum of DESIGN §3, not sampled)",
        "'reported' = any exception, or false returned by the bool-returning entry points",
        "numerically singular but not exactly singular systems are never required to be reported",
    ]
