"""C42 — consistent tangent operators are derivatives of the integration (DESIGN.md §4.4)."""
import vfcore
import gbx
from checks import gb_src, c41

META = {
    "engine": "gen", "level": "exploration", "design_ref": "DESIGN.md §4.4 C42",
    "technique": "K returned with K[0]=4 compared with Richardson-extrapolated central finite differences (steps h, h/2, h/4) of the stress integrated by the same generated behaviour at perturbed total strains; points where the differences do not converge (regime switch in the stencil) skipped and counted",
    "text": "For the C41 behaviours that provide a consistent tangent operator (Default-DSL elasticity; Norton in the Implicit DSL with NewtonRaphson, NewtonRaphson_NumericalJacobian, Broyden2 (closed form), PowellDogLeg_NewtonRaphson, LevenbergMarquardt through getPartialJacobianInvert; IsotropicMisesCreep and IsotropicPlasticMisesFlow DSLs; StandardElastoViscoPlasticity brick plasticity and Norton; the reference ImplicitNorton_Broyden.mfront verbatim) and every hypothesis they support, at random states and increments in the elastic and inelastic regimes, the operator is compared component-wise with the finite-difference derivative of the integrated stress with respect to the total strain at the end of the step; the stress returned with and without the operator request must also be identical.",
    "note": "Trusted: smoothness of the integration on the stencil where the three finite-difference levels agree (|R1(h/2)-R1(h)| <= 1e-5 |K|); tolerance 50 x that estimate + 2e-6 |K| + solver-threshold noise / (h/4). In (generalised) plane stress only the block of the components that are inputs is judged (the axial row/column is recorded). Behaviours whose operator comes from a quasi-Newton jacobian approximation (Broyden, PowellDogLeg_Broyden templates) are not judged.",
}

NPTS = (25, 300)


def build(ctx):
    specs = gb_src.c42_specs(thorough=ctx.thorough, seed=ctx.seed)
    return specs, gbx.build_all(ctx, "C42", specs)


def run(ctx):
    specs, libs = build(ctx)
    ctx.cov["rule"] = ("case = (behaviour, hypothesis, random material/law constants, theta, state, increment); one case = 1 operator + "
                       "6 x (number of strain components) perturbed integrations; distinct = points where the finite differences converged")
    ctx.cov["behaviours"] = sorted(libs)
    n = ctx.n(*NPTS)
    gs = c41.groups(specs, libs)

    def one(i):
        return gbx.call_vt(ctx, "checks.gb_mon42", "run", {"group": gs[i], "seed": ctx.seed, "npts": n}, tag="c42-%d" % i)
    ok = 0
    for i, (res, r) in enumerate(vfcore.pmap(one, range(len(gs)), workers=8)):
        if gbx.fold(ctx, res, r, what="C42 worker %s" % [s["name"] for s in gs[i]]):
            ok += 1
    ctx.require(ok == len(gs), "some workers did not report")
    tab = ctx.cov.get("strata", {})
    for fam in ("VfElasticity:", "VfImplicitNorton_NR:", "VfNorton:", "VfPlasticity:", "VfBrickPlasticity:", "VfBrickNorton:"):
        ctx.require(sum(v.get("n", 0) for k, v in tab.items() if k.startswith(fam) and k.endswith(":tangent")) >= 3 * n,
                    "too few judged tangent operators for %s" % fam)
    c = ctx.cov.get("counters", {})
    for fam in ("VfPlasticity", "VfBrickPlasticity"):
        ctx.require(c.get(fam + ":inelastic-points", 0) >= n and c.get(fam + ":elastic-points", 0) >= n,
                    "%s: both regimes must be judged" % fam)
