// C09 — scalarNewtonRaphson (Newton + bisection fallback) is sound and bracket-confined (DESIGN.md §4.1 C09)
//
// Everything is decided from the *callback logs*: the function object records every (x, f, f') it is
// asked for, the criterion object every (f, dx, x, i) and its answer.  After the call the monitor checks
//   sound    : convergence claimed => returned x finite, x is a point where f was evaluated with a finite
//              value, and the last criterion call was made on (f(x), ., x, returned i) and answered true;
//   iter     : returned iteration count <= im and number of evaluations <= 3 + 2*im
//              (x0, the two bounds, and per iteration one Newton point plus at most one step-back point);
//   bracket  : with finite bounds xmin0 < xmax0 and f(xmin0) f(xmax0) < 0, every evaluation point after
//              the three initial ones lies inside the *current* bracket, which the monitor maintains itself
//              from the logged values (shrink on every finite non-zero value strictly inside);
//   bracket0 : same but only against the initial bracket when one bound is an exact root.
#define VFH_MAIN
#include "vfh.hxx"
#include <stdexcept>
#include <tuple>
#include "TFEL/Config/TFELConfig.hxx"
#include "TFEL/Math/ScalarNewtonRaphson.hxx"

using L = long double;
static vf::Reporter R;
static std::map<std::string, long> NOTES;  // non-vacuity counters, printed as "note" events

struct Runaway : std::runtime_error { Runaway() : std::runtime_error("too many evaluations") {} };

template <typename T> struct Ev { T x, f, df; };
template <typename T> struct CrEv { T f, dx, x; long long i; bool r; };

enum Kind { K_CUBIC, K_EXP, K_ATAN, K_SIN, K_POLY3, K_FLAT, K_SQUARE, K_LOG, K_SQRT, K_INV, K_SIGNSQRT, K_CONST, K_LIN, NKIND };
static const char* FAM[NKIND] = {"monotone", "monotone", "monotone", "nonmonotone", "nonmonotone", "flat", "flat",
                                 "naninf", "naninf", "naninf", "nonmonotone", "flat", "monotone"};

template <typename T>
struct Fn {
  int kind = 0;
  T a = 1, b = 0, c = 0, r = 0, r2 = 0, r3 = 0;
  // optional bad region: outside [wlo, whi] (mode 1) or inside it (mode 2) the value is `bad`
  int wmode = 0; T wlo = 0, whi = 0, bad = 0;
  int dmode = 0;  // 0 exact derivative, 1 derivative always 0, 2 derivative NaN, 3 derivative scaled by 0.3, 4 derivative +inf
  std::vector<Ev<T>>* log = nullptr;
  long cap = 1000;
  std::pair<T, T> raw(T x) const {
    using std::exp; using std::atan; using std::sin; using std::cos; using std::log; using std::sqrt; using std::fabs;
    const T u = x - r;
    switch (kind) {
      case K_CUBIC: return {a * u + b * u * u * u, a + 3 * b * u * u};
      case K_EXP: { const T e = exp(a * x); return {e - c, a * e}; }
      case K_ATAN: return {atan(a * u), a / (1 + a * a * u * u)};
      case K_SIN: return {sin(a * x) + b * x - c, a * cos(a * x) + b};
      case K_POLY3: return {a * (x - r) * (x - r2) * (x - r3), a * ((x - r2) * (x - r3) + (x - r) * (x - r3) + (x - r) * (x - r2))};
      case K_FLAT: return {a * u * u * u, 3 * a * u * u};
      case K_SQUARE: return {x * x - c, 2 * x};
      case K_LOG: return {log(x) - c, 1 / x};
      case K_SQRT: return {sqrt(x) - c, 1 / (2 * sqrt(x))};
      case K_INV: return {1 / x - c, -1 / (x * x)};
      case K_SIGNSQRT: { const T s = sqrt(fabs(u)); return {u < 0 ? -s : s, 1 / (2 * s)}; }
      case K_CONST: return {c, T(0)};
      default: return {a * u, a};
    }
  }
  std::pair<T, T> value(T x) const {
    auto v = raw(x);
    if (wmode == 1 && !(x >= wlo && x <= whi)) v.first = bad;
    if (wmode == 2 && (x >= wlo && x <= whi)) v.first = bad;
    switch (dmode) {
      case 1: v.second = 0; break;
      case 2: v.second = std::numeric_limits<T>::quiet_NaN(); break;
      case 3: v.second *= T(0.3); break;
      case 4: v.second = std::numeric_limits<T>::infinity(); break;
      default: break;
    }
    return v;
  }
  std::tuple<T, T> operator()(const T x) const {
    const auto v = value(x);
    log->push_back({x, v.first, v.second});
    if (long(log->size()) > cap) throw Runaway();
    return std::make_tuple(v.first, v.second);
  }
};

template <typename T>
struct Crit {
  int kind = 0; T tol = 0; long long k = 0;
  std::vector<CrEv<T>>* log = nullptr;
  template <typename I>
  bool operator()(const T f, const T dx, const T x, const I i) const {
    using std::fabs;
    bool r = false;
    switch (kind) {
      case 0: r = fabs(f) < tol; break;
      case 1: r = fabs(dx) < tol * (1 + fabs(x)); break;
      case 2: r = fabs(f) < tol && fabs(dx) < tol * (1 + fabs(x)); break;
      case 3: r = true; break;
      case 4: r = false; break;
      case 5: r = (static_cast<long long>(i) >= k) && fabs(f) < tol; break;
      default: r = fabs(dx) < tol; break;
    }
    log->push_back({f, dx, x, static_cast<long long>(i), r});
    return r;
  }
};

template <typename T> static bool same(T a, T b) { return std::memcmp(&a, &b, sizeof(T) == 16 ? 10 : sizeof(T)) == 0 || a == b; }
template <typename T> static int sgn(T v) { return (T(0) < v) - (v < T(0)); }

template <typename T, typename I>
static void one_case(const vf::Args& a, uint64_t idx, const char* tname, const char* iname) {
  vf::Rng g(a.seed, 900 + sizeof(T) + 64 * sizeof(I), idx);
  const T eps = std::numeric_limits<T>::epsilon();
  const T nan = std::numeric_limits<T>::quiet_NaN(), inf = std::numeric_limits<T>::infinity();
  Fn<T> f;
  f.kind = int((idx / 3) % NKIND);
  const T sc = static_cast<T>(g.coin() ? 1.0 : g.logmag(-3, 3));
  f.r = static_cast<T>(g.uni(-3, 3)) * sc;
  f.a = static_cast<T>(g.logmag(-2, 2)) * (g.coin() ? 1 : -1);
  f.b = static_cast<T>(g.logmag(-2, 2));
  T root = f.r;  // a root of the undisturbed function (used to place brackets; never used as an oracle)
  switch (f.kind) {
    case K_CUBIC: if (f.a < 0) f.b = -f.b; break;
    case K_EXP: f.a = static_cast<T>(g.logmag(-1, 1)) * (g.coin() ? 1 : -1); f.c = static_cast<T>(g.logmag(-3, 3)); root = std::log(f.c) / f.a; break;
    case K_SIN: f.a = static_cast<T>(g.uni(1, 6)); f.b = static_cast<T>(g.uni(0.05, 0.9)) * f.a * (g.coin() ? 1 : -1) * T(0.5); f.c = static_cast<T>(g.uni(-1, 1)); root = f.c / f.b; break;
    case K_POLY3: f.r2 = f.r + static_cast<T>(g.uni(0.2, 3)) * sc; f.r3 = f.r2 + static_cast<T>(g.uni(0.2, 3)) * sc; root = g.coin() ? f.r : (g.coin() ? f.r2 : f.r3); break;
    case K_SQUARE: f.c = static_cast<T>(g.logmag(-3, 3)); root = std::sqrt(f.c) * (g.coin() ? 1 : -1); break;
    case K_LOG: f.c = static_cast<T>(g.uni(-5, 5)); root = std::exp(f.c); break;
    case K_SQRT: f.c = static_cast<T>(g.logmag(-2, 2)); root = f.c * f.c; break;
    case K_INV: f.c = static_cast<T>(g.logmag(-2, 2)) * (g.coin() ? 1 : -1); root = 1 / f.c; break;
    case K_CONST: f.c = static_cast<T>(g.logmag(-3, 3)) * (g.coin() ? 1 : -1); break;
    default: break;
  }
  const T width = std::max(std::fabs(root), sc) * static_cast<T>(g.logmag(-2, 1.5));
  // disturbances
  const int wsel = g.irange(0, 9);
  if (wsel == 0) { f.wmode = 1; f.wlo = root - width * static_cast<T>(g.uni(0.5, 20)); f.whi = root + width * static_cast<T>(g.uni(0.5, 20)); }
  if (wsel == 1) { f.wmode = 2; f.wlo = root + width * static_cast<T>(g.uni(0.05, 2)); f.whi = f.wlo + width * static_cast<T>(g.uni(0.01, 2)); }
  if (wsel == 2) { f.wmode = 2; f.whi = root - width * static_cast<T>(g.uni(0.05, 2)); f.wlo = f.whi - width * static_cast<T>(g.uni(0.01, 2)); }
  { const int bsel = g.irange(0, 3); f.bad = bsel == 0 ? nan : (bsel == 1 ? inf : (bsel == 2 ? -inf : nan)); }
  { const int dsel = g.irange(0, 19); f.dmode = dsel < 4 ? dsel + 1 : 0; if (f.dmode == 3 && g.coin()) f.dmode = 0; }
  // criterion
  Crit<T> c;
  c.kind = g.irange(0, 6);
  c.tol = static_cast<T>(std::max<double>(g.logmag(-14, -1), double(eps) * 16));
  c.k = g.irange(0, 6);
  // parameters
  tfel::math::ScalarNewtonRaphsonParameters<T, I> p;
  const int imsel = g.irange(0, 9);
  p.im = static_cast<I>(imsel < 3 ? g.irange(0, 5) : g.irange(6, 100));
  // bracket
  const int bk = g.irange(0, 9);
  T lo = nan, hi = nan;
  if (bk <= 5) {  // two-sided around the root
    lo = root - width * static_cast<T>(g.uni(0.01, 3)); hi = root + width * static_cast<T>(g.uni(0.01, 3));
    if (bk == 4) { if (g.coin()) lo = root; else hi = root; }                   // root at a bracket end
    if (bk == 5) { const T s = width * static_cast<T>(g.uni(3.5, 10)); lo += s; hi += s; }  // probably not sign changing
  } else if (bk == 6) { lo = root - width; } else if (bk == 7) { hi = root + width; }
  else if (bk == 8) { lo = -inf; hi = g.coin() ? inf : root + width; }
  p.xmin0 = lo; p.xmax0 = hi;
  // initial guess
  const int xs = g.irange(0, 9);
  if (xs <= 3 && std::isfinite(lo) && std::isfinite(hi)) p.x0 = lo + (hi - lo) * static_cast<T>(g.u01());
  else if (xs <= 5) p.x0 = root + width * static_cast<T>(g.uni(-1, 1));
  else if (xs == 6) p.x0 = root + width * static_cast<T>(g.uni(-100, 100));
  else if (xs == 7) p.x0 = T(0);
  else if (xs == 8) p.x0 = root;
  else p.x0 = static_cast<T>(g.sign() * g.logmag(0, 8)) * std::max(width, T(1));
  if (f.kind == K_SQUARE && g.coin()) p.x0 = T(0);  // f' = 0 at the first iterate
  const bool short_call = !std::isfinite(lo) && !std::isfinite(hi) && std::isnan(lo) && std::isnan(hi) && g.coin();

  std::vector<Ev<T>> flog; std::vector<CrEv<T>> clog;
  f.log = &flog; c.log = &clog;
  const long long im = static_cast<long long>(p.im);
  f.cap = 3 + 2 * im + 40;
  // classification of the bracket from the actual values (no logging)
  const char* bname = "nobracket";
  bool two = std::isfinite(lo) && std::isfinite(hi) && lo < hi;
  T flo0 = nan, fhi0 = nan;
  if (two) {
    flo0 = f.value(lo).first; fhi0 = f.value(hi).first;
    if (!std::isfinite(flo0) || !std::isfinite(fhi0)) bname = "nonfinite-bound";
    else if (sgn(flo0) * sgn(fhi0) < 0) bname = "valid";
    else if (sgn(flo0) != sgn(fhi0)) bname = "endroot";
    else bname = "samesign";
  } else if (std::isfinite(lo) || std::isfinite(hi)) bname = "onesided";
  else if (std::isinf(lo) || std::isinf(hi)) bname = "infinite-bound";
  char S[64]; std::snprintf(S, sizeof S, "%s/%s", FAM[f.kind], bname);
  const double hv[12] = {double(f.kind), double(f.a), double(f.b), double(f.c), double(f.r), double(f.r2), double(p.x0),
                         std::isnan(lo) ? -1e308 : double(lo), std::isnan(hi) ? 1e308 : double(hi), double(im), double(c.kind), double(f.wmode * 8 + f.dmode)};
  const uint64_t h = vf::hash_arr(hv, 12);
  T mon_lo = nan, mon_hi = nan;  // the monitor's own bracket when an evaluation left it

  bool conv = false; T xr = nan; long long ir = -1; bool runaway = false;
  vf::set_case("scalarNewtonRaphson", S, idx);
  try {
    if (short_call) { auto r = tfel::math::scalarNewtonRaphson(f, c, p.x0, p.im); conv = std::get<0>(r); xr = std::get<1>(r); ir = static_cast<long long>(std::get<2>(r)); }
    else { auto r = tfel::math::scalarNewtonRaphson(f, c, p); conv = std::get<0>(r); xr = std::get<1>(r); ir = static_cast<long long>(std::get<2>(r)); }
  } catch (const Runaway&) { runaway = true; }

  auto dump = [&] {
    vf::J j;
    j.s("T", tname).s("I", iname).i("kind", f.kind).f("a", f.a).f("b", f.b).f("c", f.c).f("r", f.r).f("r2", f.r2).f("r3", f.r3)
        .i("wmode", f.wmode).f("wlo", f.wlo).f("whi", f.whi).d("bad", f.bad).i("dmode", f.dmode)
        .i("crit", c.kind).f("tol", c.tol).i("k", c.k).f("x0", p.x0).f("xmin0", lo).f("xmax0", hi).i("im", im).i("short", short_call)
        .i("converged", conv).d("x", xr).i("iter", ir).i("evals", (long long)flog.size()).i("runaway", runaway);
    std::vector<L> xs, fs;
    for (size_t k = 0; k < flog.size() && k < 24; ++k) { xs.push_back(flog[k].x); fs.push_back(flog[k].f); }
    j.darr("log_x", xs.begin(), xs.end()).darr("log_f", fs.begin(), fs.end()).f("monitor_lo", mon_lo).f("monitor_hi", mon_hi);
    return j.str();
  };
  // ---- iter
  {
    const bool ok = !runaway && ir >= 0 && ir <= im && (long long)flog.size() <= 3 + 2 * im;
    R.expect("scalarNewtonRaphson/iter", S, idx, h, ok, dump, "iteration count <= im and evaluations <= 3+2*im");
  }
  if (runaway) return;
  // ---- sound
  {
    bool ok = true; const char* why = "";
    if (conv) {
      if (!std::isfinite(xr)) { ok = false; why = "converged with non-finite x"; }
      else {
        long at = -1;
        for (long k = long(flog.size()) - 1; k >= 0; --k) if (same(flog[k].x, xr)) { at = k; break; }
        if (at < 0) { ok = false; why = "converged at a point where f was never evaluated"; }
        else if (!std::isfinite(flog[at].f)) { ok = false; why = "converged with non-finite f(x)"; }
        else if (clog.empty() || !clog.back().r) { ok = false; why = "converged although the last criterion call answered false (or none was made)"; }
        else if (!same(clog.back().x, xr) || !same(clog.back().f, flog[at].f)) { ok = false; why = "criterion was not evaluated on (f(x), x) of the returned x"; }
        else if (clog.back().i != ir) { ok = false; why = "criterion iteration argument differs from the returned count"; }
      }
    }
    R.expect("scalarNewtonRaphson/sound", S, idx, h, ok, dump, why);
    NOTES[std::string(conv ? "converged:" : "not-converged:") + S]++;
  }
  // ---- bracket
  if (two && (std::strcmp(bname, "valid") == 0 || std::strcmp(bname, "endroot") == 0) && !short_call && im > 0) {
    const bool valid = std::strcmp(bname, "valid") == 0;
    const char* api = valid ? "scalarNewtonRaphson/bracket" : "scalarNewtonRaphson/bracket0";
    // the three initial evaluations: x0, xmin0, xmax0
    if (flog.size() < 3 || !same(flog[0].x, p.x0) || !same(flog[1].x, lo) || !same(flog[2].x, hi)) {
      R.expect(api, S, idx, h, false, dump, "the bounds were not evaluated after x0");
    } else {
      T blo = lo, bhi = hi, bflo = flog[1].f, bfhi = flog[2].f;
      auto fold = [&](const Ev<T>& e) {
        if (!valid) return;
        if (!std::isfinite(e.x) || !std::isfinite(e.f) || e.f == 0) return;
        if (!(e.x > blo && e.x < bhi)) return;
        if (sgn(e.f) == sgn(bflo)) { blo = e.x; bflo = e.f; } else { bhi = e.x; bfhi = e.f; }
      };
      fold(flog[0]);
      bool ok = true; L worst = 0;
      for (size_t k = 3; k < flog.size(); ++k) {
        const T x = flog[k].x;
        if (!(x >= blo && x <= bhi)) {
          ok = false;
          worst = std::isfinite(x) ? std::max<L>(L(blo) - L(x), L(x) - L(bhi)) : INFINITY;
          break;
        }
        fold(flog[k]);
      }
      (void)bfhi;
      mon_lo = blo; mon_hi = bhi;
      R.check(api, S, idx, h, ok ? 0 : std::max<L>(worst, 1), 0.5L, dump, "an evaluation point left the current sign-changing bracket");
    }
  }
}

int main(int argc, char** argv) {
  vf::Args a(argc, argv);
  for (long i = 0; i < a.cases; ++i) {
    const uint64_t idx = a.only >= 0 ? uint64_t(a.only) : a.gidx(i);
    switch (idx % 3) {
      case 0: if ((idx / (3 * NKIND)) & 1) one_case<double, unsigned short>(a, idx, "double", "ushort"); else one_case<double, int>(a, idx, "double", "int"); break;
      case 1: one_case<float, int>(a, idx, "float", "int"); break;
      default: one_case<long double, unsigned short>(a, idx, "ldouble", "ushort");
    }
    if (a.only >= 0) break;
  }
  R.finish();
  for (const auto& kv : NOTES) std::printf("@@VF {\"ev\":\"note\",\"what\":\"%s\",\"n\":%ld}\n", kv.first.c_str(), kv.second);
  return 0;
}
