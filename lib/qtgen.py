"""qtgen — generator of the C20 quantity programs (DESIGN.md §4.1 C20).

A program is a straight-line (SSA) C++ function over `qt<Unit,T>` values: one statement per
sub-expression, so that (i) the static type of every sub-expression can be checked against the
unit computed HERE, with an exponent-vector algebra on python Fractions that shares nothing with
TFEL/Math/Quantity/Unit.hxx, (ii) the value of every sub-expression can be compared bitwise with
the same statement on the underlying floating-point values, (iii) the compiler's diagnostic of an
ill-dimensioned program can be located on the offending line.

Every program comes as a pair:
  * the *twin*: well-dimensioned;
  * the *negative*: identical text except the declared unit of ONE fresh operand (or destination),
    which makes exactly one `+ - < <= > >= == != = += -= *= /=` (or an initialisation / conversion)
    an operation between different units.
Units: the 7 SI base dimensions with integer powers -3..3 on the leaves, rational powers through
power<N,D>.  Spelling of the unit types: the named aliases of the documentation (unit::Mass,
unit::Stress, ...) or the documented `quantity<T, N1..N7 [, D1..D7]>` alias, i.e. always the
canonical type the library itself produces.
"""
import random
from fractions import Fraction as F

ZERO = (F(0),) * 7


def U(*e):
    e = list(e) + [0] * (7 - len(e))
    return tuple(F(x) for x in e)


# the SI definitions of the aliases declared in TFEL/Math/Forward/Unit.hxx (kg, m, s, A, K, cd, mol)
NAMED = {
    "NoUnit": U(), "Mass": U(1), "Length": U(0, 1), "Time": U(0, 0, 1), "Ampere": U(0, 0, 0, 1),
    "Temperature": U(0, 0, 0, 0, 1), "Kelvin": U(0, 0, 0, 0, 1), "Candela": U(0, 0, 0, 0, 0, 1), "Mole": U(0, 0, 0, 0, 0, 0, 1),
    "InvLength": U(0, -1), "InvTemperature": U(0, 0, 0, 0, -1), "Frequency": U(0, 0, -1), "Speed": U(0, 1, -1),
    "Acceleration": U(0, 1, -2), "Momentum": U(1, 1, -1), "Force": U(1, 1, -2), "Newton": U(1, 1, -2),
    "Stress": U(1, -1, -2), "Pressure": U(1, -1, -2), "EnergyDensity": U(1, -1, -2), "StressRate": U(1, -1, -3),
    "Energy": U(1, 2, -2), "Density": U(1, -3), "TemperatureGradient": U(0, -1, 0, 0, 1),
    "ThermalConductivity": U(1, 1, -3, 0, -1), "HeatFluxDensity": U(1, 0, -3),
}
BY_UNIT = {}
for _n, _u in NAMED.items():
    BY_UNIT.setdefault(_u, []).append(_n)

ORDER = {"float": 0, "double": 1, "long double": 2}


def promote(a, b):
    if a == "int":
        return b
    if b == "int":
        return a
    return a if ORDER[a] >= ORDER[b] else b


def umul(a, b):
    return tuple(x + y for x, y in zip(a, b))


def udiv(a, b):
    return tuple(x - y for x, y in zip(a, b))


def upow(a, n, d):
    return tuple(x * F(n, d) for x in a)


def small(u):
    return all(abs(x.numerator) <= 12 and x.denominator <= 12 for x in u)


def exps(u):
    return ", ".join([str(x.numerator) for x in u] + [str(x.denominator) for x in u])


def type_text(u, base, rng):
    names = BY_UNIT.get(u)
    if names and rng.random() < 0.55:
        return "qt<unit::%s, %s>" % (rng.choice(names), base)
    if all(x.denominator == 1 for x in u):
        return "quantity<%s, %s>" % (base, ", ".join(str(x.numerator) for x in u))
    return "quantity<%s, %s>" % (base, exps(u))


def rand_unit(rng, allow_zero=False):
    while True:
        k = rng.choice([1, 1, 2, 2, 3])
        u = [F(0)] * 7
        for j in rng.sample(range(7), k):
            u[j] = F(rng.choice([-3, -2, -1, -1, 1, 1, 2, 3]))
        if rng.random() < 0.35:
            u = list(rng.choice(list(NAMED.values())))
        u = tuple(u)
        if u != ZERO or allow_zero:
            return u


def wrong_unit(rng, u, nonzero=True):
    """a unit different from u (a neighbour: one exponent moved; or an unrelated one)"""
    for _ in range(50):
        r = rng.random()
        if r < 0.6:
            w = list(u)
            j = rng.randrange(7)
            w[j] = w[j] + rng.choice([F(1), F(-1), F(2), F(-2), F(1, 2), F(-1, 2)])
            w = tuple(w)
        elif r < 0.75 and u != ZERO:
            w = tuple(-x for x in u)
        elif r < 0.85:
            j, k = rng.sample(range(7), 2)
            w = list(u)
            w[j], w[k] = w[k], w[j]
            w = tuple(w)
        else:
            w = rand_unit(rng, allow_zero=not nonzero)
        if w != u and small(w) and (w != ZERO or not nonzero):
            return w
    return umul(u, U(0, 0, 0, 1))


class Val:
    def __init__(self, q, r, unit, base, kind="q"):
        self.q, self.r, self.unit, self.base, self.kind = q, r, unit, base, kind


class Line:
    """one source line of both renderings; chk = VFQ_TYPE line(s) following it; cap = value captured"""

    def __init__(self, q, r=None, chk=None, cap=None, op=None, site=False):
        self.q, self.r, self.chk, self.cap, self.op, self.site = q, r, chk, cap, op, site


SITE_KINDS = [("add", 5), ("sub", 4), ("cmp", 6), ("init", 4), ("assign", 3), ("+=", 3), ("-=", 3), ("*=q", 1), ("/=q", 1),
              ("add-raw", 2), ("cmp-raw", 2), ("assign-raw", 1), ("+=raw", 1), ("to-raw", 1)]


def choose(rng, weighted):
    tot = sum(w for _, w in weighted)
    x = rng.random() * tot
    for v, w in weighted:
        x -= w
        if x <= 0:
            return v
    return weighted[-1][0]


class Gen:
    def __init__(self, pid, rng):
        self.pid, self.rng = pid, rng
        self.B = choose(rng, [("double", 6), ("float", 2), ("long double", 2)])
        lows = [b for b in ORDER if ORDER[b] < ORDER[self.B]]
        self.BL = rng.choice(lows) if lows and rng.random() < 0.3 else None
        self.nv = 0
        self.nn = 0
        self.lines = []
        self.pool = []
        self.muts = []
        self.site = None       # dict(kind, line index, right text, wrong text)

    def nm(self, p):
        self.nn += 1
        return "%s%d" % (p, self.nn)

    def base(self):
        return self.BL if self.BL and self.rng.random() < 0.3 else self.B

    def value_slot(self):
        k = self.nv
        self.nv += 1
        return k

    # ---- leaves
    def leaf(self, unit, base=None, site_wrong=None, mutable=False, add=True):
        """declares a quantity leaf; site_wrong: the (wrong) unit used instead in the negative program"""
        base = base or self.base()
        k = self.value_slot()
        q, r = self.nm("q"), self.nm("r")
        self.lines.append(Line("const %s %s = static_cast<%s>(v[%d]);" % (base, r, base, k)))
        cst = "" if mutable else "const "
        right = "%s%s %s(%s);" % (cst, type_text(unit, base, self.rng), q, r)
        ln = Line(right, chk="VFQ_TYPE(%s, %s, %s);" % (q, base, exps(unit)))
        if site_wrong is not None:
            ln.wrong = "%s%s %s(%s);" % (cst, type_text(site_wrong, base, self.rng), q, r)
            ln.wrong_chk = "VFQ_TYPE(%s, %s, %s);" % (q, base, exps(site_wrong))
        self.lines.append(ln)
        v = Val(q, r, unit, base)
        if mutable:
            # raw twin of a mutable quantity
            n = self.nm("n")
            self.lines.append(Line(None, "%s %s = %s;" % (base, n, r)))
            v.r = n
        if add:
            self.pool.append(v)
        return v

    def scalar(self):
        """raw scalar operand: (text, base) — a named T value or an int literal"""
        if self.rng.random() < 0.3:
            return str(self.rng.choice([2, 3, 4, 5, 7])), "int"
        base = self.base()
        k = self.value_slot()
        x = self.nm("x")
        self.lines.append(Line("const %s %s = static_cast<%s>(v[%d]);" % (base, x, base, k)))
        return x, base

    def pick(self):
        return self.rng.choice(self.pool)

    def emit(self, qtxt, rtxt, unit, base, op, site=False, kind="q"):
        """const auto tK = <expr>;  registers the value"""
        if kind == "bool":
            t, u = self.nm("b"), self.nm("c")
            self.lines.append(Line("const bool %s = %s;" % (t, qtxt), "const bool %s = %s;" % (u, rtxt), cap=(t, u), op=op, site=site))
            return None
        t, u = self.nm("t"), self.nm("u")
        self.lines.append(Line("const auto %s = %s;" % (t, qtxt), "const auto %s = %s;" % (u, rtxt),
                               chk="VFQ_TYPE(%s, %s, %s);" % (t, base, exps(unit)), cap=(t, u), op=op, site=site))
        v = Val(t, u, unit, base)
        self.pool.append(v)
        return v

    # ---- ordinary (always legal) statements
    def step(self):
        rng = self.rng
        k = choose(rng, [("mul", 5), ("div", 5), ("smul", 2), ("sdiv", 2), ("rdiv", 1), ("neg", 1), ("pow", 4), ("add", 3),
                         ("cmp", 1), ("mut", 2)])
        a = self.pick()
        if k in ("mul", "div"):
            b = self.pick() if rng.random() < 0.6 else self.leaf(rand_unit(rng, allow_zero=rng.random() < 0.1))
            u = umul(a.unit, b.unit) if k == "mul" else udiv(a.unit, b.unit)
            if not small(u):
                return
            o = "*" if k == "mul" else "/"
            self.emit("%s %s %s" % (a.q, o, b.q), "%s %s %s" % (a.r, o, b.r), u, promote(a.base, b.base), k)
        elif k == "smul":
            x, xb = self.scalar()
            if rng.random() < 0.5:
                self.emit("%s * %s" % (x, a.q), "%s * %s" % (x, a.r), a.unit, promote(a.base, xb), "scalar*q")
            else:
                self.emit("%s * %s" % (a.q, x), "%s * %s" % (a.r, x), a.unit, promote(a.base, xb), "q*scalar")
        elif k == "sdiv":
            x, xb = self.scalar()
            self.emit("%s / %s" % (a.q, x), "%s / %s" % (a.r, x), a.unit, promote(a.base, xb), "q/scalar")
        elif k == "rdiv":
            x, xb = self.scalar()
            if xb == "int":
                return   # int / q: integer literal as numerator is promoted like any scalar, but keep T numerators only
            self.emit("%s / %s" % (x, a.q), "%s / %s" % (x, a.r), udiv(ZERO, a.unit), promote(a.base, xb), "scalar/q")
        elif k == "neg":
            self.emit("-%s" % a.q, "-%s" % a.r, a.unit, a.base, "neg")
        elif k == "pow":
            n = rng.choice([-3, -2, -1, 2, 3, 1, 4])
            d = rng.choice([1, 1, 2, 2, 3, 4])
            u = upow(a.unit, n, d)
            if not small(u):
                return
            if d == 1 and rng.random() < 0.7:
                f = "power<%d>" % n
            else:
                f = "power<%d, %d>" % (n, d)
            self.emit("%s(%s)" % (f, a.q), "%s(%s)" % (f, a.r), u, a.base, "power<N,D>" if d != 1 else "power<N>")
        elif k == "add":
            same = [b for b in self.pool if b.unit == a.unit and b is not a]
            b = rng.choice(same) if same and rng.random() < 0.5 else self.leaf(a.unit)
            o = rng.choice("+-")
            self.emit("%s %s %s" % (a.q, o, b.q), "%s %s %s" % (a.r, o, b.r), a.unit, promote(a.base, b.base), "add" if o == "+" else "sub")
        elif k == "cmp":
            same = [b for b in self.pool if b.unit == a.unit and b is not a]
            b = rng.choice(same) if same and rng.random() < 0.5 else self.leaf(a.unit)
            o = rng.choice(["<", "<=", ">", ">=", "==", "!="])
            self.emit("%s %s %s" % (a.q, o, b.q), "%s %s %s" % (a.r, o, b.r), None, None, "cmp", kind="bool")
        elif k == "mut":
            self.mutable_ops(a)

    def new_mutable(self, a):
        """qt<unit(a),B> mK = a;  (declared with the largest base so that every promotion is accepted)"""
        m, n = self.nm("m"), self.nm("n")
        form = self.rng.choice(["%s %s = %s;", "%s %s(%s);", "%s %s{%s};"])
        self.lines.append(Line(form % (type_text(a.unit, self.B, self.rng), m, a.q), "%s %s = %s;" % (self.B, n, a.r),
                               chk="VFQ_TYPE(%s, %s, %s);" % (m, self.B, exps(a.unit)), cap=(m, n), op="init"))
        v = Val(m, n, a.unit, self.B, kind="m")
        self.muts.append(v)
        return v

    def mutable_ops(self, a):
        rng = self.rng
        m = self.new_mutable(a)
        for _ in range(rng.randint(1, 3)):
            k = rng.choice(["+=", "-=", "=", "*=", "/="])
            if k in ("+=", "-=", "="):
                same = [b for b in self.pool if b.unit == m.unit]
                b = rng.choice(same) if same and rng.random() < 0.6 else self.leaf(m.unit)
                self.lines.append(Line("%s %s %s;" % (m.q, k, b.q), "%s %s %s;" % (m.r, k, b.r), cap=(m.q, m.r), op="q" + k + "q"))
            else:
                x, xb = self.scalar()
                self.lines.append(Line("%s %s %s;" % (m.q, k, x), "%s %s %s;" % (m.r, k, x), cap=(m.q, m.r), op="q" + k + "scalar"))

    # ---- the site: the one unit-constrained statement whose fresh operand is mis-declared in the negative
    def make_site(self):
        rng = self.rng
        kind = choose(rng, SITE_KINDS)
        a = self.pick()
        info = {"kind": kind}
        if kind in ("add", "sub", "cmp"):
            w = wrong_unit(rng, a.unit, nonzero=False)
            L = self.leaf(a.unit, site_wrong=w, add=False)
            decl_line = len(self.lines) - 1
            if kind == "cmp":
                o = rng.choice(["<", "<=", ">", ">=", "==", "!="])
            else:
                o = "+" if kind == "add" else "-"
            x, y = (a, L) if rng.random() < 0.5 else (L, a)
            if kind == "cmp":
                self.emit("%s %s %s" % (x.q, o, y.q), "%s %s %s" % (x.r, o, y.r), None, None, "cmp", site=True, kind="bool")
            else:
                self.emit("%s %s %s" % (x.q, o, y.q), "%s %s %s" % (x.r, o, y.r), a.unit, promote(a.base, L.base), kind, site=True)
            info.update({"op": o, "variant": "qt-qt", "decl": decl_line, "right": a.unit, "wrong": w})
        elif kind == "init":
            # the destination is the mis-declared operand; direct-initialisation from / of a dimensionless
            # quantity is an explicit construction from a number (by design), so those forms keep both units non-zero
            form = rng.choice(["%s %s = %s;", "%s %s(%s);", "%s %s{%s};"])
            w = wrong_unit(rng, a.unit, nonzero=True)
            if a.unit == ZERO:
                form = "%s %s = %s;"
            m, n = self.nm("m"), self.nm("n")
            ln = Line("const " + form % (type_text(a.unit, self.B, rng), m, a.q), "const %s %s = %s;" % (self.B, n, a.r),
                      chk="VFQ_TYPE(%s, %s, %s);" % (m, self.B, exps(a.unit)), cap=(m, n), op="init", site=True)
            ln.wrong = "const " + form % (type_text(w, self.B, rng), m, a.q)
            ln.wrong_chk = "VFQ_TYPE(%s, %s, %s);" % (m, self.B, exps(w))
            self.lines.append(ln)
            self.pool.append(Val(m, n, a.unit, self.B))
            info.update({"op": "init" + ("=" if "=" in form else "()" if "(" in form else "{}"), "variant": "qt-qt",
                         "decl": len(self.lines) - 1, "right": a.unit, "wrong": w})
        elif kind in ("assign", "+=", "-="):
            w = wrong_unit(rng, a.unit, nonzero=False)
            M = self.leaf(a.unit, base=self.B, site_wrong=w, mutable=True, add=False)
            decl_line = len(self.lines) - 2
            o = "=" if kind == "assign" else kind
            self.lines.append(Line("%s %s %s;" % (M.q, o, a.q), "%s %s %s;" % (M.r, o, a.r), cap=(M.q, M.r), op="q" + o + "q", site=True))
            info.update({"op": o, "variant": "qt-qt", "decl": decl_line, "right": a.unit, "wrong": w})
        elif kind in ("*=q", "/=q"):
            # scaling by a quantity is only dimensionally neutral for a dimensionless factor
            w = wrong_unit(rng, ZERO, nonzero=True)
            L = self.leaf(ZERO, site_wrong=w, add=False)
            decl_line = len(self.lines) - 1
            m = self.new_mutable(a)
            o = kind[:2]
            # IsQtScalarOperationValid: the factor's base type must promote into the destination's
            self.lines.append(Line("%s %s %s;" % (m.q, o, L.q), "%s %s %s;" % (m.r, o, L.r), cap=(m.q, m.r), op="q" + o + "q", site=True))
            info.update({"op": o, "variant": "qt-qt(factor)", "decl": decl_line, "right": ZERO, "wrong": w})
        else:
            # quantity against a raw number: legal iff the quantity is dimensionless
            w = wrong_unit(rng, ZERO, nonzero=True)
            mutable = kind in ("assign-raw", "+=raw")
            L = self.leaf(ZERO, base=self.B if mutable else None, site_wrong=w, mutable=mutable, add=False)
            decl_line = len(self.lines) - (2 if mutable else 1)
            if kind == "to-raw":
                y, z = self.nm("y"), self.nm("z")
                self.lines.append(Line("const %s %s = %s;" % (L.base, y, L.q), "const %s %s = %s;" % (L.base, z, L.r), cap=(y, z), op="to-raw", site=True))
                info.update({"op": "T=q", "variant": "raw<-qt"})
            else:
                x, xb = self.scalar()
                while xb == "int" or (mutable and ORDER[xb] > ORDER[L.base]):
                    x, xb = self.scalar()
                if kind == "add-raw":
                    o = rng.choice("+-")
                    qx, rx = ("%s %s %s" % (L.q, o, x), "%s %s %s" % (L.r, o, x)) if rng.random() < 0.5 else \
                             ("%s %s %s" % (x, o, L.q), "%s %s %s" % (x, o, L.r))
                    self.emit(qx, rx, ZERO, promote(L.base, xb), "q+-scalar", site=True)
                    info.update({"op": o, "variant": "qt-raw"})
                elif kind == "cmp-raw":
                    o = rng.choice(["<", "<=", ">", ">=", "==", "!="])
                    qx, rx = ("%s %s %s" % (L.q, o, x), "%s %s %s" % (L.r, o, x)) if rng.random() < 0.5 else \
                             ("%s %s %s" % (x, o, L.q), "%s %s %s" % (x, o, L.r))
                    self.emit(qx, rx, None, None, "cmp-scalar", site=True, kind="bool")
                    info.update({"op": o, "variant": "qt-raw"})
                else:
                    o = "=" if kind == "assign-raw" else "+="
                    self.lines.append(Line("%s %s %s;" % (L.q, o, x), "%s %s %s;" % (L.r, o, x), cap=(L.q, L.r), op="q" + o + "scalar", site=True))
                    info.update({"op": o, "variant": "qt-raw"})
            info.update({"decl": decl_line, "right": ZERO, "wrong": w})
        self.site = info

    def build(self):
        rng = self.rng
        for _ in range(rng.randint(2, 3)):
            self.leaf(rand_unit(rng))
        n = rng.randint(4, 9)
        at = rng.randrange(1, n + 1)
        for i in range(n + 1):
            if i == at:
                self.make_site()
            else:
                self.step()
        return self


# ----------------------------------------------------------------------------- rendering

HEAD = ["// generated by lib/qtgen.py — do not edit", "#include \"math/c20_support.hxx\"", "using namespace tfel::math;"]


def render_syntax(g, negative):
    """stand-alone translation unit handed to g++ -fsyntax-only; returns (source, line number of the
    statement that is illegal in the negative)"""
    L = list(HEAD)
    L.append("void vfq_program(const double* v) {")
    site_line = None
    decl = g.site["decl"]
    for i, ln in enumerate(g.lines):
        if ln.q is None:
            continue
        q, chk = ln.q, ln.chk
        if negative and i == decl:
            q, chk = ln.wrong, ln.wrong_chk
        L.append("  " + q)
        if ln.site:
            site_line = len(L)
        if chk and not (negative and ln.site):
            L.append("  " + chk)
    L.append("  (void)v;")
    L.append("}")
    return "\n".join(L) + "\n", site_line


def render_runtime(g):
    """body of  static void qprog_<pid>(const vf::Args&)  for the transparency harness"""
    caps = [ln for ln in g.lines if ln.cap]
    ns = len(caps)
    ops = [ln.op for ln in caps]
    L = []
    L.append("// program %d" % g.pid)
    L.append("static void qprog_%d(const vf::Args& a) {" % g.pid)
    L.append("  static const char* const OPS[] = {%s};" % ", ".join('"%s"' % o for o in ops))
    L.append("  static const char* const TXT[] = {%s};" % ", ".join('"%s"' % ln.q.replace('"', "'") for ln in caps))
    L.append("  for (long it = 0; it < a.cases; ++it) {")
    L.append("    const uint64_t idx = a.gidx(it);")
    L.append("    if (a.only >= 0 && idx != uint64_t(a.only)) continue;")
    L.append("    vf::Rng g(a.seed, %du, idx);" % (200000 + g.pid))
    L.append("    double v[%d]; for (int k = 0; k < %d; ++k) v[k] = c20::draw(g);" % (max(g.nv, 1), g.nv))
    L.append("    long double got[%d], ref[%d];" % (ns, ns))
    k = 0
    for ln in g.lines:
        if ln.q is not None:
            L.append("    " + ln.q)
            if ln.chk:
                L.append("    " + ln.chk)
        if ln.r is not None:
            L.append("    " + ln.r)
        if ln.cap:
            L.append("    got[%d] = static_cast<long double>(vfq::raw(%s)); ref[%d] = static_cast<long double>(%s);" % (k, ln.cap[0], k, ln.cap[1]))
            k += 1
    L.append("    c20::judge(R, %d, \"%s\", idx, OPS, TXT, got, ref, %d, v, %d);" % (g.pid, g.B, ns, g.nv))
    L.append("  }")
    L.append("}")
    return "\n".join(L)


def runtime_tu(gens):
    L = ["// generated by lib/qtgen.py — do not edit", "#define VFH_MAIN", "#include \"vfh.hxx\"", "#include \"math/c20_support.hxx\"",
         "#include \"math/c20_runtime.hxx\"", "using namespace tfel::math;", "static vf::Reporter R;"]
    for g in gens:
        L.append(render_runtime(g))
    L.append("int main(int argc, char** argv) {")
    L.append("  vf::Args a(argc, argv);")
    L.append("  const long only_prog = std::atol(a.get(\"--prog\", \"-1\").c_str());")
    for g in gens:
        L.append("  if (only_prog < 0 || only_prog == %d) qprog_%d(a);" % (g.pid, g.pid))
    L.append("  R.finish();")
    L.append("  return 0;")
    L.append("}")
    return "\n".join(L) + "\n"


def unit_str(u):
    names = ["kg", "m", "s", "A", "K", "cd", "mol"]
    return ".".join("%s^%s" % (n, x) for n, x in zip(names, u) if x != 0) or "1"


def special_programs(seed):
    """fixed-shape positive programs outside the random population: square_root(q) (a power 1/2)"""
    rng = random.Random("c20/special/%s" % seed)
    out = []
    for base in ("double", "float", "long double"):
        u = rand_unit(rng)
        src = "\n".join(HEAD + [
            "void vfq_program(const double* v) {",
            "  const %s q1(static_cast<%s>(v[0]));" % (type_text(u, base, rng), base),
            "  const auto t1 = square_root(q1);",
            "  VFQ_TYPE(t1, %s, %s);" % (base, exps(upow(u, 1, 2))),
            "}"]) + "\n"
        out.append({"name": "square_root<%s>" % base, "op": "square_root", "source": src, "unit": unit_str(u)})
    return out


def generate(seed, tier):
    n = 400 if tier == "thorough" else 40
    out = []
    for pid in range(n):
        rng = random.Random("c20/%s/%s/%d" % (seed, tier, pid))
        g = Gen(pid, rng).build()
        pos, site_p = render_syntax(g, False)
        neg, site_n = render_syntax(g, True)
        out.append({"pid": pid, "gen": g, "twin": pos, "negative": neg, "site_line_twin": site_p, "site_line_negative": site_n,
                    "site": {"kind": g.site["kind"], "op": g.site["op"], "variant": g.site["variant"],
                             "right_unit": unit_str(g.site["right"]), "wrong_unit": unit_str(g.site["wrong"])},
                    "base": g.B, "ops": sorted(set(ln.op for ln in g.lines if ln.op))})
    return out


if __name__ == "__main__":
    import sys
    ps = generate(int(sys.argv[1]) if len(sys.argv) > 1 else 0, sys.argv[2] if len(sys.argv) > 2 else "quick")
    k = int(sys.argv[3]) if len(sys.argv) > 3 else 0
    print(ps[k]["twin"])
    print("//////// negative (site line %d): %s" % (ps[k]["site_line_negative"], ps[k]["site"]))
    print(ps[k]["negative"])
    print(render_runtime(ps[k]["gen"]))
