// C02 (part a) — tensor<N,T>: every operation against the 3x3 long-double matrix it denotes.
// Storage convention (docs/web/tensors.md): [xx yy zz | xy yx | xz zx yz zy].
#define VFH_MAIN
#include "math/ref4.hxx"
#include "TFEL/Math/stensor.hxx"
#include "TFEL/Math/tensor.hxx"
#include "TFEL/Math/tmatrix.hxx"

using namespace ref;
namespace tfm = tfel::math;

static vf::Reporter R;
// polar decomposition: factor on eps*kU^2.  The worst err/(eps kU^2 scale) observed on the unchanged tree for
// kU <= 10 is 12 (float, double) and 111 (long double, whose eigenvalues come with ~100 eps: the documented
// accuracy of the default eigen-solver is 162 eps there); K is >= 50x that.
template <typename T> struct PolarK { static constexpr L v = 1024; };
template <> struct PolarK<long double> { static constexpr L v = 8192; };

template <unsigned short N, typename T>
static tfm::tensor<N, T> mkt(const M3& m) {
  tfm::tensor<N, T> t;
  auto v = to_t(m, N);
  for (int k = 0; k < tsize(N); ++k) t[k] = static_cast<T>(v[k]);
  return t;
}
template <unsigned short N, typename T>
static tfm::stensor<N, T> mks(const M3& m) {
  tfm::stensor<N, T> s;
  auto v = to_st(m, N);
  for (int k = 0; k < ssize(N); ++k) s[k] = static_cast<T>(v[k]);
  return s;
}
template <typename T>
static tfm::rotation_matrix<T> mkr(const M3& m, M3& rounded) {
  tfm::rotation_matrix<T> r;
  for (int i = 0; i < 3; ++i) for (int j = 0; j < 3; ++j) { r(i, j) = static_cast<T>(m[i][j]); rounded[i][j] = L(r(i, j)); }
  return r;
}

template <unsigned short N, typename T>
static void algebra_case(const vf::Args& a, uint64_t idx, const char* tname) {
  vf::Rng g(a.seed, 2001 + N * 7 + sizeof(T), idx);
  const int st = int(idx % ST_NSTRATA);
  const char* S = STRATA4[st];
  const L eps = EpsOf<T>::v;
  const double kmax = KmaxOf<T>::v;
  auto ta = mkt<N, T>(gen_gen(g, N, st, kmax));
  auto tb = mkt<N, T>(gen_gen(g, N, st == ST_SINGLE ? (g.coin() ? ST_SINGLE : ST_RANDOM) : st, kmax));
  auto s1 = mks<N, T>(gen_sym4(g, N, st, kmax));
  auto s2 = mks<N, T>(gen_sym4(g, N, st == ST_SINGLE ? (g.coin() ? ST_SINGLE : ST_RANDOM) : st, kmax));
  const M3 A = from_t(ta, N), B = from_t(tb, N), S1 = from_st(s1, N), S2 = from_st(s2, N);
  const L nA = norm(A), nB = norm(B), nS1 = norm(S1), nS2 = norm(S2);
  uint64_t h = vf::hash_arr(&ta[0], tsize(N));
  h = vf::hash_arr(&tb[0], tsize(N), h); h = vf::hash_arr(&s1[0], ssize(N), h); h = vf::hash_arr(&s2[0], ssize(N), h);
  auto dump = [&] {
    vf::J j; j.s("T", tname).i("N", N).arr("a", &ta[0], &ta[0] + tsize(N)).arr("b", &tb[0], &tb[0] + tsize(N))
        .arr("s1", &s1[0], &s1[0] + ssize(N)).arr("s2", &s2[0], &s2[0] + ssize(N));
    return j.str();
  };
  char api[96];
  auto nm = [&](const char* f) { std::snprintf(api, sizeof api, "%s<%d,%s>", f, int(N), tname); vf::set_case(api, S, idx); return api; };
  const L K = 128;
  // --- component access and scalars
  {
    L e = 0, e2 = 0;
    auto mv = tfm::matrix_view(ta);
    for (int i = 0; i < 3; ++i) for (int j = 0; j < 3; ++j) {
      e = std::max(e, std::fabs(L(ta(i, j)) - A[i][j]));
      e2 = std::max(e2, std::fabs(L(mv(i, j)) - A[i][j]));
    }
    R.check(nm("tensor(i,j)"), S, idx, h, e, 0, dump);
    R.check(nm("matrix_view"), S, idx, h, e2, 0, dump);
  }
  R.check(nm("trace"), S, idx, h, std::fabs(L(tfm::trace(ta)) - trace(A)), K * eps * (std::fabs(A[0][0]) + std::fabs(A[1][1]) + std::fabs(A[2][2])), dump);
  {
    const L am = maxabs(A);
    R.check(nm("det"), S, idx, h, std::fabs(L(tfm::det(ta)) - det(A)), K * eps * 6 * am * am * am, dump);
  }
  R.check(nm("a|b"), S, idx, h, std::fabs(L(ta | tb) - dot(A, B)), K * eps * nA * nB, dump);
  // --- products
  { tfm::tensor<N, T> p = ta * tb; R.check(nm("a*b"), S, idx, h, dist(from_t(p, N), mul(A, B)), K * eps * nA * nB, dump); }
  { tfm::tensor<N, T> p = ta * s1; R.check(nm("a*s"), S, idx, h, dist(from_t(p, N), mul(A, S1)), K * eps * nA * nS1, dump); }
  { tfm::tensor<N, T> p = s1 * ta; R.check(nm("s*a"), S, idx, h, dist(from_t(p, N), mul(S1, A)), K * eps * nA * nS1, dump); }
  { tfm::tensor<N, T> p = s1 * s2; R.check(nm("s*s"), S, idx, h, dist(from_t(p, N), mul(S1, S2)), K * eps * nS1 * nS2, dump); }
  { tfm::tensor<N, T> p = ta * tb * s1; R.check(nm("a*b*s"), S, idx, h, dist(from_t(p, N), mul(mul(A, B), S1)), K * eps * nA * nB * nS1 * 2, dump); }
  { tfm::tensor<N, T> p = ta + s1; R.check(nm("a+s"), S, idx, h, dist(from_t(p, N), add(A, S1)), K * eps * (nA + nS1), dump); }
  { tfm::tensor<N, T> p = s1 - ta; R.check(nm("s-a"), S, idx, h, dist(from_t(p, N), add(S1, A, -1)), K * eps * (nA + nS1), dump); }
  { tfm::tensor<N, T> p = T(2) * ta - tb / T(4); R.check(nm("2a-b/4"), S, idx, h, dist(from_t(p, N), add(scal(A, 2), B, -0.25L)), K * eps * (nA + nB), dump); }
  // --- transposition, symmetrisation
  { tfm::tensor<N, T> p = tfm::transpose(ta); R.check(nm("transpose"), S, idx, h, dist(from_t(p, N), tr(A)), 0, dump); }
  { tfm::tensor<N, T> p = tfm::transpose(ta) * tb; R.check(nm("transpose(a)*b"), S, idx, h, dist(from_t(p, N), mul(tr(A), B)), K * eps * nA * nB, dump); }
  { auto p = tfm::syme(ta); R.check(nm("syme"), S, idx, h, dist(from_st(p, N), sym(A)), 128 * eps * nA, dump); }
  { auto p = tfm::unsyme(s1); R.check(nm("unsyme"), S, idx, h, dist(from_t(p, N), S1), 128 * eps * nS1, dump); }
  { auto p = tfm::syme(tfm::unsyme(s1)); R.check(nm("syme(unsyme)"), S, idx, h, dist(from_st(p, N), S1), 128 * eps * nS1, dump); }
  // --- Cauchy-Green family
  { auto p = tfm::computeRightCauchyGreenTensor(ta); R.check(nm("computeRightCauchyGreenTensor"), S, idx, h, dist(from_st(p, N), mul(tr(A), A)), K * eps * nA * nA, dump); }
  { auto p = tfm::computeLeftCauchyGreenTensor(ta); R.check(nm("computeLeftCauchyGreenTensor"), S, idx, h, dist(from_st(p, N), mul(A, tr(A))), K * eps * nA * nA, dump); }
  { auto p = tfm::computeGreenLagrangeTensor(ta); R.check(nm("computeGreenLagrangeTensor"), S, idx, h, dist(from_st(p, N), scal(add(mul(tr(A), A), eye(), -1), 0.5L)), K * eps * (nA * nA + 1), dump); }
  // --- push forward  F s F^T (documented in TensorConcept.hxx)
  {
    auto p = tfm::push_forward(s1, ta);
    const M3 e = mul(mul(A, S1), tr(A));
    R.check(nm("push_forward(s,F)"), S, idx, h, dist(from_st(p, N), e), K * eps * 3 * nA * nA * nS1, dump);
    auto p2 = tfm::pushForward(s1, ta);
    R.check(nm("pushForward(s,F)"), S, idx, h, dist(from_st(p2, N), from_st(p, N)), 0, dump);
  }
  // --- inverse (adjugate formula: judged with the condition number)
  {
    const L d = det(A);
    bool done = false;
    if (d != 0 && std::isfinite(double(1 / d))) {
      const M3 Ai = inv(A);
      const L kappa = nA * norm(Ai);
      if (kappa * kappa * eps * K < 1e-3L) {
        auto ti = tfm::invert(ta);
        R.check(nm("invert"), S, idx, h, dist(from_t(ti, N), Ai), K * eps * kappa * kappa * norm(Ai), dump);
        done = true;
      }
    }
    if (!done) R.skip(nm("invert"), S);
  }
  // --- change of basis: a' = r^T a r, same convention as the symmetric case (tensor.ixx formulas
  //     are the expansion of that product; docs/web/tensors.md "Change the basis")
  for (int kind = 0; kind < 4; ++kind) {
    static const char* KN[] = {"change_basis/random", "change_basis/identity", "change_basis/perm", "change_basis/nearid"};
    M3 Rr;
    auto r = mkr<T>(random_rotation(g, N, kind), Rr);
    tfm::tensor<N, T> c = tfm::change_basis(ta, r);
    R.check(nm(KN[kind]), S, idx, h, dist(from_t(c, N), mul(mul(tr(Rr), A), Rr)), K * eps * 9 * nA, dump);
    auto c2 = ta; c2.changeBasis(r);
    R.check(nm("changeBasis(member)"), S, idx, h, dist(from_t(c2, N), from_t(c, N)), 0, dump);
    if (kind == 0) {  // consistency between storages: syme(change_basis(a)) = change_basis(syme(a))
      auto ss = tfm::change_basis(tfm::syme(ta), r);
      auto sc = tfm::syme(c);
      R.check(nm("syme(change_basis)"), S, idx, h, dist(from_st(ss, N), from_st(sc, N)), K * eps * 18 * nA, dump);
    }
  }
  // --- builders and I/O
  {
    auto id = tfm::tensor<N, T>::Id();
    R.check(nm("Id"), S, idx, h, dist(from_t(id, N), eye()), 0, dump);
    T f[9];
    for (int i = 0; i < 3; ++i) for (int j = 0; j < 3; ++j) f[i + 3 * j] = static_cast<T>(in_dim(i, j, N) ? A[i][j] : g.uni(-1, 1));  // column major
    auto bf = tfm::tensor<N, T>::buildFromFortranMatrix(f);
    R.check(nm("buildFromFortranMatrix"), S, idx, h, dist(from_t(bf, N), A), 0, dump);
    T w[9]; ta.write(w);
    tfm::tensor<N, T> d; d.import(w);
    bool same = true;
    for (int k = 0; k < tsize(N); ++k) same = same && (w[k] == ta[k]) && (d[k] == ta[k]);
    R.expect(nm("import/write"), S, idx, h, same, dump);
  }
}

// ---- stress measure conversions and polar decomposition (need an invertible F) -----------
static const char* FSTRATA[] = {"mild", "stretch10", "nearequal", "purerotation", "isotropic", "stretch1e3"};
// F = R.U with prescribed principal stretches; kU = ratio of the extreme stretches
static M3 gen_F(vf::Rng& g, int N, int fs, L& kU) {
  M3 q = random_rotation(g, N), r = random_rotation(g, N, g.irange(0, 9) == 0 ? 2 : 0);
  L d[3];
  switch (fs) {
    case 0: for (auto& x : d) x = g.uni(0.5, 2); break;
    case 1: { L big = g.logmag(0, 1); d[0] = big; d[1] = g.coin() ? L(g.uni(1, double(big))) : big; d[2] = 1; break; }
    case 2: { L a0 = g.uni(0.5, 2); L gap = g.logmag(-14, -2); d[0] = a0; d[1] = a0 * (1 + gap); d[2] = g.coin() ? a0 * (1 - gap * g.uni(0, 1)) : g.uni(0.5, 2); break; }
    case 3: d[0] = d[1] = d[2] = 1; break;
    case 4: { L a0 = g.uni(0.25, 4); d[0] = d[1] = d[2] = a0; break; }
    default: { L big = g.logmag(2, 3); d[0] = big; d[1] = g.logmag(0, std::log10(double(big))); d[2] = 1; }
  }
  if (fs == 1 || fs == 5) { int p = g.irange(0, 2); std::swap(d[0], d[p]); p = g.irange(1, 2); std::swap(d[1], d[p]); }
  const L s = g.coin() ? 1.0L : L(g.logmag(-3, 3));  // overall scale
  for (auto& x : d) x *= s;
  kU = std::max(d[0], std::max(d[1], d[2])) / std::min(d[0], std::min(d[1], d[2]));
  M3 D = zero(); for (int i = 0; i < 3; ++i) D[i][i] = d[i];
  if (N == 1) return D;
  if (N == 2) {  // in-plane rotation only: the stretches may sit in or out of the plane
    return mul(r, mul(mul(q, D), tr(q)));
  }
  M3 u = mul(mul(q, D), tr(q));
  if (fs == 3 || fs == 4) u = D;  // keep U exactly isotropic
  return mul(r, u);
}

template <unsigned short N, typename T>
static void F_case(const vf::Args& a, uint64_t idx, const char* tname) {
  vf::Rng g(a.seed, 2501 + N * 7 + sizeof(T), idx);
  const int fs = int((idx / 72) % 6);
  const char* S = FSTRATA[fs];
  const L eps = EpsOf<T>::v;
  L kU;
  auto tF = mkt<N, T>(gen_F(g, N, fs, kU));
  auto s1 = mks<N, T>(gen_sym4(g, N, g.irange(0, 1), 3));
  const M3 F = from_t(tF, N), S1 = from_st(s1, N);
  // a first Piola-Kirchhoff stress is J s F^-T for some symmetric s (built with the reference, then rounded)
  auto tp = mkt<N, T>(scal(mul(from_st(mks<N, T>(gen_sym4(g, N, g.irange(0, 1), 3)), N), tr(inv(F))), det(F)));
  const M3 P = from_t(tp, N);
  uint64_t h = vf::hash_arr(&tF[0], tsize(N));
  h = vf::hash_arr(&s1[0], ssize(N), h); h = vf::hash_arr(&tp[0], tsize(N), h);
  auto dump = [&] {
    vf::J j; j.s("T", tname).i("N", N).arr("F", &tF[0], &tF[0] + tsize(N)).arr("s", &s1[0], &s1[0] + ssize(N)).arr("P", &tp[0], &tp[0] + tsize(N));
    return j.str();
  };
  char api[96];
  auto nm = [&](const char* f) { std::snprintf(api, sizeof api, "%s<%d,%s>", f, int(N), tname); vf::set_case(api, S, idx); return api; };
  const L K = 256;
  const L J = det(F);
  const M3 Fi = inv(F);
  const L nF = norm(F), nFi = norm(Fi), nS = norm(S1), nP = norm(P);
  const L kF = nF * nFi;
  // stress conversions: standard definitions  S = J F^-1 s F^-T,  s = F S F^T / J,  P = J s F^-T,  s = P F^T / J
  if (kF * kF * eps * K < 1e-3L) {
    {
      auto r = tfm::convertCauchyStressToSecondPiolaKirchhoffStress(s1, tF);
      R.check(nm("convertCauchyStressToSecondPiolaKirchhoffStress"), S, idx, h, dist(from_st(r, N), scal(mul(mul(Fi, S1), tr(Fi)), J)),
              K * eps * kF * kF * std::fabs(J) * nFi * nFi * nS, dump);
    }
    {
      auto r = tfm::convertSecondPiolaKirchhoffStressToCauchyStress(s1, tF);
      R.check(nm("convertSecondPiolaKirchhoffStressToCauchyStress"), S, idx, h, dist(from_st(r, N), scal(mul(mul(F, S1), tr(F)), 1 / J)),
              K * eps * kF * kF * nF * nF * nS / std::fabs(J), dump);
    }
    {
      tfm::tensor<N, T> r = tfm::convertCauchyStressToFirstPiolaKirchhoffStress(s1, tF);
      // the closed form is the cofactor expansion (no division): rounding relative to |s||F|^2
      R.check(nm("convertCauchyStressToFirstPiolaKirchhoffStress"), S, idx, h, dist(from_t(r, N), scal(mul(S1, tr(Fi)), J)),
              K * eps * 3 * nS * nF * nF, dump);
    }
    {
      auto r = tfm::convertFirstPiolaKirchhoffStressToCauchyStress(tp, tF);
      // P F^T / J is symmetric for a genuine PK1 stress; P is one up to its rounding to T, whose effect
      // (eps |P||F|/J) is inside the tolerance, so comparing with the symmetric part is sound
      R.check(nm("convertFirstPiolaKirchhoffStressToCauchyStress"), S, idx, h, dist(from_st(r, N), scal(sym(mul(P, tr(F))), 1 / J)),
              K * eps * kF * kF * nP * nF / std::fabs(J), dump, "P.F^T/J for P = J s F^-T rounded");
    }
  } else {
    R.skip(nm("convertCauchyStressToSecondPiolaKirchhoffStress"), S);
    R.skip(nm("convertSecondPiolaKirchhoffStressToCauchyStress"), S);
    R.skip(nm("convertCauchyStressToFirstPiolaKirchhoffStress"), S);
    R.skip(nm("convertFirstPiolaKirchhoffStressToCauchyStress"), S);
  }
  // polar decomposition F = R U
  {
    using real = tfm::base_type<T>;
    // reference: U = sqrt(F^T F) by long-double Jacobi, R = F U^-1
    const M3 C = mul(tr(F), F);
    const M3 Uref = isofun(C, [](L x) { return std::sqrt(x); });
    const M3 Rref = mul(F, inv(Uref));
    const L nU = norm(Uref);
    // a method that forms C = F^T F (as the library documents nothing else) loses kU^2
    const L cond = kU * kU;
    const L KP = PolarK<T>::v;
    if (!(J > 0) || cond * eps * KP > 4e-3L) {
      R.skip(nm("polar_decomposition:U"), S);
    } else {
      tfm::tensor<N, real> Rl;
      tfm::stensor<N, T> Ul;
      tfm::polar_decomposition(Rl, Ul, tF);
      const M3 Rm = from_t(Rl, N), Um = from_st(Ul, N);
      const L tolU = KP * eps * cond * nU, tolR = KP * eps * cond * 2;
      R.check(nm("polar_decomposition:U"), S, idx, h, dist(Um, Uref), tolU, dump);
      R.check(nm("polar_decomposition:R"), S, idx, h, dist(Rm, Rref), tolR, dump);
      // the defining identities, from the returned values only
      R.check(nm("polar_decomposition:F=RU"), S, idx, h, dist(mul(Rm, Um), F), tolU * 2, dump);
      R.check(nm("polar_decomposition:RtR=I"), S, idx, h, dist(mul(tr(Rm), Rm), eye()), tolR * 2, dump);
      R.check(nm("polar_decomposition:detR=1"), S, idx, h, std::fabs(det(Rm) - 1), tolR * 3, dump);
      V3 w = eigvals_sorted(Um);
      R.expect(nm("polar_decomposition:U>0"), S, idx, h, w[0] > 0, dump);
    }
  }
}

// N=1: a diagonal F with two negative entries has det>0; its polar decomposition is R=diag(-1,-1,1)-like, U=|F|
template <typename T>
static void F_case_1d_negpair(const vf::Args& a, uint64_t idx, const char* tname) {
  vf::Rng g(a.seed, 2701 + sizeof(T), idx);
  const char* S = "negpair";
  const L eps = EpsOf<T>::v;
  tfm::tensor<1, T> tF;
  const int pos = g.irange(0, 2);
  for (int i = 0; i < 3; ++i) tF[i] = static_cast<T>((i == pos ? 1 : -1) * g.uni(0.5, 2));
  const M3 F = from_t(tF, 1);
  const uint64_t h = vf::hash_arr(&tF[0], 3);
  auto dump = [&] { vf::J j; j.s("T", tname).i("N", 1).arr("F", &tF[0], &tF[0] + 3); return j.str(); };
  char api[96];
  std::snprintf(api, sizeof api, "polar_decomposition<1,%s>", tname);
  vf::set_case(api, S, idx);
  tfm::tensor<1, T> Rl;
  tfm::stensor<1, T> Ul;
  tfm::polar_decomposition(Rl, Ul, tF);
  const M3 Rm = from_t(Rl, 1), Um = from_st(Ul, 1);
  M3 Uref = zero(), Rref = zero();
  for (int i = 0; i < 3; ++i) { Uref[i][i] = std::fabs(F[i][i]); Rref[i][i] = F[i][i] < 0 ? -1 : 1; }
  const L err = std::max(dist(Um, Uref) / norm(Uref), dist(Rm, Rref));
  R.check(api, S, idx, h, err, 64 * eps, dump, "F=diag with two negative entries (det>0): U must be |F| (SPD), R the rotation by pi");
}

template <typename T>
static void dispatch(const vf::Args& a, uint64_t idx, const char* tname) {
  const int n = int((idx / 8) % 3);
  const bool fcase = (idx / 4) % 2;
  if (!fcase) {
    switch (n) {
      case 0: algebra_case<1, T>(a, idx, tname); break;
      case 1: algebra_case<2, T>(a, idx, tname); break;
      default: algebra_case<3, T>(a, idx, tname);
    }
  } else {
    switch (n) {
      case 0: F_case<1, T>(a, idx, tname); if (idx % 4 == 0) F_case_1d_negpair<T>(a, idx, tname); break;
      case 1: F_case<2, T>(a, idx, tname); break;
      default: F_case<3, T>(a, idx, tname);
    }
  }
}

int main(int argc, char** argv) {
  vf::Args a(argc, argv);
  for (long i = 0; i < a.cases; ++i) {
    const uint64_t idx = a.only >= 0 ? uint64_t(a.only) : a.gidx(i);
    switch ((idx / 24) % 3) {
      case 0: dispatch<double>(a, idx, "double"); break;
      case 1: dispatch<float>(a, idx, "float"); break;
      default: dispatch<long double>(a, idx, "ldouble");
    }
    if (a.only >= 0) break;
  }
  R.finish();
  return 0;
}
