// C18 — tfel::fsalgo algorithms = std:: algorithms on the first N elements (DESIGN.md §4.1)
//
// For every N in 0..64 (all instantiated through an index_sequence), three element types
// (int, double, a struct whose + and * are non-commutative and logged) and every algorithm of
// the property, the fsalgo call and the std call run on identical copies of guard-patterned
// buffers.  Compared bitwise: the whole destination image (2 leading + >= 6 trailing guard
// cells included), the source image, the return value (iterator offset or value) and the
// *sequence of functor / operator calls with their arguments* (recorded by logging functors).
//
// Two APIs deviate from std by a convention (element first, accumulator / current best
// second).  They are compared twice: "...:std-argument-order" hands the *same* functor to std
// (what the property states) and "...:either-convention" accepts the std result with the functor
// taken either way round, so that any other defect of these algorithms still shows and the
// control stays silent whichever convention the library finally adopts.
#define VFH_MAIN
#include "vfh.hxx"
#include <algorithm>
#include <array>
#include <list>
#include <numeric>
#include "TFEL/FSAlgorithm/FSAlgorithm.hxx"

namespace fsa = tfel::fsalgo;
static vf::Reporter R;
static std::vector<uint64_t> LOG;  // (tag, a, b) triples
static inline void lg(uint64_t t, uint64_t a, uint64_t b) { LOG.push_back(t); LOG.push_back(a); LOG.push_back(b); }

// ---- element types
struct E {  // operators are non-commutative and logged
  uint64_t v;
};
static inline E operator+(const E& a, const E& b) { lg('+', a.v, b.v); return E{a.v * 3u + b.v}; }
static inline E operator*(const E& a, const E& b) { lg('*', a.v, b.v); return E{(a.v * 5u) ^ (b.v + 1u)}; }
static inline bool operator==(const E& a, const E& b) { lg('=', a.v, b.v); return a.v == b.v; }
static inline bool operator<(const E& a, const E& b) { lg('<', a.v, b.v); return a.v < b.v; }
static inline bool operator>(const E& a, const E& b) { lg('>', a.v, b.v); return a.v > b.v; }
static inline E& operator++(E& a) { lg('i', a.v, 0); a.v += 7; return a; }

template <typename T> struct Tr;
template <> struct Tr<int> {
  static const char* name() { return "int"; }
  static int rnd(vf::Rng& g, bool narrow) { return narrow ? g.irange(-2, 2) : int(g.u64() % 2001) - 1000; }
  static uint64_t bits(int v) { return uint64_t(int64_t(v)); }
  static int guard(int k) { return 0x5a5a0000 + k; }
  static int from(uint64_t s) { return int(s % 4001) - 2000; }
  static int f1(int a) { return int(unsigned(a) * 3u + 1u); }
  static int f2(int a, int b) { return int(unsigned(a) * 3u - unsigned(b)); }  // non-commutative
  static bool less(int a, int b) { return a < b; }
};
template <> struct Tr<double> {
  static const char* name() { return "double"; }
  static double rnd(vf::Rng& g, bool narrow) { return narrow ? 0.5 * g.irange(-2, 2) : g.uni(-1000, 1000); }
  static uint64_t bits(double v) { uint64_t b; std::memcpy(&b, &v, 8); return b; }
  static double guard(int k) { return -777.25 - k; }
  static double from(uint64_t s) { return double(int64_t(s % 4001) - 2000) * 0.125; }
  static double f1(double a) { return a * 3 + 1; }
  static double f2(double a, double b) { return a * 0.5 - b; }
  static bool less(double a, double b) { return a < b; }
};
template <> struct Tr<E> {
  static const char* name() { return "struct"; }
  static E rnd(vf::Rng& g, bool narrow) { return E{narrow ? uint64_t(g.irange(0, 4)) : g.u64() % 100000}; }
  static uint64_t bits(const E& v) { return v.v; }
  static E guard(int k) { return E{0xdead0000u + unsigned(k)}; }
  static E from(uint64_t s) { return E{s % 4001}; }
  static E f1(const E& a) { return E{a.v * 3u + 1u}; }
  static E f2(const E& a, const E& b) { return E{a.v * 3u - b.v}; }
  static bool less(const E& a, const E& b) { return a.v < b.v; }
};

static constexpr int LEAD = 2, CAP = 64 + 8;
template <typename T>
struct Buf {
  std::array<T, CAP> a;
  T* data() { return a.data() + LEAD; }
  const T* data() const { return a.data() + LEAD; }
  void guards(int salt) { for (int k = 0; k < CAP; ++k) a[size_t(k)] = Tr<T>::guard(k + 100 * salt); }
  void image(std::vector<uint64_t>& o) const { for (auto& x : a) o.push_back(Tr<T>::bits(x)); }
};

struct Obs {
  std::vector<uint64_t> img, log;
  uint64_t ret = 0;
  bool operator==(const Obs& o) const { return img == o.img && log == o.log && ret == o.ret; }
};

static const char* bucket(unsigned N) { return N == 0 ? "N=0" : N == 1 ? "N=1" : N <= 10 ? "N=2..10" : "N=11..64"; }

template <typename T>
static void judge(const char* alg, unsigned N, uint64_t idx, const Obs& lib, const Obs& ref, const char* msg = "", const Obs* alt = nullptr) {
  char api[96]; std::snprintf(api, sizeof api, "%s<%s>", alg, Tr<T>::name());
  uint64_t h = vf::hash_arr(ref.img.data(), ref.img.size(), vf::hash_arr(ref.log.data(), ref.log.size(), N));
  auto dump = [&] {
    vf::J j; j.s("type", Tr<T>::name()).i("N", N).i("ret_fsalgo", (long long)lib.ret).i("ret_std", (long long)ref.ret)
        .i("calls_fsalgo", (long long)lib.log.size() / 3).i("calls_std", (long long)ref.log.size() / 3);
    long d = -1; for (size_t k = 0; k < std::min(lib.img.size(), ref.img.size()); ++k) if (lib.img[k] != ref.img[k]) { d = long(k); break; }
    j.i("first_differing_cell(index in the concatenated buffer images, 72 cells each, range starts at cell 2; -1 none)", d);
    long c = -1; for (size_t k = 0; k < std::min(lib.log.size(), ref.log.size()); ++k) if (lib.log[k] != ref.log[k]) { c = long(k / 3); break; }
    if (c < 0 && lib.log.size() != ref.log.size()) c = long(std::min(lib.log.size(), ref.log.size()) / 3);
    j.i("first_differing_call", c);
    if (c >= 0 && size_t(3 * c + 2) < lib.log.size() && size_t(3 * c + 2) < ref.log.size()) {
      j.i("fsalgo_call_arg0", (long long)lib.log[size_t(3 * c + 1)]).i("fsalgo_call_arg1", (long long)lib.log[size_t(3 * c + 2)])
          .i("std_call_arg0", (long long)ref.log[size_t(3 * c + 1)]).i("std_call_arg1", (long long)ref.log[size_t(3 * c + 2)]);
    }
    return j.str();
  };
  vf::set_case(api, bucket(N), idx);
  R.expect(api, bucket(N), idx, h, lib == ref || (alt != nullptr && lib == *alt), dump, msg);
}

// ---- logging functors (namespace scope: one type per T, not per call site: compile time)
template <typename T> struct FU { T operator()(const T& x) const { lg('u', Tr<T>::bits(x), 0); return Tr<T>::f1(x); } };
template <typename T> struct FB { T operator()(const T& x, const T& y) const { lg('b', Tr<T>::bits(x), Tr<T>::bits(y)); return Tr<T>::f2(x, y); } };
template <typename T> struct FB2 { T operator()(const T& x, const T& y) const { lg('c', Tr<T>::bits(x), Tr<T>::bits(y)); return Tr<T>::f2(y, x); } };
template <typename T> struct FBswap { T operator()(const T& acc, const T& x) const { return FB<T>()(x, acc); } };
template <typename T> struct FLESS { bool operator()(const T& x, const T& y) const { lg('L', Tr<T>::bits(x), Tr<T>::bits(y)); return Tr<T>::less(x, y); } };
template <typename T> struct FLESSswap { bool operator()(const T& x, const T& y) const { return FLESS<T>()(y, x); } };
template <typename T> struct FEQ { bool operator()(const T& x, const T& y) const { lg('e', Tr<T>::bits(x), Tr<T>::bits(y)); return Tr<T>::bits(x) == Tr<T>::bits(y); } };
template <typename T> struct FMUT { void operator()(T& x) const { lg('f', Tr<T>::bits(x), 0); x = Tr<T>::f1(x); } };
template <typename T> struct Gen {
  uint64_t s;
  T operator()() { s = s * 6364136223846793005ull + 1442695040888963407ull; lg('g', s, 0); return Tr<T>::from(s >> 20); }
};

// ---- one case: inputs shared by the fsalgo run and the std run
template <typename T>
struct Cx {
  unsigned N;
  std::array<T, 64> va, vb;
  T init;
  int kdiff;  // position where the second range differs (equal), -1: ranges identical
  uint64_t gseed;
};
template <typename T> using Fn = uint64_t (*)(Buf<T>&, Buf<T>&, Buf<T>&, const Cx<T>&);
template <typename T> static uint64_t off(const T* it, const Buf<T>& b) { return uint64_t(it - b.data()); }
template <typename T> static const T* cp(Buf<T>& b) { return b.data(); }

enum Alg { COPY, COPY_OVL, FILL, TR_U, TR_U_INPLACE, TR_B, ACC_PLUS, ACC_PLUS_EF, ACC_OP_STD, ACC_OP_EF, IP, IP_OPS, IP_NOINIT, EQ_OP, EQ_PRED,
           FOR_EACH, GENERATE, IOTA, MIN_LT, MIN_COMP, MAX_GT, MAX_COMP_STD, MAX_COMP_EF, SWAP, NALG };
static const char* ALGN[NALG] = {"copy", "copy/overlap-left", "fill", "transform(unary)", "transform(unary)/in-place", "transform(binary)",
                                 "accumulate(+)", "accumulate(+):either-operand-order", "accumulate(op):std-argument-order", "accumulate(op):either-convention",
                                 "inner_product(+,*)", "inner_product(op1,op2)", "inner_product<T>(no init)", "equal(==)", "equal(pred)",
                                 "for_each", "generate", "iota", "min_element(<)", "min_element(comp)", "max_element(>)",
                                 "max_element(comp):std-comparator-meaning", "max_element(comp):either-convention", "swap_ranges"};
static const char* ALGMSG[NALG] = {"", "", "", "", "", "", "std::accumulate computes acc + *it",
                                   "control: equals acc + *it or *it + acc consistently (silent whichever convention the library adopts)",
                                   "same functor handed to both; std::accumulate calls op(acc, *it)",
                                   "control: equals std::accumulate with op(acc, x) or with op(x, acc) (silent whichever convention the library adopts)", "", "",
                                   "reference: first product as initial value, then std::inner_product on the rest", "", "", "", "", "", "", "", "",
                                   "same 'less' comparator handed to both; std::max_element(first,last,comp) evaluates comp(best, *it)",
                                   "control: equals std::max_element with comp(best, new) or with comp(new, best) (silent whichever convention the library adopts)", ""};

// the fsalgo side: N is a template argument
template <unsigned N, typename T>
struct Lib {
  using B = Buf<T>; using C = const Cx<T>&;
  static uint64_t copy(B& p, B& q, B&, C) { return off(fsa::copy<N>::exe(cp(p), q.data()), q); }
  static uint64_t copy_ovl(B& p, B&, B&, C) { return off(fsa::copy<N>::exe(p.data(), p.data() - 1), p); }
  static uint64_t fill(B& p, B&, B&, C c) { fsa::fill<N>::exe(p.data(), c.init); return 0; }
  static uint64_t tr_u(B& p, B& q, B&, C) { return off(fsa::transform<N>::exe(cp(p), q.data(), FU<T>()), q); }
  static uint64_t tr_ui(B& p, B&, B&, C) { return off(fsa::transform<N>::exe(p.data(), p.data(), FU<T>()), p); }
  static uint64_t tr_b(B& p, B& q, B& r, C) { return off(fsa::transform<N>::exe(cp(p), cp(q), r.data(), FB<T>()), r); }
  static uint64_t acc_plus(B& p, B&, B&, C c) { return Tr<T>::bits(fsa::accumulate<N>::exe(cp(p), c.init)); }
  static uint64_t acc_op(B& p, B&, B&, C c) { return Tr<T>::bits(fsa::accumulate<N>::exe(cp(p), c.init, FB<T>())); }
  static uint64_t ip(B& p, B& q, B&, C c) { return Tr<T>::bits(fsa::inner_product<N>::exe(cp(p), cp(q), c.init)); }
  static uint64_t ip_ops(B& p, B& q, B&, C c) { return Tr<T>::bits(fsa::inner_product<N>::exe(cp(p), cp(q), c.init, FB<T>(), FB2<T>())); }
  static uint64_t ip_noinit(B& p, B& q, B&, C) {
    if constexpr (N >= 1) return Tr<T>::bits(fsa::inner_product<N>::template exe<T>(cp(p), cp(q)));
    else return 0;
  }
  static uint64_t eq_op(B& p, B& q, B&, C) { return uint64_t(fsa::equal<N>::exe(cp(p), cp(q))); }
  static uint64_t eq_pred(B& p, B& q, B&, C) { return uint64_t(fsa::equal<N>::exe(cp(p), cp(q), FEQ<T>())); }
  static uint64_t for_each(B& p, B&, B&, C) { FMUT<T> f; fsa::for_each<N>::exe(p.data(), f); return 0; }
  static uint64_t generate(B& p, B&, B&, C c) { fsa::generate<N>::exe(p.data(), Gen<T>{c.gseed}); return 0; }
  static uint64_t iota(B& p, B&, B&, C c) { fsa::iota<N>::exe(p.data(), c.init); return 0; }
  static uint64_t min_lt(B& p, B&, B&, C) { return off(fsa::min_element<N>::exe(cp(p)), p); }
  static uint64_t min_comp(B& p, B&, B&, C) { return off(fsa::min_element<N>::exe(cp(p), FLESS<T>()), p); }
  static uint64_t max_gt(B& p, B&, B&, C) { auto r = off(fsa::max_element<N>::exe(cp(p)), p); LOG.clear(); return r; }
  static uint64_t max_comp(B& p, B&, B&, C) { return off(fsa::max_element<N>::exe(cp(p), FLESS<T>()), p); }
  static uint64_t swap(B& p, B& q, B&, C) { return off(fsa::swap_ranges<N>::exe(p.data(), q.data()), q); }
  static uint64_t copy_list(std::list<T>& src, std::list<T>& dst) {
    return uint64_t(std::distance(dst.begin(), fsa::copy<N>::exe(src.cbegin(), dst.begin())));
  }
  static const Fn<T>* table() {
    static const Fn<T> t[NALG] = {copy, copy_ovl, fill, tr_u, tr_ui, tr_b, acc_plus, acc_plus, acc_op, acc_op, ip, ip_ops, ip_noinit, eq_op, eq_pred,
                                  for_each, generate, iota, min_lt, min_comp, max_gt, max_comp, max_comp, swap};
    return t;
  }
};

// the std side: N is a run-time value
template <typename T>
struct Ref {
  using B = Buf<T>; using C = const Cx<T>&;
  static uint64_t copy(B& p, B& q, B&, C c) { return off(std::copy(cp(p), cp(p) + c.N, q.data()), q); }
  static uint64_t copy_ovl(B& p, B&, B&, C c) { return off(std::copy(p.data(), p.data() + c.N, p.data() - 1), p); }
  static uint64_t fill(B& p, B&, B&, C c) { std::fill(p.data(), p.data() + c.N, c.init); return 0; }
  static uint64_t tr_u(B& p, B& q, B&, C c) { return off(std::transform(cp(p), cp(p) + c.N, q.data(), FU<T>()), q); }
  static uint64_t tr_ui(B& p, B&, B&, C c) { return off(std::transform(p.data(), p.data() + c.N, p.data(), FU<T>()), p); }
  static uint64_t tr_b(B& p, B& q, B& r, C c) { return off(std::transform(cp(p), cp(p) + c.N, cp(q), r.data(), FB<T>()), r); }
  static uint64_t acc_plus(B& p, B&, B&, C c) { return Tr<T>::bits(std::accumulate(cp(p), cp(p) + c.N, c.init)); }
  static uint64_t acc_op(B& p, B&, B&, C c) { return Tr<T>::bits(std::accumulate(cp(p), cp(p) + c.N, c.init, FB<T>())); }
  static uint64_t acc_plus_ef(B& p, B&, B&, C c) { T r = c.init; for (unsigned k = 0; k < c.N; ++k) r = cp(p)[k] + r; return Tr<T>::bits(r); }
  static uint64_t max_comp_ef(B& p, B&, B&, C c) { return off(std::max_element(cp(p), cp(p) + c.N, FLESSswap<T>()), p); }
  static uint64_t acc_op_ef(B& p, B&, B&, C c) { return Tr<T>::bits(std::accumulate(cp(p), cp(p) + c.N, c.init, FBswap<T>())); }
  static uint64_t ip(B& p, B& q, B&, C c) { return Tr<T>::bits(std::inner_product(cp(p), cp(p) + c.N, cp(q), c.init)); }
  static uint64_t ip_ops(B& p, B& q, B&, C c) { return Tr<T>::bits(std::inner_product(cp(p), cp(p) + c.N, cp(q), c.init, FB<T>(), FB2<T>())); }
  static uint64_t ip_noinit(B& p, B& q, B&, C c) {
    if (c.N == 0) return 0;
    const T i0 = cp(p)[0] * cp(q)[0];
    return Tr<T>::bits(std::inner_product(cp(p) + 1, cp(p) + c.N, cp(q) + 1, i0));
  }
  static uint64_t eq_op(B& p, B& q, B&, C c) { return uint64_t(std::equal(cp(p), cp(p) + c.N, cp(q))); }
  static uint64_t eq_pred(B& p, B& q, B&, C c) { return uint64_t(std::equal(cp(p), cp(p) + c.N, cp(q), FEQ<T>())); }
  static uint64_t for_each(B& p, B&, B&, C c) { std::for_each(p.data(), p.data() + c.N, FMUT<T>()); return 0; }
  static uint64_t generate(B& p, B&, B&, C c) { std::generate(p.data(), p.data() + c.N, Gen<T>{c.gseed}); return 0; }
  static uint64_t iota(B& p, B&, B&, C c) { std::iota(p.data(), p.data() + c.N, c.init); return 0; }
  static uint64_t min_lt(B& p, B&, B&, C c) { return off(std::min_element(cp(p), cp(p) + c.N), p); }
  static uint64_t min_comp(B& p, B&, B&, C c) { return off(std::min_element(cp(p), cp(p) + c.N, FLESS<T>()), p); }
  // built-in '<' vs '>' leave no log; for the struct type they are distinct logged operators, so
  // only the position is compared for max_element without comparator (log cleared on both sides)
  static uint64_t max_gt(B& p, B&, B&, C c) { auto r = off(std::max_element(cp(p), cp(p) + c.N), p); LOG.clear(); return r; }
  static uint64_t max_comp(B& p, B&, B&, C c) { return off(std::max_element(cp(p), cp(p) + c.N, FLESS<T>()), p); }
  static uint64_t swap(B& p, B& q, B&, C c) { return off(std::swap_ranges(p.data(), p.data() + c.N, q.data()), q); }
  static const Fn<T>* table() {
    static const Fn<T> t[NALG] = {copy, copy_ovl, fill, tr_u, tr_ui, tr_b, acc_plus, acc_plus_ef, acc_op, acc_op_ef, ip, ip_ops, ip_noinit, eq_op, eq_pred,
                                  for_each, generate, iota, min_lt, min_comp, max_gt, max_comp, max_comp_ef, swap};
    return t;
  }
};

template <typename T>
static void prep(const Cx<T>& c, int alg, Buf<T>& p, Buf<T>& q, Buf<T>& r) {
  p.guards(1); q.guards(2); r.guards(3);
  for (unsigned k = 0; k < c.N; ++k) { p.data()[k] = c.va[k]; q.data()[k] = c.vb[k]; }
  if (alg == EQ_OP || alg == EQ_PRED) {
    for (unsigned k = 0; k < c.N; ++k) q.data()[k] = c.va[k];
    if (c.kdiff >= 0) q.data()[c.kdiff] = Tr<T>::f1(c.va[size_t(c.kdiff)]);
  }
}

template <typename T>
static void run_case(const vf::Args& a, uint64_t idx, unsigned N, const Fn<T>* lib, uint64_t (*lib_list)(std::list<T>&, std::list<T>&)) {
  using X = Tr<T>;
  vf::Rng g(a.seed, 1800 + N * 8 + sizeof(T), idx);
  Cx<T> c;
  c.N = N;
  const bool narrow = g.coin();
  for (unsigned k = 0; k < 64; ++k) { c.va[k] = X::rnd(g, narrow); c.vb[k] = X::rnd(g, narrow); }
  c.init = X::rnd(g, false);
  c.kdiff = N ? g.irange(-1, int(N) - 1) : -1;
  c.gseed = g.u64();
  const Fn<T>* ref = Ref<T>::table();
  for (int alg = 0; alg < NALG; ++alg) {
    Obs ol, orf;
    for (int w = 0; w < 2; ++w) {
      Buf<T> p, q, r; prep(c, alg, p, q, r); LOG.clear();
      Obs& o = w == 0 ? ol : orf;
      o.ret = (w == 0 ? lib[alg] : ref[alg])(p, q, r, c);
      p.image(o.img); q.image(o.img); r.image(o.img); o.log = LOG;
    }
    if (alg == ACC_PLUS_EF || alg == ACC_OP_EF || alg == MAX_COMP_EF) {
      // control: the std-convention reference of the previous slot is an accepted alternative
      Obs alt; Buf<T> p, q, r; prep(c, alg, p, q, r); LOG.clear();
      alt.ret = ref[alg - 1](p, q, r, c); p.image(alt.img); q.image(alt.img); r.image(alt.img); alt.log = LOG;
      judge<T>(ALGN[alg], N, idx, ol, orf, ALGMSG[alg], &alt);
    } else judge<T>(ALGN[alg], N, idx, ol, orf, ALGMSG[alg]);
  }
  {  // copy through non-random-access iterators (the other overload set of copy<2..10>)
    Obs ol, orf;
    for (int w = 0; w < 2; ++w) {
      std::list<T> src(c.va.begin(), c.va.begin() + N), dst;
      for (unsigned k = 0; k < N + 3; ++k) dst.push_back(X::guard(int(k)));
      Obs& o = w == 0 ? ol : orf;
      o.ret = w == 0 ? lib_list(src, dst) : uint64_t(std::distance(dst.begin(), std::copy(src.cbegin(), src.cend(), dst.begin())));
      for (auto& x : dst) o.img.push_back(X::bits(x));
      for (auto& x : src) o.img.push_back(X::bits(x));
    }
    judge<T>("copy/list-iterators", N, idx, ol, orf);
  }
}

template <typename T, unsigned... Is>
static void sizes(const vf::Args& a, uint64_t idx, std::integer_sequence<unsigned, Is...>) {
  (run_case<T>(a, idx, Is, Lib<Is, T>::table(), &Lib<Is, T>::copy_list), ...);
}

template <typename T>
static void loop(const vf::Args& a) {
  for (long i = 0; i < a.cases; ++i) {
    const uint64_t idx = a.only >= 0 ? uint64_t(a.only) : a.gidx(i);
    sizes<T>(a, idx, std::make_integer_sequence<unsigned, 65>{});
    if (a.only >= 0) break;
  }
}

int main(int argc, char** argv) {
  vf::Args a(argc, argv);
  R.viol_cap = 2;
  const std::string t = a.get("--type", "all");
  if (t == "all" || t == "int") loop<int>(a);
  if (t == "all" || t == "double") loop<double>(a);
  if (t == "all" || t == "struct") loop<E>(a);
  R.finish();
  return 0;
}
