"""C26 — approximations of the inverse Langevin function."""
import vfcore

META = {
    "engine": "math", "level": "exploration", "design_ref": "DESIGN.md §4.1 C26",
    "technique": "ASan+UBSan harness on InverseLangevinFunction.hxx; every value judged against the exact inverse of coth(x)-1/x obtained by safeguarded Newton iterations in long double, derivatives against Richardson finite differences of the long-double instantiation",
    "text": "For Cohen 1991, Jedynak 2015, Kuhn-Grun 1942 / Morch 2022 (Taylor) and Bergstrom-Boyce 1998, arguments uniform in (-1,1) and log-dense near 0 (down to 1e-12) and near +-1 (up to 1-1e-6) are evaluated: relative error against the exact inverse and |L(approx(y))-y| within the accuracy quoted by the cited papers (Taylor: |y| <= 0.75 only), oddness, monotonicity on random ordered pairs (both signs), value of the ...AndDerivative variant = value, derivative = finite-difference derivative of the function itself. Held on the points executed; nothing is claimed beyond them.",
    "note": "Trusted: the long-double Langevin function / Newton inverse of the harness, harness/material/fd.hxx. Accuracy bounds are the literature figures with margin (Cohen 6 %, Jedynak 3 %, Bergstrom-Boyce 0.5 %, Taylor 1 % on |y|<=0.75): docs/web/tfel-material.md quotes no number and refers to Jedynak (2015).",
}

H = vfcore.VERIF / "harness/material"
NAMES = ("COHEN_1991", "JEDYNAK_2015", "KUHN_GRUN_1942", "MORCH_2022", "BERGSTROM_BOYCE_1998")


def build(ctx):
    return {"asan": vfcore.compile_cxx("c26", [H / "c26.cxx"], "asan", libs=("TFELMath", "TFELException"))}


def keymap(key, e):
    # one root cause (formula only valid for y >= 0) behind all the negative-argument events of an approximation
    api = e.get("api", "")
    name = api.split(":", 1)[0]
    if "odd:" in api:
        return name + ":odd"
    if e.get("stratum", "").endswith("/y<0") and ("relative-error" in api or "Langevin(" in api):
        return name + ":accuracy:y<0"
    return key


def run(ctx):
    b = build(ctx)
    ctx.cov["rule"] = ("case = (approximation, stratum, |y|) drawn from (VERIF_SEED, index), evaluated at +y and -y; distinct = hash of y per "
                       "(API, stratum); every case is non-trivial (0 < |y| < 1)")
    req = []
    for n in NAMES:
        for a in ("relative-error-vs-exact-inverse", "Langevin(approx(y))=y", "odd:f(-y)=-f(y)", "increasing", "increasing(y<0)",
                  "value(AndDerivative)=value", "derivative=FD(value)"):
            req.append(("%s:%s" % (n, a), None, 1000))
    ctx.run_events(b["asan"], ctx.n(200000, 10000000), require=req, timeout=3600, keymap=keymap)
    ctx.assumptions += [
        "accuracy = relative error of the approximation of L^-1 (the measure of Cohen / Jedynak), also seen through L: |L(approx(y)) - y| <= 1.5 r x L'(x)",
        "the Taylor polynomial (KUHN_GRUN_1942 = MORCH_2022) is only judged for |y| <= 0.75 (radius of convergence ~0.9)",
        "Bergstrom-Boyce: the derivative is not judged within 4 FD steps of the switching point |y| = 0.84136 (the two branches do not join smoothly)",
    ]
