"""Generated half of C27: small behaviours with @Bounds / @PhysicalBounds on a material property, a scalar state
variable, a stensor-valued state variable and an external state variable, called through the generic interface under
the three out-of-bounds policies.  bnd() runs in a worker process (lib/worker.py); fd 2 is captured around each call."""
import math
import os
import random
import tempfile

import gen

YOUNG = 150e9
KINDS = ("both", "lower", "upper")
# (variable, category, tensorial)
VARS = [("mpb", "mp", False), ("svb", "isv", False), ("stb", "isv", True), ("evb", "esv", False)]
PVARS = [("mpp", "mp", False), ("svp", "isv", False), ("stp", "isv", True), ("evp", "esv", False)]


def variant(k):
    """deterministic description of the k-th behaviour: {var: {"kind", "lo", "hi"}} (values exactly representable)"""
    g = random.Random(1000 + k)
    d = {}
    for name, _, _ in VARS + PVARS:
        kind = KINDS[(k + len(d)) % 3] if k < 3 else g.choice(KINDS)
        lo = g.choice((-2.0, -1.0, 0.0, 0.25, -0.5, 1.0, 100.0, -273.25))
        hi = lo + g.choice((0.5, 1.0, 2.0, 10.0, 1000.0))
        b = {"kind": kind}
        if kind != "upper":
            b["lo"] = lo
        if kind != "lower":
            b["hi"] = hi
        d[name] = b
    return d


def btext(b):
    if b["kind"] == "both":
        return "[%r:%r]" % (b["lo"], b["hi"])
    if b["kind"] == "lower":
        return "[%r:*[" % b["lo"]
    return "]*:%r]" % b["hi"]


def text(k, hypotheses):
    d = variant(k)
    o = ["@DSL Default;", "@Behaviour VfBnd%d;" % k,
         "@Description{\n  /verif C27: bounds and physical bounds on a material property, state variables (scalar and symmetric tensor) and an external state variable\n}",
         "@ModellingHypotheses {%s};" % ", ".join(hypotheses),
         "@MaterialProperty stress young;", 'young.setGlossaryName("YoungModulus");',
         "@MaterialProperty real mpb;", "@MaterialProperty real mpp;",
         "@StateVariable real svb;", "@StateVariable real svp;", "@StateVariable Stensor stb;", "@StateVariable Stensor stp;",
         "@ExternalStateVariable real evb;", "@ExternalStateVariable real evp;"]
    for n, _, _ in VARS:
        o.append("@Bounds %s in %s;" % (n, btext(d[n])))
    for n, _, _ in PVARS:
        o.append("@PhysicalBounds %s in %s;" % (n, btext(d[n])))
    o += ["@ProvidesSymmetricTangentOperator;", "@Integrator{", "  sig = young * (eto + deto);", "  if (computeTangentOperator_) {",
          "    Dt = young * Stensor4::Id();", "  }", "}"]
    return "\n".join(o) + "\n"


def inside(b, g):
    if b["kind"] == "both":
        return b["lo"] + (b["hi"] - b["lo"]) * g.uniform(0.2, 0.8)
    if b["kind"] == "lower":
        return b["lo"] + g.uniform(0.5, 5.0)
    return b["hi"] - g.uniform(0.5, 5.0)


def is_out(b, v):
    return ("lo" in b and v < b["lo"]) or ("hi" in b and v > b["hi"])


def test_values(b, g):
    vals = []
    for s in ("lo", "hi"):
        if s in b:
            x = b[s]
            vals += [x, math.nextafter(x, -math.inf), math.nextafter(x, math.inf), x - g.uniform(0.1, 50), x + g.uniform(0.1, 50)]
    vals += [math.inf, -math.inf, inside(b, g)]
    return vals


def set_policy(b, name, p):
    f = getattr(b.lib, name + "_setOutOfBoundsPolicy")
    f.argtypes = [gen.C.c_int]
    f.restype = None
    f(p)


class Capture:
    """fd 2 -> temp file around a call"""

    def __init__(self):
        self.tmp = tempfile.TemporaryFile()
        self.saved = os.dup(2)

    def run(self, fn):
        self.tmp.seek(0)
        self.tmp.truncate()
        os.dup2(self.tmp.fileno(), 2)
        try:
            r = fn()
        finally:
            os.dup2(self.saved, 2)
        self.tmp.seek(0)
        return r, self.tmp.read().decode("utf-8", "replace")


def bnd(lib, k, hypotheses, seed, reps):
    g = random.Random(seed * 7919 + k)
    d = variant(k)
    name = "VfBnd%d" % k
    cap = Capture()
    viol, n, seen, samples, end_only = [], 0, {}, [], {}
    for hyp in hypotheses:
        S = gen.STENSOR_SIZE[gen.HYP_DIM[hyp]]
        b = gen.Behaviour(lib, name, hyp, nmp=3, nisv=2 + 2 * S, nesv=3)
        for (vn, cat, tens), physical in [(v, False) for v in VARS] + [(v, True) for v in PVARS]:
            bd = d[vn]
            for rep in range(reps):
                for val in test_values(bd, g):
                    for pol, pname in ((0, "None"), (1, "Warning"), (2, "Strict")):
                        for end_only_case in ((False, True) if cat == "esv" and rep == 0 else (False,)):
                            n += 1
                            v = {x: inside(d[x], g) for x, _, _ in VARS + PVARS}
                            stb = [inside(d["stb"], g) for _ in range(S)]
                            stp = [inside(d["stp"], g) for _ in range(S)]
                            comp = g.randrange(S)
                            if tens:
                                (stb if vn == "stb" else stp)[comp] = val
                            else:
                                v[vn] = val
                            mp = [YOUNG, v["mpb"], v["mpp"]]
                            isv = [v["svb"], v["svp"]] + stb + stp
                            esv1 = [293.15, v["evb"], v["evp"]]
                            esv0 = list(esv1)
                            if end_only_case:
                                esv0[1 if vn == "evb" else 2] = inside(bd, g)
                            g0 = [g.uniform(-1e-3, 1e-3) for _ in range(b.ngrad)]
                            g1 = [a + g.uniform(-1e-4, 1e-4) for a in g0]
                            set_policy(b, name, pol)
                            o, err = cap.run(lambda: b.integrate(4, 1.0, g0, g1, [0.0] * b.nthf, mp, isv, esv0, esv1))
                            set_policy(b, name, 0)
                            out = is_out(bd, val)
                            exp_fail = out and (physical or pol == 2)
                            exp_warn = out and (not physical) and pol == 1
                            cls = "%s:%s:%s:%s" % ("physical" if physical else "standard", cat + ("-stensor" if tens else ""), pname,
                                                   "outside" if out else "inside")
                            case = {"behaviour": name, "hyp": hyp, "variable": vn, "bounds": btext(bd), "value": repr(val), "component": comp if tens else None,
                                    "policy": pname, "rc": o["rc"], "msg": o["msg"][:200], "stderr": err[:200], "end_of_step_only": end_only_case}
                            if end_only_case:
                                # only the end-of-step value is outside: recorded, not judged (the property does not say which value is meant)
                                end_only[cls + ":rc=%d" % o["rc"]] = end_only.get(cls + ":rc=%d" % o["rc"], 0) + 1
                                continue
                            seen[cls] = seen.get(cls, 0) + 1
                            key = None
                            if (o["rc"] == -1) != exp_fail:
                                key = "generated:%s:%s" % (cls, "integration-fails" if o["rc"] == -1 else "integration-succeeds")
                            elif exp_fail and not o["msg"]:
                                key = "generated:%s:no-error-message" % cls
                            elif bool(err.strip()) != exp_warn and not exp_fail:
                                key = "generated:%s:%s" % (cls, "no-warning" if exp_warn else "unexpected-output-on-stderr")
                            elif not exp_fail and o["rc"] != 1:
                                key = "generated:%s:return-value-%d" % (cls, o["rc"])
                            if key:
                                viol.append({"key": key, "case": case})
                            elif len(samples) < 4 and out:
                                samples.append(case)
    return {"n": n, "viol": viol[:60], "nviol": len(viol), "seen": seen, "samples": samples, "end_of_step_only": end_only}
