"""gb_mon43.py — driver of C43 (worker side).  Loads one brick behaviour generated with
@CompareToNumericalJacobian (and mfront --debug), drives it along strain paths in every
hypothesis it was generated for; everything the generated code prints (mismatch blocks, Newton
iteration reports) goes to the stdout of this process, interleaved with `@@C43` marker lines;
the parent (checks/c43.py) parses that stream."""
import ctypes as C
import math
import random
import sys

import gbnp

LIBC = C.CDLL(None)

MP_DEFAULTS = {
    "YoungModulus": 150e9, "PoissonRatio": 0.3,
    "YoungModulus1": 150e9, "YoungModulus2": 175e9, "YoungModulus3": 50e9,
    "PoissonRatio12": 0.3, "PoissonRatio23": 0.3, "PoissonRatio13": 0.3,
    "ShearModulus12": 68e9, "ShearModulus23": 72e9, "ShearModulus13": 52e9,
    "ThermalExpansion": 1e-5, "ThermalExpansion1": 1e-5, "ThermalExpansion2": 1.2e-5, "ThermalExpansion3": 0.8e-5,
    "MassDensity": 7800.0,
}
ISV_INIT = {"Porosity": 1e-3}

# directions in 3D Mandel components [xx yy zz xy xz yz]; (name, direction, peak strain, unloading fraction)
LOADINGS = [
    ("tension-unload", [1.0, -0.35, -0.3, 0.2, 0.1, -0.15], 1.2e-2, 0.35),
    ("shear", [0.1, 0.05, -0.1, 1.0, 0.5, -0.7], 1.0e-2, 0.0),
    ("triaxial-tension", [1.0, 0.55, 0.45, 0.1, 0.0, 0.05], 0.8e-2, 0.0),
]


def _ushort(l, name, hyp, sym, default=0):
    for s in ("%s_%s_%s" % (name, hyp, sym), "%s_%s" % (name, sym)):
        try:
            return C.c_ushort.in_dll(l, s).value
        except ValueError:
            continue
    return default


def elastic_prefix(l, name, hyp):
    """material properties expected before the declared ones (docs/web/generic-behaviours-interface: same
    convention as the other interfaces, see mtest/src/GenericBehaviour.cxx)"""
    d = gbnp.gen.HYP_DIM[hyp]
    pre = []
    ortho = _ushort(l, name, hyp, "ElasticSymmetryType") == 1
    if _ushort(l, name, hyp, "requiresStiffnessTensor"):
        if not ortho:
            pre += [150e9, 0.3]
        else:
            pre += [150e9, 175e9, 50e9, 0.3, 0.3, 0.3]
            if d >= 2:
                pre += [68e9]
            if d == 3:
                pre += [72e9, 52e9]
    if _ushort(l, name, hyp, "requiresThermalExpansionCoefficientTensor"):
        pre += [1e-5] if _ushort(l, name, hyp, "SymmetryType") != 1 else [1e-5, 1.2e-5, 0.8e-5]
    return pre


def out(line):
    sys.stdout.write(line + "\n")
    sys.stdout.flush()


def path(name, direction, peak, unload, nsteps, g):
    """list of total strain amplitudes (scalar multiples of the direction): a few elastic steps
    then regular steps to the peak, then optional unloading"""
    amps = [peak * 10 ** (-2.5 + 0.25 * i) * 0.02 for i in range(4)]
    first = amps[-1]
    n1 = max(4, nsteps - 4 - (nsteps // 3 if unload > 0 else 0))
    amps += [first + (peak - first) * (i + 1) / n1 for i in range(n1)]
    if unload > 0:
        n2 = nsteps // 3
        amps += [peak * (1 - unload * (i + 1) / n2) for i in range(n2)]
    # jitter, keeping the monotony of each branch
    return [a * (1 + 0.02 * g.uniform(-1, 1)) for a in amps]


def drive(lib, name, seed, nsteps, criterion, perturbation, loadings=None, hyps=None, rate=1e-3):
    l = gbnp.gen.load(lib)
    g = random.Random("c43/%s/%s" % (seed, name))
    res = {"name": name, "hyps": {}, "skipped": None}
    all_h = gbnp.hypotheses(l, name)
    out("@@C43 BEHAVIOUR %s %s" % (name, ",".join(all_h)))
    pars = None
    for hyp in all_h:
        if hyps and hyp not in hyps:
            continue
        b = gbnp.B(l, name, hyp)
        pars = b.d["params"]
        if "jacobianComparisonCriterion" not in pars or "numerical_jacobian_epsilon" not in pars:
            res["skipped"] = "comparison parameters not exported (%s)" % pars
            return res
        for k, v in (("jacobianComparisonCriterion", criterion), ("numerical_jacobian_epsilon", perturbation)):
            if gbnp.set_parameter_any(l, name, hyp, k, v) != 1:
                raise RuntimeError("setParameter %s failed" % k)
        unknown = [m for m in b.d["mps"] if m not in MP_DEFAULTS]
        if unknown:
            res["skipped"] = "material properties without default value: %s" % unknown
            return res
        mp = [MP_DEFAULTS[m] for m in b.d["mps"]]
        # behaviours that require the stiffness / thermal expansion tensors receive the corresponding constants first
        pre = elastic_prefix(l, name, hyp)
        if pre:
            mp = pre + mp
            b.b.nmp = len(mp)
        n = b.ns
        ax = {"PlaneStress": 2, "AxisymmetricalGeneralisedPlaneStress": 1}.get(hyp)
        hres = {"calls": 0, "ok": 0, "failed": 0, "halvings": 0, "loadings": {}}
        for li, (lname, d3, peak, unload) in enumerate(LOADINGS):
            if loadings is not None and li not in loadings:
                continue
            d = [x * (1 + 0.1 * g.uniform(-1, 1)) for x in d3][:n]
            if ax is not None:
                d[ax] = 0.0
            def run_loading(prestress):
                init = dict(ISV_INIT)
                if prestress:
                    # some criteria have no normal at zero stress (0/0 at the first iterate of a viscoplastic flow): start
                    # from a tiny elastic strain along the loading direction
                    init["ElasticStrain"] = [1e-7 * c for c in d]
                isv = b.pack_isv(**init)
                thf = [0.0] * n
                esv = b.pack_esv()
                e0 = [0.0] * n
                amps = path(lname, d, peak, unload, nsteps, g)
                a0 = 0.0
                okl = 0
                for istep, a1 in enumerate(amps):
                    # integrate [a0, a1], halving the increment on failure
                    todo = [(a0, a1)]
                    depth = 0
                    while todo:
                        x0, x1 = todo.pop(0)
                        g0 = [x0 * c for c in d]
                        g1 = [x1 * c for c in d]
                        dt = max(abs(x1 - x0), 1e-9) / rate
                        out("@@C43 STEP %s %s %d %.17g %.17g" % (hyp, lname, istep, x0, x1))
                        o = b.b.integrate(4, dt, g0, g1, thf, mp, isv, esv, esv)
                        LIBC.fflush(None)
                        # largest increment of every internal state variable (the parent needs to know which unknowns moved)
                        incs = []
                        for nme, ty, off, sz in b.d["isvs"]:
                            incs.append("%s=%d=%.3g" % (nme, sz, max(abs(o["isv"][off + k] - isv[off + k]) for k in range(sz)) if o["rc"] >= 0 else 0.0))
                        out("@@C43 RC %d %s" % (o["rc"], ";".join(incs)))
                        hres["calls"] += 1
                        if o["rc"] >= 0 and all(math.isfinite(v) for v in o["thf"]):
                            thf, isv = o["thf"], o["isv"]
                            hres["ok"] += 1
                            okl += 1
                        else:
                            depth += 1
                            if depth > 5:
                                hres["failed"] += 1
                                todo = []
                                break
                            hres["halvings"] += 1
                            xm = 0.5 * (x0 + x1)
                            todo = [(x0, xm), (xm, x1)] + todo
                    else:
                        a0 = a1
                        continue
                    break  # the step could not be integrated: give up this loading
                return okl
            okl = run_loading(False)
            if okl == 0:
                okl = run_loading(True)
                hres["prestressed"] = hres.get("prestressed", 0) + 1
            hres["loadings"][lname] = okl
        res["hyps"][hyp] = hres
    return res
