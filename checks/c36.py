"""C36 — code generation is deterministic (DESIGN.md §4.4)."""
import hashlib
import os
import shutil
from pathlib import Path

import vfcore
from vfcore import REPO, VERIF

META = {
    "engine": "gen", "level": "exploration", "design_ref": "DESIGN.md §4.4 C36",
    "technique": "the real mfront run repeatedly on the repository corpus under different histories and environments (fresh dir, dir holding other generated files, other TZ/LANG/HOME/env order/cwd depth, wall clock shifted by an LD_PRELOAD shim); byte comparison of every generated source",
    "text": "Every (file, interface) of the sampled corpus is generated in a reference fresh directory and again under perturbed conditions: a second fresh directory at another depth, a directory that already holds files generated from other inputs, a different TZ/LANG/LC_ALL/HOME and extra environment variables, a wall clock shifted by ~1 year through an LD_PRELOAD shim, and one mfront process treating a behaviour, a material property and a model before the input (generic interface, random kind-specific `build_identifier` DSL options; reference = the same command line with the input alone). Any byte difference in include/** or src/*.cxx|hxx for that input is a violation; src/targets.lst (the registry, C47) is excluded by name.",
    "note": "The input is always passed by the same absolute path so that the documented path-dependent fields (the exported `*_src` symbol) are equal by construction. Trusted: the shim really shifts the clock (self-tested with `date`-like helper at start).",
}


def build(ctx):
    return {"faketime": vfcore.compile_c("faketime", [VERIF / "harness/gen/faketime.c"], shared=True, flags=["-ldl"])}


def corpus(ctx):
    g = vfcore.rng(ctx.seed, "c36")
    files = sorted((REPO / "mfront/tests/properties").glob("*.mfront")) + sorted((REPO / "mfront/tests/behaviours").glob("*.mfront")) + \
        sorted((REPO / "mfront/tests/models").glob("*.mfront"))
    g.shuffle(files)
    return files


def snapshot(d):
    out = {}
    for sub, pats in (("include", ["**/*"]), ("src", ["*.cxx", "*.hxx"])):
        for pat in pats:
            for p in sorted((Path(d) / sub).glob(pat)):
                if p.is_file():
                    out[str(p.relative_to(d))] = hashlib.sha1(p.read_bytes()).hexdigest()
    return out


def interfaces_for(f):
    if "/properties/" in str(f):
        return ["c", "c++", "generic", "octave", "excel"]
    return ["generic"]


def run(ctx):
    b = build(ctx)
    vfcore.ensure_tree("plain")
    files = corpus(ctx)[:ctx.n(40, 400)]
    # self-test of the clock shim
    t0 = vfcore.run(["date", "+%s"], timeout=10).out.strip()
    t1 = vfcore.run(["date", "+%s"], timeout=10, env={"LD_PRELOAD": str(b["faketime"]), "VF_TIME_OFFSET": "31536000"}).out.strip()
    if not (t0.isdigit() and t1.isdigit() and abs(int(t1) - int(t0) - 31536000) < 120):
        raise vfcore.HarnessFailure("clock shim ineffective: %s vs %s" % (t0, t1))
    ctx.cov["rule"] = ("case = (repository .mfront file, interface, scenario in {fresh2, after-others, repeated, env, clock, same-process-after-others}); distinct = distinct (file, interface, scenario); "
                       "non-trivial = the reference run generated at least one source file")
    mf = str(vfcore.tool("plain", "mfront"))
    others = files[:3]
    # one input of each kind, treated before `f` in the same process in the scenario same-process-after-others
    allf = corpus(ctx)
    others_by_kind = [next(x for x in allf if x.parent.name == k) for k in ("behaviours", "properties", "models")]

    def gen(d, f, itf, env=None):
        d.mkdir(parents=True, exist_ok=True)
        e = {"LD_LIBRARY_PATH": vfcore.ld_path("plain")}
        if env:
            e.update(env)
        return vfcore.run(vfcore.isolated([mf, "--interface=" + itf, "--search-path=" + str(f.parent), str(f)]), timeout=120, cwd=d, env=e)

    def one(args):
        i, f = args
        g = vfcore.rng(ctx.seed, "c36", i)
        itf = g.choice(interfaces_for(f))
        base = ctx.work / ("f%d" % i)
        r0 = gen(base / "ref", f, itf)
        if r0.rc != 0:
            shutil.rmtree(base, ignore_errors=True)
            return f, itf, None, []
        ref = snapshot(base / "ref")
        res = []
        # fresh dir at another depth
        r = gen(base / "a" / "b" / "c" / "fresh2", f, itf)
        res.append(("fresh2", r.rc, snapshot(base / "a/b/c/fresh2")))
        # after other inputs
        d = base / "after"
        for o in others:
            if o != f:
                gen(d, o, interfaces_for(o)[0])
        r = gen(d, f, itf)
        snap = snapshot(d)
        res.append(("after-others", r.rc, {k: v for k, v in snap.items() if k in ref or False}))
        # run twice in the same directory
        r = gen(base / "ref", f, itf)
        res.append(("repeated", r.rc, snapshot(base / "ref")))
        # environment
        env = {"TZ": g.choice(["Asia/Tokyo", "America/New_York", "UTC+11"]), "LANG": g.choice(["fr_FR.UTF-8", "C", "tr_TR.UTF-8"]),
               "LC_ALL": g.choice(["C", "POSIX", "de_DE.UTF-8"]), "HOME": str(base / "home"), "ZZZ_FIRST": "1", "AAA_LAST": "2", "USER": "nobody"}
        r = gen(base / "env", f, itf, env)
        res.append(("env", r.rc, snapshot(base / "env")))
        # shifted clock
        r = gen(base / "clock", f, itf, {"LD_PRELOAD": str(b["faketime"]), "VF_TIME_OFFSET": str(g.choice([31536000, -86400 * 400, 86400 * 3650]))})
        res.append(("clock", r.rc, snapshot(base / "clock")))
        # several inputs treated by ONE mfront process: the sources generated for `f` must not depend on the files treated
        # before it in the same process, nor on options that only concern the other kinds of input (kind-specific DSL
        # options).  Reference: the same command line with `f` alone.  The generic interface exists for the three kinds.
        kind_opt = {"properties": "--material-property-dsl-option", "behaviours": "--behaviour-dsl-option", "models": "--model-dsl-option"}
        fk = f.parent.name
        opts = []
        for k, o in sorted(kind_opt.items()):
            if g.random() < 0.6:
                opts.append("%s=build_identifier:%s-%d" % (o, k, g.randrange(1000)))
        mates = [o for o in others_by_kind if o != f]
        e = {"LD_LIBRARY_PATH": vfcore.ld_path("plain")}
        sp = ["--search-path=" + str(x.parent) for x in [f] + mates]

        def multi(d, inputs):
            d.mkdir(parents=True, exist_ok=True)
            return vfcore.run(vfcore.isolated([mf, "--interface=generic"] + opts + sp + [str(x) for x in inputs]), timeout=180, cwd=d, env=e)
        ra = multi(base / "alone-g", [f])
        if ra.rc == 0:
            refg = snapshot(base / "alone-g")
            rm = multi(base / "same-process", mates + [f])
            if rm.rc == 0:
                sm = snapshot(base / "same-process")
                diff = [k for k in refg if sm.get(k) != refg[k]]
                res_multi = ("same-process-after-others", sorted(diff) if diff else None)
            else:
                res_multi = ("same-process-after-others", "SKIP" if any(x.rc != 0 for x in [multi(base / ("m%d" % j), [o]) for j, o in enumerate(mates)]) else
                             "run failed (rc=%s) where every input succeeds alone" % rm.rc)
        else:
            res_multi = None
        out = []
        if res_multi is not None:
            out.append(res_multi)
        for name, rc, snap in res:
            if rc != 0:
                out.append((name, "run failed (rc=%s) where the reference run succeeded" % rc))
                continue
            if name == "after-others":
                diff = [k for k in ref if snap.get(k) != ref[k]]
            else:
                diff = [k for k in set(ref) | set(snap) if snap.get(k) != ref.get(k)]
            out.append((name, sorted(diff) if diff else None))
        shutil.rmtree(base, ignore_errors=True)
        return f, itf, ref, out

    nref = 0
    for f, itf, ref, out in vfcore.pmap(one, list(enumerate(files)), workers=12):
        if ref is None:
            ctx.count("reference-run-failed")
            continue
        if not ref:
            ctx.count("nothing-generated")
            continue
        nref += 1
        for name, diff in out:
            if diff == "SKIP":
                ctx.count("same-process:not-compared(an-earlier-input-fails-alone)")
                continue
            if name == "same-process-after-others":
                ctx.count("same-process:compared")
            ctx.add_eval()
            ctx.add_distinct(vfcore.sha(str(f), itf, name))
            if isinstance(diff, str):
                ctx.violation("%s:run-fails:%s" % (name, itf), "%s with %s: %s" % (f.name, itf, diff), {"file": str(f), "interface": itf, "scenario": name})
            elif diff:
                ctx.violation("%s:bytes-differ:%s" % (name, itf), "%s with %s: generated files differ under scenario %s: %s" % (f.name, itf, name, diff[:6]),
                              {"file": str(f), "interface": itf, "scenario": name, "files": diff})
        if nref <= 3:
            ctx.sample({"file": f.name, "interface": itf, "generated_files": len(ref), "scenarios": [n for n, _ in out]})
    ctx.cov["inputs_with_reference"] = nref
    ctx.require(ctx.cov.get("counters", {}).get("same-process:compared", 0) >= nref // 2, "the same-process scenario was compared for too few inputs")
    ctx.require(nref >= len(files) // 3, "too few inputs generated anything (%d of %d)" % (nref, len(files)))
