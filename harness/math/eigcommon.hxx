// eigcommon.hxx — private helpers shared by the C03 / C04 / C05 harnesses
//  * recovery from the library's own assert()/abort() so that one failed assertion is
//    reported as a violation of the case at hand instead of killing the whole shard;
//  * names and documented accuracy (docs/web/release-notes-5.0.md, tables
//    comp_eigensolvers_float/double) of the eight symmetric eigen-solvers;
//  * small exact constructions (integer vectors, signed permutations).
#ifndef VERIF_EIGCOMMON_HXX
#define VERIF_EIGCOMMON_HXX
#include <csetjmp>
#include <csignal>
#include "ref.hxx"
#include "TFEL/Math/stensor.hxx"

namespace vfx {
using ref::L;
using ref::M3;
using ref::V3;
namespace tfm = tfel::math;
using ES = tfm::stensor_common::EigenSolver;

// ---- assertion / abort recovery ------------------------------------------------------
extern sigjmp_buf g_jb;
extern volatile int g_armed;
extern char g_why[512];
extern const char* g_kind;  // "assert" (assert()/abort() of the library) or "crash" (SIGSEGV/SIGBUS, e.g. unbounded recursion)
void install_abort_recovery();
// names the witness of a sanitizer report without the case index in the first token (the index follows a blank), so
// that the key built from it by vfcore is stable across seeds
inline void set_case(const char* api, const char* stratum, uint64_t idx) {
  std::snprintf(vf::g_case, sizeof vf::g_case, "%s:%s case=%llu", api, stratum, (unsigned long long)idx);
}
// runs f(); returns false when the library aborted (assert, std::abort) or crashed (SIGSEGV/SIGBUS: run the binary with
// ASAN_OPTIONS=...:handle_segv=0 so that the harness sees the signal) inside f.
// g_why then holds the assertion text.  Only trivially destructible objects may live in f.
template <typename F>
inline bool guarded(F&& f) {
  g_why[0] = 0;
  if (sigsetjmp(g_jb, 1)) {
    g_armed = 0;
    return false;
  }
  g_armed = 1;
  f();
  g_armed = 0;
  return true;
}

// ---- solvers ---------------------------------------------------------------------------
template <ES>
struct Solver;
#define VFX_SOLVER(E, NAME, GAPSENS, DF, DD)                      \
  template <>                                                     \
  struct Solver<ES::E> {                                          \
    static constexpr const char* name = NAME;                     \
    static constexpr bool gap_sensitive = GAPSENS;                \
    static constexpr L delta(float) { return DF; }                \
    static constexpr L delta(double) { return DD; }               \
  }
// Delta_inf of the release notes (max residual |s.v - l v| over 1e6 random tensors with
// components in [-1,1]), float / double.  "gap_sensitive": closed-form eigenvalues and
// cross-product eigenvectors in 3D, or divide-and-conquer without deflation safeguards
// (Cuppen): the accuracy of the eigenvectors degrades like 1/gap by construction.
VFX_SOLVER(TFELEIGENSOLVER, "TFEL", true, 2.37e-5L, 6.94e-14L);
VFX_SOLVER(GTESYMMETRICQREIGENSOLVER, "GTESYMMETRICQR", false, 9.57e-7L, 2.30e-15L);
VFX_SOLVER(FSESJACOBIEIGENSOLVER, "FSESJACOBI", false, 4.61e-7L, 9.08e-16L);
VFX_SOLVER(FSESQLEIGENSOLVER, "FSESQL", false, 1.67e-6L, 3.04e-15L);
VFX_SOLVER(FSESCUPPENEIGENSOLVER, "FSESCUPPEN", true, 2.87e-6L, 5.58e-15L);
VFX_SOLVER(FSESHYBRIDEIGENSOLVER, "FSESHYBRID", true, 3.90e-3L, 1.29e-10L);
VFX_SOLVER(FSESANALYTICALEIGENSOLVER, "FSESANALYTICAL", true, 6.21e-2L, 4.11e-10L);
VFX_SOLVER(HARARIEIGENSOLVER, "HARARI", true, 2.46e-6L, 2.27e-14L);
#undef VFX_SOLVER

template <typename T>
struct TName;
template <>
struct TName<float> { static constexpr const char* v = "float"; };
template <>
struct TName<double> { static constexpr const char* v = "double"; };
template <>
struct TName<long double> { static constexpr const char* v = "ldouble"; };

template <unsigned short N, typename T>
inline tfm::stensor<N, T> mk(const M3& m) {
  tfm::stensor<N, T> s;
  auto v = ref::to_st(m, N);
  for (int k = 0; k < ref::ssize(N); ++k) s[k] = static_cast<T>(v[k]);
  return s;
}
inline M3 diag(L a, L b, L c) {
  M3 m = ref::zero();
  m[0][0] = a; m[1][1] = b; m[2][2] = c;
  return m;
}
inline M3 rotate(const M3& q, const M3& d) { return ref::sym(ref::mul(ref::mul(q, d), ref::tr(q))); }
// a * I + b * n n^T  (n integer vector: exactly representable for small entries)
inline M3 iso_plus_dyad(L a, L b, const int n[3]) {
  M3 m = ref::zero();
  for (int i = 0; i < 3; ++i) for (int j = 0; j < 3; ++j) m[i][j] = (i == j ? a : 0) + b * L(n[i]) * L(n[j]);
  return m;
}
// small non-zero integer vector; in 2D the third component is zero
inline void int_vec(vf::Rng& g, int N, int n[3], int amp = 3) {
  do {
    for (int i = 0; i < 3; ++i) n[i] = g.irange(-amp, amp);
    if (N == 2) n[2] = 0;
    if (N == 1) { n[1] = n[2] = 0; }
  } while (n[0] == 0 && n[1] == 0 && n[2] == 0);
}
// random permutation of three values
inline void shuffle3(vf::Rng& g, L v[3]) {
  for (int i = 2; i > 0; --i) std::swap(v[i], v[g.irange(0, i)]);
}
template <typename V>
inline bool finite3(const V& v) { return std::isfinite(L(v[0])) && std::isfinite(L(v[1])) && std::isfinite(L(v[2])); }
template <typename Mt>
inline bool finite33(const Mt& m) {
  for (int i = 0; i < 3; ++i) for (int j = 0; j < 3; ++j) if (!std::isfinite(L(m(i, j)))) return false;
  return true;
}
template <typename Mt>
inline M3 to_m3(const Mt& m) {
  M3 r;
  for (int i = 0; i < 3; ++i) for (int j = 0; j < 3; ++j) r[i][j] = L(m(i, j));
  return r;
}
// max_k | A v_k - l_k v_k |  (columns of V)
inline L eig_residual(const M3& A, const L l[3], const M3& V) {
  L worst = 0;
  for (int k = 0; k < 3; ++k) {
    L r = 0;
    for (int i = 0; i < 3; ++i) {
      L x = -l[k] * V[i][k];
      for (int j = 0; j < 3; ++j) x += A[i][j] * V[j][k];
      r += x * x;
    }
    worst = std::max(worst, std::sqrt(r));
  }
  return worst;
}
inline M3 reconstruct(const L l[3], const M3& V) {
  M3 r = ref::zero();
  for (int k = 0; k < 3; ++k) for (int i = 0; i < 3; ++i) for (int j = 0; j < 3; ++j) r[i][j] += l[k] * V[i][k] * V[j][k];
  return r;
}
}  // namespace vfx

#ifdef VFH_MAIN
namespace vfx {
sigjmp_buf g_jb;
volatile int g_armed = 0;
char g_why[512] = "";
const char* g_kind = "assert";
static char g_altstack[1 << 16];
static void on_abort(int) {
  if (g_armed) {
    if (!g_why[0]) std::snprintf(g_why, sizeof g_why, "std::abort() called by the library");
    g_kind = "assert";
    siglongjmp(g_jb, 1);
  }
  std::signal(SIGABRT, SIG_DFL);
  std::raise(SIGABRT);
}
static void on_segv(int sig) {
  if (g_armed) {
    std::snprintf(g_why, sizeof g_why, "%s inside the library call (stack exhaustion by unbounded recursion or invalid access)", sig == SIGBUS ? "SIGBUS" : "SIGSEGV");
    g_kind = "crash";
    siglongjmp(g_jb, 1);
  }
  std::signal(sig, SIG_DFL);
  std::raise(sig);
}
void install_abort_recovery() {
  struct sigaction sa;
  std::memset(&sa, 0, sizeof sa);
  sa.sa_handler = on_abort;
  sa.sa_flags = SA_NODEFER;
  sigaction(SIGABRT, &sa, nullptr);
  // SIGSEGV on an alternate stack (only effective when the sanitizer runtime does not own the signal)
  const char* ao = std::getenv("ASAN_OPTIONS");
  if (ao && std::strstr(ao, "handle_segv=0")) {
    stack_t ss;
    ss.ss_sp = g_altstack; ss.ss_size = sizeof g_altstack; ss.ss_flags = 0;
    sigaltstack(&ss, nullptr);
    std::memset(&sa, 0, sizeof sa);
    sa.sa_handler = on_segv;
    sa.sa_flags = SA_NODEFER | SA_ONSTACK;
    sigaction(SIGSEGV, &sa, nullptr);
    sigaction(SIGBUS, &sa, nullptr);
  }
}
}  // namespace vfx
// the executable's definition pre-empts libc's: a failed assert() of the library inside a
// guarded region is turned into a recorded event (the text is kept for the report)
extern "C" void __assert_fail(const char* expr, const char* file, unsigned int line, const char* func) noexcept {
  const char* base = std::strrchr(file, '/');
  std::snprintf(vfx::g_why, sizeof vfx::g_why, "assertion failed: %s:%u: %.300s", base ? base + 1 : file, line, expr);
  for (char* p = vfx::g_why; *p; ++p) if (*p == '"' || *p == '\\' || static_cast<unsigned char>(*p) < 0x20) *p = '\'';
  (void)func;
  vfx::g_kind = "assert";
  if (vfx::g_armed) siglongjmp(vfx::g_jb, 1);
  std::fprintf(stderr, "%s: %s:%u: %s: Assertion `%s' failed.\n", "harness", file, line, func, expr);
  std::signal(SIGABRT, SIG_DFL);
  std::abort();
}
#endif
#endif
