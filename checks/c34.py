"""C34 — glossary lookups are consistent and unambiguous."""
import re
import vfcore

META = {
    "engine": "text", "level": "exploration", "design_ref": "DESIGN.md §4.2 C34", "exhaustive": True,
    "technique": "ASan+UBSan harness on libTFELGlossary: exhaustive walk over every key, alternative name, static member "
                 "(member list extracted from Glossary.hxx at build time) and physical bound; random noise and near-miss strings for contains",
    "text": "Every key and alternative name of the glossary is carried by exactly one entry and contains/getGlossaryEntry resolve it to "
            "that entry; getGlossaryEntry(k).getKey()==k; every static member Glossary::X has key X and equals the registered entry X; "
            "every physical bound parses as a finite number with lower <= upper per unit system; random non-entry strings and "
            "near misses of real names are rejected. Exhaustive over the glossary, sampled for the rejection half.",
    "note": "Trusted: the regular expression extracting 'static const GlossaryEntry X;' from the header, strtod. Entries are compared "
            "through their public accessors. Unit systems probed: those appearing in any entry's getUnits() plus 'SI'.",
}

SRC = vfcore.VERIF / "harness/text/c34.cxx"
HDR = vfcore.REPO / "include/TFEL/Glossary/Glossary.hxx"


def members():
    return re.findall(r"^\s*static\s+const\s+GlossaryEntry\s+(\w+)\s*;", HDR.read_text(), re.M)


def build(ctx):
    gen = vfcore.CACHE / "c34.gen"
    gen.mkdir(parents=True, exist_ok=True)
    txt = "".join("M(%s)\n" % m for m in members())
    f = gen / "c34_members.inc"
    if not f.exists() or f.read_text() != txt:
        f.write_text(txt)
    return {"asan": vfcore.compile_cxx("c34", [SRC], "asan", libs=("TFELGlossary", "TFELUtilities", "TFELException"),
                                       flags=("-I" + str(gen),))}


def run(ctx):
    b = build(ctx)
    ms = members()
    ctx.require(len(ms) >= 50, "only %d static members extracted from %s" % (len(ms), HDR))
    ctx.cov["static_members_extracted"] = len(ms)
    ctx.cov["rule"] = ("exhaustive part: one case per key, per key-or-alternative-name, per static member, per (entry, unit system) with a bound; "
                       "random part: one string per case, 1/4 noise over letters/digits/punctuation used by the glossary, 3/4 near misses "
                       "(case flip, dropped/inserted character, added blank, proper prefix, concatenation) of a real key or name; strings that "
                       "happen to be entries are skipped; distinct = distinct string hash")
    ctx.run_events(b["asan"], 1, shards=1, extra=["--mode", "exhaustive"],
                   require=[("contains", "key", 50), ("getGlossaryEntry", "key", 50), ("contains", "name", 50),
                            ("getGlossaryEntry", "name", 50), ("names", "exactly-one-entry", 50),
                            ("static-member", "all", len(ms)), ("bounds", None, 20), ("getKeys", "unique", 50)])
    ctx.run_events(b["asan"], ctx.n(100000, 2000000), extra=["--mode", "random"],
                   require=[("contains", "noise", 1000), ("contains", "near-miss", 1000)])
    ctx.assumptions += ["'exactly one entry' is decided on the strings returned by getKey()/getNames() of the registered entries"]
