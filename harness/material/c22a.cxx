// C22 (part a) — isotropic criteria: Hosford 1972, Drucker 1949, Cazacu 2004 (isotropic),
// Mohr-Coulomb (Abbo-Sloan rounding).  See c22_common.hxx for the driver.
#define VFH_MAIN
#include "c22_common.hxx"
#include "TFEL/Material/Hosford1972YieldCriterion.hxx"
#include "TFEL/Material/IsotropicPlasticity.hxx"
#include "TFEL/Material/Drucker1949YieldCriterion.hxx"
#include "TFEL/Material/Cazacu2004IsotropicYieldCriterion.hxx"
#include "TFEL/Material/MohrCoulombYieldCriterion.hxx"

namespace c22 { vf::Reporter R; }
using namespace c22;
namespace tmat = tfel::material;

struct NoExtra {
  template <unsigned short N, typename PP, typename D>
  static void extra(vf::Reporter&, char*, size_t, const char*, uint64_t, uint64_t, const tfm::stensor<N, double>&, const PP&, double, double, const Out&, const Out&, const Tol&, D&&) {}
};

// ------------------------------------------------------------------------------------- Hosford
struct Hosford : NoClass {
  static constexpr const char* name = "Hosford1972";
  static constexpr int id = 1;
  static constexpr bool isotropic = true, homogeneous = true, eigen = true, porous = false, has_ref = true;
  static constexpr double smin = -6, smax = 9;
  struct P {
    L a = 2;
    void gen(vf::Rng& g, int) {
      static const double A[] = {2, 2, 4, 6, 8, 10, 12, 20, 50, 100, 3, 1.5, 1};
      a = g.irange(0, 3) == 0 ? L(double(g.uni(1, 12))) : L(A[g.irange(0, 12)]);
    }
    void dump(vf::J& j) const { j.f("a", a); }
    uint64_t hash() const { double d = double(a); return vf::hash_arr(&d, 1); }
  };
  template <unsigned short N, typename T>
  static T value(const tfm::stensor<N, T>& s, const P& p, T seps) { return tmat::computeHosfordStress(s, T(p.a), seps); }
  template <unsigned short N, typename T>
  static void normal(const tfm::stensor<N, T>& s, const P& p, T seps, Out& o) {
    auto [v, n] = tmat::computeHosfordStressNormal(s, T(p.a), seps);
    o.v = v; put_n<N, T>(o, n);
  }
  template <unsigned short N, typename T>
  static void second(const tfm::stensor<N, T>& s, const P& p, T seps, Out& o) {
    auto [v, n, dn] = tmat::computeHosfordStressSecondDerivative(s, T(p.a), seps);
    o.v = v; put_n<N, T>(o, n); put_dn<N, T>(o, dn);
  }
  // documentation (tfel-material.md): ((|s1-s2|^a+|s1-s3|^a+|s2-s3|^a)/2)^(1/a)
  static L ref(const M3& A, const P& p) {
    V3 w = eigvals_sorted(A);
    const L d[3] = {w[1] - w[0], w[2] - w[0], w[2] - w[1]};
    const L m = dmax(d[1], 1e-4000L);
    if (d[1] == 0) return 0;
    // normalised to avoid overflow for large exponents
    const L sum = std::pow(d[0] / m, p.a) + 1 + std::pow(d[2] / m, p.a);
    return m * std::pow(sum / 2, 1 / p.a);
  }
  static L value_cond(const M3& A, const P& p) { return (1 + p.a / 8) * eigen_cond(A); }
  static L gaprel(const M3& A, int, const P&) { return min_gap_rel(A); }
  // |x|^a is twice differentiable at x=0 only for a>=2; below, nearly equal eigenvalues are kinks
  static bool differentiable(const M3& A, const P& p) { return p.a >= 2 || min_gap_rel(A) > 1e-2L; }
  template <unsigned short N, typename D>
  static void extra(vf::Reporter& R, char* api, size_t na, const char* S, uint64_t idx, uint64_t h, const tfm::stensor<N, double>& sd, const P& p, double seps,
                    double v0, const Out& o1, const Out& o2, const Tol& K, D&& dump) {
    const L eps = std::numeric_limits<double>::epsilon();
    if (p.a == 2) {  // documented: a=2 is von Mises, hence n = 3 s/(2 seq) and dn = (3/2 K - n x n)/seq
      const M3 A = from_st(sd, N);
      const L vm = mises_of(A);
      std::snprintf(api, na, "%s<%d>:%s", name, int(N), "Hosford(a=2)=sigmaeq");
      R.check(api, S, idx, h, std::fabs(L(v0) - L(tfm::sigmaeq(sd))), K.invariance * eps * dmax(vm, norm(A)), dump);
      if (vm > 1e-3L * norm(A)) {
        const M3 nn = scal(dev(A), 1.5L / vm);
        auto nv = to_st(nn, N);
        L e = 0; for (int k = 0; k < ssize(N); ++k) e = dmax(e, dmax(std::fabs(o1.n[k] - nv[k]), std::fabs(o2.n[k] - nv[k])));
        std::snprintf(api, na, "%s<%d>:%s", name, int(N), "Hosford(a=2).normal=3s/(2seq)");
        const L gap = min_gap_rel(A);
        if (gap > 1e-8L) R.check(api, S, idx, h, e, K.invariance * eps * (1 + 1 / gap), dump); else R.skip(api, S);
      }
    }
  }
};

// ------------------------------------------------------------------------------------- Drucker
struct Drucker {
  static constexpr const char* name = "Drucker1949";
  static constexpr int id = 2;
  static constexpr bool isotropic = true, homogeneous = true, eigen = false, porous = false, has_ref = true;
  static constexpr double smin = -6, smax = 9;
  struct P {
    L c = 0;
    // convexity range of Drucker's criterion: -27/8 <= c <= 9/4
    void gen(vf::Rng& g, int) { const int k = g.irange(0, 5); c = k == 0 ? 0.0L : (k == 1 ? 1.0L : L(double(g.uni(-27.0 / 8, 9.0 / 4)))); }
    void dump(vf::J& j) const { j.f("c", c); }
    uint64_t hash() const { double d = double(c); return vf::hash_arr(&d, 1); }
  };
  static L abs_tol(const M3&, const P&) { return 0; }
  // the second derivative is judged per parameter class (c = 1 apart): see findings/C22-drucker1949-*
  static void deriv_class(const P& p, char* b, size_t n) { std::snprintf(b, n, "%s", p.c == 1 ? "[c=1]" : "[c!=1]"); }
  template <unsigned short N, typename T>
  static T value(const tfm::stensor<N, T>& s, const P& p, T) { return tmat::computeDrucker1949StressCriterion(s, T(p.c)); }
  template <unsigned short N, typename T>
  static void normal(const tfm::stensor<N, T>& s, const P& p, T seps, Out& o) {
    auto [v, n] = tmat::computeDrucker1949StressCriterionNormal(s, T(p.c), seps);
    o.v = v; put_n<N, T>(o, n);
  }
  template <unsigned short N, typename T>
  static void second(const tfm::stensor<N, T>& s, const P& p, T seps, Out& o) {
    auto [v, n, dn] = tmat::computeDrucker1949StressCriterionSecondDerivative(s, T(p.c), seps);
    o.v = v; put_n<N, T>(o, n); put_dn<N, T>(o, dn);
  }
  // header: sqrt(3) (J2^3 - c J3^2)^(1/6)
  static L ref(const M3& A, const P& p) {
    const L J2 = J2_of(A), J3 = J3_of(A);
    if (J2 == 0) return 0;
    const L r = J3 / (J2 * std::sqrt(J2));
    return std::sqrt(3 * J2) * std::pow(1 - p.c * r * r, 1 / 6.0L);
  }
  static L value_cond(const M3&, const P&) { return 1; }
  static L gaprel(const M3&, int, const P&) { return 1; }
  static bool differentiable(const M3&, const P&) { return true; }
  template <unsigned short N, typename D>
  static void extra(vf::Reporter& R, char* api, size_t na, const char* S, uint64_t idx, uint64_t h, const tfm::stensor<N, double>& sd, const P& p, double,
                    double v0, const Out&, const Out&, const Tol& K, D&& dump) {
    if (p.c == 0) {
      const L eps = std::numeric_limits<double>::epsilon();
      const M3 A = from_st(sd, N);
      std::snprintf(api, na, "%s<%d>:%s", name, int(N), "Drucker(c=0)=sigmaeq");
      R.check(api, S, idx, h, std::fabs(L(v0) - mises_of(A)), K.invariance * eps * norm(A), dump);
    }
  }
};

// ------------------------------------------------------------------------- Cazacu 2004 isotropic
struct Cazacu04Iso : NoClass {
  static constexpr const char* name = "Cazacu2004Isotropic";
  static constexpr int id = 3;
  static constexpr bool isotropic = true, homogeneous = true, eigen = false, porous = false, has_ref = true;
  static constexpr double smin = -6, smax = 9;
  struct P {
    L c = 0;
    // convexity: -3 sqrt(3)/2 <= c <= 3 sqrt(3)/4 (Cazacu & Barlat 2004)
    void gen(vf::Rng& g, int) { c = g.irange(0, 5) == 0 ? 0.0L : L(double(g.uni(-2.5, 1.25))); }
    void dump(vf::J& j) const { j.f("c", c); }
    uint64_t hash() const { double d = double(c); return vf::hash_arr(&d, 1); }
  };
  template <unsigned short N, typename T>
  static T value(const tfm::stensor<N, T>& s, const P& p, T) { return tmat::computeCazacu2004IsotropicStressCriterion(s, T(p.c)); }
  template <unsigned short N, typename T>
  static void normal(const tfm::stensor<N, T>& s, const P& p, T seps, Out& o) {
    auto [v, n] = tmat::computeCazacu2004IsotropicStressCriterionNormal(s, T(p.c), seps);
    o.v = v; put_n<N, T>(o, n);
  }
  template <unsigned short N, typename T>
  static void second(const tfm::stensor<N, T>& s, const P& p, T seps, Out& o) {
    auto [v, n, dn] = tmat::computeCazacu2004IsotropicStressCriterionSecondDerivative(s, T(p.c), seps);
    o.v = v; put_n<N, T>(o, n); put_dn<N, T>(o, dn);
  }
  // header: cbrt(J2^(3/2) - c J3)
  static L ref(const M3& A, const P& p) {
    const L J2 = J2_of(A), J3 = J3_of(A);
    return std::cbrt(J2 * std::sqrt(J2) - p.c * J3);
  }
  // J2^(3/2) - c J3 may be small compared with J2^(3/2): the cube root amplifies rounding
  static L value_cond(const M3& A, const P& p) {
    const L J2 = J2_of(A), J3 = J3_of(A);
    const L t = J2 * std::sqrt(J2), d = t - p.c * J3;
    return d > 0 ? std::pow(t / d, 2 / 3.0L) + 1 : INFINITY;
  }
  static L gaprel(const M3&, int, const P&) { return 1; }
  static bool differentiable(const M3& A, const P& p) { return value_cond(A, p) < 50; }
  template <unsigned short N, typename D>
  static void extra(vf::Reporter& R, char* api, size_t na, const char* S, uint64_t idx, uint64_t h, const tfm::stensor<N, double>& sd, const P& p, double,
                    double v0, const Out&, const Out&, const Tol& K, D&& dump) {
    if (p.c == 0) {  // J2-based form: sqrt(J2) = sigmaeq / sqrt(3)
      const L eps = std::numeric_limits<double>::epsilon();
      const M3 A = from_st(sd, N);
      std::snprintf(api, na, "%s<%d>:%s", name, int(N), "Cazacu2004(c=0)=sqrt(J2)");
      R.check(api, S, idx, h, std::fabs(L(v0) - mises_of(A) / std::sqrt(3.0L)), K.invariance * eps * norm(A), dump);
    }
  }
};

// -------------------------------------------------------------------------------- Mohr-Coulomb
struct MohrCoulomb : NoExtra {
  template <typename PP> static void deriv_class(const PP&, char* b, size_t) { b[0] = 0; }
  static constexpr const char* name = "MohrCoulomb";
  static constexpr bool yield_function = true;
  static constexpr int id = 4;
  // a yield function (cohesion offset, hyperbolic apex rounding): not degree-one homogeneous
  static constexpr bool isotropic = true, homogeneous = false, eigen = false, porous = false, has_ref = true;
  // the implementation floors J2 and |J3| at an absolute 1e-14: stresses of order >= 0.1
  static constexpr double smin = 0, smax = 9;
  struct P {
    L c = 0, phi = 0, lodeT = 0, a = 0;
    void gen(vf::Rng& g, int) {
      c = L(double(g.uni(0, 2)));
      phi = L(double(g.uni(0.05, 0.9)));                // 3..52 degrees
      lodeT = L(double(g.uni(0.35, 0.515)));            // 20..29.5 degrees (< 30)
      a = g.irange(0, 3) == 0 ? 0.0L : L(double(g.uni(0, 1)));
    }
    void dump(vf::J& j) const { j.f("c", c).f("phi", phi).f("lodeT", lodeT).f("a", a); }
    uint64_t hash() const { double d[4] = {double(c), double(phi), double(lodeT), double(a)}; return vf::hash_arr(d, 4); }
  };
  template <unsigned short N, typename T>
  static auto mk_p(const P& p) {
    using St = tfm::stensor<N, T>;
    return tmat::makeMohrCoulombParameters<St, tmat::MohrCoulombParameters<St>::RADIAN>(T(p.c), T(p.phi), T(p.lodeT), T(p.a));
  }
  template <unsigned short N, typename T>
  static T value(const tfm::stensor<N, T>& s, const P& p, T) { return tmat::computeMohrCoulombStressCriterion(mk_p<N, T>(p), s); }
  template <unsigned short N, typename T>
  static void normal(const tfm::stensor<N, T>& s, const P& p, T, Out& o) {
    auto [v, n] = tmat::computeMohrCoulombStressCriterionNormal(mk_p<N, T>(p), s);
    o.v = v; put_n<N, T>(o, n);
  }
  template <unsigned short N, typename T>
  static void second(const tfm::stensor<N, T>& s, const P& p, T, Out& o) {
    auto [v, n, dn] = tmat::computeMohrCoulombStressCriterionSecondDerivative(mk_p<N, T>(p), s);
    o.v = v; put_n<N, T>(o, n); put_dn<N, T>(o, dn);
  }
  static L lode(const M3& A) {
    const L J2 = J2_of(A), J3 = J3_of(A);
    L arg = -3 * std::sqrt(3.0L) * J3 / (2 * J2 * std::sqrt(J2));
    arg = std::min(1.0L, std::max(-1.0L, arg));
    return std::asin(arg) / 3;
  }
  // docs/web/MohrCoulomb.md: F = I1/3 sin(phi) + sqrt(J2 K(theta)^2 + a^2 sin^2(phi)) - c cos(phi)
  static L ref(const M3& A, const P& p) {
    const L J2 = J2_of(A);
    if (!(J2 > 0)) return NAN;
    const L th = lode(A), sp = std::sin(p.phi), i3 = 1 / std::sqrt(3.0L), tT = p.lodeT;
    // for theta <= -theta_T the equations of MohrCoulomb.md (term cos(tT) - sin(phi) sign(theta) sin(tT)/sqrt3)
    // and its code listing / the library (no sign(theta) in that term) differ: not judged
    if (th <= -tT) return NAN;
    L Kt;
    if (std::fabs(th) < tT) Kt = std::cos(th) - i3 * sp * std::sin(th);
    else {
      const L sg = th < 0 ? -1 : 1;
      const L t1 = std::cos(tT) - i3 * sp * sg * std::sin(tT), t2 = sg * std::sin(tT) + i3 * sp * std::cos(tT);
      const L den = 18 * std::pow(std::cos(3 * tT), 3);
      const L B = (sg * std::sin(6 * tT) * t1 - 6 * std::cos(6 * tT) * t2) / den;
      const L C = (-std::cos(3 * tT) * t1 - 3 * sg * std::sin(3 * tT) * t2) / den;
      const L Aa = -i3 * sp * sg * std::sin(tT) - B * sg * std::sin(3 * tT) - C * std::pow(std::sin(3 * tT), 2) + std::cos(tT);
      Kt = Aa + B * std::sin(3 * th) + C * std::pow(std::sin(3 * th), 2);
    }
    return trace(A) / 3 * sp + std::sqrt(J2 * Kt * Kt + p.a * p.a * sp * sp) - p.c * std::cos(p.phi);
  }
  // theta = asin(x)/3 is ill-conditioned at the compression/extension meridians (|x| -> 1)
  static L value_cond(const M3& A, const P&) { const L x = std::sin(3 * lode(A)); return 1 + 1 / std::sqrt(dmax(1 - x * x, 1e-30L)); }
  static L gaprel(const M3&, int, const P&) { return 1; }
  // the implementation floors J2 and |J3| at an absolute 1e-14 (regularisation): the Lode angle moves by
  // ~1e-14/J2^(3/2), the value by ~1e-14/J2
  static L abs_tol(const M3& A, const P&) { const L J2 = J2_of(A); return 1e-12L * (1 + 1 / J2 + 1 / std::sqrt(J2)); }
  // away from the Lode-angle transition (second derivative of K jumps) and from the meridians
  static bool differentiable(const M3& A, const P& p) {
    const L th = lode(A);
    return std::fabs(std::fabs(th) - p.lodeT) > 0.02L && std::fabs(th) < 0.5L && std::fabs(J3_of(A)) > 1e-6L * std::pow(J2_of(A), 1.5L);
  }
};

int main(int argc, char** argv) {
  vf::Args a(argc, argv);
  Tol K;
  for (long i = 0; i < a.cases; ++i) {
    const uint64_t idx = a.only >= 0 ? uint64_t(a.only) : a.gidx(i);
    const uint64_t sub = idx / 4;
    switch (idx % 4) {
      case 0: run_all_dims<Hosford>(a, sub, K); break;
      case 1: run_all_dims<Drucker>(a, sub, K); break;
      case 2: run_all_dims<Cazacu04Iso>(a, sub, K); break;
      default: run_all_dims<MohrCoulomb>(a, sub, K);
    }
    if (a.only >= 0) break;
  }
  R.finish();
  return 0;
}
