"""C35 — mfront and mfront-query never crash on any input file (DESIGN.md §4.3)."""
import base64
import re
import shutil
from pathlib import Path

import fuzz
import vfcore
from vfcore import REPO

META = {
    "engine": "fuzz", "level": "exploration", "design_ref": "DESIGN.md §4.3 C35",
    "technique": "out-of-process systematic keyword sweep + mutation fuzzing (byte, token, keyword-dictionary, splice, nesting, hostile numbers, name aliasing) of the ASan+UBSan+assert builds of mfront and mfront-query on the repository's .mfront corpus, with an exit classifier (signal / sanitizer report / assertion / hang vs. the tools' own error reporting)",
    "text": "A systematic sweep places every keyword of every DSL (read from the binary) alone after the header of a minimal input, right after the header and at the end of a real input of that DSL, followed by varied argument shapes; then thousands of mutated inputs per run (byte, token, keyword, splice, nesting, hostile numbers, name aliasing) are fed to the sanitizer-instrumented real binaries (every interface registered in this build, a rotating set of mfront-query queries). Any death by signal, AddressSanitizer/UBSan report, failed assertion or confirmed hang (watchdog fired twice on the same input) is a violation carrying the input; a non-zero exit with a message — including mfront-query's documented 'terminate called after throwing …what():' path under libstdc++ — is an error report. No coverage feedback: reach comes from corpus breadth and dictionary-aware mutation; held on the inputs executed only.",
    "note": "Trusted: the classifier in vfcore.Ctx.classify_crash; ASan reports 'allocation-size-too-big'/'out-of-memory' are resource exhaustion of the instrumented build (a plain build throws std::bad_alloc, an error report) and are counted, not judged. Solver-specific interfaces are compiled out of this configuration and are not reachable.",
}

MP_ITF = ["c", "c++", "cpptest", "excel", "excel-internal", "generic", "generic-parallel", "mfront", "octave"]
BM_ITF = ["generic", "mfront"]
QUERIES = ["--author", "--date", "--description", "--generated-sources", "--generated-headers", "--class-name", "--dsl-target", "--library",
           "--material", "--state-variables", "--material-properties", "--parameters", "--external-state-variables", "--auxiliary-state-variables",
           "--supported-modelling-hypotheses", "--code-blocks", "--local-variables", "--integration-variables", "--gradients",
           "--thermodynamic-forces", "--tangent-operator-blocks", "--elastic-symmetry", "--symmetry", "--static-variables", "--attributes",
           "--cppflags", "--libraries-dependencies", "--list-dependencies", "--slip-systems", "--interaction-matrix", "--law-name",
           "--inputs", "--output", "--has-bounds=x", "--bounds-value=T", "--parameter-default-value=A", "--modelling-hypothesis=Tridimensional",
           "--modelling-hypothesis=PlaneStress", "--has-physical-bounds=T", "--outputs", "--constant-material-properties", "--functions"]


def seeds():
    out = []
    for d in ("mfront/tests", "docs", "mfront/Examples", "mtest/tests", "bindings"):
        p = REPO / d
        if p.exists():
            out += sorted(p.rglob("*.mfront"))
    return out


def run(ctx):
    vfcore.ensure_tree("asan")
    env = {"LD_LIBRARY_PATH": vfcore.ld_path("asan"),
           "ASAN_OPTIONS": vfcore.SAN_ENV["ASAN_OPTIONS"] + ":max_allocation_size_mb=8192:malloc_context_size=12"}
    mfront, query = str(vfcore.tool("asan", "mfront")), str(vfcore.tool("asan", "mfront-query"))
    r = vfcore.run([mfront, "--list-dsl"], timeout=60, env=env)
    dsls = re.findall(r"^- (\w+)", r.out, re.M)
    dictionary = fuzz.keyword_dictionary(mfront, lambda d: ["--help-keywords-list=" + d], dsls, env)
    if len(dictionary) < 100:
        ctx.inconc("keyword dictionary too small (%d, dsls=%d)" % (len(dictionary), len(dsls)))
    files = seeds()
    if len(files) < 100:
        ctx.inconc("seed corpus too small: %d" % len(files))
        return
    n = ctx.n(480, 6000)   # ~0.2 s of wall time per execution on 16 cores (ASan start-up of mfront: 1 s)
    ctx.cov["rule"] = ("execution = (seed file, mutation kind, tool in {mfront x interface, mfront-query x 2 queries}); distinct = distinct sha1 of the "
                       "mutated input + command line; non-trivial = the input differs from its seed file")
    ctx.cov.update({"seed_files": len(files), "dsls": len(dsls), "dictionary_keywords": len(dictionary)})
    gsel = vfcore.rng(ctx.seed, "c35-corpus")
    pool = [f.read_bytes() for f in gsel.sample(files, min(len(files), 300))]

    def one(i):
        g = vfcore.rng(ctx.seed, "c35", i)
        f = g.choice(files)
        data = f.read_bytes()
        kind, mut = fuzz.mutate(g, data, pool, dictionary)
        d = ctx.work / ("x%d" % i)
        d.mkdir()
        (d / "in.mfront").write_bytes(mut)
        if g.random() < 0.7:
            itf = g.choice(MP_ITF if "/properties/" in str(f) or g.random() < 0.2 else BM_ITF)
            cmd = [mfront, "--interface=" + itf, "--search-path=" + str(f.parent), "in.mfront"]
            tool, rec = "mfront", False
        else:
            cmd = [query] + g.sample(QUERIES, 2) + ["--search-path=" + str(f.parent), "in.mfront"]
            tool, rec = "mfront-query", True
        r = vfcore.run(vfcore.isolated(cmd), timeout=60, cwd=d, env=env)
        if r.timed_out:
            r2 = vfcore.run(vfcore.isolated(cmd), timeout=150, cwd=d, env=env)
            if not r2.timed_out:
                r = r2
        crash = ctx.classify_crash(r, recognised_terminate=rec)
        res = (i, f, kind, tool, cmd[1:-1], crash, fuzz.outcome_class(r) if not crash else crash, mut if crash else None,
               vfcore.sha(mut, " ".join(cmd[1:])), mut != data, (r.err[-2500:] if crash else ""))
        shutil.rmtree(d, ignore_errors=True)
        return res

    # ---- systematic keyword sweep: every keyword of every DSL, alone after the header of a minimal input / inside a real input
    per_dsl = {}
    for dsl, r in zip(dsls, vfcore.pmap(lambda d: vfcore.run([mfront, "--help-keywords-list=" + d], timeout=300, env=env), dsls)):
        per_dsl[dsl] = sorted({m.group(1).encode() for m in re.finditer(r"(@[A-Za-z_0-9]+)", r.out + r.err)})
    texts = [(f, f.read_bytes()) for f in files]
    sweep = []
    gs = vfcore.rng(ctx.seed, "c35-sweep")
    for dsl in dsls:
        pat = re.compile(rb"@(?:DSL|Parser)\s+" + re.escape(dsl.encode()) + rb"\s*[;{]")
        real = next((d for f, d in texts if pat.search(d) and len(d) < 20000), None)
        head = b"@DSL " + dsl.encode() + b";"
        for label, data in fuzz.keyword_sweep(gs, per_dsl[dsl], (head, real if real is not None else head + b"\n"), ctx.thorough, nshapes=1):
            sweep.append((dsl, label, data))
    if not ctx.thorough:
        # quick: a third of the (DSL, keyword) pairs, rotating with the seed (the DSLs share most handlers through their base classes)
        sweep = [x for k, x in enumerate(sweep) if k % 3 == ctx.seed % 3]
    ctx.cov["keyword_sweep"] = {"dsls": len(per_dsl), "keywords": sum(len(v) for v in per_dsl.values()), "inputs_run": len(sweep)}

    def one_sweep(args):
        k, (dsl, label, data) = args
        d = ctx.work / ("s%d" % k)
        d.mkdir()
        (d / "in.mfront").write_bytes(data)
        cmd = [mfront, "--interface=generic", "in.mfront"]
        r = vfcore.run(vfcore.isolated(cmd), timeout=60, cwd=d, env=env)
        if r.timed_out:
            r2 = vfcore.run(vfcore.isolated(cmd), timeout=150, cwd=d, env=env)
            if not r2.timed_out:
                r = r2
        crash = ctx.classify_crash(r, recognised_terminate=False)
        shutil.rmtree(d, ignore_errors=True)
        return dsl, label, data, crash, (r.err[-2500:] if crash else ""), r.rc

    nsw = {"error": 0, "success": 0, "crash": 0}
    for dsl, label, data, crash, err, rc in vfcore.pmap(one_sweep, list(enumerate(sweep)), workers=vfcore.NCPU):
        ctx.add_eval()
        ctx.add_distinct(vfcore.sha(data))
        if crash and not (crash.startswith("asan:allocation-size-too-big") or crash.startswith("asan:out-of-memory")):
            nsw["crash"] += 1
            ctx.violation("mfront:keyword-sweep:%s:%s" % (label.split("/")[0], crash), "mfront on keyword %s of DSL %s (%s): %s\n%s" % (label, dsl, label.split("/")[1], crash, err),
                          {"tool": "mfront", "dsl": dsl, "keyword_and_placement": label, "input_base64": base64.b64encode(data).decode()})
        else:
            nsw["success" if rc == 0 else "error"] += 1
    ctx.cov["keyword_sweep"]["outcomes"] = nsw
    ctx.require(len(sweep) > 100, "keyword sweep too small (%d)" % len(sweep))

    classes = {}
    kinds = {}
    tools = {}
    for i, f, kind, tool, args, crash, cls, mut, h, nontrivial, err in vfcore.pmap(one, range(n), workers=vfcore.NCPU):
        ctx.add_eval()
        if nontrivial:
            ctx.add_distinct(h)
        classes[cls.split(":")[0] + (":" + cls.split(":")[1] if cls.startswith("error") and ":" in cls else "")] = \
            classes.get(cls.split(":")[0] + (":" + cls.split(":")[1] if cls.startswith("error") and ":" in cls else ""), 0) + 1
        kinds[kind] = kinds.get(kind, 0) + 1
        tools[tool] = tools.get(tool, 0) + 1
        if crash:
            if crash.startswith("asan:allocation-size-too-big") or crash.startswith("asan:out-of-memory"):
                ctx.count("resource-exhaustion-under-asan")
                continue
            key = "%s:%s" % (tool, crash)
            ctx.violation(key, "%s %s on a %s-mutation of %s: %s\n%s" % (tool, " ".join(args), kind, f.name, crash, err),
                          {"tool": tool, "args": args, "seed_file": str(f), "mutation": kind, "index": i,
                           "input_base64": base64.b64encode(mut).decode()})
        if i < 4:
            ctx.sample({"seed_file": f.name, "mutation": kind, "tool": tool, "args": args, "outcome": cls})
    ctx.cov.update({"outcome_classes": dict(sorted(classes.items(), key=lambda kv: -kv[1])[:25]), "mutation_kinds": kinds, "tools": tools})
    ctx.require(classes.get("success", 0) > n // 100, "almost no mutated input was accepted (%d): mutations too destructive?" % classes.get("success", 0))
