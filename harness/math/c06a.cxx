// C06 (part a) — closed-form derivative helpers whose argument is a (symmetric) tensor and whose function is
// polynomial: determinant and deviator-determinant first/second derivatives, dsquare, stpd, a.b.a derivatives,
// tensor-product left/right derivatives (t2tot2 and st2tot2 flavours, with and without chain-rule argument),
// transpose_derivative, eigenvalue / eigentensor derivatives.
// Oracle: Richardson central differences (harness/math/fd.hxx) of the *function* written in long-double
// index notation, along every basis direction and two random ones, at the point rounded to the scalar type.
#define VFH_MAIN
#include "math/ref4.hxx"
#include "math/fd.hxx"
#include "TFEL/Math/stensor.hxx"
#include "TFEL/Math/tensor.hxx"
#include "TFEL/Math/st2tost2.hxx"
#include "TFEL/Math/t2tot2.hxx"
#include "TFEL/Math/t2tost2.hxx"
#include "TFEL/Math/st2tot2.hxx"
#include "TFEL/Math/tmatrix.hxx"

using namespace ref;
namespace tfm = tfel::math;

static vf::Reporter R;

template <unsigned short N, typename T>
static tfm::tensor<N, T> mkt(const M3& m) {
  tfm::tensor<N, T> t;
  auto v = to_t(m, N);
  for (int k = 0; k < tsize(N); ++k) t[k] = static_cast<T>(v[k]);
  return t;
}
template <unsigned short N, typename T>
static tfm::stensor<N, T> mks(const M3& m) {
  tfm::stensor<N, T> s;
  auto v = to_st(m, N);
  for (int k = 0; k < ssize(N); ++k) s[k] = static_cast<T>(v[k]);
  return s;
}
template <typename A4>
static void fill4(A4& a, int rows, int cols, vf::Rng& g, int st, double kmax) {
  using T = tfm::numeric_type<A4>;
  L v[81];
  gen_values(g, st, rows * cols, v, kmax);
  for (int p = 0; p < rows; ++p) for (int q = 0; q < cols; ++q) a(p, q) = static_cast<T>(v[p * cols + q]);
}
static M3 scalar_m(L v) { M3 m = zero(); m[0][0] = v; return m; }
// documented first derivatives (docs/web/tensors.md, "Derivatives of the invariants of a tensor")
static M3 cof_general(const M3& a) {  // d det/da_ij = cofactor (i,j) = det(a) a^-T = (a^2 - I1 a + I2 I)^T
  M3 c;
  for (int i = 0; i < 3; ++i) for (int j = 0; j < 3; ++j) {
    const int i1 = (i + 1) % 3, i2 = (i + 2) % 3, j1 = (j + 1) % 3, j2 = (j + 2) % 3;
    c[i][j] = a[i1][j1] * a[i2][j2] - a[i1][j2] * a[i2][j1];
  }
  return c;
}
static M3 ddevdet(const M3& s) {  // dJ3/ds = 2/9 I1^2 I - (I2 I + I1 dI2)/3 + dI3,  dI2 = I1 I - s
  const L i1 = trace(s), i2 = 0.5L * (i1 * i1 - trace(mul(s, s)));
  const M3 dI2 = add(scal(eye(), i1), s, -1), dI3 = cof_general(s);
  return add(add(scal(eye(), 2 * i1 * i1 / 9), add(scal(eye(), i2), dI2, i1), -1 / 3.0L), dI3);
}

struct Ctx6 {
  const char* S; uint64_t idx; uint64_t h; const char* tname; int N;
};

// report one helper: worst direction
template <typename Dump>
static void report(const Ctx6& c, const char* f, const fd::Verdict& v, Dump&& dump, const char* msg = "") {
  char api[112];
  std::snprintf(api, sizeof api, "%s<%d,%s>", f, c.N, c.tname);
  if (v.judged == 0) { R.skip(api, c.S); return; }
  for (int i = 0; i < v.skipped; ++i) R.skip(api, c.S);
  R.check(api, c.S, c.idx, c.h, v.err, v.tol, dump, msg);
}

template <unsigned short N, typename T>
static void one_case(const vf::Args& a, uint64_t idx, const char* tname) {
  vf::Rng g(a.seed, 6001 + N * 7 + sizeof(T), idx);
  const int st = int(idx % ST_NSTRATA);
  const char* S = STRATA4[st];
  const L eps = EpsOf<T>::v;
  const double kmax = sizeof(T) == 4 ? 2 : 4;
  const int ns = ssize(N), nt = tsize(N);
  const int st2 = st == ST_SINGLE ? (g.coin() ? ST_SINGLE : ST_RANDOM) : st;
  auto s1 = mks<N, T>(gen_sym4(g, N, st, kmax));
  auto s2 = mks<N, T>(gen_sym4(g, N, st2, kmax));
  auto ta = mkt<N, T>(gen_gen(g, N, st, kmax));
  auto tb = mkt<N, T>(gen_gen(g, N, st2, kmax));
  tfm::st2tost2<N, T> CS; fill4(CS, ns, ns, g, st2 == ST_SINGLE ? ST_RANDOM : st2, kmax);
  tfm::t2tot2<N, T> CT; fill4(CT, nt, nt, g, st2 == ST_SINGLE ? ST_RANDOM : st2, kmax);
  const M3 S1 = from_st(s1, N), S2 = from_st(s2, N), A = from_t(ta, N), B = from_t(tb, N);
  const T4 rCS = from_st2tost2(CS, N), rCT = from_t2tot2(CT, N);
  const L nS1 = norm(S1), nS2 = norm(S2), nA = norm(A), nB = norm(B), nCS = t4norm(rCS), nCT = t4norm(rCT);
  uint64_t h = vf::hash_arr(&s1[0], ns); h = vf::hash_arr(&s2[0], ns, h); h = vf::hash_arr(&ta[0], nt, h); h = vf::hash_arr(&tb[0], nt, h);
  auto dump = [&] {
    vf::J j; j.s("T", tname).i("N", N).arr("s1", &s1[0], &s1[0] + ns).arr("s2", &s2[0], &s2[0] + ns)
        .arr("a", &ta[0], &ta[0] + nt).arr("b", &tb[0], &tb[0] + nt);
    return j.str();
  };
  const Ctx6 c{S, idx, h, tname, int(N)};
  auto sc = [&](const char* f) { char api[112]; std::snprintf(api, sizeof api, "%s<%d,%s>", f, int(N), tname); vf::set_case(api, S, idx); };
  const L K = 256;
  // polynomial functions: the difference quotients are exact up to round-off whatever the step
  auto step = [](L n) { return (n > 0 ? n : 1) / 64; };
  const M3 Z = zero();

  // ---- determinant of a symmetric tensor: first and second derivatives
  {
    sc("computeDeterminantDerivative(stensor)");
    const auto G = tfm::computeDeterminantDerivative(s1);
    const M3 Gm = from_st(G, N);
    auto v = fd::judge([](const M3& x) { return scalar_m(det(x)); }, [&](const M3& d) { return scalar_m(dot(Gm, d)); },
                       S1, N, true, g, step(nS1), K * eps * 3 * nS1 * nS1);
    report(c, "computeDeterminantDerivative(stensor)", v, dump);
  }
  {
    sc("computeDeterminantSecondDerivative(stensor)");
    const auto H = tfm::computeDeterminantSecondDerivative(s1);
    const T4 Hm = from_st2tost2(H, N);
    auto v = fd::judge([](const M3& x) { return cof_general(x); }, [&](const M3& d) { return ddot(Hm, d); },
                       S1, N, true, g, step(nS1), K * eps * 6 * nS1);
    report(c, "computeDeterminantSecondDerivative(stensor)", v, dump);
  }
  // ---- determinant of a general tensor
  {
    sc("computeDeterminantDerivative(tensor)");
    const auto G = tfm::computeDeterminantDerivative(ta);
    const M3 Gm = from_t(G, N);
    auto v = fd::judge([](const M3& x) { return scalar_m(det(x)); }, [&](const M3& d) { return scalar_m(dot(Gm, d)); },
                       A, N, false, g, step(nA), K * eps * 3 * nA * nA);
    report(c, "computeDeterminantDerivative(tensor)", v, dump);
  }
  {
    sc("computeDeterminantSecondDerivative(tensor)");
    const auto H = tfm::computeDeterminantSecondDerivative(ta);
    const T4 Hm = from_t2tot2(H, N);
    auto v = fd::judge([](const M3& x) { return cof_general(x); }, [&](const M3& d) { return ddot(Hm, d); },
                       A, N, false, g, step(nA), K * eps * 6 * nA);
    report(c, "computeDeterminantSecondDerivative(tensor)", v, dump,
           "d/da of computeDeterminantDerivative(a) = d(det(a) a^-T)/da (docs/web/tensors.md)");
  }
  // ---- determinant of the deviator
  {
    sc("computeDeviatorDeterminantDerivative");
    const auto G = tfm::computeDeviatorDeterminantDerivative(s1);
    const M3 Gm = from_st(G, N);
    auto v = fd::judge([](const M3& x) { return scalar_m(det(dev(x))); }, [&](const M3& d) { return scalar_m(dot(Gm, d)); },
                       S1, N, true, g, step(nS1), K * eps * 3 * nS1 * nS1);
    report(c, "computeDeviatorDeterminantDerivative", v, dump);
  }
  {
    sc("computeDeviatorDeterminantSecondDerivative");
    const auto H = tfm::computeDeviatorDeterminantSecondDerivative(s1);
    const T4 Hm = from_st2tost2(H, N);
    auto v = fd::judge([](const M3& x) { return ddevdet(x); }, [&](const M3& d) { return ddot(Hm, d); },
                       S1, N, true, g, step(nS1), K * eps * 6 * nS1);
    report(c, "computeDeviatorDeterminantSecondDerivative", v, dump);
  }
  // ---- square of a symmetric tensor
  {
    sc("st2tost2::dsquare(s)");
    const tfm::st2tost2<N, T> H = tfm::st2tost2<N, T>::dsquare(s1);
    const T4 Hm = from_st2tost2(H, N);
    auto v = fd::judge([](const M3& x) { return mul(x, x); }, [&](const M3& d) { return ddot(Hm, d); },
                       S1, N, true, g, step(nS1), K * eps * 2 * nS1);
    report(c, "st2tost2::dsquare(s)", v, dump);
  }
  {
    sc("st2tost2::dsquare(s,C)");
    const tfm::st2tost2<N, T> H = tfm::st2tost2<N, T>::dsquare(s1, CS);
    const T4 Hm = from_st2tost2(H, N);
    // s(c) = s1 + C:c, differentiated with respect to c at c = 0
    auto v = fd::judge([&](const M3& x) { const M3 s = add(S1, ddot(rCS, x)); return mul(s, s); }, [&](const M3& d) { return ddot(Hm, d); },
                       Z, N, true, g, step(nCS > 0 ? nS1 / nCS : 1), K * eps * 4 * nS1 * nCS);
    report(c, "st2tost2::dsquare(s,C)", v, dump);
  }
  // ---- symmetric products
  {
    sc("st2tost2::stpd");
    const tfm::st2tost2<N, T> H = tfm::st2tost2<N, T>::stpd(s2);
    const T4 Hm = from_st2tost2(H, N);
    auto v = fd::judge([&](const M3& x) { return scal(add(mul(x, S2), mul(S2, x)), 0.5L); }, [&](const M3& d) { return ddot(Hm, d); },
                       S1, N, true, g, step(nS1), K * eps * 2 * nS2);
    report(c, "st2tost2::stpd=d(symmetric_product)/da", v, dump,
           "docs/web/tensors.md: stpd(b) is the derivative of symmetric_product(a,b)=(a.b+b.a)/2 with respect to a");
    auto w = fd::judge([&](const M3& x) { return add(mul(x, S2), mul(S2, x)); }, [&](const M3& d) { return ddot(Hm, d); },
                       S1, N, true, g, step(nS1), K * eps * 2 * nS2);
    report(c, "st2tost2::stpd=d(a.b+b.a)/da[doxygen]", w, dump, "doxygen reading: derivative of a.b+b.a (recorded, informative)");
  }
  {
    sc("symmetric_product_derivative_daba_da");
    const auto H = tfm::symmetric_product_derivative_daba_da(s1, s2);
    const T4 Hm = from_st2tost2(H, N);
    auto v = fd::judge([&](const M3& x) { return mul(mul(x, S2), x); }, [&](const M3& d) { return ddot(Hm, d); },
                       S1, N, true, g, step(nS1), K * eps * 4 * nS1 * nS2);
    report(c, "symmetric_product_derivative_daba_da", v, dump);
    sc("symmetric_product_derivative_daba_db");
    const auto H2 = tfm::symmetric_product_derivative_daba_db(s1);
    const T4 Hm2 = from_st2tost2(H2, N);
    auto w = fd::judge([&](const M3& x) { return mul(mul(S1, x), S1); }, [&](const M3& d) { return ddot(Hm2, d); },
                       S2, N, true, g, step(nS2), K * eps * 4 * nS1 * nS1);
    report(c, "symmetric_product_derivative_daba_db", w, dump);
  }
  // ---- product of two general tensors c = a.b
  {
    sc("t2tot2::tpld(B)");
    const tfm::t2tot2<N, T> H = tfm::t2tot2<N, T>::tpld(tb);
    const T4 Hm = from_t2tot2(H, N);
    auto v = fd::judge([&](const M3& x) { return mul(x, B); }, [&](const M3& d) { return ddot(Hm, d); }, A, N, false, g, step(nA), K * eps * nB);
    report(c, "t2tot2::tpld(B)", v, dump);
    sc("t2tot2::tprd(A)");
    const tfm::t2tot2<N, T> H2 = tfm::t2tot2<N, T>::tprd(ta);
    const T4 Hm2 = from_t2tot2(H2, N);
    auto w = fd::judge([&](const M3& x) { return mul(A, x); }, [&](const M3& d) { return ddot(Hm2, d); }, B, N, false, g, step(nB), K * eps * nA);
    report(c, "t2tot2::tprd(A)", w, dump);
    sc("t2tot2::tpld(B,C)");
    const tfm::t2tot2<N, T> H3 = tfm::t2tot2<N, T>::tpld(tb, CT);
    const T4 Hm3 = from_t2tot2(H3, N);
    auto v3 = fd::judge([&](const M3& x) { return mul(add(A, ddot(rCT, x)), B); }, [&](const M3& d) { return ddot(Hm3, d); },
                        Z, N, false, g, 1 / 64.0L, K * eps * 2 * nB * nCT);
    report(c, "t2tot2::tpld(B,C)", v3, dump);
    sc("t2tot2::tprd(A,C)");
    const tfm::t2tot2<N, T> H4 = tfm::t2tot2<N, T>::tprd(ta, CT);
    const T4 Hm4 = from_t2tot2(H4, N);
    auto v4 = fd::judge([&](const M3& x) { return mul(A, add(B, ddot(rCT, x))); }, [&](const M3& d) { return ddot(Hm4, d); },
                        Z, N, false, g, 1 / 64.0L, K * eps * 2 * nA * nCT);
    report(c, "t2tot2::tprd(A,C)", v4, dump);
  }
  // ---- product of two symmetric tensors c = a.b (a general tensor)
  {
    sc("st2tot2::tpld(b)");
    const tfm::st2tot2<N, T> H = tfm::st2tot2<N, T>::tpld(s2);
    const T4 Hm = from_st2tot2(H, N);
    auto v = fd::judge([&](const M3& x) { return mul(x, S2); }, [&](const M3& d) { return ddot(Hm, d); }, S1, N, true, g, step(nS1), K * eps * nS2);
    report(c, "st2tot2::tpld(b)", v, dump);
    sc("st2tot2::tprd(a)");
    const tfm::st2tot2<N, T> H2 = tfm::st2tot2<N, T>::tprd(s1);
    const T4 Hm2 = from_st2tot2(H2, N);
    auto w = fd::judge([&](const M3& x) { return mul(S1, x); }, [&](const M3& d) { return ddot(Hm2, d); }, S2, N, true, g, step(nS2), K * eps * nS1);
    report(c, "st2tot2::tprd(a)", w, dump);
    sc("st2tot2::tpld(b,C)");
    const tfm::st2tot2<N, T> H3 = tfm::st2tot2<N, T>::tpld(s2, CS);
    const T4 Hm3 = from_st2tot2(H3, N);
    auto v3 = fd::judge([&](const M3& x) { return mul(add(S1, ddot(rCS, x)), S2); }, [&](const M3& d) { return ddot(Hm3, d); },
                        Z, N, true, g, 1 / 64.0L, K * eps * 2 * nS2 * nCS);
    report(c, "st2tot2::tpld(b,C)", v3, dump);
    sc("st2tot2::tprd(a,C)");
    const tfm::st2tot2<N, T> H4 = tfm::st2tot2<N, T>::tprd(s1, CS);
    const T4 Hm4 = from_st2tot2(H4, N);
    auto v4 = fd::judge([&](const M3& x) { return mul(S1, add(S2, ddot(rCS, x))); }, [&](const M3& d) { return ddot(Hm4, d); },
                        Z, N, true, g, 1 / 64.0L, K * eps * 2 * nS1 * nCS);
    report(c, "st2tot2::tprd(a,C)", v4, dump);
  }
  // ---- transposition
  {
    sc("t2tot2::transpose_derivative");
    const auto H = tfm::t2tot2<N, T>::transpose_derivative();
    const T4 Hm = from_t2tot2(H, N);
    auto v = fd::judge([](const M3& x) { return tr(x); }, [&](const M3& d) { return ddot(Hm, d); }, A, N, false, g, step(nA), K * eps);
    report(c, "t2tot2::transpose_derivative", v, dump);
  }
}

// ---- eigenvalues and eigentensors: derivatives with respect to the tensor ---------------------
// The spectral data given to the helpers come from the long-double Jacobi (rounded to T), so that only the
// derivative formulas are under test (the eigen-solvers belong to C03).
template <unsigned short N, typename T>
static void eigen_case(const vf::Args& a, uint64_t idx, const char* tname) {
  vf::Rng g(a.seed, 6101 + N * 7 + sizeof(T), idx);
  static const char* ES[] = {"gap>0.3", "gap0.03..0.3", "rotated-frame", "diagonal"};
  const int st = int(idx % 4);
  const char* S = ES[st];
  const L eps = EpsOf<T>::v;
  // distinct eigenvalues with a controlled gap, random frame
  const L gapmin = (st == 1) ? L(g.uni(0.03, 0.3)) : L(g.uni(0.3, 1));
  L lam[3];
  lam[0] = g.uni(-1, 1); lam[1] = lam[0] + gapmin * (1 + g.uni(0, 1)); lam[2] = lam[1] + gapmin * (1 + g.uni(0, 1));
  for (int i = 2; i > 0; --i) std::swap(lam[i], lam[g.irange(0, i)]);
  const L scale = g.coin() ? 1.0L : L(g.logmag(-3, 3));
  M3 D = zero(); for (int i = 0; i < 3; ++i) D[i][i] = scale * lam[i];
  const M3 Q = (st == 3 || N == 1) ? eye() : random_rotation(g, N);
  auto s1 = mks<N, T>(sym(mul(mul(Q, D), tr(Q))));
  const M3 S1 = from_st(s1, N);
  const uint64_t h = vf::hash_arr(&s1[0], ssize(N));
  auto dump = [&] { vf::J j; j.s("T", tname).i("N", N).arr("s1", &s1[0], &s1[0] + ssize(N)); return j.str(); };
  const Ctx6 c{S, idx, h, tname, int(N)};
  // reference spectral decomposition of the rounded tensor; order: as Jacobi returns them, but in 2D the
  // out-of-plane direction must be the third one (documented)
  V3 w; M3 V; jacobi(S1, w, V);
  if (N == 2) {
    int kz = 0; for (int k = 1; k < 3; ++k) if (std::fabs(V[2][k]) > std::fabs(V[2][kz])) kz = k;
    if (kz != 2) { std::swap(w[kz], w[2]); for (int i = 0; i < 3; ++i) std::swap(V[i][kz], V[i][2]); }
  }
  if (det(V) < 0) for (int i = 0; i < 3; ++i) V[i][0] = -V[i][0];
  L gap = std::min(std::fabs(w[0] - w[1]), N == 2 ? L(INFINITY) : std::min(std::fabs(w[0] - w[2]), std::fabs(w[1] - w[2])));
  if (N == 1) gap = INFINITY;
  const L nS = norm(S1);
  tfm::tvector<3u, T> vp;
  tfm::rotation_matrix<T> m;
  for (int i = 0; i < 3; ++i) { vp[i] = static_cast<T>(w[i]); for (int j = 0; j < 3; ++j) m(i, j) = static_cast<T>(V[i][j]); }
  // eigen-tensor k of a perturbed tensor: the eigenvector closest to column k of V
  auto eigentensor = [&](const M3& x, int k) {
    V3 w2; M3 V2; jacobi(x, w2, V2);
    int best = 0; L bv = -1;
    for (int q = 0; q < 3; ++q) { L d = 0; for (int i = 0; i < 3; ++i) d += V2[i][q] * V[i][k]; if (std::fabs(d) > bv) { bv = std::fabs(d); best = q; } }
    M3 n; for (int i = 0; i < 3; ++i) for (int j = 0; j < 3; ++j) n[i][j] = V2[i][best] * V2[j][best];
    return std::make_pair(w2[best], n);
  };
  const L K = 256;
  const L hstep = std::min(gap, nS) / 4096;
  auto sc = [&](const char* f) { char api[112]; std::snprintf(api, sizeof api, "%s<%d,%s>", f, int(N), tname); vf::set_case(api, S, idx); };
  {
    sc("stensor::computeEigenValuesDerivatives");
    tfm::stensor<N, T> n0, n1, n2;
    tfm::stensor<N, T>::computeEigenValuesDerivatives(n0, n1, n2, m);
    const M3 nm[3] = {from_st(n0, N), from_st(n1, N), from_st(n2, N)};
    static const char* NM[] = {"stensor::computeEigenValuesDerivatives:n0", "stensor::computeEigenValuesDerivatives:n1", "stensor::computeEigenValuesDerivatives:n2"};
    for (int k = 0; k < 3; ++k) {
      auto v = fd::judge([&](const M3& x) { return scalar_m(eigentensor(x, k).first); }, [&](const M3& d) { return scalar_m(dot(nm[k], d)); },
                         S1, N, true, g, hstep, K * eps * 4);
      report(c, NM[k], v, dump);
    }
    const auto [t0, t1, t2] = tfm::stensor<N, T>::computeEigenTensors(m);
    const M3 tm[3] = {from_st(t0, N), from_st(t1, N), from_st(t2, N)};
    L e = 0; for (int k = 0; k < 3; ++k) e = std::max(e, dist(tm[k], eigentensor(S1, k).second));
    char api[112]; std::snprintf(api, sizeof api, "stensor::computeEigenTensors<%d,%s>", int(N), tname);
    R.check(api, S, idx, h, e, K * eps * 4, dump);
  }
  {
    sc("stensor::computeEigenTensorsDerivatives");
    tfm::st2tost2<N, T> d0, d1, d2;
    tfm::stensor<N, T>::computeEigenTensorsDerivatives(d0, d1, d2, vp, m, static_cast<T>(std::isfinite(double(gap)) ? gap * 1e-3L : 1e-3L));
    const T4 dm[3] = {from_st2tost2(d0, N), from_st2tost2(d1, N), from_st2tost2(d2, N)};
    static const char* NM[] = {"stensor::computeEigenTensorsDerivatives:dn0", "stensor::computeEigenTensorsDerivatives:dn1", "stensor::computeEigenTensorsDerivatives:dn2"};
    for (int k = 0; k < 3; ++k) {
      // conditioning 1/gap: the eigenvectors handed over carry a relative error eps, the eigenvalues eps*|s|
      const L tolr = std::isfinite(double(gap)) ? K * eps * 4 * (1 + nS / gap) / gap : K * eps;
      auto v = fd::judge([&](const M3& x) { return eigentensor(x, k).second; }, [&](const M3& d) { return ddot(dm[k], d); },
                         S1, N, true, g, hstep, tolr);
      report(c, NM[k], v, dump);
    }
  }
}

template <typename T>
static void dispatch(const vf::Args& a, uint64_t idx, const char* tname) {
  const int n = int((idx / 4) % 3);
  const bool eig = ((idx / 24) % 4) == 3;
  if (eig) {
    switch (n) {
      case 0: eigen_case<1, T>(a, idx, tname); break;
      case 1: eigen_case<2, T>(a, idx, tname); break;
      default: eigen_case<3, T>(a, idx, tname);
    }
    return;
  }
  switch (n) {
    case 0: one_case<1, T>(a, idx, tname); break;
    case 1: one_case<2, T>(a, idx, tname); break;
    default: one_case<3, T>(a, idx, tname);
  }
}

int main(int argc, char** argv) {
  vf::Args a(argc, argv);
  for (long i = 0; i < a.cases; ++i) {
    const uint64_t idx = a.only >= 0 ? uint64_t(a.only) : a.gidx(i);
    switch ((idx / 12) % 2) {
      case 0: dispatch<double>(a, idx, "double"); break;
      default: dispatch<float>(a, idx, "float");
    }
    if (a.only >= 0) break;
  }
  R.finish();
  return 0;
}
