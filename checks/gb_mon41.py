"""gb_mon41.py — numpy monitors of C41 (worker side, python3-vt): the state returned by generated
behaviours satisfies the discretised equations of their source, evaluated independently.

All tensor algebra is done on Mandel vectors ([xx yy zz √2xy √2xz √2yz]: Euclidean dot = double
contraction) with plain numpy; gbnp.st2m is used by the self test to tie the vector formulas to
3x3 index notation."""
import math
import random

import numpy as np

import gbnp
from gbnp import EPS

ULP = EPS


# ------------------------------------------------------------------ tensor helpers (Mandel vectors)
def tr(v):
    return v[0] + v[1] + v[2]


def idv(n):
    v = np.zeros(n)
    v[:3] = 1.0
    return v


def devv(v):
    return v - tr(v) / 3.0 * idv(len(v))


def seqv(s):
    d = devv(s)
    return math.sqrt(1.5 * float(d @ d))


def hooke(young, nu, e):
    la, mu = gbnp.lame(young, nu)
    return la * tr(e) * idv(len(e)) + 2 * mu * e


def hooke_inv(young, nu, s):
    return ((1 + nu) * s - nu * tr(s) * idv(len(s))) / young


def self_test():
    g = random.Random(1)
    for dim in (1, 2, 3):
        v = np.array([g.uniform(-1, 1) for _ in range(gbnp.SSIZE[dim])])
        m = gbnp.st2m(v)
        assert abs(seqv(v) - gbnp.seq_m(m)) < 1e-14
        assert np.allclose(gbnp.m2st(gbnp.hooke_m(2.0, 0.3, m), dim), hooke(2.0, 0.3, v), atol=1e-14)
        assert np.allclose(gbnp.m2st(gbnp.hooke_inv_m(2.0, 0.3, gbnp.hooke_m(2.0, 0.3, m)), dim), v, atol=1e-14)


# ------------------------------------------------------------------ random material / states
AXIAL = {"PlaneStress": 2, "AxisymmetricalGeneralisedPlaneStress": 1}


def rand_dir(g, n):
    while True:
        v = np.array([g.gauss(0, 1) for _ in range(n)])
        if np.linalg.norm(v) > 1e-3:
            return v / np.linalg.norm(v)


def rand_elastic(g):
    return g.uniform(50e9, 300e9), g.uniform(0.05, 0.45)


def rand_stress(g, n, seq_target, hyp, pressure=None):
    """random stress vector with the requested von Mises norm; zero (or prescribed) axial
    component for the plane stress hypotheses"""
    ax = AXIAL.get(hyp)
    for _ in range(100):
        s = rand_dir(g, n)
        if ax is not None:
            s[ax] = 0.0
        else:
            s += g.uniform(-1, 1) * idv(n)
        q = seqv(s)
        if q > 1e-2:
            s = s * (seq_target / q)
            return s
    raise RuntimeError("rand_stress")


def rand_increment(g, n, hyp, lo=-6.0, hi=-2.4):
    de = rand_dir(g, n) * 10 ** g.uniform(lo, hi)
    ax = AXIAL.get(hyp)
    if ax is not None:
        de[ax] = 0.0  # the axial total strain is not known to the caller in (generalised) plane stress
    return de


class Strata:
    def __init__(self):
        self.s = {}
        self.viol = []
        self.nviol = 0
        self.samples = []
        self.counters = {}
        self.n = 0
        self.distinct = 0
        self.perkey = {}

    def _keep(self, key):
        """at most 3 witnesses per violation key, 90 in all"""
        c = self.perkey.get(key, 0)
        self.perkey[key] = c + 1
        return c < 3 and len(self.viol) < 90

    def rec(self, key, err, tol, case, what=None, vkey=None):
        d = self.s.setdefault(key, {"n": 0, "max_err_over_tol": 0.0})
        d["n"] += 1
        r = err / tol if tol > 0 else (0.0 if err == 0 else float("inf"))
        if not (r == r):
            r = float("inf")
        d["max_err_over_tol"] = max(d["max_err_over_tol"], r)
        if not (err <= tol):
            self.nviol += 1
            if self._keep(vkey or key):
                c = dict(case() if callable(case) else case)
                c.update({"err": err, "tol": tol, "equation": key})
                self.viol.append({"key": vkey or key, "what": "%s: err=%.6g > tol=%.6g %s" % (key, err, tol, what or ""), "case": c})
            return False
        return True

    def skip(self, key, n=1):
        d = self.s.setdefault(key, {"n": 0, "max_err_over_tol": 0.0})
        d["skipped"] = d.get("skipped", 0) + n

    def count(self, k, n=1):
        self.counters[k] = self.counters.get(k, 0) + n

    def violation(self, key, what, case):
        self.nviol += 1
        if self._keep(key):
            self.viol.append({"key": key, "what": what, "case": case})

    def report(self):
        return {"n": self.n, "distinct": self.distinct, "viol": self.viol, "nviol": self.nviol, "strata": self.s,
                "viol_per_key": self.perkey,
                "samples": self.samples[:4], "counters": self.counters}


def fl(v):
    return [float(x) for x in v]


def hexs(v):
    return [float(x).hex() for x in v]


# ------------------------------------------------------------------ elasticity
def mon_elasticity(R, libpath, name, g, ncase, key):
    for hyp in gbnp.hypotheses(gbnp.gen.load(libpath), name):
        b = gbnp.B(libpath, name, hyp)
        n = b.ns
        for i in range(ncase):
            young, nu = rand_elastic(g)
            la, mu = gbnp.lame(young, nu)
            mag = 10 ** g.uniform(-7, -2)
            e0 = rand_dir(g, n) * mag
            de = rand_increment(g, n, hyp, -8, -2)
            ax = AXIAL.get(hyp)
            if ax is not None:
                e0[ax] = 0.0
            e1 = e0 + de
            sig0 = np.array([g.uniform(-1e8, 1e8) for _ in range(n)])
            szz0, dszz = g.uniform(-1e8, 1e8), g.uniform(-1e7, 1e7)
            esv0 = b.pack_esv(AxialStress=szz0)
            esv1 = b.pack_esv(AxialStress=szz0 + dszz)
            K0 = g.choice([0, 4])
            o = b.call(K0, g.uniform(0.1, 10), e0, e1, sig0, b.pack_mp(YoungModulus=young, PoissonRatio=nu), [], esv0, esv1)
            R.n += 1
            case = lambda: {"behaviour": name, "hyp": hyp, "young": young, "nu": nu, "eto0": hexs(e0), "eto1": hexs(e1),
                            "sigzz1": szz0 + dszz, "K0": K0, "rc": o["rc"], "thf": fl(o["thf"]), "msg": o["msg"]}
            if o["rc"] != 1:
                R.violation("%s:%s:integration-failed" % (key, hyp), "elastic behaviour returned %d" % o["rc"], case())
                continue
            got = np.array(o["thf"])
            if hyp == "PlaneStress":
                exp = np.zeros(n)
                c = young / (1 - nu * nu)
                exp[0] = c * (e1[0] + nu * e1[1])
                exp[1] = c * (e1[1] + nu * e1[0])
                exp[3] = 2 * mu * e1[3]
            elif hyp == "AxisymmetricalGeneralisedPlaneStress":
                # components (rr, zz, tt); the axial stress is prescribed, the axial strain unknown
                s = szz0 + dszz
                ezz = (s - la * (e1[0] + e1[2])) / (la + 2 * mu)
                t = e1[0] + ezz + e1[2]
                exp = np.array([la * t + 2 * mu * e1[0], s, la * t + 2 * mu * e1[2]])
            else:
                exp = hooke(young, nu, e1)
            scale = (abs(la) + 2 * mu) * float(np.sum(np.abs(e1))) + (abs(szz0 + dszz) if ax == 1 else 0.0)
            err = float(np.max(np.abs(got - exp)))
            # one key for the (rr, zz, tt) axial-direction convention of the generalised plane stress hypothesis
            vk = "%s:%s:axial-direction" % (key, hyp) if ax == 1 else None
            R.rec("%s:%s:hooke" % (key, hyp), err, 64 * ULP * scale + 1e-300, case,
                  "stress differs from Hooke's law: got %s expected %s" % (fl(got), fl(exp)), vkey=vk)
            if ax is not None:
                want = 0.0 if hyp == "PlaneStress" else szz0 + dszz
                R.rec("%s:%s:axial-stress" % (key, hyp), abs(got[ax] - want), 16 * ULP * max(scale, abs(want)) + 1e-300, case,
                      "axial stress %r instead of %r" % (float(got[ax]), want), vkey=vk)
            if i < 1:
                R.samples.append(case())
        R.distinct += ncase


# ------------------------------------------------------------------ Norton, implicit theta scheme
def norton_state(g, b, hyp, young, nu, with_p=True):
    n = b.ns
    ax = AXIAL.get(hyp)
    seq0 = 10 ** g.uniform(6.0, 8.5)  # 1 .. 316 MPa
    s0 = rand_stress(g, n, seq0, hyp)
    szz0 = 0.0
    if hyp == "AxisymmetricalGeneralisedPlaneStress":
        szz0 = g.uniform(-5e7, 5e7)
        s0[1] = szz0
    eel0 = hooke_inv(young, nu, s0)
    p0 = g.choice([0.0, g.uniform(0, 0.05)])
    de = rand_increment(g, n, hyp, -6.5, -2.7)
    return s0, eel0, p0, de, szz0


def norton_rate_dt(g, A, E, young, nu, eel0, de, theta, lo=1e-3, hi=0.5):
    """time step such that the viscoplastic increment estimated at the elastic trial point is a
    fraction in [lo, hi] of the strain needed to relax the trial stress completely"""
    mu = young / (2 * (1 + nu))
    st = hooke(young, nu, eel0 + theta * de)
    q = max(seqv(st), 1e5)
    rate = A * q ** E
    frac = 10 ** g.uniform(math.log10(lo), math.log10(hi))
    return frac * q / (3 * mu) / max(rate, 1e-300), q, rate


def mon_implicit_norton(R, libpath, name, g, ncase, spec):
    lib = gbnp.gen.load(libpath)
    A0, E0 = 8e-67, 8.2
    closed = spec.get("closed_tangent")
    fixed = spec.get("fixed") or {}
    pname = spec.get("pname", "p")
    key = spec.get("key", name)
    robust = spec.get("algo") in ("NewtonRaphson", "NewtonRaphson_NumericalJacobian")
    lit = spec.get("literals")
    for hyp in gbnp.hypotheses(lib, name):
        b = gbnp.B(lib, name, hyp)
        n = b.ns
        ax = AXIAL.get(hyp)
        nunk = n + 1 + (1 if ax is not None else 0)
        ok_calls = 0
        for i in range(ncase):
            young, nu = rand_elastic(g)
            la, mu = gbnp.lame(young, nu)
            theta = g.choice([0.5, 1.0, round(g.uniform(0.3, 1.0), 3)])
            eps = g.choice([1e-10, 1e-12, 1e-14])
            E = fixed.get("E") or g.choice([E0, round(g.uniform(1.0, 9.0), 3)])
            A = fixed.get("A") or 10 ** g.uniform(-2, 0) / (100e6 ** E)
            if lit:
                # variant whose constants are literals of the generated source: nothing is set at run time
                theta, eps, A, E = lit["theta"], lit["epsilon"], lit["A"], lit["E"]
            nj = [("numerical_jacobian_epsilon", 1e-9)] if spec.get("algo") in ("NewtonRaphson_NumericalJacobian", "Broyden", "PowellDogLeg_Broyden") else []
            for k, v in [] if lit else ([("theta", theta), ("epsilon", eps)] + nj + ([] if fixed else [("A", A), ("E", E)])):
                if gbnp.set_parameter(lib, name, k, v, hyp=None) != 1:
                    raise RuntimeError("setParameter %s failed" % k)
            s0, eel0, p0, de, szz0 = norton_state(g, b, hyp, young, nu)
            dt, qtrial, rate = norton_rate_dt(g, A, E, young, nu, eel0, de, theta)
            dszz = g.uniform(-1e6, 1e6) if hyp == "AxisymmetricalGeneralisedPlaneStress" else 0.0
            etozz0 = g.uniform(-1e-3, 1e-3)
            eto0 = rand_dir(g, n) * 10 ** g.uniform(-5, -2)
            if ax is not None:
                eto0[ax] = 0.0
            de = (eto0 + de) - eto0  # the increment the behaviour computes from the two total strains
            isv0 = b.pack_isv(**{"ElasticStrain": eel0, pname: p0, "AxialStrain": etozz0})
            mp = b.pack_mp(YoungModulus=young, PoissonRatio=nu)
            K0 = g.choice([0, 4]) if not (closed and ax is not None) else 0
            o = b.call(K0, dt, eto0, eto0 + de, s0, mp, isv0, b.pack_esv(AxialStress=szz0), b.pack_esv(AxialStress=szz0 + dszz))
            R.n += 1
            case = lambda: {"behaviour": name, "hyp": hyp, "young": young, "nu": nu, "A": A, "E": E, "theta": theta,
                            "epsilon": eps, "dt": dt, "eel0": hexs(eel0), "p0": p0, "deto": hexs(de), "etozz0": etozz0,
                            "sigzz0": szz0, "dsigzz": dszz, "K0": K0, "rc": o["rc"], "isv1": fl(o["isv"]), "thf": fl(o["thf"]),
                            "msg": o["msg"], "trial_seq": qtrial}
            if o["rc"] != 1:
                # well-posed small increment: the relaxation over the step is < 50% of the trial stress.  Newton-Raphson
                # (analytical or numerical jacobian) must converge there (0 failure in 1e5 cases); the quasi-Newton,
                # fixed-radius dog-leg and Levenberg-Marquardt solvers fail now and then (LM: 3 in 15000, others 3-10%):
                # their failures are counted (the caller is told, rc=-1), and a convergence rate below 50% is reported
                # once per hypothesis
                if robust:
                    R.violation("%s:%s:no-convergence%s" % (key, hyp, "-with-tangent-request" if K0 == 4 else ""),
                                "integration failed (rc=%d) on a well-posed increment (viscoplastic fraction <= 0.5): %s" % (o["rc"], o["msg"]), case())
                else:
                    R.skip("%s:%s:residual" % (key, hyp))
                    R.count("%s:no-convergence" % key)
                continue
            ok_calls += 1
            eel1 = b.isv(o["isv"], "ElasticStrain")
            p1 = b.isv(o["isv"], pname)
            deel, dp = eel1 - eel0, p1 - p0
            st = hooke(young, nu, eel0 + theta * deel)
            q = seqv(st)
            nn = 1.5 * devv(st) / max(q, 1e-12 * young)
            feel = deel + dp * nn - de
            fp = dp - A * q ** E * dt
            res = [feel, [fp]]
            sig1 = hooke(young, nu, eel1)
            if ax is not None:
                detozz = b.isv(o["isv"], "AxialStrain") - etozz0
                feel[ax] -= detozz
                want = 0.0 if hyp == "PlaneStress" else szz0 + dszz
                res.append([(sig1[ax] - want) / young])
            F = np.concatenate([np.asarray(x, float) for x in res])
            norm = float(np.linalg.norm(F)) / nunk
            scale = float(np.max(np.abs(eel1))) + float(np.max(np.abs(de))) + abs(p1) + abs(etozz0)
            R.rec("%s:%s:residual" % (key, hyp), norm, 20 * eps + 64 * ULP * scale, case,
                  "theta-scheme residual norm/n = %.3g (feel %s, fp %.3g)" % (norm, fl(feel), fp))
            R.rec("%s:%s:dp-sign" % (key, hyp), max(0.0, -dp), 20 * nunk * eps + 64 * ULP * scale, case, "negative viscoplastic increment %r" % dp)
            got = np.array(o["thf"])
            ssc = (abs(la) + 2 * mu) * float(np.sum(np.abs(eel1)))
            R.rec("%s:%s:final-stress" % (key, hyp), float(np.max(np.abs(got - sig1))), 16 * ULP * ssc, case,
                  "final stress is not Hooke(eel1) [K0=%d]: got %s expected %s" % (K0, fl(got), fl(sig1)),
                  vkey="%s:%s:final-stress%s" % (key, hyp, "-with-tangent-request" if K0 == 4 else ""))
            if i < 1 and hyp in ("Tridimensional", "PlaneStress"):
                R.samples.append(case())
        R.distinct += ok_calls
        if ok_calls < 0.5 * ncase:
            R.violation("%s:%s:converges-rarely" % (key, hyp), "only %d of %d well-posed increments were integrated" % (ok_calls, ncase),
                        {"behaviour": name, "hyp": hyp, "converged": ok_calls, "cases": ncase})


# ------------------------------------------------------------------ Norton, IsotropicMisesCreep DSL
def mon_norton_creep(R, libpath, name, g, ncase, spec):
    lib = gbnp.gen.load(libpath)
    for hyp in gbnp.hypotheses(lib, name):
        b = gbnp.B(lib, name, hyp)
        n = b.ns
        okc = 0
        for i in range(ncase):
            young, nu = rand_elastic(g)
            la, mu = gbnp.lame(young, nu)
            theta = g.choice([0.5, 1.0, round(g.uniform(0.3, 1.0), 3)])
            eps = g.choice([1e-9, 1e-11, 1e-13])
            E = g.choice([8.2, round(g.uniform(1.0, 9.0), 3)])
            A = 10 ** g.uniform(-2, 0) / (100e6 ** E)
            lit = spec.get("literals")
            if lit:
                theta, eps = lit["theta"], lit["epsilon"]
            for k, v in [] if lit else (("theta", theta), ("epsilon", eps)):
                if gbnp.set_parameter(lib, name, k, v) != 1:
                    raise RuntimeError("setParameter %s failed" % k)
            s0, eel0, p0, de, _ = norton_state(g, b, hyp, young, nu)
            dt, qtrial, rate = norton_rate_dt(g, A, E, young, nu, eel0, de, theta)
            eto0 = rand_dir(g, n) * 10 ** g.uniform(-5, -2)
            de = (eto0 + de) - eto0
            isv0 = b.pack_isv(ElasticStrain=eel0, EquivalentViscoplasticStrain=p0)
            mp = b.pack_mp(YoungModulus=young, PoissonRatio=nu, NortonCoefficient=A, NortonExponent=E)
            K0 = g.choice([0, 4])
            o = b.call(K0, dt, eto0, eto0 + de, s0, mp, isv0, b.pack_esv(), b.pack_esv())
            R.n += 1
            case = lambda: {"behaviour": name, "hyp": hyp, "young": young, "nu": nu, "A": A, "E": E, "theta": theta,
                            "epsilon": eps, "dt": dt, "eel0": hexs(eel0), "p0": p0, "deto": hexs(de), "K0": K0, "rc": o["rc"],
                            "isv1": fl(o["isv"]), "thf": fl(o["thf"]), "msg": o["msg"]}
            if o["rc"] != 1:
                R.violation("%s:%s:no-convergence" % (name, hyp), "integration failed (rc=%d) on a well-posed increment: %s" % (o["rc"], o["msg"]), case())
                continue
            okc += 1
            eel1 = b.isv(o["isv"], "ElasticStrain")
            p1 = b.isv(o["isv"], "EquivalentViscoplasticStrain")
            deel, dp = eel1 - eel0, p1 - p0
            # direction of the elastic trial stress at the theta point
            se = 2 * mu * devv(eel0 + theta * de)
            qe = seqv(se)
            nn = 1.5 * se / qe if qe > 0.01 * young * ULP else np.zeros(n)
            scale = float(np.max(np.abs(eel1))) + float(np.max(np.abs(de))) + abs(p1)
            feel = deel + dp * nn - de
            R.rec("%s:%s:strain-split" % (name, hyp), float(np.max(np.abs(feel))), 64 * ULP * scale, case,
                  "deel + dp n - deto = %s" % fl(feel))
            q = seqv(hooke(young, nu, eel0 + theta * deel))
            fp = dp - A * q ** E * dt
            # cancellation in seq(theta): relative 1e-16 of the trial stress, amplified by E
            cond = E * A * q ** max(E - 1, 0) * dt * (qe * 8 * ULP)
            R.rec("%s:%s:flow" % (name, hyp), abs(fp), eps + 64 * ULP * scale + 16 * cond, case,
                  "dp - A seq(theta)^E dt = %.3g (dp=%.6g)" % (fp, dp))
            R.rec("%s:%s:dp-sign" % (name, hyp), max(0.0, -dp), eps, case, "negative viscoplastic increment %r" % dp)
            sig1 = hooke(young, nu, eel1)
            ssc = (abs(la) + 2 * mu) * float(np.sum(np.abs(eel1)))
            R.rec("%s:%s:final-stress" % (name, hyp), float(np.max(np.abs(np.array(o["thf"]) - sig1))), 16 * ULP * ssc, case,
                  "final stress is not Hooke(eel1)")
            if i < 1 and hyp == "Tridimensional":
                R.samples.append(case())
        R.distinct += okc


# ------------------------------------------------------------------ J2 plasticity (isotropic DSL and brick)
def plast_state(g, b, hyp, young, nu, s0y, H):
    n = b.ns
    p0 = g.choice([0.0, g.uniform(0, 0.02)])
    Ry = s0y + H * p0
    u = g.choice([1.0, 1.0, g.uniform(0.0, 1.0), g.uniform(0.9, 1.0)])
    s0 = rand_stress(g, n, max(u * Ry, 1e-3 * Ry), hyp)
    szz0 = 0.0
    if hyp == "AxisymmetricalGeneralisedPlaneStress":
        szz0 = 0.0
    eel0 = hooke_inv(young, nu, s0)
    de = rand_increment(g, n, hyp, -6.5, -2.5)
    return s0, eel0, p0, de


def mon_plasticity(R, libpath, name, g, ncase, spec):
    """kind plasticity (IsotropicPlasticMisesFlow, material properties H, s0) and brick_plasticity
    (Implicit + StandardElastoViscoPlasticity brick, parameters s0, Hp)"""
    lib = gbnp.gen.load(libpath)
    brick = spec["kind"] == "brick_plasticity"
    for hyp in gbnp.hypotheses(lib, name):
        b = gbnp.B(lib, name, hyp)
        n = b.ns
        ax = AXIAL.get(hyp)
        nunk = n + 1 + (1 if ax is not None else 0)
        okc = 0
        regimes = {"elastic": 0, "plastic": 0}
        for i in range(ncase):
            young, nu = rand_elastic(g)
            la, mu = gbnp.lame(young, nu)
            theta = g.choice([1.0, 1.0, round(g.uniform(0.5, 1.0), 3)])
            eps = g.choice([1e-10, 1e-12, 1e-14]) if brick else g.choice([1e-9, 1e-11, 1e-13])
            s0y = g.uniform(20e6, 500e6)
            H = g.choice([0.0, g.uniform(0, 0.1) * young])
            pars = [("theta", theta), ("epsilon", eps)] + ([("s0", s0y), ("Hp", H)] if brick else [])
            lit = spec.get("literals")
            if lit:
                theta, eps = lit["theta"], lit["epsilon"]
                if brick:
                    s0y, H = lit["s0"], lit["Hp"]
                pars = []
            for k, v in pars:
                if gbnp.set_parameter(lib, name, k, v) != 1:
                    raise RuntimeError("setParameter %s failed" % k)
            s0, eel0, p0, de = plast_state(g, b, hyp, young, nu, s0y, H)
            etozz0 = g.uniform(-1e-3, 1e-3)
            eto0 = rand_dir(g, n) * 10 ** g.uniform(-5, -2)
            if ax is not None:
                eto0[ax] = 0.0
            de = (eto0 + de) - eto0
            dszz = g.uniform(-1e6, 1e6) if hyp == "AxisymmetricalGeneralisedPlaneStress" else 0.0
            pn = "EquivalentPlasticStrain"
            kw = {"ElasticStrain": eel0, pn: p0, "AxialStrain": etozz0}
            isv0 = b.pack_isv(**kw)
            mp = b.pack_mp(YoungModulus=young, PoissonRatio=nu, H=H, s0=s0y)
            K0 = g.choice([0, 4])
            o = b.call(K0, 1.0, eto0, eto0 + de, s0, mp, isv0, b.pack_esv(AxialStress=0.0), b.pack_esv(AxialStress=dszz))
            R.n += 1
            case = lambda: {"behaviour": name, "hyp": hyp, "young": young, "nu": nu, "s0": s0y, "H": H, "theta": theta,
                            "epsilon": eps, "eel0": hexs(eel0), "p0": p0, "deto": hexs(de), "etozz0": etozz0, "dsigzz": dszz,
                            "K0": K0, "rc": o["rc"], "isv1": fl(o["isv"]), "thf": fl(o["thf"]), "msg": o["msg"]}
            if o["rc"] != 1:
                R.violation("%s:%s:no-convergence" % (name, hyp), "integration failed (rc=%d): %s" % (o["rc"], o["msg"]), case())
                continue
            okc += 1
            eel1 = b.isv(o["isv"], "ElasticStrain")
            p1 = b.isv(o["isv"], pn)
            deel, dp = eel1 - eel0, p1 - p0
            scale = float(np.max(np.abs(eel1))) + float(np.max(np.abs(de))) + abs(p1) + abs(etozz0)
            rnd = 64 * ULP * scale
            ftol = (20 * nunk * eps if brick else eps) + rnd
            st = hooke(young, nu, eel0 + theta * deel)
            q = seqv(st)
            sig1 = hooke(young, nu, eel1)
            if brick:
                nn = 1.5 * devv(st) / q if q > 0 else np.zeros(n)
            else:
                se = 2 * mu * devv(eel0 + theta * de)
                qe = seqv(se)
                nn = 1.5 * se / qe if qe > 100 * young * ULP else np.zeros(n)
            feel = deel + dp * nn - de
            if ax is not None:
                feel[ax] -= b.isv(o["isv"], "AxialStrain") - etozz0
                want = 0.0 if hyp == "PlaneStress" else dszz
                R.rec("%s:%s:axial-stress" % (name, hyp), abs(sig1[ax] - want) / young, ftol, case,
                      "axial stress equation: (szz - sigzz)/young = %.3g" % ((sig1[ax] - want) / young))
            R.rec("%s:%s:strain-split" % (name, hyp), float(np.linalg.norm(feel)) / (nunk if brick else 1.0), ftol if brick else rnd, case,
                  "deel + dp n - deto = %s" % fl(feel))
            f = (q - H * (p0 + theta * dp) - s0y) / young
            # Kuhn-Tucker conditions at the theta point
            R.rec("%s:%s:yield" % (name, hyp), max(f, 0.0), ftol, case, "f(theta)/young = %.3g > 0" % f)
            R.rec("%s:%s:dp-sign" % (name, hyp), max(-dp, 0.0), ftol, case, "dp = %.3g < 0" % dp)
            R.rec("%s:%s:consistency" % (name, hyp), min(abs(f), abs(dp)), ftol, case, "dp.f != 0: dp=%.3g f/young=%.3g" % (dp, f))
            if dp > ftol:
                regimes["plastic"] += 1
            else:
                regimes["elastic"] += 1
            ssc = (abs(la) + 2 * mu) * float(np.sum(np.abs(eel1)))
            got = np.array(o["thf"])
            R.rec("%s:%s:final-stress" % (name, hyp), float(np.max(np.abs(got - sig1))), 16 * ULP * ssc, case,
                  "final stress is not Hooke(eel1)")
            if ax is None and theta == 1.0:
                # radial return identity: deviator scaled along the trial direction, pressure from the trial state
                strial = hooke(young, nu, eel0 + de)
                qt = seqv(strial)
                exp = tr(strial) / 3 * idv(n) + devv(strial) * (1 - 3 * mu * dp / qt if qt > 0 else 1.0)
                R.rec("%s:%s:radial-return" % (name, hyp), float(np.max(np.abs(got - exp))),
                      (256 * ULP + 0) * ssc + 3 * mu * rnd + (3 * mu * ftol if brick else 0), case,
                      "stress is not the radial return of the trial stress")
            if i < 1 and hyp in ("Tridimensional", "PlaneStress"):
                R.samples.append(case())
        R.distinct += okc
        R.count("%s:%s:plastic-steps" % (name, hyp), regimes["plastic"])
        R.count("%s:%s:elastic-steps" % (name, hyp), regimes["elastic"])


# ------------------------------------------------------------------ brick Norton
def mon_brick_norton(R, libpath, name, g, ncase, spec):
    lib = gbnp.gen.load(libpath)
    for hyp in gbnp.hypotheses(lib, name):
        b = gbnp.B(lib, name, hyp)
        n = b.ns
        ax = AXIAL.get(hyp)
        nunk = n + 1 + (1 if ax is not None else 0)
        okc = 0
        for i in range(ncase):
            young, nu = rand_elastic(g)
            la, mu = gbnp.lame(young, nu)
            theta = g.choice([0.5, 1.0, round(g.uniform(0.3, 1.0), 3)])
            eps = g.choice([1e-10, 1e-12, 1e-14])
            E = g.choice([3.2, round(g.uniform(1.0, 8.0), 3)])
            Kn = g.uniform(50e6, 300e6)
            lit = spec.get("literals")
            if lit:
                theta, eps, Kn, E = lit["theta"], lit["epsilon"], lit["Kn"], lit["En"]
            for k, v in [] if lit else (("theta", theta), ("epsilon", eps), ("Kn", Kn), ("En", E)):
                if gbnp.set_parameter(lib, name, k, v) != 1:
                    raise RuntimeError("setParameter %s failed" % k)
            A = 1.0 / Kn ** E
            s0, eel0, p0, de, szz0 = norton_state(g, b, hyp, young, nu)
            dt, qtrial, rate = norton_rate_dt(g, A, E, young, nu, eel0, de, theta)
            dszz = g.uniform(-1e6, 1e6) if hyp == "AxisymmetricalGeneralisedPlaneStress" else 0.0
            etozz0 = g.uniform(-1e-3, 1e-3)
            eto0 = rand_dir(g, n) * 10 ** g.uniform(-5, -2)
            if ax is not None:
                eto0[ax] = 0.0
            de = (eto0 + de) - eto0  # the increment the behaviour computes from the two total strains
            isv0 = b.pack_isv(ElasticStrain=eel0, EquivalentViscoplasticStrain=p0, AxialStrain=etozz0)
            mp = b.pack_mp(YoungModulus=young, PoissonRatio=nu)
            K0 = g.choice([0, 4])
            o = b.call(K0, dt, eto0, eto0 + de, s0, mp, isv0, b.pack_esv(AxialStress=szz0), b.pack_esv(AxialStress=szz0 + dszz))
            R.n += 1
            case = lambda: {"behaviour": name, "hyp": hyp, "young": young, "nu": nu, "K": Kn, "E": E, "theta": theta,
                            "epsilon": eps, "dt": dt, "eel0": hexs(eel0), "p0": p0, "deto": hexs(de), "etozz0": etozz0,
                            "sigzz0": szz0, "dsigzz": dszz, "K0": K0, "rc": o["rc"], "isv1": fl(o["isv"]), "thf": fl(o["thf"]),
                            "msg": o["msg"]}
            if o["rc"] != 1:
                R.violation("%s:%s:no-convergence" % (name, hyp), "integration failed (rc=%d) on a well-posed increment: %s" % (o["rc"], o["msg"]), case())
                continue
            okc += 1
            eel1 = b.isv(o["isv"], "ElasticStrain")
            p1 = b.isv(o["isv"], "EquivalentViscoplasticStrain")
            deel, dp = eel1 - eel0, p1 - p0
            st = hooke(young, nu, eel0 + theta * deel)
            q = seqv(st)
            nn = 1.5 * devv(st) / q if q > 0 else np.zeros(n)
            feel = deel + dp * nn - de
            fp = dp - dt * (q / Kn) ** E
            res = [feel, [fp]]
            sig1 = hooke(young, nu, eel1)
            if ax is not None:
                feel[ax] -= b.isv(o["isv"], "AxialStrain") - etozz0
                want = 0.0 if hyp == "PlaneStress" else szz0 + dszz
                res.append([(sig1[ax] - want) / young])
            F = np.concatenate([np.asarray(x, float) for x in res])
            norm = float(np.linalg.norm(F)) / nunk
            scale = float(np.max(np.abs(eel1))) + float(np.max(np.abs(de))) + abs(p1) + abs(etozz0)
            R.rec("%s:%s:residual" % (name, hyp), norm, 20 * eps + 64 * ULP * scale, case,
                  "theta-scheme residual norm/n = %.3g (feel %s, fp %.3g)" % (norm, fl(feel), fp))
            R.rec("%s:%s:dp-sign" % (name, hyp), max(0.0, -dp), 4 * nunk * eps + 64 * ULP * scale, case, "negative viscoplastic increment %r" % dp)
            ssc = (abs(la) + 2 * mu) * float(np.sum(np.abs(eel1)))
            R.rec("%s:%s:final-stress" % (name, hyp), float(np.max(np.abs(np.array(o["thf"]) - sig1))), 16 * ULP * ssc, case,
                  "final stress is not Hooke(eel1)")
            if i < 1 and hyp in ("Tridimensional",):
                R.samples.append(case())
        R.distinct += okc


# ------------------------------------------------------------------ Runge-Kutta
def rk_rhs(young, nu, A, E, rate_e):
    """y = (eel (n), p) -> dy/dt ; evp is reconstructed (devp = dp n)"""
    def f(t, y):
        eel = y[:-1]
        s = hooke(young, nu, eel)
        q = seqv(s)
        nn = 1.5 * devv(s) / q if q > 10.e-7 else np.zeros(len(eel))
        dp = A * q ** E
        return np.concatenate([rate_e - dp * nn, [dp]])
    return f


def rk_fixed(algo, f, y0, dt):
    if algo == "euler":
        return y0 + dt * f(0, y0)
    if algo == "rk2":
        k1 = dt * f(0, y0)
        return y0 + dt * f(0, y0 + 0.5 * k1)
    if algo == "rk4":
        k1 = dt * f(0, y0)
        k2 = dt * f(0, y0 + 0.5 * k1)
        k3 = dt * f(0, y0 + 0.5 * k2)
        k4 = dt * f(0, y0 + k3)
        return y0 + (k1 + 2 * k2 + 2 * k3 + k4) / 6
    raise KeyError(algo)


def rk_reference(f, y0, dt):
    """fine sub-stepped classical RK4 with step doubling: returns (y, estimated error)"""
    def run(N):
        h = dt / N
        y = y0.copy()
        for _ in range(N):
            y = rk_fixed("rk4", f, y, h)
        return y
    a, b = run(40), run(80)
    return b + (b - a) / 15, float(np.max(np.abs(b - a)))


def mon_norton_rk(R, libs, g, ncase):
    """libs: list of (libpath, name, spec) for the six algorithms; the same cases are given to all"""
    ent = [(gbnp.gen.load(lp), nm, sp) for lp, nm, sp in libs]
    hyps = gbnp.hypotheses(ent[0][0], ent[0][1])
    for hyp in hyps:
        bs = [(gbnp.B(l, nm, hyp), nm, sp) for l, nm, sp in ent]
        n = bs[0][0].ns
        for i in range(ncase):
            young, nu = rand_elastic(g)
            la, mu = gbnp.lame(young, nu)
            E = g.choice([8.2, round(g.uniform(1.0, 9.0), 3)])
            A = 10 ** g.uniform(-2, 0) / (100e6 ** E)
            s0, eel0, p0, de, _ = norton_state(g, bs[0][0], hyp, young, nu)
            # non stiff range: the relaxation over the step is at most 20% of the (larger of initial and trial) stress
            qmax = max(seqv(s0), seqv(hooke(young, nu, eel0 + de)), 1e5)
            rate = A * qmax ** E
            dt = 10 ** g.uniform(-3, math.log10(0.2)) * qmax / (3 * mu) / rate
            evp0 = rand_dir(g, n) * g.uniform(0, 1e-2)
            eto0 = eel0 + evp0
            de = (eto0 + de) - eto0
            f = rk_rhs(young, nu, A, E, de / dt)
            y0 = np.concatenate([eel0, [p0]])
            yref, eref = rk_reference(f, y0, dt)
            for b, nm, sp in bs:
                eps = g.choice([1e-10, 1e-11, 1e-12])
                if sp.get("literals"):
                    eps = sp["literals"]["epsilon"]
                elif gbnp.set_parameter(b.lib, nm, "epsilon", eps) != 1:
                    raise RuntimeError("setParameter epsilon failed")
                isv0 = b.pack_isv(ElasticStrain=eel0, p=p0, evp=evp0)
                mp = b.pack_mp(YoungModulus=young, PoissonRatio=nu, A=A, E=E)
                o = b.call(0, dt, eto0, eto0 + de, s0, mp, isv0, b.pack_esv(), b.pack_esv())
                R.n += 1
                algo = sp["algo"]
                case = lambda: {"behaviour": nm, "hyp": hyp, "young": young, "nu": nu, "A": A, "E": E, "epsilon": eps, "dt": dt,
                                "eel0": hexs(eel0), "p0": p0, "deto": hexs(de), "rc": o["rc"], "isv1": fl(o["isv"]),
                                "thf": fl(o["thf"]), "msg": o["msg"], "reference": fl(yref), "reference_error": eref}
                if o["rc"] != 1:
                    R.violation("%s:%s:integration-failed" % (nm, hyp),
                                "integration failed (rc=%d) on a non-stiff increment: %s" % (o["rc"], o["msg"]), case())
                    continue
                eel1 = b.isv(o["isv"], "ElasticStrain")
                p1 = b.isv(o["isv"], "p")
                evp1 = b.isv(o["isv"], "evp")
                y1 = np.concatenate([eel1, [p1]])
                scale = float(np.max(np.abs(y1))) + float(np.max(np.abs(de))) + float(np.max(np.abs(evp1)))
                dpref = abs(yref[-1] - p0)
                if algo in ("euler", "rk2", "rk4"):
                    # one step of the scheme itself, evaluated independently
                    yd = rk_fixed(algo, f, y0, dt)
                    R.rec("%s:%s:scheme" % (nm, hyp), float(np.max(np.abs(y1 - yd))), 1e-9 * (dpref + float(np.max(np.abs(de)))) + 64 * ULP * scale,
                          case, "state differs from one %s step: got %s expected %s" % (algo, fl(y1), fl(yd)))
                else:
                    if eref > 0.02 * eps:
                        R.skip("%s:%s:reference" % (nm, hyp))
                    else:
                        R.rec("%s:%s:reference" % (nm, hyp), float(np.max(np.abs(y1 - yref))), 1000 * eps + 64 * ULP * scale, case,
                              "state differs from the fine reference integration: got %s expected %s" % (fl(y1), fl(yref)))
                # additive split and auxiliary relations whatever the scheme
                R.rec("%s:%s:strain-partition" % (nm, hyp), float(np.max(np.abs((eel1 - eel0) + (evp1 - evp0) - de))), 2048 * ULP * scale + 1e-300, case,
                      "deel + devp != deto")
                sig1 = hooke(young, nu, eel1)
                ssc = (abs(la) + 2 * mu) * float(np.sum(np.abs(eel1)))
                R.rec("%s:%s:final-stress" % (nm, hyp), float(np.max(np.abs(np.array(o["thf"]) - sig1))), 16 * ULP * ssc, case,
                      "final stress is not Hooke(eel1)")
                if i < 1 and hyp == "Tridimensional" and algo in ("rk54", "euler"):
                    R.samples.append(case())
        R.distinct += ncase * len(bs)


# ------------------------------------------------------------------ entry point
def run(group, seed, ncase):
    """group: list of spec dicts (+ 'lib')"""
    self_test()
    R = Strata()
    rk = [(s["lib"], s["name"], s) for s in group if s["kind"] == "norton_rk"]
    for s in group:
        g = random.Random("%s/%s" % (seed, s["name"]))
        k = s["kind"]
        if k == "elasticity":
            mon_elasticity(R, s["lib"], s["name"], g, ncase, s["key"])
        elif k == "implicit_norton":
            mon_implicit_norton(R, s["lib"], s["name"], g, ncase, s)
        elif k == "norton_creep":
            mon_norton_creep(R, s["lib"], s["name"], g, ncase, s)
        elif k in ("plasticity", "brick_plasticity"):
            mon_plasticity(R, s["lib"], s["name"], g, ncase, s)
        elif k == "brick_norton":
            mon_brick_norton(R, s["lib"], s["name"], g, ncase, s)
    if rk:
        mon_norton_rk(R, rk, random.Random("%s/rk/%s" % (seed, rk[0][1])), ncase)
    return R.report()
