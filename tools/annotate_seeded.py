#!/usr/bin/env python3
"""annotate_seeded.py — (re)write the `verif` section of every seeded/<ID>/meta.json from the stored outputs
(demo_with/without_change.out, check_<ID>.out) and the history notes below (what was missed at first and what was
changed in the check).  tools/try_seed.sh copies the author's meta.json again on every run, hence this tool."""
import glob
import json
import os
import re

V = os.path.dirname(os.path.dirname(os.path.abspath(__file__)))
HISTORY = {
    "C39": "first run MISSED (the policy was only probed with K0=4); policy loop extended to every request kind (prediction operators, +100 flag); then caught",
    "C17": "first run MISSED (partial views on non-square matrices appeared about once per run, by chance); sub-view quota added to the generator; then caught",
    "C31": "first run MISSED (comment bodies never contained '*' or '/'); hostile comment bodies and the class comments-hostile added; then caught",
    "C37": "first run MISSED (@Data option spellings drawn at random: no table with extrapolation \"constant\" on seed 0); the 15 option spellings forced in every run with points outside the table; then caught",
    "C19": "first run MISSED (only the std::vector constructor overloads of the wrapper classes were used); the tfel::math::vector overloads of the six wrappers added as subjects; then caught",
    "C53": "first run MISSED (pressures and axial loads were constant in time, one step); ramp and up-down loading histories added (the final state of a linear elastic pipe only depends on the final loads); then caught",
    "C50": "first run MISSED (no behaviour wrapper, no law reading the begin-of-step stress); rate-form law VfHypo and the LogarithmicStrain1D / SmallStrainTridimensional wrappers (mtest and ptest) added; outcome below is the re-run",
    "C30": "first run MISSED (with several managers alive every key fell under the open finding C30:concurrent-managers:*); single-thread stratum with idle managers created before/after the executing one added (no concurrency involved, clean on the unchanged tree); outcome below is the re-run",
    "C36": "first run MISSED (one input per mfront process); scenario same-process-after-others added (a behaviour, a property and a model treated before the input in one process, kind-specific build_identifier options); outcome below is the re-run",
    "C42": "first run MISSED (no external state variable ever changed over a step); temperature increments (1 K, 150 K), bricks with T-dependent elastic properties and theta in {0.5, 1} added as planned strata; outcome below is the re-run",
    "C44": "first run MISSED (axes conventions were not crossed with every hypothesis on data with three distinct moduli); (convention x hypothesis) strata against a 3D reference added; outcome below is the re-run",
    "C49": "first run MISSED (every run at verbose level1, default iteration limit); verbosity and @MaximumNumberOfIterations added as factors, accepted states checked against the convergence criteria; outcome below is the re-run",
    "C55": "first run MISSED (only matched stress-measure / tangent pairs were judged); full (strategy x stress measure x tangent flavour x dimension) cross product judged against finite differences; outcome below is the re-run",
    "C54": "first run MISSED (no mutation makes a name refer to itself); name-aliasing mutator, systematic keyword sweep and a self-referential-definition stratum added; the latter found on the UNCHANGED tree that `@ExternalStateVariable<function> 'T' 'T'` and `@ImposedStress<function>` self references already exhaust the stack (genuine defect, fixed by commit 00aeba305, re-entrance guard in FunctionEvolution); with that fix the seeded change no longer breaks the property (the self reference is reported as 'cyclic dependency' — checked by hand with the change applied), so the final exit 0 below is the right verdict",
    "C35": "first run MISSED (no mutation placed @InitJacobian before @Algorithm within the quick budget); systematic keyword sweep added (every keyword of every DSL alone after the header / inside a real input; it found 3 genuine crash sites on the unchanged tree, fixed); outcome below is the re-run",
    "C43": "first run would have been out of reach (MohrCoulomb appears in no repository test file, the check only harvested those); configuration space now synthesised over every registered stress criterion x associativity x flow x hardening; caught",
}


def last(pattern, text, default="?"):
    r = re.findall(pattern, text, re.M)
    return r[-1] if r else default


def main():
    for d in sorted(glob.glob(V + "/seeded/C*")):
        pid = os.path.basename(d)
        mp = d + "/meta.json"
        if not os.path.exists(mp):
            continue
        m = json.load(open(mp))
        keys, rc = [], None
        for o in sorted(glob.glob(d + "/check_*.out")):
            t = open(o, errors="replace").read()
            keys += re.findall(r"^\s*key=(\S.*)$", t, re.M)
            r = re.findall(r"^rc=(\d+)", t, re.M)
            rc = int(r[-1]) if r else rc
        dw = open(d + "/demo_with_change.out", errors="replace").read() if os.path.exists(d + "/demo_with_change.out") else ""
        dwo = open(d + "/demo_without_change.out", errors="replace").read() if os.path.exists(d + "/demo_without_change.out") else ""
        ran = ["author's demonstration with the change, in the scratch worktree (exit %s)" % last(r"exit=(\d+)", dw),
               "author's demonstration without the change (exit %s)" % last(r"exit=(\d+)", dwo),
               "git -C /repo apply patch.diff; ./vf check %s (quick, seed 0); git -C /repo checkout -- ." % pid]
        if pid == "C51":
            ran[0] = "demonstration with the change: run by me in the author's scratch worktree at the time (non-zero exit); output not stored"
            ran[1] = "demonstration without the change: exit 0 at the time; output not stored"
        m["verif"] = {"ran": ran, "check_exit": rc, "detected": rc == 1, "distinct_keys": len(set(keys)), "first_keys": sorted(set(keys))[:8],
                      "history": HISTORY.get(pid, "caught on the first run")}
        json.dump(m, open(mp, "w"), indent=1)
        print(pid, "rc=%s" % rc, len(set(keys)), "" if rc == 1 else "<-- not detected")


if __name__ == "__main__":
    main()
