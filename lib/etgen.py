"""etgen — generator of the C17 harness translation units (DESIGN.md §4.1 C17).

TFEL array types are compile-time objects, so random *programs* have to be emitted as C++:
every program is one TFEL statement  `D op E`  (op in = += -= *= /=, or element accesses)
over operands of one family (tvector / tmatrix / stensor / tensor / fsarray / vector /
runtime_array / matrix), where every operand is either a plain object or one of the views
the library documents (map, View, CoalescedView, StridedCoalescedView, ViewsArray, row /
column / sub-matrix views, slices, map_derivative...).

Independence of the oracle: for every operand the generator computes, from the *documented*
index mapping only (docs/web/tfel-math.md "Views", the doxygen of tmatrix::row_view & co),
the table  logical element -> cell of the underlying store; the expected value of every
destination element is emitted as a plain scalar C++ expression over snapshots of the stores.
Nothing of TFEL is used on the reference side (see harness/math/c17_support.hxx).

Restrictions (operations the library does not provide, found by probing; not judged):
 * matrix<T> has no binary operators: only  = += -= *= /=  with a matrix / scalar operand;
 * eval() exists for fixed-size results only (not vector / runtime_array);
 * scalar / array, array * array (element-wise) do not exist; scalar*array, array*scalar,
   array/scalar do;  tvector ^ tvector is the diadic product (a tmatrix expression);
 * ViewsArray::operator*= / operator/= cannot be instantiated (findings/C17-*.md): not generated;
 * Forward/runtime_array.hxx shares its include guard with Forward/fsarray.hxx, so the
   runtime_array programs live in translation units that include runtime_array.hxx only.
"""
import json
import random

TNAMES = {"double": "double", "float": "float", "long double": "ldouble"}


# ----------------------------------------------------------------------------- model

class Store:
    def __init__(self, name, kind, size, decl, ptr=None):
        self.name, self.kind, self.size, self.decl, self.ptr = name, kind, size, decl, ptr
        self.used = set()       # cells mapped by some operand
        self.meta = {}


class Opd:
    """an operand: a C++ expression naming a TFEL object / view, its store and its cell table"""

    def __init__(self, expr, kind, store, cells, shape, setup=(), writable=True, kindclass=None):
        self.expr, self.kind, self.store, self.cells, self.shape = expr, kind, store, list(cells), shape
        self.setup, self.writable = list(setup), writable
        self.kindclass = kindclass or kind
        self.tab = None  # name of the emitted cell table


def nelem(shape):
    f = shape[0]
    if f in ("tmatrix", "matrix"):
        return shape[1] * shape[2]
    if f == "stensor":
        return {1: 3, 2: 4, 3: 6}[shape[1]]
    if f == "tensor":
        return {1: 3, 2: 5, 3: 9}[shape[1]]
    return shape[1]


def cxxtype(shape, T="T"):
    f = shape[0]
    if f == "tvector":
        return "tvector<%d, %s>" % (shape[1], T)
    if f == "fsarray":
        return "fsarray<%d, %s>" % (shape[1], T)
    if f == "stensor":
        return "stensor<%d, %s>" % (shape[1], T)
    if f == "tensor":
        return "tensor<%d, %s>" % (shape[1], T)
    if f == "tmatrix":
        return "tmatrix<%d, %d, %s>" % (shape[1], shape[2], T)
    if f == "vector":
        return "vector<%s>" % T
    if f == "runtime_array":
        return "runtime_array<%s>" % T
    if f == "matrix":
        return "matrix<%s>" % T
    raise ValueError(shape)


FIXED = ("tvector", "fsarray", "stensor", "tensor", "tmatrix")


class Prog:
    def __init__(self, pid, rng, group):
        self.pid, self.rng, self.group = pid, rng, group
        self.stores = []
        self.opds = []
        self.scalars = []     # names of T scalars drawn at run time
        self.pre = []         # extra declarations before the statement (cell tables, value arrays)
        self.T = "double"
        self.n_tmp = 0

    def name(self, pfx):
        self.n_tmp += 1
        return "%s%d" % (pfx, self.n_tmp)

    # -- stores
    def heap(self, size):
        nm = self.name("B")
        s = Store(nm, "heap", size, "c17::Store<T> %s(\"%s\", %d);" % (nm, nm, size))
        self.stores.append(s)
        return s

    def obj_store(self, shape, kind=None):
        """a TFEL object used as a store (its documented contiguous storage)"""
        o = self.name("o")
        nm = self.name("S")
        f = shape[0]
        n = nelem(shape)
        if f in FIXED:
            decl = "%s %s;" % (cxxtype(shape), o)
        elif f in ("vector", "runtime_array"):
            decl = "%s %s(%d);" % (cxxtype(shape), o, shape[1])
        else:
            decl = "%s %s(%d, %d);" % (cxxtype(shape), o, shape[1], shape[2])
        decl += " c17::Store<T> %s(\"%s:%s\", %s.data(), %d);" % (nm, o, cxxtype(shape, self.T).replace('"', ''), o, n)
        s = Store(nm, "obj", n, decl)
        s.meta = {"obj": o, "shape": shape}
        self.stores.append(s)
        return s

    def named_scalar(self):
        nm = "s%d" % len(self.scalars)
        self.scalars.append(nm)
        return nm, nm

    def scalar(self):
        r = self.rng.random()
        if r < 0.25:
            v = self.rng.choice([2, 3, -2, 4, -1, 5])
            return str(v), str(v)          # int literal: (tfel text, reference text)
        nm = "s%d" % len(self.scalars)
        self.scalars.append(nm)
        return nm, nm

    # -- placing cells in a store
    def place(self, store, gen_cells, tries=30):
        """gen_cells() proposes a cell list (or None); accept the first one that is inside the
        store and disjoint from what other operands already map"""
        for _ in range(tries):
            c = gen_cells()
            if c is None:
                continue
            if min(c) < 0 or max(c) >= store.size or len(set(c)) != len(c):
                continue
            if store.used & set(c):
                continue
            store.used |= set(c)
            return c
        return None


# ----------------------------------------------------------------------------- leaf makers
# every maker returns an Opd or None (does not fit); `reuse` = an existing store to share

def pick_off(rng, span, size):
    """offset of a window of `span` cells in a buffer of `size`: biased towards both ends so that
    an off-by-one leaves the allocation (ASan) and towards the middle otherwise (guard cells)"""
    if span > size:
        return None
    r = rng.random()
    if r < 0.3:
        return size - span
    if r < 0.45:
        return 0
    return rng.randint(0, size - span)


def heap_for(P, need, reuse):
    if reuse is not None and reuse.kind == "heap" and reuse.size >= need:
        return reuse
    return P.heap(need + P.rng.choice([0, 0, 1, 2, 3, 5, 8, 13]))


def mk_plain(P, shape, reuse=None):
    s = P.obj_store(shape)
    n = nelem(shape)
    s.used |= set(range(n))
    return Opd(s.meta["obj"], shape[0], s, range(n), shape)


def mk_view_ptr(P, shape, reuse=None, const=False):
    n = nelem(shape)
    st = heap_for(P, n, reuse)
    holder = {}

    def g():
        o = pick_off(P.rng, n, st.size)
        holder["o"] = o
        return None if o is None else list(range(o, o + n))
    c = P.place(st, g)
    if c is None:
        return None
    off = c[0]
    f = shape[0]
    v = P.name("v")
    if f in FIXED:
        if const:
            setup = ["const auto %s = map<const %s>(static_cast<const T*>(%s.p + %d));" % (v, cxxtype(shape), st.name, off)]
            return Opd(v, "ConstView<%s>" % f, st, c, shape, setup, writable=False)
        setup = ["auto %s = map<%s>(%s.p + %d);" % (v, cxxtype(shape), st.name, off)]
        return Opd(v, "View<%s>" % f, st, c, shape, setup)
    if f in ("vector", "runtime_array"):
        q = P.name("q")
        if const:
            setup = ["const T* const %s = %s.p + %d;" % (q, st.name, off),
                     "const auto %s = map<%s>(%d, %s);" % (v, cxxtype(shape), n, q)]
            return Opd(v, "ConstView<%s>" % f, st, c, shape, setup, writable=False)
        setup = ["T* const %s = %s.p + %d;" % (q, st.name, off),
                 "auto %s = map<%s>(%d, %s);" % (v, cxxtype(shape), n, q)]
        return Opd(v, "View<%s>" % f, st, c, shape, setup)
    return None


def tv_store(P, need, reuse):
    """a tvector<N,T> used as backing store of mapped blocks (the Y vector of the docs)"""
    if reuse is not None and reuse.kind == "obj" and reuse.meta["shape"][0] == "tvector" and reuse.size >= need:
        return reuse
    N = need + P.rng.choice([0, 1, 2, 3, 4, 6])
    return P.obj_store(("tvector", N))


def mk_view_tvec(P, shape, reuse=None):
    """map<X, offset>(tvector<N,T>&) / map<X>(tvector&) / slice<I>, slice<I,J>"""
    n = nelem(shape)
    st = tv_store(P, n, reuse)
    c = P.place(st, lambda: (lambda o: None if o is None else list(range(o, o + n)))(pick_off(P.rng, n, st.size)))
    if c is None:
        return None
    off, N, o = c[0], st.size, st.meta["obj"]
    v = P.name("v")
    f = shape[0]
    if f == "tvector" and P.rng.random() < 0.5:
        # slice<I,J>(v) with J == N is ambiguous with slice<I>(v) (both templates match): the tail is
        # always taken with slice<I>
        if off + n == N:
            return Opd(v, "slice<I>", st, c, shape, ["auto %s = slice<%d>(%s);" % (v, off, o)])
        return Opd(v, "slice<I,J>", st, c, shape, ["auto %s = slice<%d, %d>(%s);" % (v, off, off + n, o)])
    if off == 0 and P.rng.random() < 0.5:
        return Opd(v, "View<%s>@tvector" % f, st, c, shape, ["auto %s = map<%s>(%s);" % (v, cxxtype(shape), o)])
    return Opd(v, "View<%s>@tvector+offset" % f, st, c, shape, ["auto %s = map<%s, %d>(%s);" % (v, cxxtype(shape), off, o)])


def tm_store(P, R, C, reuse):
    if reuse is not None and reuse.kind == "obj" and reuse.meta["shape"][0] == "tmatrix":
        return reuse
    return P.obj_store(("tmatrix", R, C))


def mk_rowcol(P, shape, reuse=None):
    """row_view<I>, row_view<I,J,K>, column_view<I>, column_view<I,J,K> of a tmatrix<R,C>"""
    n = shape[1]
    rng = P.rng
    which = rng.choice(["row", "row3", "col", "col3"])
    if reuse is not None and reuse.kind == "obj" and reuse.meta["shape"][0] == "tmatrix":
        st = reuse
        R, C = st.meta["shape"][1], st.meta["shape"][2]
    else:
        if which == "row":
            R, C = rng.randint(1, 4), n
        elif which == "row3":
            R, C = rng.randint(1, 4), n + rng.randint(0, 3)
        elif which == "col":
            R, C = n, rng.randint(1, 4)
        else:
            R, C = n + rng.randint(0, 3), rng.randint(1, 4)
        st = tm_store(P, R, C, None)
    o = st.meta["obj"]
    holder = {}

    def g():
        w = rng.choice(["row", "row3", "col", "col3"]) if st is reuse else which
        if w == "row" and C == n:
            i = rng.randrange(R)
            holder["x"] = ("row_view<I>", "%s.row_view<%d>()" % (o, i))
            return [i * C + k for k in range(n)]
        if w == "row3" and C >= n:
            i, j = rng.randrange(R), rng.randint(0, C - n)
            holder["x"] = ("row_view<I,J,K>", "%s.row_view<%d, %d, %d>()" % (o, i, j, n))
            return [i * C + j + k for k in range(n)]
        if w == "col" and R == n:
            i = rng.randrange(C)
            holder["x"] = ("column_view<I>", "%s.column_view<%d>()" % (o, i))
            return [k * C + i for k in range(n)]
        if w == "col3" and R >= n:
            i, j = rng.randrange(C), rng.randint(0, R - n)
            holder["x"] = ("column_view<I,J,K>", "%s.column_view<%d, %d, %d>()" % (o, i, j, n))
            return [(j + k) * C + i for k in range(n)]
        return None
    c = P.place(st, g)
    if c is None:
        return None
    v = P.name("v")
    kind, ex = holder["x"]
    return Opd(v, kind, st, c, shape, ["auto %s = %s;" % (v, ex)])


def mk_submatrix(P, shape, reuse=None):
    r, cc = shape[1], shape[2]
    rng = P.rng
    if reuse is not None and reuse.kind == "obj" and reuse.meta["shape"][0] == "tmatrix" \
            and reuse.meta["shape"][1] >= r and reuse.meta["shape"][2] >= cc:
        st = reuse
    else:
        st = tm_store(P, r + rng.randint(0, 2), cc + rng.randint(0, 2), None)
    R, C = st.meta["shape"][1], st.meta["shape"][2]
    o = st.meta["obj"]
    holder = {}

    def g():
        i, j = rng.randint(0, R - r), rng.randint(0, C - cc)
        holder["ij"] = (i, j)
        return [(i + a) * C + j + b for a in range(r) for b in range(cc)]
    c = P.place(st, g)
    if c is None:
        return None
    i, j = holder["ij"]
    v = P.name("v")
    return Opd(v, "submatrix_view", st, c, shape, ["auto %s = %s.submatrix_view<%d, %d, %d, %d>();" % (v, o, i, j, r, cc)])


def mk_coalesced(P, shape, reuse=None):
    n = nelem(shape)
    rng = P.rng
    st = heap_for(P, n + rng.randint(0, 6), reuse)
    c = P.place(st, lambda: rng.sample(range(st.size), n))
    if c is None:
        return None
    q, v = P.name("q"), P.name("v")
    setup = ["std::array<T*, %d> %s{%s};" % (n, q, ", ".join("%s.p + %d" % (st.name, k) for k in c)),
             "auto %s = map<%s>(%s);" % (v, cxxtype(shape), q)]
    return Opd(v, "CoalescedView<%s>" % shape[0], st, c, shape, setup)


def mk_strided(P, shape, reuse=None):
    n = nelem(shape)
    rng = P.rng
    stride = rng.choice([1, 2, 2, 3, 4, 5])
    span = (n - 1) * stride + 1
    st = heap_for(P, span, reuse)
    c = P.place(st, lambda: (lambda o: None if o is None else [o + e * stride for e in range(n)])(pick_off(rng, span, st.size)))
    if c is None:
        return None
    v = P.name("v")
    return Opd(v, "StridedCoalescedView<%s>" % shape[0], st, c, shape,
               ["auto %s = map_strided<%s>(%s.p + %d, %d);" % (v, cxxtype(shape), st.name, c[0], stride)])


def mk_viewsarray(P, shape, reuse=None):
    """element k of  map_array<tvector<M, X>>(ptr)  (objects packed one after the other)"""
    n = nelem(shape)
    rng = P.rng
    M = rng.randint(2, 3)
    k = rng.randrange(M)
    st = heap_for(P, M * n, reuse)
    holder = {}

    def g():
        o = pick_off(rng, M * n, st.size)
        holder["o"] = o
        return None if o is None else [o + k * n + e for e in range(n)]
    c = P.place(st, g)
    if c is None:
        return None
    a = P.name("a")
    setup = ["auto %s = map_array<tvector<%d, %s>>(%s.p + %d);" % (a, M, cxxtype(shape), st.name, holder["o"])]
    return Opd("%s[%d]" % (a, k), "ViewsArray<%s>[k]" % shape[0], st, c, shape, setup)


def mk_viewsarray_tvec(P, shape, reuse=None):
    """element k of  map<M, X, offset, stride>(tvector<N,T>&)"""
    n = nelem(shape)
    rng = P.rng
    M = rng.randint(2, 3)
    k = rng.randrange(M)
    stride = n + rng.choice([0, 0, 1, 2])
    span = (M - 1) * stride + n
    st = tv_store(P, span, reuse)
    holder = {}

    def g():
        o = pick_off(rng, span, st.size)
        holder["o"] = o
        return None if o is None else [o + k * stride + e for e in range(n)]
    c = P.place(st, g)
    if c is None:
        return None
    a = P.name("a")
    setup = ["auto %s = map<%d, %s, %d, %d>(%s);" % (a, M, cxxtype(shape), holder["o"], stride, st.meta["obj"])]
    return Opd("%s[%d]" % (a, k), "ViewsArray<%s>@tvector[k]" % shape[0], st, c, shape, setup)


def mk_strided_viewsarray(P, shape, reuse=None):
    """element k of StridedCoalescedViewsFixedSizeVector<X, unsigned short, M>(ptr): SoA layout,
    component c of object k at  c*M + k  (tests/Math/strided_coalesced_view.cxx, test11)"""
    n = nelem(shape)
    rng = P.rng
    M = rng.randint(2, 3)
    k = rng.randrange(M)
    st = heap_for(P, M * n, reuse)
    holder = {}

    def g():
        o = pick_off(rng, M * n, st.size)
        holder["o"] = o
        return None if o is None else [o + e * M + k for e in range(n)]
    c = P.place(st, g)
    if c is None:
        return None
    a = P.name("a")
    setup = ["auto %s = StridedCoalescedViewsFixedSizeVector<%s, unsigned short, %d>(%s.p + %d);" % (a, cxxtype(shape), M, st.name, holder["o"])]
    return Opd("%s[%d]" % (a, k), "StridedCoalescedViewsArray<%s>[k]" % shape[0], st, c, shape, setup)


def mk_derivative(P, shape, reuse=None):
    """map_derivative<I,J,F,V>(tmatrix<R,C>&): block whose (a,b) component is element (I+a, J+b)"""
    rng = P.rng
    f = shape[0]
    if f == "tmatrix":
        r, cc = shape[1], shape[2]
        ft, vt, kind = "tvector<%d, T>" % r, "tvector<%d, T>" % cc, "map_derivative<tvector,tvector>"
    elif f == "stensor":
        if rng.random() < 0.5:
            r, cc, ft, vt, kind = nelem(shape), 1, cxxtype(shape), "T", "map_derivative<stensor,scalar>"
        else:
            r, cc, ft, vt, kind = 1, nelem(shape), "T", cxxtype(shape), "map_derivative<scalar,stensor>"
    elif f == "tvector":
        if rng.random() < 0.5:
            r, cc, ft, vt, kind = shape[1], 1, cxxtype(shape), "T", "map_derivative<tvector,scalar>"
        else:
            r, cc, ft, vt, kind = 1, shape[1], "T", cxxtype(shape), "map_derivative<scalar,tvector>"
    else:
        return None
    if reuse is not None and reuse.kind == "obj" and reuse.meta["shape"][0] == "tmatrix" \
            and reuse.meta["shape"][1] >= r and reuse.meta["shape"][2] >= cc:
        st = reuse
    else:
        st = tm_store(P, r + rng.randint(0, 2), cc + rng.randint(0, 2), None)
    R, C = st.meta["shape"][1], st.meta["shape"][2]
    holder = {}

    def g():
        i, j = rng.randint(0, R - r), rng.randint(0, C - cc)
        holder["ij"] = (i, j)
        return [(i + a) * C + j + b for a in range(r) for b in range(cc)]
    c = P.place(st, g)
    if c is None:
        return None
    i, j = holder["ij"]
    v = P.name("v")
    if rng.random() < 0.5:
        ex = "map_derivative<%d, %d, %s, %s>(%s)" % (i, j, ft, vt, st.meta["obj"])
    else:
        ex = "map_derivative<%s, %s>(%s, %d, %d)" % (ft, vt, st.meta["obj"], i, j)
        kind += "(i,j)"
    return Opd(v, kind, st, c, shape, ["auto %s = %s;" % (v, ex)])


def mk_derivative_strided(P, shape, reuse=None):
    """map_derivative_strided<I,J,F,V,N,M>(p, stride): component (a,b) at p + ((I+a)*M + J+b)*stride"""
    rng = P.rng
    if shape[0] != "tmatrix":
        return None
    r, cc = shape[1], shape[2]
    R, C = r + rng.randint(0, 2), cc + rng.randint(0, 2)
    stride = rng.choice([1, 2, 3])
    span = (R * C - 1) * stride + 1
    st = heap_for(P, span, reuse)
    holder = {}

    def g():
        o = pick_off(rng, span, st.size)
        i, j = rng.randint(0, R - r), rng.randint(0, C - cc)
        holder["x"] = (o, i, j)
        return None if o is None else [o + ((i + a) * C + j + b) * stride for a in range(r) for b in range(cc)]
    c = P.place(st, g)
    if c is None:
        return None
    o, i, j = holder["x"]
    v = P.name("v")
    ex = "map_derivative_strided<%d, %d, tvector<%d, T>, tvector<%d, T>, %d, %d>(%s.p + %d, %d)" % (i, j, r, cc, R, C, st.name, o, stride)
    return Opd(v, "map_derivative_strided<tvector,tvector>", st, c, shape, ["auto %s = %s;" % (v, ex)])


def makers(shape, group):
    f = shape[0]
    m = [(mk_plain, 5)]
    if f in ("tvector", "stensor", "tensor", "tmatrix", "fsarray"):
        m += [(mk_view_ptr, 3), (lambda P, s, reuse=None: mk_view_ptr(P, s, reuse, const=True), 1)]
    if f in ("vector", "runtime_array"):
        m += [(mk_view_ptr, 4), (lambda P, s, reuse=None: mk_view_ptr(P, s, reuse, const=True), 1)]
    if f in ("tvector", "stensor", "tensor", "tmatrix"):
        m += [(mk_coalesced, 2), (mk_strided, 2)]
    if f in ("tvector", "stensor", "tensor"):
        m += [(mk_view_tvec, 2), (mk_viewsarray, 1), (mk_viewsarray_tvec, 1)]
    if f in ("stensor",):
        m += [(mk_strided_viewsarray, 1)]
    if f == "tvector":
        m += [(mk_rowcol, 4), (mk_derivative, 1), (mk_strided_viewsarray, 1)]
    if f == "stensor":
        m += [(mk_derivative, 2)]
    if f == "tmatrix":
        m += [(mk_submatrix, 3), (mk_derivative, 2), (mk_derivative_strided, 1)]
    return m


def choose(rng, weighted):
    tot = sum(w for _, w in weighted)
    x = rng.random() * tot
    for v, w in weighted:
        x -= w
        if x <= 0:
            return v
    return weighted[-1][0]


# ----------------------------------------------------------------------------- expressions

class Node:
    def __init__(self, op, kids=(), opd=None, sc=None):
        self.op, self.kids, self.opd, self.sc = op, list(kids), opd, sc


def tfel_text(n):
    if n.op == "leaf":
        return n.opd.expr
    if n.op == "lazy":
        return n.sc
    if n.op == "neg":
        return "(-%s)" % tfel_text(n.kids[0])
    if n.op in "+-":
        return "(%s %s %s)" % (tfel_text(n.kids[0]), n.op, tfel_text(n.kids[1]))
    if n.op == "smul":
        return "(%s * %s)" % (n.sc[0], tfel_text(n.kids[0]))
    if n.op == "muls":
        return "(%s * %s)" % (tfel_text(n.kids[0]), n.sc[0])
    if n.op == "divs":
        return "(%s / %s)" % (tfel_text(n.kids[0]), n.sc[0])
    if n.op == "eval":
        return "eval(%s)" % tfel_text(n.kids[0])
    if n.op == "diadic":
        return "(%s ^ %s)" % (tfel_text(n.kids[0]), tfel_text(n.kids[1]))
    raise ValueError(n.op)


def ref_text(n, e="e", ncols=None):
    """plain scalar expression of logical element e (row-major for matrices)"""
    if n.op == "leaf":
        return "%s.before[%s[%s]]" % (n.opd.store.name, n.opd.tab, e)
    if n.op == "lazy":
        return ref_text(n.kids[0], e, ncols)
    if n.op == "neg":
        return "(-%s)" % ref_text(n.kids[0], e, ncols)
    if n.op in "+-":
        return "(%s %s %s)" % (ref_text(n.kids[0], e, ncols), n.op, ref_text(n.kids[1], e, ncols))
    if n.op == "smul":
        return "(%s * %s)" % (n.sc[1], ref_text(n.kids[0], e, ncols))
    if n.op == "muls":
        return "(%s * %s)" % (ref_text(n.kids[0], e, ncols), n.sc[1])
    if n.op == "divs":
        return "(%s / %s)" % (ref_text(n.kids[0], e, ncols), n.sc[1])
    if n.op == "eval":
        return ref_text(n.kids[0], e, ncols)
    if n.op == "diadic":
        return "(%s * %s)" % (ref_text(n.kids[0], "(%s) / %d" % (e, ncols), None), ref_text(n.kids[1], "(%s) %% %d" % (e, ncols), None))
    raise ValueError(n.op)


def leaves(n, out=None):
    out = [] if out is None else out
    if n.op == "leaf":
        out.append(n.opd)
    for k in n.kids:
        leaves(k, out)
    return out


def ops_of(n, out=None):
    out = set() if out is None else out
    out.add(n.op)
    for k in n.kids:
        ops_of(k, out)
    return out


# ----------------------------------------------------------------------------- program generation

SHAPES = {
    "A": [("tvector", 2), ("tvector", 3), ("tvector", 3), ("tvector", 4), ("tvector", 5), ("tvector", 1),
          ("tmatrix", 2, 2), ("tmatrix", 2, 3), ("tmatrix", 3, 3), ("tmatrix", 3, 2), ("tmatrix", 4, 3), ("tmatrix", 1, 4),
          ("fsarray", 3), ("fsarray", 5), ("vector", 4), ("vector", 1), ("vector", 7), ("matrix", 2, 3), ("matrix", 3, 3)],
    "B": [("stensor", 1), ("stensor", 2), ("stensor", 2), ("stensor", 3), ("stensor", 3),
          ("tensor", 1), ("tensor", 2), ("tensor", 3)],
    "C": [("runtime_array", 1), ("runtime_array", 3), ("runtime_array", 4), ("runtime_array", 6)],
}

INCLUDES = {
    "A": ["TFEL/Math/tvector.hxx", "TFEL/Math/tmatrix.hxx", "TFEL/Math/fsarray.hxx", "TFEL/Math/vector.hxx",
          "TFEL/Math/matrix.hxx", "TFEL/Math/Array/View.hxx", "TFEL/Math/Array/CoalescedView.hxx",
          "TFEL/Math/Array/StridedCoalescedView.hxx", "TFEL/Math/Array/ViewsArray.hxx",
          "TFEL/Math/Array/StridedCoalescedViewsArray.hxx"],
    "B": ["TFEL/Math/tvector.hxx", "TFEL/Math/tmatrix.hxx", "TFEL/Math/stensor.hxx", "TFEL/Math/tensor.hxx",
          "TFEL/Math/Array/View.hxx", "TFEL/Math/Array/CoalescedView.hxx", "TFEL/Math/Array/StridedCoalescedView.hxx",
          "TFEL/Math/Array/ViewsArray.hxx", "TFEL/Math/Array/StridedCoalescedViewsArray.hxx"],
    "C": ["TFEL/Math/runtime_array.hxx", "TFEL/Math/Array/View.hxx"],
}


def new_leaf(P, shape, existing, want_writable=False, reuse_store_p=0.45):
    """a new operand of the given shape; with some probability it shares the store of an existing
    operand (disjoint cells: the Y = (eel, p) pattern of the documentation)"""
    rng = P.rng
    for _ in range(12):
        mk = choose(rng, makers(shape, P.group))
        reuse = None
        if existing and rng.random() < reuse_store_p:
            reuse = rng.choice(existing).store
        o = mk(P, shape, reuse) if mk is not mk_plain else mk_plain(P, shape)
        if o is None:
            continue
        if want_writable and not o.writable:
            # give the cells back
            o.store.used -= set(o.cells)
            continue
        P.opds.append(o)
        return o
    o = mk_plain(P, shape)
    P.opds.append(o)
    return o


def twin_view(P, d):
    """a second view object with exactly the same cells as d (identical aliasing through another object)"""
    if d.kind.startswith("View<") and not d.kind.endswith("]") and "@" not in d.kind and d.shape[0] in FIXED:
        v = P.name("v")
        o = Opd(v, d.kind, d.store, d.cells, d.shape, ["auto %s = map<%s>(%s.p + %d);" % (v, cxxtype(d.shape), d.store.name, d.cells[0])])
        o.kindclass = d.kind + "(twin)"
        P.opds.append(o)
        return o
    if d.kind.startswith("StridedCoalescedView<") and len(d.cells) > 1:
        v = P.name("v")
        o = Opd(v, d.kind, d.store, d.cells, d.shape,
                ["auto %s = map_strided<%s>(%s.p + %d, %d);" % (v, cxxtype(d.shape), d.store.name, d.cells[0], d.cells[1] - d.cells[0])])
        o.kindclass = d.kind + "(twin)"
        P.opds.append(o)
        return o
    return None


def overlap_view(P, d):
    """a *different* view overlapping d: shifted contiguous window (recorded only)"""
    if d.kind.startswith("View<") and "@" not in d.kind and not d.kind.endswith("]") and d.shape[0] in FIXED and d.store.kind == "heap":
        n = len(d.cells)
        for sh in (1, -1, 2, -2):
            o0 = d.cells[0] + sh
            if 0 <= o0 and o0 + n <= d.store.size and n > abs(sh):
                c = list(range(o0, o0 + n))
                free = set(c) - set(d.cells)
                if free & d.store.used:
                    continue
                d.store.used |= free
                v = P.name("v")
                o = Opd(v, d.kind, d.store, c, d.shape, ["auto %s = map<%s>(%s.p + %d);" % (v, cxxtype(d.shape), d.store.name, o0)])
                P.opds.append(o)
                return o
    return None


def gen_expr(P, shape, depth, ctx):
    """random operator tree of the given shape.  ctx: dict(dst, leaves, alias, allow_eval)"""
    rng = P.rng
    f = shape[0]
    if depth <= 0 or rng.random() < 0.28:
        return gen_leaf(P, shape, ctx)
    r = rng.random()
    if r < 0.34:
        return Node(rng.choice("+-"), [gen_expr(P, shape, depth - 1, ctx), gen_expr(P, shape, depth - 1, ctx)])
    if r < 0.50:
        return Node("smul", [gen_expr(P, shape, depth - 1, ctx)], sc=P.scalar())
    if r < 0.60:
        return Node("muls", [gen_expr(P, shape, depth - 1, ctx)], sc=P.scalar())
    if r < 0.72:
        return Node("divs", [gen_expr(P, shape, depth - 1, ctx)], sc=P.scalar())
    if r < 0.84:
        return Node("neg", [gen_expr(P, shape, depth - 1, ctx)])
    if r < 0.94 and ctx["allow_eval"]:
        k = gen_expr(P, shape, depth - 1, ctx)
        if k.op in ("leaf", "eval", "lazy"):
            return k
        return Node("eval", [k])
    if f == "tmatrix" and P.group == "A":
        a = gen_expr(P, ("tvector", shape[1]), min(depth - 1, 1), ctx)
        b = gen_expr(P, ("tvector", shape[2]), min(depth - 1, 1), ctx)
        return Node("diadic", [a, b])
    return gen_leaf(P, shape, ctx)


def gen_leaf(P, shape, ctx):
    rng = P.rng
    same = [o for o in ctx["leaves"] if o.shape == shape]
    d = ctx["dst"]
    r = rng.random()
    if d is not None and d.shape == shape and ctx["alias"] == "dst" and (r < 0.35 or not ctx.get("aliased")):
        ctx["aliased"] = True
        return Node("leaf", opd=d)
    if d is not None and d.shape == shape and ctx["alias"] == "twin" and not ctx.get("aliased"):
        t = twin_view(P, d)
        if t is not None:
            ctx["aliased"] = True
            ctx["leaves"].append(t)
            return Node("leaf", opd=t)
        ctx["alias"] = "dst"
        ctx["aliased"] = True
        return Node("leaf", opd=d)
    if d is not None and d.shape == shape and ctx["alias"] == "overlap" and not ctx.get("aliased"):
        t = overlap_view(P, d)
        ctx["aliased"] = True
        if t is not None:
            ctx["overlapped"] = True
            ctx["leaves"].append(t)
            return Node("leaf", opd=t)
    if same and r < 0.3:
        return Node("leaf", opd=rng.choice(same))
    o = new_leaf(P, shape, ctx["leaves"] + ([d] if d is not None else []))
    ctx["leaves"].append(o)
    return Node("leaf", opd=o)


def gen_program(pid, rng, group, force=None):
    """force: dict pinning the shape / statement form / destination / right-hand side of the program
    (used for the sub-view quota, see subview_force); None = everything random"""
    force = force or {}
    P = Prog(pid, rng, group)
    P.T = choose(rng, [("double", 6), ("float", 2), ("long double", 2)])
    if force.get("T"):
        P.T = force["T"]
    shape = force["shape"] if force else rng.choice(SHAPES[group])
    f = shape[0]
    ne = nelem(shape)
    # statement form
    if force:
        form = force["form"]
        D = force["mkdst"](P)
        P.opds.append(D)
        assert D.shape == tuple(shape), (D.shape, shape)
    else:
        if f == "matrix":
            form = choose(rng, [("assign", 6), ("scale", 3), ("elem", 2)])
        else:
            form = choose(rng, [("assign", 12), ("scale", 2), ("elem", 2), ("lazy", 1)])
        D = new_leaf(P, shape, [], want_writable=True)
    ctx = {"dst": D, "leaves": [], "alias": "none", "allow_eval": f in FIXED}
    info = {"pid": pid, "T": P.T, "shape": list(shape), "form": form, "dst": D.kind}
    body = []
    mode = 0
    if form in ("assign", "lazy"):
        op = force.get("op") or choose(rng, [("=", 5), ("+=", 3), ("-=", 3)])
        ctx["alias"] = force.get("alias") or choose(rng, [("none", 55), ("dst", 30), ("twin", 10), ("overlap", 5)])
        if "E" in force:
            E = force["E"](P, D, ctx)
        elif f == "matrix":
            # no binary operators on matrix<T>: right-hand side is a single operand
            E = gen_leaf(P, shape, ctx)
        else:
            E = gen_expr(P, shape, 3, ctx)
        if form == "lazy" and E.op not in ("leaf",):
            # name a sub-expression (the documented `auto c = a + b` idiom): lvalue operands only
            sub = E.kids[0] if E.kids and E.kids[0].op not in ("leaf",) else E
            nm = P.name("lz")
            lz = Node("lazy", [Node(sub.op, sub.kids, sub.opd, sub.sc)], sc=nm)
            body.append("const auto %s = %s;" % (nm, tfel_text(sub)))
            if sub is E:
                E = lz
            else:
                E.kids[0] = lz
        body.append("%s %s %s;" % (D.expr, op, tfel_text(E)))
        stmt_text = " ".join(body)
        ncols = shape[2] if f in ("tmatrix", "matrix") else None
        # cell tables must be named before ref_text
        rhs = ref_text_later = (E, ncols)
        if ctx.get("overlapped"):
            mode = 2
        ref = (op, E, ncols)
        info["op"] = op
    elif form == "scale":
        op = force.get("op") or rng.choice(["*=", "/="])
        sk = force.get("sk")
        if sk == "int":
            # never +-1: 1/s is exact for those and a reciprocal taken in the integer type goes unnoticed
            lit = str(rng.choice([2, 3, 4, 5, 7, -2, -3, -5]))
            sc = (lit, lit)
        elif sk in ("own", "float"):
            sc = P.named_scalar()
        else:
            sc = P.scalar()
        label = op
        if sc[0].lstrip("-").isdigit():
            label = op + "(int literal)"
        elif sk == "float" or (sk is None and P.T != "float" and rng.random() < 0.25):
            # a scalar of lower precision than the array (float against double / long double)
            lo = P.name("sf")
            P.pre.append("const float %s = static_cast<float>(%s);" % (lo, sc[0]))
            sc = (lo, lo)
            label = op + "(float scalar)"
        body.append("%s %s %s;" % (D.expr, op, sc[0]))
        stmt_text = body[-1]
        ref = (op, sc, None)
        if op == "/=":
            mode = 1
        info["op"] = label
    else:  # element accesses
        op = force.get("elem_op") or rng.choice(["[]=", "[]+=", "()=", "read"])
        perm = list(range(ne))
        rng.shuffle(perm)
        two_d = f in ("tmatrix", "matrix")
        C = shape[2] if two_d else None
        P.pre.append("static const int perm[] = {%s};" % ", ".join(map(str, perm)))
        if op == "read":
            # read every element through the accessors into a plain array
            Rst = P.heap(ne)
            Rst.used |= set(range(ne))
            ro = Opd("<reads>", "plain-array", Rst, range(ne), shape)
            P.opds.append(ro)
            acc = ("%s(q / %d, q %% %d)" % (D.expr, C, C)) if two_d else (rng.choice(["%s[q]", "%s(q)"]) % D.expr)
            body.append("for (int k = 0; k < %d; ++k) { const int q = perm[k]; %s.p[q] = %s; }" % (ne, Rst.name, acc))
            ref = ("read", D, ro)
        else:
            P.pre.append("T xs[%d]; for (int k = 0; k < %d; ++k) xs[k] = c17::draw<T>(g);" % (ne, ne))
            if two_d or op == "()=":
                acc = ("%s(q / %d, q %% %d)" % (D.expr, C, C)) if two_d else "%s(q)" % D.expr
            else:
                acc = "%s[q]" % D.expr
            asg = "+=" if op == "[]+=" else "="
            if two_d and op.startswith("[]"):
                op = "()" + asg
            body.append("for (int k = 0; k < %d; ++k) { const int q = perm[k]; %s %s xs[q]; }" % (ne, acc, asg))
            ref = ("elem", asg, None)
        stmt_text = body[-1]
        info["op"] = "elem" + op
    # ---- emit
    for i, o in enumerate(P.opds):
        o.tab = "c%d" % i
    rl = leaves(ref[1]) if form in ("assign", "lazy") else []
    kinds = sorted(set(o.kindclass for o in rl))
    alias = "none"
    if form in ("assign", "lazy"):
        if any(o is D for o in rl):
            alias = "dst"
        elif any(o is not D and o.cells == D.cells and o.store is D.store for o in rl):
            alias = "same-cells-other-view"
        elif any(o is not D and o.store is D.store and set(o.cells) & set(D.cells) for o in rl):
            alias = "overlap"
        elif any(o.store is D.store for o in rl):
            alias = "same-store-disjoint"
    if alias != "overlap":
        mode = 0 if mode == 2 else mode
    else:
        mode = 2
    api = "%s %s" % (D.kind, info["op"])
    st = []
    if form in ("assign", "lazy"):
        st.append("rhs=" + "+".join(kinds))
        opsu = ops_of(ref[1])
        extra = [x for x in ("eval", "diadic", "lazy") if x in opsu]
        if extra:
            st.append("with=" + "+".join(extra))
        st.append("alias=" + alias)
    if force.get("tag"):
        st.append(force["tag"])
    stratum = ";".join(st) if st else "-"
    if force.get("info"):
        info["subview"] = force["info"]
    if force.get("scale_info"):
        info["scalequota"] = force["scale_info"]
    info.update({"api": api, "stratum": stratum, "alias": alias, "mode": mode, "rhs_kinds": kinds,
                 "statement": stmt_text, "n_leaves": len(rl), "nelem": ne})
    L = []
    L.append("// program %d: %s" % (pid, stmt_text))
    L.append("static void prog_%d(const vf::Args& a) {" % pid)
    L.append("  using T = %s;" % P.T)
    L.append("  static const char* const API = %s; static const char* const ST = %s;" % (json.dumps(api), json.dumps(stratum)))
    decls = []
    for s in P.stores:
        decls.append(s.decl)
    setups = []
    for o in P.opds:
        setups += o.setup
    prog_doc = "T=%s; %s { %s %s }" % (P.T, " ".join(decls), " ".join(setups), stmt_text)
    L.append("  static const char* const PROG = %s;" % json.dumps(prog_doc))
    for i, o in enumerate(P.opds):
        L.append("  static const int %s[] = {%s};" % (o.tab, ", ".join(map(str, o.cells))))
    L.append("  for (long it = 0; it < a.cases; ++it) {")
    L.append("    const uint64_t idx = a.gidx(it);")
    L.append("    if (a.only >= 0 && idx != uint64_t(a.only)) continue;")
    L.append("    vf::Rng g(a.seed, %du, idx);" % (170000 + pid))
    L.append("    vf::set_case(API, ST, idx);")
    for d in decls:
        L.append("    " + d)
    L.append("    unsigned gc = 0;")
    for s in P.stores:
        L.append("    %s.guard(gc);" % s.name)
    for o in P.opds:
        if o.kind != "plain-array" or True:
            L.append("    %s.put(%s, %d, g);" % (o.store.name, o.tab, len(o.cells)))
    nsc = len(P.scalars)
    L.append("    const T sc[%d] = {%s};" % (max(nsc, 1), ", ".join("c17::scalar<T>(g)" for _ in range(nsc)) or "T(0)"))
    for i, nm in enumerate(P.scalars):
        L.append("    const T %s = sc[%d];" % (nm, i))
    for p in P.pre:
        L.append("    " + p)
    for s in P.stores:
        L.append("    %s.snapshot();" % s.name)
    L.append("    {")
    for su in setups:
        L.append("      " + su)
    for b in body:
        L.append("      " + b)
    L.append("    }")
    allst = "{%s}" % ", ".join("&" + s.name for s in P.stores)
    if form in ("assign", "lazy"):
        op, E, ncols = ref
        r = ref_text(E, "e", ncols)
        dref = "%s.before[%s[e]]" % (D.store.name, D.tab)
        if op == "+=":
            r = "(%s + %s)" % (dref, r)
        elif op == "-=":
            r = "(%s - %s)" % (dref, r)
        L.append("    c17::judge<T>(R, API, ST, idx, PROG, %d, %s, %s, %s, %d, [&](int e) -> T { return %s; }, %d, sc, %d);"
                 % (pid, allst, D.store.name, D.tab, ne, r, mode, nsc))
    elif form == "scale":
        op, sc, _ = ref
        dref = "%s.before[%s[e]]" % (D.store.name, D.tab)
        r = "(%s %s %s)" % (dref, "*" if op == "*=" else "/", sc[1])
        L.append("    c17::judge<T>(R, API, ST, idx, PROG, %d, %s, %s, %s, %d, [&](int e) -> T { return %s; }, %d, sc, %d);"
                 % (pid, allst, D.store.name, D.tab, ne, r, mode, nsc))
    else:
        if ref[0] == "read":
            ro = ref[2]
            r = "%s.before[%s[e]]" % (D.store.name, D.tab)
            L.append("    c17::judge<T>(R, API, ST, idx, PROG, %d, %s, %s, %s, %d, [&](int e) -> T { return %s; }, 0, sc, %d);"
                     % (pid, allst, ro.store.name, ro.tab, ne, r, nsc))
        else:
            asg = ref[1]
            dref = "%s.before[%s[e]]" % (D.store.name, D.tab)
            r = "xs[e]" if asg == "=" else "(%s + xs[e])" % dref
            L.append("    c17::judge<T>(R, API, ST, idx, PROG, %d, %s, %s, %s, %d, [&](int e) -> T { return %s; }, 0, sc, %d);"
                     % (pid, allst, D.store.name, D.tab, ne, r, nsc))
    L.append("  }")
    L.append("}")
    return "\n".join(L), info



# ----------------------------------------------------------------------------- sub-view quota
# A fixed share of the tvector/tmatrix translation units is reserved for the partial views of
# tmatrix.hxx -- row_view<I,J,K>, column_view<I,J,K>, submatrix_view<I,J,R,C>, the full row_view<I> /
# column_view<I>, each in its const and non-const overload -- and the tvector slices, always on
# NON-SQUARE matrices (a stride N taken for M is invisible on a square one), with K = 1, an interior
# K and the maximal K, used as: element reads, destination of = += *=, destination aliased with the
# right-hand side, destination next to another sub-view of the same matrix, const view read by a
# plain object.  The table below is cycled so that every (view, use) pair appears in every run.

SUBVIEW_TABLE = [(w, u) for u in ("read", "=", "+=", "*=", "alias-dst", "alias-store", "const-read") for w in ("col3", "row3", "sub")] + \
                [("col", "="), ("row", "+="), ("col", "const-read"), ("row", "alias-store"), ("slice", "="), ("slice", "const-read")]
KMODES = ["mid", "max", 1]


def mk_tm_subview(P, which, K, st, const=False):
    """sub-view of the tmatrix store st.  which: row (K == C), col (K == R), row3, col3 (K free),
    sub (K = (r, c)).  Cells from the documentation of tmatrix.hxx: row-major storage i*C + j;
    row_view<I,J,K>: row I, columns J..J+K-1;  column_view<I,J,K>: column I, rows J..J+K-1;
    submatrix_view<I,J,R,C>: rows I..I+R-1, columns J..J+C-1."""
    rng = P.rng
    R, C = st.meta["shape"][1], st.meta["shape"][2]
    o = st.meta["obj"]
    holder = {}

    def g():
        if which == "row":
            i = rng.randrange(R)
            holder["x"] = ("row_view<I>", "row_view<%d>()" % i)
            return [i * C + k for k in range(C)]
        if which == "col":
            i = rng.randrange(C)
            holder["x"] = ("column_view<I>", "column_view<%d>()" % i)
            return [k * C + i for k in range(R)]
        if which == "row3":
            i, j = rng.randrange(R), rng.randint(0, C - K)
            holder["x"] = ("row_view<I,J,K>", "row_view<%d, %d, %d>()" % (i, j, K))
            return [i * C + j + k for k in range(K)]
        if which == "col3":
            i, j = rng.randrange(C), rng.randint(0, R - K)
            holder["x"] = ("column_view<I,J,K>", "column_view<%d, %d, %d>()" % (i, j, K))
            return [(j + k) * C + i for k in range(K)]
        r, cc = K
        i, j = rng.randint(0, R - r), rng.randint(0, C - cc)
        holder["x"] = ("submatrix_view", "submatrix_view<%d, %d, %d, %d>()" % (i, j, r, cc))
        return [(i + a) * C + j + b for a in range(r) for b in range(cc)]
    c = P.place(st, g, tries=60)
    if c is None:
        return None
    kind, call = holder["x"]
    shape = ("tmatrix", K[0], K[1]) if which == "sub" else ("tvector", len(c))
    v = P.name("v")
    if const:
        k = P.name("k")
        setup = ["const auto& %s = %s;" % (k, o), "const auto %s = %s.%s;" % (v, k, call)]
        return Opd(v, "const " + kind, st, c, shape, setup, writable=False)
    return Opd(v, kind, st, c, shape, ["auto %s = %s.%s;" % (v, o, call)])


def mk_slice(P, st, off, n, const=False):
    """tvector slices: free functions slice<I>(v), slice<I,J>(v) (elements I..J-1) and the member v.slice<I>()"""
    rng = P.rng
    N, o = st.size, st.meta["obj"]
    c = P.place(st, lambda: list(range(off, off + n)), tries=1)
    if c is None:
        return None
    v = P.name("v")
    src = o
    setup = []
    if const:
        src = P.name("k")
        setup.append("const auto& %s = %s;" % (src, o))
    if off + n == N:
        if rng.random() < 0.5:
            kind, ex = "slice<I>", "slice<%d>(%s)" % (off, src)
        else:
            kind, ex = "tvector::slice<I>()", "%s.slice<%d>()" % (src, off)
    else:
        kind, ex = "slice<I,J>", "slice<%d, %d>(%s)" % (off, off + n, src)
    setup.append("%sauto %s = %s;" % ("const " if const else "", v, ex))
    return Opd(v, ("const " if const else "") + kind, st, c, ("tvector", n), setup, writable=not const)


def subview_force(spec_index):
    """force dict (see gen_program) of the spec_index-th sub-view program"""
    which, use = SUBVIEW_TABLE[spec_index % len(SUBVIEW_TABLE)]
    # K mode: for a given use the three partial views get the three modes, and every view meets every
    # mode within one pass of the table (the pass number rotates them from one pass to the next)
    t, passno = spec_index % len(SUBVIEW_TABLE), spec_index // len(SUBVIEW_TABLE)
    kmode = KMODES[(t // 3 + t % 3 + passno) % 3]
    box = {}

    def dims(P):
        rng = P.rng
        while True:
            R, C = rng.randint(3, 5), rng.randint(3, 5)
            if R != C:
                return R, C

    def pickK(P, R, C):
        rng = P.rng
        if which == "row":
            return C
        if which == "col":
            return R
        if which in ("row3", "col3"):
            full = C if which == "row3" else R
            return 1 if kmode == 1 else full if kmode == "max" else rng.randint(2, full - 1)
        if kmode == 1:
            return (1, 1)
        if kmode == "max":
            return (R, C)
        while True:
            r, cc = rng.randint(1, R), rng.randint(1, C)
            if (r, cc) not in ((1, 1), (R, C)) and r * cc >= 2:
                return (r, cc)

    def view(P, const=False):
        """the sub-view under test, on a fresh non-square matrix (or a tvector for slices)"""
        rng = P.rng
        if which == "slice":
            N = rng.randint(3, 7)
            st = P.obj_store(("tvector", N))
            n = 1 if kmode == 1 else N if kmode == "max" else rng.randint(2, N - 1)
            off = rng.choice([0, N - n]) if rng.random() < 0.6 else rng.randint(0, N - n)
            box.update({"on": "tvector<%d>" % N, "K": n})
            return mk_slice(P, st, off, n, const)
        R, C = dims(P)
        st = P.obj_store(("tmatrix", R, C))
        K = pickK(P, R, C)
        box.update({"on": "tmatrix<%d,%d>" % (R, C), "K": K, "store": st})
        return mk_tm_subview(P, which, K, st, const)

    def other_view(P, D):
        """another sub-view of the same matrix, same shape, disjoint cells (None if there is no room)"""
        st = D.store
        if which == "slice":
            return None
        cands = ["sub"] if D.shape[0] == "tmatrix" else ["row3", "col3", "row3", "col3", "row", "col"]
        P.rng.shuffle(cands)
        R, C = st.meta["shape"][1], st.meta["shape"][2]
        for w in cands:
            n = len(D.cells)
            if w == "row" and n != C or w == "col" and n != R or w == "row3" and n > C or w == "col3" and n > R:
                continue
            K = (D.shape[1], D.shape[2]) if w == "sub" else n
            o = mk_tm_subview(P, w, K, st, const=P.rng.random() < 0.3)
            if o is not None:
                P.opds.append(o)
                return o
        return None

    f = {"tag": "subview:nonsquare" if which != "slice" else "subview:slice", "info": box}
    box.update({"which": which, "use": use, "kmode": str(kmode)})

    def build(P):
        const = use == "const-read"
        V = None
        for _ in range(20):
            V = view(P, const)
            if V is not None:
                break
        return V
    f["build"] = build
    f["use"] = use
    f["other_view"] = other_view
    return f


def gen_subview_program(pid, rng, group, spec_index):
    """one program of the sub-view quota: builds the view first (its shape fixes the program's), then
    delegates to gen_program with everything pinned"""
    sf = subview_force(spec_index)
    use = sf["use"]
    holder = {}

    def mkdst(P):
        V = sf["build"](P)
        holder["V"] = V
        if use == "const-read":
            D = mk_plain(P, V.shape)
            P.opds.append(V)       # the const view is an operand, the destination a plain object
            holder["D"] = D
            return D
        return V

    # gen_program needs the shape before it builds the destination: pass 1 builds the view on a scratch
    # Prog to learn its shape, the random stream is rewound, pass 2 is the real one (same stream -> same view)
    const_op = rng.choice(["=", "+=", "-="])   # drawn before the stream position is recorded
    state = rng.getstate()
    P0 = Prog(pid, rng, group)
    P0.T = choose(rng, [("double", 6), ("float", 2), ("long double", 2)])
    V0 = subview_force(spec_index)["build"](P0)
    shape = V0.shape
    rng.setstate(state)

    force = {"shape": shape, "mkdst": mkdst, "tag": sf["tag"], "info": sf["info"]}
    if use == "read":
        force.update({"form": "elem", "elem_op": "read"})
    elif use in ("=", "+="):
        force.update({"form": "assign", "op": use, "alias": "none"})
    elif use == "*=":
        force.update({"form": "scale", "op": "*="})
    elif use == "alias-dst":
        force.update({"form": "assign", "alias": "dst"})
    elif use == "alias-store":
        def E(P, D, ctx):
            o = sf["other_view"](P, D)
            if o is None:          # the view covers the whole matrix: fall back to the destination itself
                ctx["alias"] = "dst"
                return gen_expr(P, D.shape, 2, ctx)
            ctx["leaves"].append(o)
            rest = gen_expr(P, D.shape, 1, ctx)
            return Node(P.rng.choice("+-"), [Node("smul", [Node("leaf", opd=o)], sc=P.scalar()), rest])
        force.update({"form": "assign", "alias": "none", "E": E})
    else:  # const-read
        def E(P, D, ctx):
            V = holder["V"]
            ctx["leaves"].append(V)
            if P.rng.random() < 0.5:
                return Node("leaf", opd=V)
            return Node("+", [Node("leaf", opd=V), Node("muls", [Node("leaf", opd=V)], sc=P.scalar())])
        force.update({"form": "assign", "alias": "none", "E": E, "op": const_op})
    return gen_program(pid, rng, group, force)


# ----------------------------------------------------------------------------- scale quota
# `x /= s` and `x *= s` are implemented separately by GenericFixedSizeArray (tvector, tmatrix, stensor,
# tensor, fsarray), GenericRuntimeArray (vector, matrix, runtime_array), View (map, sub-views, ViewsArray
# elements) and CoalescedViewBase (StridedCoalescedViewsArray elements); whether the scalar is an int
# literal, a float against a double / long double array or a value of the array's own type decides
# whether a reciprocal taken in the wrong arithmetic is visible.  Every run therefore contains, by plan
# and not by chance, each destination kind x scalar kind for `/=` (quick: `*=` once per destination kind
# with a rotating scalar kind; thorough: the full cross for both operators).

SCALE_KINDS = {"A": ["tvector", "tmatrix", "vector", "matrix", "subview"],
               "B": ["stensor", "tensor", "View", "StridedCoalescedViewsArray[k]", "ViewsArray[k]"],
               "C": ["runtime_array", "View"]}
SCALAR_KINDS = ["int", "float", "own"]
SCALE_QUOTA = {"quick": {"A": 5, "B": 7, "C": 8}, "thorough": {"A": 5, "B": 7, "C": 8}}


def scale_table(group, tier, seed):
    kinds = SCALE_KINDS[group]
    t = [(k, "/=", sk) for sk in SCALAR_KINDS for k in kinds]
    if tier == "thorough":
        t += [(k, "*=", sk) for sk in SCALAR_KINDS for k in kinds]
    else:
        t += [(k, "*=", SCALAR_KINDS[(i + int(seed)) % 3]) for i, k in enumerate(kinds)]
    return t


def gen_scale_program(pid, rng, group, entry):
    kind, op, sk = entry
    T = None
    if sk == "float":
        T = rng.choice(["double", "double", "long double"])
    info = {"kind": kind, "op": op, "scalar": sk}
    force = {"form": "scale", "op": op, "sk": sk, "T": T, "scale_info": info}
    if kind == "subview":
        which = rng.choice(["col3", "row3", "sub"])
        while True:
            R, C = rng.randint(3, 5), rng.randint(3, 5)
            if R != C:
                break
        if which == "sub":
            while True:
                K = (rng.randint(1, R), rng.randint(1, C))
                if K[0] * K[1] >= 2:
                    break
            shape = ("tmatrix", K[0], K[1])
        else:
            full = C if which == "row3" else R
            K = rng.randint(2, full)
            shape = ("tvector", K)

        def mkdst(P):
            st = P.obj_store(("tmatrix", R, C))
            return mk_tm_subview(P, which, K, st)
        force["tag"] = "subview:nonsquare"
        info["view"] = which
    elif kind in ("View", "StridedCoalescedViewsArray[k]", "ViewsArray[k]"):
        fam = {"A": ["tvector", "tmatrix", "vector"], "B": ["stensor", "tensor"], "C": ["runtime_array"]}[group]
        if kind == "StridedCoalescedViewsArray[k]":
            fam = ["stensor"]
        f = rng.choice(fam)
        shape = rng.choice([x for x in SHAPES[group] if x[0] == f])
        mk = {"View": mk_view_ptr, "StridedCoalescedViewsArray[k]": mk_strided_viewsarray, "ViewsArray[k]": mk_viewsarray}[kind]

        def mkdst(P):
            for _ in range(20):
                o = mk(P, shape, None)
                if o is not None:
                    return o
            raise RuntimeError("cannot place " + kind)
    else:
        shape = rng.choice([x for x in SHAPES[group] if x[0] == kind])

        def mkdst(P):
            return mk_plain(P, shape)
    force["shape"] = shape
    force["mkdst"] = mkdst
    return gen_program(pid, rng, group, force)


def tu_source(group, progs):
    L = ["// generated by lib/etgen.py — do not edit", "#define VFH_MAIN", "#include \"math/c17_support.hxx\""]
    for h in INCLUDES[group]:
        L.append("#include \"%s\"" % h)
    L.append("using namespace tfel::math;")
    L.append("static vf::Reporter R;")
    for src, _ in progs:
        L.append(src)
    L.append("int main(int argc, char** argv) {")
    L.append("  vf::Args a(argc, argv);")
    L.append("  const long only_prog = std::atol(a.get(\"--prog\", \"-1\").c_str());")
    for _, info in progs:
        L.append("  if (only_prog < 0 || only_prog == %d) prog_%d(a);" % (info["pid"], info["pid"]))
    L.append("  R.finish();")
    L.append("  c17::flush_notes();")
    L.append("  return 0;")
    L.append("}")
    return "\n".join(L) + "\n"


def plan(tier):
    """(group, number of programs, of which sub-view quota) per translation unit"""
    if tier == "thorough":
        return [("A", 25, 9)] * 12 + [("B", 25, 0)] * 9 + [("C", 25, 0)] * 3      # 600 programs, 108 sub-view
    return [("A", 16, 7)] * 4 + [("B", 16, 0)] * 3 + [("C", 16, 0)] * 1            # 128 programs, 28 sub-view


def generate(seed, tier):
    """-> list of dict(name, group, source, programs=[info...])"""
    out = []
    pid = 0
    spec = int(seed) * 7          # the (view, use, K) table is cycled from a seed-dependent start
    sidx = {"A": 0, "B": 0, "C": 0}   # position in the scale table of each group (cycled across its TUs)
    for k, (group, n, nsub) in enumerate(plan(tier)):
        rng = random.Random("c17/%s/%s/%d" % (seed, tier, k))
        progs = []
        nscale = SCALE_QUOTA[tier][group]
        table = scale_table(group, tier, seed)
        for j in range(n):
            if j >= n - nsub:
                progs.append(gen_subview_program(pid, rng, group, spec))
                spec += 1
            elif j >= n - nsub - nscale:
                progs.append(gen_scale_program(pid, rng, group, table[sidx[group] % len(table)]))
                sidx[group] += 1
            else:
                progs.append(gen_program(pid, rng, group))
            pid += 1
        out.append({"name": "c17_s%s_%s_tu%02d" % (seed, tier[0], k), "group": group,
                    "source": tu_source(group, progs), "programs": [i for _, i in progs]})
    return out


if __name__ == "__main__":
    import sys
    tus = generate(int(sys.argv[1]) if len(sys.argv) > 1 else 0, sys.argv[2] if len(sys.argv) > 2 else "quick")
    if len(sys.argv) > 3:
        print(tus[int(sys.argv[3])]["source"])
    else:
        for t in tus:
            print(t["name"], t["group"], len(t["programs"]), len(t["source"]))
            for i in t["programs"]:
                print("   ", i["pid"], i["T"], i["api"], "|", i["stratum"], "|", i["statement"])
