// C17 compile probe (fixed source): a view on a runtime_array in a translation unit that has
// already seen fsarray.hxx.  Forward/runtime_array.hxx and Forward/fsarray.hxx share the include
// guard LIB_TFEL_MATH_FORWARD_FSARRAY_HXX, so whichever comes second loses its MathObjectTraits
// specialisation (numeric_type<runtime_array<T>> becomes InvalidType and map<> finds no overload).
#include "TFEL/Math/fsarray.hxx"
#include "TFEL/Math/runtime_array.hxx"
#include "TFEL/Math/Array/View.hxx"
int main() {
  double buf[3] = {1, 2, 3};
  double* p = buf;
  tfel::math::runtime_array<double> a(3, 1.);
  auto v = tfel::math::map<tfel::math::runtime_array<double>>(3, p);
  v += a;
  return (buf[0] == 2 && buf[2] == 4) ? 0 : 1;
}
