#!/usr/bin/env python3
"""c27_mutate.py — sensitivity experiments for C27 (not part of the check).

  python3 harness/material/c27_mutate.py            # all library mutations
Library half: a mutated copy of BoundsCheck.hxx (resp. BoundsCheck.cxx) in a scratch directory shadows the one of /repo
when the harness is compiled (nothing under /repo or the build trees is touched); the harness is run on 20000 cases and
the strata with violations are printed.
Generated half: the source mfront generates for VfBnd0 is post-processed before compilation."""
import json
import re
import shutil
import sys
from pathlib import Path

HERE = Path(__file__).resolve().parent.parent.parent
sys.path.insert(0, str(HERE / "lib"))
sys.path.insert(0, str(HERE))
import gen      # noqa: E402
import vfcore   # noqa: E402

HDR = vfcore.REPO / "include/TFEL/Material/BoundsCheck.hxx"
SRC = vfcore.REPO / "src/Material/BoundsCheck.cxx"

LIB_MUT = {
    "lower-bound-exclusive": ("hxx", lambda s: s.replace("if (value < lBound) {", "if (value <= lBound) {", 1)),
    "upper-check-of-qt-ignores-policy-None": ("hxx", lambda s: re.sub(r"(if \(base_type_cast\(value\) > uBound\) \{\n\s*)if \(p == None\) \{\n\s*return;\n\s*\}", r"\1", s, count=1)),
    "two-sided-forgets-upper": ("hxx", lambda s: s.replace("if ((value < lBound) || (value > uBound)) {", "if (value < lBound) {", 1)),
    "stensor3-skips-last-component": ("hxx", lambda s: s.replace('BoundsCheckBase::upperBoundCheck(name + "(5)", s(5), uBound, p);', "", 1)),
    "warning-silent": ("cxx", lambda s: re.sub(r"(void BoundsCheckBase::displayOutOfUpperBoundsWarning\([^{]*\{)", r"\1 return;", s, count=1)),
    "strict-does-not-throw-two-sided": ("hxx", lambda s: s.replace("throwOutOfBoundsException(name, value_as_string,\n                                    lower_bound_as_string,\n                                    upper_bound_as_string);", "", 1)),
}


def library():
    for name, (kind, f) in LIB_MUT.items():
        d = vfcore.CACHE / "c27mut" / name
        shutil.rmtree(d, ignore_errors=True)
        (d / "TFEL/Material").mkdir(parents=True)
        srcs = [HERE / "harness/material/c27.cxx"]
        if kind == "hxx":
            t = f(HDR.read_text())
            assert t != HDR.read_text(), "mutation %s did not apply" % name
            (d / "TFEL/Material/BoundsCheck.hxx").write_text(t)
        else:
            t = f(SRC.read_text())
            assert t != SRC.read_text(), "mutation %s did not apply" % name
            (d / "BoundsCheck.cxx").write_text(t)
            srcs.append(d / "BoundsCheck.cxx")
        exe = vfcore.compile_cxx("c27mut_" + re.sub(r"\W", "_", name), srcs, "plain", libs=("TFELMaterial", "TFELMath", "TFELException"), flags=("-I" + str(d),))
        r = vfcore.run([exe, "--seed", 0, "--cases", 20000, "--tier", "quick"], timeout=600)
        bad = {}
        for line in r.out.splitlines():
            if line.startswith("@@VF "):
                e = json.loads(line[5:])
                if e.get("ev") == "sum" and e.get("viol"):
                    bad["%s:%s" % (e["api"], e["stratum"])] = e["viol"]
        print("LIBRARY MUTATION %-40s -> %d strata with violations, e.g. %s" % (name, len(bad), sorted(bad.items())[:4]), flush=True)


GEN_MUT = {
    "physical-bounds-follow-the-policy": lambda s: re.sub(r'(BoundsCheck<N>::\w+\("mpp", this->mpp,[^;]*?)\);', r"\1, policy);", s),
    "state-variable-bounds-not-checked": lambda s: re.sub(r'tfel::material::BoundsCheck<N>::\w+\("svb"[^;]*;\n', "", s),
    "stensor-bounds-not-checked": lambda s: re.sub(r'tfel::material::BoundsCheck<N>::\w+\("stb"[^;]*;\n', "", s),
}


def generated():
    from checks import gen_vfbnd
    hyps = ["Tridimensional", "PlaneStrain"]
    for name, f in GEN_MUT.items():
        d = vfcore.CACHE / "c27mut" / ("gen_" + name)
        shutil.rmtree(d, ignore_errors=True)
        d.mkdir(parents=True)
        (d / "VfBnd0.mfront").write_text(gen_vfbnd.text(0, hyps))
        r = gen.generate(d, ["VfBnd0.mfront"], ["generic"])
        assert r.rc == 0, r.err
        n = 0
        for p in list((d / "include").rglob("*.hxx")) + list((d / "src").glob("*.cxx")):
            t = p.read_text()
            u = f(t)
            if u != t:
                n += 1
                p.write_text(u)
        assert n, "mutation %s did not apply" % name
        lib, log = gen.build_library(d, "VfBnd0")
        assert lib, log[-2000:]
        res = gen_vfbnd.bnd(str(lib), 0, hyps, 0, 1)
        keys = sorted({v["key"] for v in res["viol"]})
        print("GENERATED MUTATION %-40s -> %d violation keys %s" % (name, len(keys), keys[:6]), flush=True)


if __name__ == "__main__":
    vfcore.ensure_tree("plain")
    if len(sys.argv) < 2 or sys.argv[1] == "library":
        library()
    if len(sys.argv) < 2 or sys.argv[1] == "generated":
        gen.preload_tfel()
        generated()
