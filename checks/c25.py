"""C25 — homogenisation bounds, schemes, Eshelby / Hill / localisation tensors."""
import vfcore

META = {
    "engine": "math", "level": "exploration", "design_ref": "DESIGN.md §4.1 C25",
    "technique": "ASan+UBSan+assert harnesses on the homogenisation headers; results judged against textbook closed forms and against the integral definition of the Hill tensor evaluated by self-converging quadrature in long double",
    "text": "2-5 phase isotropic composites (moduli over 1e+-4 contrast, fractions on the simplex incl. edges) go through computeVoigtStiffness / computeReussStiffness / computeIsotropicHashinShtrikmanBounds (d=2,3): values against the arithmetic/harmonic means and the Hashin-Shtrikman (1963) two-phase formulas, ordering Reuss <= HS- <= HS+ <= Voigt, Mori-Tanaka with the softest/stiffest matrix = HS-/HS+ (two-phase API and N-phase ParticulateMicrostructure against the Walpole form). Eshelby, Hill and localisation tensors of spheres, spheroids, ellipsoids (aspect ratios up to 10 judged in value, up to 1e3 structurally) and elliptic cylinders are compared with Eshelby's sphere, with P = 1/(4 pi) int Gamma(xi) dS computed independently and with A = [I + P:(Ci-C0)]^-1; sphere limits, argument-permutation and axis-relabelling symmetries, P = S:C0^-1, major symmetry. Dilute / Mori-Tanaka schemes (spheres, oriented, isotropic and transverse-isotropic distributions) against C0 + f (Ci-C0):<A>[:((1-f)I+f<A>)^-1] with independently averaged A; f = 0 gives the matrix; for computeDilute / computeMoriTanaka / computeSelfConsistent on random microstructures the returned localisation tensors average to the identity (MT, SC) and reproduce the returned stiffness. computeAnisotropicHillTensor (10 subdivisions) against the same integral for isotropic and rotated orthotropic media. Held on the cases executed; nothing is claimed beyond them.",
    "note": "Trusted: harness/material/{eshelby_ref,mat_ref}.hxx (quadrature self-checked against Eshelby's sphere in every run), g++, sanitizer runtimes. Tolerances: 512 eps x conditioning (contrast, 1/gap^2 of the semi-axes) with a 1e-9 floor for the elliptic-integral closed forms; 48 x gap below the documented switch to the degenerate formula; 1e-3 for the numerically integrated anisotropic Hill tensor (accuracy not documented).",
}

H = vfcore.VERIF / "harness/material"
LIBS = ("TFELMaterial", "TFELMath", "TFELUtilities", "TFELException")
PARTS = {"c25a": (20000, 600000), "c25e": (2400, 60000), "c25b": (1280, 24000)}


def build(ctx):
    out = dict(vfcore.pmap(lambda p: (p, vfcore.compile_cxx(p, [H / (p + ".cxx")], "asan", libs=LIBS)), PARTS, workers=3))
    out["probe"] = vfcore.compile_cxx("c25_orient_probe", [H / "c25_orient_probe.cxx"], "plain", libs=LIBS)
    return out


def run(ctx):
    b = build(ctx)
    ctx.cov["rule"] = ("case = (family, stratum, phase moduli / fractions / semi-axes / orientation) drawn from (VERIF_SEED, index); "
                       "distinct = hash of the rounded inputs per (API, stratum); every case is non-trivial (positive moduli, fractions summing to one)")
    # orientations: the library refuses (abort through reportContractViolation) directions whose
    # floating-point dot product is not exactly zero
    r = vfcore.run([b["probe"]], timeout=60, cwd=ctx.work, env={"LD_LIBRARY_PATH": vfcore.ld_path("plain")})
    ctx.add_eval(1)
    if "accepted" not in r.out:
        ctx.violation("computeHillPolarisationTensor:orthogonal-directions-up-to-rounding",
                      "an ellipsoid oriented by two columns of a rotation matrix (orthogonal up to one rounding error, %s) is refused: rc=%s %s"
                      % (r.out.strip().split("\n")[0] if r.out else "?", r.rc, (r.err or "").strip()[-300:]),
                      {"probe": str(H / "c25_orient_probe.cxx"), "stdout": r.out, "stderr": r.err[-2000:], "rc": r.rc})
    req = {
        "c25a": [("computeVoigtStiffness<3>", None, 100), ("computeReussStiffness<3>", None, 100), ("K:Reuss<=HS-<3>", None, 100), ("mu:HS+<=Voigt<3>", None, 100),
                 ("K:Reuss<=HS-<2>", None, 100), ("HS-.K=Hashin-Shtrikman1963<3>", None, 30), ("MoriTanaka(softest matrix).K=HS-<3>", None, 30),
                 ("MoriTanaka(stiffest matrix).mu=HS+<3>", None, 30), ("PlaneStrainHillTensor=integral-definition", None, 100),
                 ("DiskPlaneStrainEshelbyTensor=closed-form", None, 30), ("PlaneStrainLocalisationTensor=[I+P:(Ci-C0)]^-1(in-plane)", None, 100)],
        "c25e": [("HillPolarisationTensor=integral-definition", s, 20) for s in ("sphere", "prolate", "oblate", "ellipsoid", "near-sphere", "near-axisymmetric")] +
                [("HillPolarisationTensor:major-symmetry", "extreme", 20), ("SphereEshelbyTensor=Eshelby1957", None, 20), ("oracle:quadrature(sphere)=closed-form", None, 20),
                 ("AxisymmetricalEshelbyTensor->sphere", None, 20), ("EllipsoidLocalisationTensor=[I+P:(Ci-C0)]^-1", None, 100),
                 ("OrientedMoriTanakaScheme=C0+f(Ci-C0):A:[(1-f)I+fA]^-1", None, 100), ("IsotropicDiluteScheme=C0+f(Ci-C0):<A>iso", None, 100),
                 ("TransverseIsotropicMoriTanakaScheme=C0+f(Ci-C0):<A>:[(1-f)I+f<A>]^-1", None, 100), ("SphereMoriTanakaScheme=closed-form", None, 20),
                 ("f=0:OrientedDilute/MoriTanaka=matrix", None, 20)],
        "c25b": [("computeMoriTanaka(spheres).K=HS(Walpole)", s, 50) for s in ("softest-matrix", "stiffest-matrix")] +
                [("computeMoriTanaka:sum f_r A_r=I", None, 100), ("computeSelfConsistent:sum f_r A_r=I", None, 100), ("computeDilute:f=0:Chom=matrix", None, 30),
                 ("computeSelfConsistent:f=0:Chom=matrix", None, 30), ("computeAnisotropicHillTensor=integral-definition", None, 10)],
    }
    for part, (nq, nt) in PARTS.items():
        ctx.run_events(b[part], ctx.n(nq, nt), shards=vfcore.NCPU, require=req[part], timeout=3600)
    ctx.assumptions += [
        "orientations given to the library have an exactly zero floating-point dot product (drawn until they do, or n_b = (-n_a[1], n_a[0], 0)): anything else aborts (see findings/C25-orthogonality-contract.md)",
        "computeAxisymmetricalEshelbyTensor(nu,e) / computeEshelbyTensor(nu,a,b,c) are expressed in the basis sorted by decreasing semi-axis (header comments, upstream tests); Hill tensors with directions are in the global basis, a along n_a, b along n_b, c along n_a x n_b",
        "only the in-plane (xx,yy,xy) block of the plane-strain tensors is compared (out-of-plane row/column convention undocumented)",
        "Mori-Tanaka = Hashin-Shtrikman is demanded for well-ordered phases only (matrix extreme in both K and mu); for non well-ordered phases only the ordering of the bounds is checked",
        "the self-consistent scheme is only asked for its stated identities (average of localisation tensors, stiffness, f=0): the library keeps a unit dilute localisation tensor for the matrix, so the classical Hill-Budiansky equations of an all-spheres microstructure are not satisfied (residual 1e-3..1e-2); the documentation does not define the scheme further",
        "computeAnisotropicHillTensor / EshelbyTensor are called with 10 subdivisions (the default 12 costs > 1 s per call); PCW schemes, second moments, UserDefinedDistributionOfSpheroids and anisotropic-matrix microstructures are not exercised",
    ]
