// C05 — isotropic functions of symmetric tensors and their derivatives (DESIGN.md §4.1)
// Compile with -DC05_N=1|2|3 (one binary per space dimension), scalar type double.
// Oracles (independent of the library): f(S) = sum f(l_i) n_i x n_i from the long-double cyclic Jacobi
// (ref::isofun); derivative = Richardson-extrapolated central finite differences (steps h, h/2, h/4, long
// double) of ref::isofun along random unit symmetric directions H, compared with (dF/dS):H computed in
// long double from the returned st2tost2 (Mandel storage).
// api = "<entry point><N,double>/<f>", stratum in
//   distinct | equal2 | equal3 | near2 (two eigenvalues with gap = eps * 10^[-3,3], third one apart)
//   | near3 (three eigenvalues within eps * 10^[-3,3] of each other)
// Tolerances:
//   values      Kf eps_d (sup|f| + |S| sup|f'|)              [+ solver term for the variants that call a solver]
//   derivative  50 (FD error estimate) + Kd eps_d (sup|f'| + |S| sup|f''|)
//               + Kd eps_d (sup|f| + |S| sup|f'|) / (smallest gap not merged by the eps argument)   (cancellation)
//               + 512 eps_L (sup|f| + |S| sup|f'|) / h                                             (rounding floor of the FD)
//               + 16 eps sup|f''|  when a gap is below the eps argument (regularised regime)
//   cases whose rounding part exceeds 1e-4 of the scale of the derivative are skipped (ill-conditioned),
//   as are directions where the finite differences did not converge.
#define VFH_MAIN
#include "eigcommon.hxx"
#include "TFEL/Math/st2tost2.hxx"
#include "TFEL/Math/Stensor/DecompositionInPositiveAndNegativeParts.hxx"

#ifndef C05_N
#define C05_N 3
#endif

using namespace ref;
using namespace vfx;
using real = double;
static constexpr unsigned short N = C05_N;
static constexpr int NS = ssize(C05_N);
using Stensor = tfm::stensor<N, real>;
using ST2 = tfm::st2tost2<N, real>;
using vec3 = tfm::tvector<3u, real>;
using mat3 = tfm::tmatrix<3u, 3u, real>;
using SC = tfm::stensor_common;

static vf::Reporter R;
static constexpr L EPSD = std::numeric_limits<double>::epsilon();
static constexpr L KF = 256, KD = 4096, KREG = 16, KSOLV = 8;

// ---- scalar functions ------------------------------------------------------------------------
struct FExp { static constexpr const char* name = "exp"; static constexpr double lo = -2, hi = 2; static constexpr bool signed_dom = false;
  template <typename X> static X f(X x) { return std::exp(x); } template <typename X> static X df(X x) { return std::exp(x); } static L d2f(L x) { return std::exp(x); } };
struct FLog { static constexpr const char* name = "log"; static constexpr double lo = 0.5, hi = 3; static constexpr bool signed_dom = false;
  template <typename X> static X f(X x) { return std::log(x); } template <typename X> static X df(X x) { return 1 / x; } static L d2f(L x) { return -1 / (x * x); } };
struct FCube { static constexpr const char* name = "cube"; static constexpr double lo = -2, hi = 2; static constexpr bool signed_dom = false;
  template <typename X> static X f(X x) { return x * x * x; } template <typename X> static X df(X x) { return 3 * x * x; } static L d2f(L x) { return 6 * x; } };
struct FSqrt { static constexpr const char* name = "sqrt"; static constexpr double lo = 0.5, hi = 3; static constexpr bool signed_dom = false;
  template <typename X> static X f(X x) { return std::sqrt(x); } template <typename X> static X df(X x) { return 1 / (2 * std::sqrt(x)); } static L d2f(L x) { return -1 / (4 * x * std::sqrt(x)); } };
// |x| and max(x,0): eigenvalues kept away from the kink (|l| >= 0.2)
struct FAbs { static constexpr const char* name = "abs"; static constexpr double lo = 0.2, hi = 2; static constexpr bool signed_dom = true;
  template <typename X> static X f(X x) { return x < 0 ? -x : x; } template <typename X> static X df(X x) { return x < 0 ? X(-1) : X(1); } static L d2f(L) { return 0; } };
struct FPos { static constexpr const char* name = "pos"; static constexpr double lo = 0.2, hi = 2; static constexpr bool signed_dom = true;
  template <typename X> static X f(X x) { return x < 0 ? X(0) : x; } template <typename X> static X df(X x) { return x < 0 ? X(0) : X(1); } static L d2f(L) { return 0; } };
struct FNeg { static constexpr const char* name = "neg"; static constexpr double lo = 0.2, hi = 2; static constexpr bool signed_dom = true;
  template <typename X> static X f(X x) { return x > 0 ? X(0) : x; } template <typename X> static X df(X x) { return x > 0 ? X(0) : X(1); } static L d2f(L) { return 0; } };

template <typename F>
struct Sup {  // sup over [a,b] of |f|, |f'|, |f''|: all the functions above attain them at an end point
  L f0, f1, f2;
  Sup(L a, L b) {
    f0 = std::max(std::fabs(F::template f<L>(a)), std::fabs(F::template f<L>(b)));
    f1 = std::max(std::fabs(F::template df<L>(a)), std::fabs(F::template df<L>(b)));
    f2 = std::max(std::fabs(F::d2f(a)), std::fabs(F::d2f(b)));
    // piecewise linear functions: f'' vanishes away from the kink, but when the spectrum straddles the kink the
    // divided differences (f(a) - f(b)) / (a - b) still vary with a: |d/da| <= 2 sup|f'| / |a - b|, |a - b| >= 2 * 0.75 * lo
    if (F::signed_dom) { f0 = std::max(std::fabs(a), std::fabs(b)); f1 = 1; f2 = (a < 0 && b > 0) ? 2 / (1.5L * F::lo) : 0; }
  }
};

// ---- strata -------------------------------------------------------------------------------------
enum St { DISTINCT, EQUAL2, EQUAL3, NEAR2B, NEAR2A, NEAR3, NST };
static const char* SN[NST] = {"distinct", "equal2", "equal3", "near2_below_eps", "near2_above_eps", "near3"};
static const double EPSARG[6] = {1e-12, 1e-10, 1e-8, 1e-6, 1e-4, 1e-3};

template <typename F>
static L draw(vf::Rng& g) {
  const L v = g.uni(F::lo, F::hi);
  return F::signed_dom ? v * g.sign() : v;
}
template <typename F>
static bool in_dom(L v) { return F::signed_dom ? (std::fabs(v) >= F::lo * 0.75L && std::fabs(v) <= F::hi * 1.25L) : (v >= F::lo * 0.9L - (F::lo < 0 ? 0.3L : 0) && v <= F::hi + 0.3L); }

template <typename F>
static void spectrum(vf::Rng& g, int st, L eps, L l[3]) {
  for (;;) {
    switch (st) {
      case DISTINCT: l[0] = draw<F>(g); l[1] = draw<F>(g); l[2] = draw<F>(g); break;
      case EQUAL2: l[0] = l[1] = draw<F>(g); l[2] = draw<F>(g); break;
      case EQUAL3: l[0] = l[1] = l[2] = draw<F>(g); break;
      case NEAR2B: l[0] = draw<F>(g); l[1] = l[0] + eps * g.logmag(-3, -0.05) * g.sign(); l[2] = draw<F>(g); break;
      case NEAR2A: l[0] = draw<F>(g); l[1] = l[0] + std::min<L>(0.05L, eps * g.logmag(0.05, 3)) * g.sign(); l[2] = draw<F>(g); break;
      default: l[0] = draw<F>(g); l[1] = l[0] + std::min<L>(0.05L, eps * g.logmag(-3, 3)) * g.sign();
               l[2] = l[0] + std::min<L>(0.05L, eps * g.logmag(-3, 3)) * g.sign();
    }
    bool ok = in_dom<F>(l[0]) && in_dom<F>(l[1]) && in_dom<F>(l[2]);
    if (st == DISTINCT) ok = ok && std::fabs(l[0] - l[1]) >= 0.25L && std::fabs(l[0] - l[2]) >= 0.25L && std::fabs(l[1] - l[2]) >= 0.25L;
    if (st == EQUAL2 || st == NEAR2B || st == NEAR2A) ok = ok && std::fabs(l[0] - l[2]) >= 0.5L && std::fabs(l[1] - l[2]) >= 0.5L;
    if (ok) break;
  }
  if (N == 3) shuffle3(g, l);
  else if (N == 2 && g.irange(0, 3) == 0) std::swap(l[1], l[2]);  // the (near-)equal pair is then in-plane / out-of-plane
}

// ---- helpers ------------------------------------------------------------------------------------
static M3 random_dir(vf::Rng& g) {
  M3 h = random_sym(g, N);
  const L n = norm(h);
  return n > 0 ? scal(h, 1 / n) : eye();
}
// (d : H) with d in Mandel storage
static M3 ddot_mandel(const ST2& d, const M3& H) {
  const auto hv = to_st(H, N);
  std::array<L, 6> r{};
  for (int p = 0; p < NS; ++p) for (int q = 0; q < NS; ++q) r[p] += L(d(p, q)) * hv[q];
  return from_st(r, N);
}
static bool finite_st2(const ST2& d) { for (int p = 0; p < NS; ++p) for (int q = 0; q < NS; ++q) if (!std::isfinite(d(p, q))) return false; return true; }
static bool finite_st(const Stensor& s) { for (int p = 0; p < NS; ++p) if (!std::isfinite(s[p])) return false; return true; }

// Richardson-extrapolated central difference of t -> isofun(A + t H, f); returns false when not converged
template <typename F>
static bool fd_derivative(const M3& A, const M3& H, L h, M3& D, L& est) {
  auto Fm = [&](L t) { return isofun(add(A, H, t), [](L x) { return F::template f<L>(x); }); };
  auto cd = [&](L s) { return scal(add(Fm(s), Fm(-s), -1), 1 / (2 * s)); };
  const M3 d1 = cd(h), d2 = cd(h / 2), d3 = cd(h / 4);
  const M3 r1 = scal(add(scal(d2, 4), d1, -1), 1 / 3.0L), r2 = scal(add(scal(d3, 4), d2, -1), 1 / 3.0L);
  D = scal(add(scal(r2, 16), r1, -1), 1 / 15.0L);
  est = dist(D, r2);
  return std::isfinite(double(est)) && est <= 1e-9L * (1 + norm(D));
}

struct Case {
  uint64_t idx; int st; L eps;
  L l[3];        // nominal spectrum
  M3 Q;          // nominal frame
  vec3 vp; mat3 m;  // rounded decomposition handed to the static entry points
  Stensor s;     // rounded tensor handed to the entry points that call a solver
  M3 As;         // exactly the matrix denoted by s
  M3 Av;         // sum vp_i m_i x m_i (long double), the matrix the static entry points talk about
  const char* fname;
};

static std::string dump_case(const Case& c, const char* solver, const Stensor* out, const ST2* d) {
  vf::J j;
  j.i("N", N).s("f", c.fname).s("stratum", SN[c.st]).s("solver", solver).f("eps", c.eps);
  j.arr("s", &c.s[0], &c.s[0] + NS).arr("vp", &c.vp[0], &c.vp[0] + 3);
  double mm[9]; for (int i = 0; i < 3; ++i) for (int k = 0; k < 3; ++k) mm[3 * i + k] = c.m(i, k);
  j.arr("m(rowmajor)", mm, mm + 9).darr("vp_d", &c.vp[0], &c.vp[0] + 3);
  if (out) j.darr("result", &(*out)[0], &(*out)[0] + NS);
  if (d) { double dd[36]; for (int p = 0; p < NS; ++p) for (int q = 0; q < NS; ++q) dd[NS * p + q] = (*d)(p, q); j.darr("derivative(rowmajor)", dd, dd + NS * NS); }
  return j.str();
}

// gaps of a spectrum w.r.t. the eps argument: smallest gap that is NOT merged, and whether one is merged
struct Gaps { L unmerged = INFINITY; bool merged = false; L lmin, lmax; };
static Gaps gaps_of(const L w[3], L eps, L slack) {
  Gaps g; g.lmin = std::min({w[0], w[1], w[2]}); g.lmax = std::max({w[0], w[1], w[2]});
  const int np = N == 1 ? 0 : (N == 2 ? 1 : 3);
  static const int PI[3] = {0, 0, 1}, PJ[3] = {1, 2, 2};
  for (int k = 0; k < np; ++k) {
    const L d = std::fabs(w[PI[k]] - w[PJ[k]]);
    if (d <= eps * slack) g.merged = true;
    if (d >= eps / slack) g.unmerged = std::min(g.unmerged, d);
  }
  return g;
}

template <typename F>
struct Tol { L val, val_reg, der_round, der_solver, der_reg, dscale; };
template <typename F>
static Tol<F> tolerances(const L w[3], L nA, L eps, L slack, L delta_solver) {
  const Gaps g = gaps_of(w, eps, slack);
  const Sup<F> s(g.lmin - 0.06L * (F::signed_dom ? 0 : 1), g.lmax + 0.06L);
  Tol<F> t;
  t.val = KF * (EPSD + delta_solver) * (s.f0 + nA * s.f1);
  t.val_reg = g.merged ? 4 * eps * s.f1 : 0;  // only for the entry points documented to merge eigenvalues closer than eps
  t.dscale = s.f1 + nA * s.f2 + 1e-300L;
  // rounding of the inputs and of the divided differences (f_i - f_j) / (l_i - l_j)
  t.der_round = KD * EPSD * (s.f1 + nA * s.f2);
  // rounding floor of the long-double finite differences themselves: eps_L |F| / h with h = 1e-4 max(1, |S|)
  t.der_round += 512 * L(std::numeric_limits<L>::epsilon()) * (s.f0 + nA * s.f1) / (1e-4L * std::max<L>(1, nA));
  if (std::isfinite(double(g.unmerged))) t.der_round += KD * EPSD * (s.f0 + nA * s.f1) / g.unmerged;
  // error of the eigen-decomposition the entry point starts from (eigenvalues delta |S|, eigenvectors delta |S| / gap)
  t.der_solver = KSOLV * delta_solver * (s.f1 + nA * s.f2);
  if (std::isfinite(double(g.unmerged))) t.der_solver += KSOLV * delta_solver * nA * (s.f1 + nA * s.f2) / g.unmerged;
  t.der_reg = g.merged ? KREG * eps * s.f2 : 0;
  return t;
}

static char g_api[120];
static const char* api_name(const char* ep, const char* f) { std::snprintf(g_api, sizeof g_api, "%s<%d,double>/%s", ep, int(N), f); return g_api; }

template <typename F>
static void judge_value(const Case& c, const char* ep, const char* solver, const Stensor& out, const M3& expect, L tol) {
  const char* api = api_name(ep, F::name);
  const uint64_t h = vf::hash_arr(&c.s[0], NS, c.st);
  const L e = finite_st(out) ? dist(from_st(out, N), expect) : L(NAN);
  R.check(api, SN[c.st], c.idx, h, e, tol, [&] { return dump_case(c, solver, &out, nullptr); }, "value: |result - sum f(l_i) n_i x n_i|");
}

// compares d:H with the finite differences of the reference function at A, for the directions Hs
template <typename F>
static void judge_derivative(const Case& c, const char* ep, const char* solver, const ST2& d, const M3& A, const Tol<F>& t,
                             const M3* Hs, const M3* Ds, const L* ests, const bool* conv, int nd) {
  const char* api = api_name(ep, F::name);
  const uint64_t h = vf::hash_arr(&c.s[0], NS, c.st + 16);
  (void)A;
  if (!(t.der_round + t.der_solver <= 1e-4L * t.dscale)) { R.skip(api, SN[c.st]); return; }
  if (!finite_st2(d)) { R.check(api, SN[c.st], c.idx, h, NAN, 0, [&] { return dump_case(c, solver, nullptr, &d); }, "derivative has non-finite components"); return; }
  for (int k = 0; k < nd; ++k) {
    if (!conv[k]) { R.skip(api, SN[c.st]); continue; }
    const L e = dist(ddot_mandel(d, Hs[k]), Ds[k]);
    R.check(api, SN[c.st], c.idx, h + k, e, 50 * ests[k] + t.der_round + t.der_solver + t.der_reg, [&] { return dump_case(c, solver, nullptr, &d); },
            "derivative: |(dF/dS):H - Richardson FD of the reference function along H|, |H| = 1");
  }
}

template <SC::EigenSolver es>
static L solver_delta(L relgap, bool close) {
  // accuracy of the eigen-decomposition a solver-based entry point starts from (C03): closed-form solvers
  // lose up to sqrt(eps) at (nearly) repeated eigenvalues
  if (es == SC::FSESJACOBIEIGENSOLVER || es == SC::GTESYMMETRICQREIGENSOLVER) return 64 * EPSD;
  // (sqrt(eps) whenever two eigenvalues are close, 1024 eps / relgap otherwise: envelope of what C03 measures)
  // (close: every stratum but "distinct", whose gaps are >= 0.25)
  return (!close && relgap > 0) ? 1024 * EPSD / relgap : 8 * std::sqrt(EPSD);
}

template <typename F, SC::EigenSolver es>
static void solver_variants(const Case& c, const L ws[3], const M3& FA, const M3* Hs, const M3* Ds, const L* ests, const bool* conv, int nd) {
  using S = Solver<es>;
  auto f = [](const auto x) { return F::f(x); };
  auto df = [](const auto x) { return F::df(x); };
  const L nA = norm(c.As);
  L sw[3] = {ws[0], ws[1], ws[2]}; std::sort(sw, sw + 3);
  const L relgap = nA > 0 ? std::min(sw[1] - sw[0], sw[2] - sw[1]) / nA : 0;
  const L ds = solver_delta<es>(N == 1 ? 1 : relgap, N != 1 && c.st != DISTINCT);
  // the solver's eigenvalues differ from the exact ones by ds |S|: a gap within that distance of eps may fall on either side
  const Tol<F> t = tolerances<F>(ws, nA, c.eps, 2 + 4 * ds * nA / c.eps, ds);
  const real eps = real(c.eps);
  char ep[96];
  const bool b = (c.idx / 7) % 2 == 1;
  Stensor r0(real(0)), r1(real(0)), r3(real(0));
  ST2 d1(real(0)), d2(real(0)), d3(real(0));
  std::pair<Stensor, ST2> p4;
  vfx::set_case(api_name("solver-based", F::name), SN[c.st], c.idx);
  const bool ok = guarded([&] {
    r0 = c.s.template computeIsotropicFunction<es>(f, b);
    r1 = tfm::computeIsotropicFunction<es>(f, c.s, b);
    d1 = c.s.template computeIsotropicFunctionDerivative<es>(f, df, eps, b);
    d2 = tfm::computeIsotropicFunctionDerivative<es>(f, df, c.s, eps, b);
    p4 = c.s.template computeIsotropicFunctionAndDerivative<es>(f, df, eps, b);
    auto p5 = tfm::computeIsotropicFunctionAndDerivative<es>(f, df, c.s, eps, b);
    r3 = p5.first; d3 = p5.second;
  });
  std::snprintf(ep, sizeof ep, "computeIsotropicFunction[%s]", S::name);
  if (!ok) { R.check(api_name(ep, F::name), SN[c.st], c.idx, 0, INFINITY, 0, [&] { return dump_case(c, S::name, nullptr, nullptr); }, g_why); return; }
  judge_value<F>(c, ep, S::name, r0, FA, t.val);
  std::snprintf(ep, sizeof ep, "computeIsotropicFunction(f,s)[%s]", S::name);
  judge_value<F>(c, ep, S::name, r1, FA, t.val);
  std::snprintf(ep, sizeof ep, "computeIsotropicFunctionAndDerivative.first[%s]", S::name);
  judge_value<F>(c, ep, S::name, p4.first, FA, t.val);
  std::snprintf(ep, sizeof ep, "computeIsotropicFunctionAndDerivative(f,df,s).first[%s]", S::name);
  judge_value<F>(c, ep, S::name, r3, FA, t.val);
  std::snprintf(ep, sizeof ep, "computeIsotropicFunctionDerivative[%s]", S::name);
  judge_derivative<F>(c, ep, S::name, d1, c.As, t, Hs, Ds, ests, conv, nd);
  std::snprintf(ep, sizeof ep, "computeIsotropicFunctionDerivative(f,df,s)[%s]", S::name);
  judge_derivative<F>(c, ep, S::name, d2, c.As, t, Hs, Ds, ests, conv, nd);
  std::snprintf(ep, sizeof ep, "computeIsotropicFunctionAndDerivative.second[%s]", S::name);
  judge_derivative<F>(c, ep, S::name, p4.second, c.As, t, Hs, Ds, ests, conv, nd);
  std::snprintf(ep, sizeof ep, "computeIsotropicFunctionAndDerivative(f,df,s).second[%s]", S::name);
  judge_derivative<F>(c, ep, S::name, d3, c.As, t, Hs, Ds, ests, conv, nd);
}

template <typename F>
static void run_function(const vf::Args& a, uint64_t idx, int st) {
  vf::Rng g(a.seed, 500 + N, idx);
  Case c;
  c.idx = idx; c.st = st; c.fname = F::name;
  c.eps = EPSARG[g.irange(0, 5)];
  spectrum<F>(g, st, c.eps, c.l);
  c.Q = random_rotation(g, N, 0);
  for (int i = 0; i < 3; ++i) { c.vp[i] = real(c.l[i]); for (int j = 0; j < 3; ++j) c.m(i, j) = real(c.Q[i][j]); }
  L lv[3] = {L(c.vp[0]), L(c.vp[1]), L(c.vp[2])};
  c.Av = reconstruct(lv, to_m3(c.m));
  c.s = mk<N, real>(c.Av);
  c.As = from_st(c.s, N);
  constexpr int ND = 2;
  M3 Hs[ND]; for (auto& h : Hs) h = random_dir(g);
  auto f = [](const auto x) { return F::f(x); };
  auto df = [](const auto x) { return F::df(x); };
  const real eps = real(c.eps);

  // ================= entry points working from a given eigen-decomposition (vp, m)
  {
    const M3 Vm = to_m3(c.m);
    L fl[3] = {F::template f<L>(lv[0]), F::template f<L>(lv[1]), F::template f<L>(lv[2])};
    const M3 FAv = reconstruct(fl, Vm);
    const L nA = norm(c.Av);
    const Tol<F> t = tolerances<F>(lv, nA, c.eps, 1 + 1e-9L, 0);
    M3 Ds[ND]; L ests[ND]; bool conv[ND];
    for (int k = 0; k < ND; ++k) conv[k] = fd_derivative<F>(c.Av, Hs[k], 1e-4L * std::max<L>(1, nA), Ds[k], ests[k]);
    vec3 fv, dfv;
    for (int i = 0; i < 3; ++i) { fv[i] = F::f(c.vp[i]); dfv[i] = F::df(c.vp[i]); }
    Stensor r0(real(0)), r1(real(0));
    ST2 d0(real(0)), d1(real(0)), d2(real(0)), d3(real(0));
    vfx::set_case(api_name("static", F::name), SN[st], idx);
    const bool ok = guarded([&] {
      r0 = Stensor::computeIsotropicFunction(f, c.vp, c.m);
      r1 = Stensor::computeIsotropicFunction(fv, c.m);
      d0 = Stensor::computeIsotropicFunctionDerivative(f, df, c.vp, c.m, eps);
      Stensor::computeIsotropicFunctionDerivative(d1, f, df, c.vp, c.m, eps);
      d2 = Stensor::computeIsotropicFunctionDerivative(fv, dfv, c.vp, c.m, eps);
      Stensor::computeIsotropicFunctionDerivative(d3, fv, dfv, c.vp, c.m, eps);
    });
    if (!ok) {
      R.check(api_name("computeIsotropicFunctionDerivative(f,df,vp,m,eps)", F::name), SN[st], idx, 0, INFINITY, 0, [&] { return dump_case(c, "-", nullptr, nullptr); }, g_why);
    } else {
      judge_value<F>(c, "computeIsotropicFunction(f,vp,m)", "-", r0, FAv, t.val);
      judge_value<F>(c, "computeIsotropicFunction(fvalues,m)", "-", r1, FAv, t.val);
      judge_derivative<F>(c, "computeIsotropicFunctionDerivative(f,df,vp,m,eps)", "-", d0, c.Av, t, Hs, Ds, ests, conv, ND);
      judge_derivative<F>(c, "computeIsotropicFunctionDerivative(d,f,df,vp,m,eps)", "-", d1, c.Av, t, Hs, Ds, ests, conv, ND);
      judge_derivative<F>(c, "computeIsotropicFunctionDerivative(fvalues,dfvalues,vp,m,eps)", "-", d2, c.Av, t, Hs, Ds, ests, conv, ND);
      judge_derivative<F>(c, "computeIsotropicFunctionDerivative(d,fvalues,dfvalues,vp,m,eps)", "-", d3, c.Av, t, Hs, Ds, ests, conv, ND);
    }
  }
  // ================= entry points that start from the tensor and call an eigen-solver
  {
    V3 w; M3 v; jacobi(c.As, w, v);
    const L ws[3] = {w[0], w[1], w[2]};
    const M3 FA = isofun(c.As, [](L x) { return F::template f<L>(x); });
    const L nA = norm(c.As);
    M3 Ds[ND]; L ests[ND]; bool conv[ND];
    for (int k = 0; k < ND; ++k) conv[k] = fd_derivative<F>(c.As, Hs[k], 1e-4L * std::max<L>(1, nA), Ds[k], ests[k]);
    // in 2D the spectrum seen by the regularisation is (in-plane pair, out-of-plane): keep that order for the gaps
    L wo[3] = {ws[0], ws[1], ws[2]};
    if (N == 2) {
      // in-plane eigenvalues of the 2x2 block, out-of-plane = s_zz
      const L a = c.As[0][0], bb = c.As[1][1], cc = c.As[0][1];
      const L mean = (a + bb) / 2, rad = std::sqrt((a - bb) * (a - bb) / 4 + cc * cc);
      wo[0] = mean + rad; wo[1] = mean - rad; wo[2] = c.As[2][2];
    }
    solver_variants<F, SC::TFELEIGENSOLVER>(c, wo, FA, Hs, Ds, ests, conv, ND);
    solver_variants<F, SC::FSESJACOBIEIGENSOLVER>(c, wo, FA, Hs, Ds, ests, conv, ND);
    solver_variants<F, SC::GTESYMMETRICQREIGENSOLVER>(c, wo, FA, Hs, Ds, ests, conv, ND);
    // ---- named functions (default solver)
    const Sup<F> sp(std::min({wo[0], wo[1], wo[2]}) - 0.06L * (F::signed_dom ? 0 : 1), std::max({wo[0], wo[1], wo[2]}) + 0.06L);
    L sw[3] = {wo[0], wo[1], wo[2]}; std::sort(sw, sw + 3);
    const L relgap = (N == 1 || nA == 0) ? 1 : std::min(sw[1] - sw[0], sw[2] - sw[1]) / nA;
    const L tv = KF * (EPSD + solver_delta<SC::TFELEIGENSOLVER>(relgap, N != 1 && st != DISTINCT)) * (sp.f0 + nA * sp.f1);
    const bool b = (idx / 7) % 2 == 1;
    Stensor r(real(0)), r2(real(0));
    const char* nm = nullptr;
    vfx::set_case(api_name("named", F::name), SN[st], idx);
    const bool ok = guarded([&] {
      if (std::strcmp(F::name, "log") == 0) { nm = "logarithm"; r = tfm::logarithm(c.s, b); }
      else if (std::strcmp(F::name, "sqrt") == 0) { nm = "square_root"; r = tfm::square_root(c.s); }
      else if (std::strcmp(F::name, "abs") == 0) { nm = "absolute_value"; r = tfm::absolute_value(c.s, b); }
      else if (std::strcmp(F::name, "pos") == 0) { nm = "positive_part"; r = tfm::positive_part(c.s, b); r2 = tfm::negative_part(c.s, b); }
      else if (std::strcmp(F::name, "neg") == 0) { nm = "negative_part"; r = tfm::negative_part(c.s, b); r2 = tfm::positive_part(c.s, b); }
    });
    if (nm && !ok) R.check(api_name(nm, F::name), SN[st], idx, 0, INFINITY, 0, [&] { return dump_case(c, "TFEL", nullptr, nullptr); }, g_why);
    else if (nm) {
      judge_value<F>(c, nm, "TFEL", r, FA, tv);
      if (std::strcmp(F::name, "pos") == 0 || std::strcmp(F::name, "neg") == 0) {
        Stensor sum = r + r2;
        const L e = finite_st(sum) ? dist(from_st(sum, N), c.As) : L(NAN);
        R.check(api_name("positive_part+negative_part", F::name), SN[st], idx, vf::hash_arr(&c.s[0], NS, st), e,
                KF * (EPSD + solver_delta<SC::TFELEIGENSOLVER>(relgap, N != 1 && st != DISTINCT)) * 2 * nA, [&] { return dump_case(c, "TFEL", &sum, nullptr); },
                "positive_part(s) + negative_part(s) - s");
      }
    }
    // ---- DecompositionInPositiveAndNegativeParts (positive / negative parts and their derivatives)
    if (std::strcmp(F::name, "pos") == 0) {
      Stensor pp(real(0)), np(real(0)), pp2(real(0));
      ST2 dpp(real(0)), dnp(real(0)), dpp2(real(0));
      const bool ok2 = guarded([&] {
        tfm::computeStensorPositivePartAndDerivative(dpp2, pp2, c.s, eps);
        tfm::computeStensorDecompositionInPositiveAndNegativeParts(dpp, dnp, pp, np, c.s, eps);
      });
      if (!ok2) R.check(api_name("computeStensorDecompositionInPositiveAndNegativeParts", "pos"), SN[st], idx, 0, INFINITY, 0, [&] { return dump_case(c, "TFEL", nullptr, nullptr); }, g_why);
      else {
        const L dsol = solver_delta<SC::TFELEIGENSOLVER>(relgap, N != 1 && st != DISTINCT);
        const Tol<F> t = tolerances<F>(wo, nA, c.eps, 2 + 4 * dsol * nA / c.eps, dsol);
        // these functions are documented to treat eigenvalues closer than eps as equal: also in the values
        judge_value<F>(c, "computeStensorPositivePartAndDerivative.pp", "TFEL", pp2, FA, tv + t.val_reg);
        judge_value<F>(c, "computeStensorDecompositionInPositiveAndNegativeParts.pp", "TFEL", pp, FA, tv + t.val_reg);
        judge_value<F>(c, "computeStensorDecompositionInPositiveAndNegativeParts.pp+np", "TFEL", Stensor(pp + np), c.As, tv + KF * EPSD * 2 * nA + 2 * t.val_reg);
        judge_derivative<F>(c, "computeStensorPositivePartAndDerivative.dpp", "TFEL", dpp2, c.As, t, Hs, Ds, ests, conv, ND);
        judge_derivative<F>(c, "computeStensorDecompositionInPositiveAndNegativeParts.dpp", "TFEL", dpp, c.As, t, Hs, Ds, ests, conv, ND);
        // negative part = s - positive part: d(np)/ds : H = H - d(pp)/ds : H, judged against the same finite differences
        M3 Dn[ND];
        for (int k = 0; k < ND; ++k) Dn[k] = add(Hs[k], Ds[k], -1);
        judge_derivative<F>(c, "computeStensorDecompositionInPositiveAndNegativeParts.dnp", "TFEL", dnp, c.As, t, Hs, Dn, ests, conv, ND);
      }
    }
  }
}

static void one_case(const vf::Args& a, uint64_t idx) {
  static const int S1[8] = {DISTINCT, EQUAL2, EQUAL3, DISTINCT, EQUAL2, EQUAL3, DISTINCT, EQUAL2};
  static const int S2[8] = {DISTINCT, EQUAL2, NEAR2B, NEAR2A, DISTINCT, EQUAL2, NEAR2B, NEAR2A};
  static const int S3[8] = {DISTINCT, EQUAL2, EQUAL3, NEAR2B, NEAR2A, NEAR3, NEAR3, DISTINCT};
  const int st = N == 1 ? S1[idx % 8] : (N == 2 ? S2[idx % 8] : S3[idx % 8]);
  switch ((idx / 8) % 7) {
    case 0: run_function<FExp>(a, idx, st); break;
    case 1: run_function<FLog>(a, idx, st); break;
    case 2: run_function<FCube>(a, idx, st); break;
    case 3: run_function<FSqrt>(a, idx, st); break;
    case 4: run_function<FAbs>(a, idx, st); break;
    case 5: run_function<FPos>(a, idx, st); break;
    default: run_function<FNeg>(a, idx, st);
  }
}

int main(int argc, char** argv) {
  vf::Args a(argc, argv);
  install_abort_recovery();
  R.viol_cap = std::atoi(a.get("--violcap", "3").c_str());
  for (long i = 0; i < a.cases; ++i) {
    const uint64_t idx = a.only >= 0 ? uint64_t(a.only) : a.gidx(i);
    one_case(a, idx);
    if (a.only >= 0) break;
  }
  R.finish();
  return 0;
}
