"""C30 — child exit status reported faithfully under any schedule (DESIGN.md §4.5)."""
import re
import vfcore
from vfcore import VERIF, REPO

META = {
    "engine": "conc", "level": "exploration", "design_ref": "DESIGN.md §4.5 C30",
    "technique": "real ProcessManager::execute on scripted children with a hook-injected delay between the running-state test and waitpid (both orders of SIGCHLD handler vs waitpid observed and counted); concurrent managers in threads incl. a TSan build",
    "text": "Children that exit 0, exit non-zero or die from a signal after a chosen delay are run through the real ProcessManager::execute while the verification hook delays the waiting thread so that the SIGCHLD handler reaps the child first (and the reverse order); the monitor compares execute()'s outcome (return / 'exited abnormally with value N' / 'exited du to a signal') with what the child really did, and counts how often each order was observed. The same is repeated in one thread with idle managers alive next to the executing one (created before and/or after it: every manager's SIGCHLD callback runs on every SIGCHLD). 2..16 managers in threads reproduce tfel-check's usage. Held on executed schedules only.",
    "note": "Trusted: the helper child really exits as scripted (plain C, checked by the kernel status in a direct fork/wait self-test at start-up); the hook counts SIGCHLD handler entries with atomics only.",
}


def build(ctx):
    b = {"child": vfcore.compile_c("c30_child", [VERIF / "harness/conc/c30_child.c"]),
         "plain": vfcore.compile_cxx("c30", [VERIF / "harness/conc/c30.cxx"], "plain", libs=("TFELSystem", "TFELException"), flags=("-rdynamic",))}
    # TSan: the sources themselves are compiled with -fsanitize=thread
    src = [VERIF / "harness/conc/c30.cxx"] + [REPO / "src/System" / f for f in
                                              ("ProcessManager.cxx", "SignalManager.cxx", "SignalHandler.cxx", "System.cxx",
                                               "SystemError.cxx", "ChildProcess.cxx", "basic_rstream.cxx", "basic_wstream.cxx")]
    b["tsan"] = vfcore.compile_cxx("c30", src + [VERIF / "harness/conc/c30_pmc.cxx"], "tsan", libs=("TFELException",))
    return b


def self_test_child(ctx, b):
    import subprocess
    for code, sig in ((0, 0), (3, 0), (0, 9), (0, 11)):
        p = subprocess.run([str(b["child"]), str(code), "0", str(sig)])
        exp = -sig if sig else code
        if p.returncode != exp:
            raise vfcore.HarnessFailure("helper child does not behave as scripted: %s -> %s" % ((code, sig), p.returncode))


def run(ctx):
    b = build(ctx)
    self_test_child(ctx, b)
    env = {"LD_LIBRARY_PATH": vfcore.ld_path("plain")}
    ctx.cov["rule"] = ("case = (exit code | signal, child delay, delay injected before waitpid); distinct = distinct case tuple per stratum; "
                       "stratum names record the order actually observed (SIGCHLD handler ran during the injected delay or not); non-trivial = all")
    # (a) single manager
    n = ctx.n(640, 20000)
    summ = ctx.run_events(b["plain"], n, shards=8, extra=["--child", b["child"], "--mode", "single"], env=env, timeout=1200,
                          require=[("execute", "exit-nonzero/sigchld-before-waitpid", 20), ("execute", "exit-nonzero/waitpid-first", 20),
                                   ("execute", "signal-death/sigchld-before-waitpid", 10), ("execute", "signal-death/waitpid-first", 10),
                                   ("execute", "exit-zero/sigchld-before-waitpid", 10)])
    # (a') single thread, idle managers alive next to the one that executes (each registers its own SIGCHLD callback)
    ctx.run_events(b["plain"], ctx.n(320, 10000), shards=8, extra=["--child", b["child"], "--mode", "idle"], env=env, timeout=1200,
                   require=[("execute-with-idle-managers", "exit-zero/sigchld-before-waitpid/idle-manager-created-first", 5),
                            ("execute-with-idle-managers", "exit-nonzero/sigchld-before-waitpid/idle-manager-created-first", 10),
                            ("execute-with-idle-managers", "exit-nonzero/waitpid-first/idle-manager-created-first", 5),
                            ("execute-with-idle-managers", "signal-death/sigchld-before-waitpid/idle-manager-created-first", 5)])
    # (b) concurrent managers
    tot = {}
    for nth in ((2, 4, 8, 16) if ctx.thorough else (2, 4, 8)):
        per = ctx.n(25, 400)
        r = vfcore.run([b["plain"], "--seed", ctx.seed, "--cases", per, "--child", b["child"], "--mode", "concurrent", "--threads", nth],
                       timeout=180, cwd=ctx.work, env=env)
        if r.timed_out:
            ctx.violation("concurrent-managers:hang:plain", "watchdog: %d concurrent managers never finished" % nth, {"threads": nth})
            continue
        c = ctx.classify_crash(r)
        if c:
            ctx.violation("concurrent-managers:%s" % c.split(":")[0] + ":" + c.split(":")[1], "%d concurrent managers: %s\n%s" % (nth, c, r.err[-2000:]),
                          {"threads": nth, "stderr": r.err[-4000:]})
            continue
        ctx.fold_events(r, tot, where="c30 concurrent threads=%d" % nth,
                        keymap=lambda k, e: "concurrent-managers:wrong-status:" + k.split(":", 1)[1].split("/")[0])
    ctx.merge_summary(tot, [("execute-concurrent", None, 50)])
    # (b') TSan on concurrent managers
    r = vfcore.run([b["tsan"], "--seed", ctx.seed, "--cases", ctx.n(15, 200), "--child", b["child"], "--mode", "concurrent", "--threads", 4],
                   timeout=150, cwd=ctx.work, env={"TSAN_OPTIONS": "halt_on_error=0:exitcode=0:report_signal_unsafe=1"})
    reps = {}
    for blk in re.split(r"={18,}", r.err):
        m = re.search(r"WARNING: ThreadSanitizer: ([^\n(]+)", blk)
        if not m:
            continue
        kind = m.group(1).strip().replace(" ", "-")
        insig = "sigChildHandler" in blk or "treatAction" in blk or "callGlobalHandler" in blk or "signal" in kind
        key = "tsan:%s:%s" % (kind, "sigchld-path" if insig else (re.search(r"#0 (\S+)", blk).group(1)[:50] if re.search(r"#0 (\S+)", blk) else "?"))
        reps.setdefault(key, blk)
    for key, blk in reps.items():
        ctx.violation("concurrent-managers:" + key, "ThreadSanitizer report with concurrent managers:\n" + blk[:2500], {"report": blk[:6000]})
    if r.timed_out:
        ctx.violation("concurrent-managers:hang:tsan", "watchdog under TSan", {})
    ctx.cov["tsan"] = {"distinct_report_keys": sorted(reps)}
    c = ctx.cov.get("counters", {})
    ctx.require(c.get("note:sigchld_handler_entries", 0) > 100, "SIGCHLD handler hook not reached")
