// c22_common.hxx — generic driver of the equivalent-stress monitors (DESIGN.md §4.1 C22).
// A criterion is described by an adaptor class C:
//   C::name, C::isotropic, C::homogeneous, C::eigen (derivatives built on eigen-decompositions),
//   C::porous (has a porosity argument and df derivatives), C::smin/smax (log10 stress scale range)
//   C::P                      parameters (long double members, rounded to double at generation),
//                             gen(vf::Rng&, int N), dump(vf::J&), hash()
//   C::value<N,T>(s,p,seps)   value variant
//   C::normal<N,T>(s,p,seps,Out&)  fills v, n (and dvdf for porous criteria)
//   C::second<N,T>(s,p,seps,Out&)  fills v, n, dn (and dvdf, dndf)
//   C::has_ref / C::ref(A,p)  independent long-double closed form of the value (documentation)
//   C::gaprel(A,N,p)          smallest relative gap of the eigenvalues the derivatives depend on
//   C::extra<N>(...)          criterion-specific documented identities
//   C::deriv_class(p,buf,n)   suffix naming the parameter class of the second-derivative judgement
// Everything judged is the *double* instantiation (what generated behaviours use); the long
// double instantiation of the same templates is the finite-difference engine.
#ifndef VERIF_C22_COMMON_HXX
#define VERIF_C22_COMMON_HXX
#include <exception>
#include "mat_ref.hxx"
#include "fd.hxx"
#include "TFEL/Math/stensor.hxx"
#include "TFEL/Math/st2tost2.hxx"

namespace c22 {
using namespace ref;
namespace tfm = tfel::math;

struct Out {
  L v = 0, n[6] = {0}, dn[6][6] = {{0}}, dvdf = 0, dndf[6] = {0};
};
template <unsigned short N, typename T, typename S>
inline void put_n(Out& o, const S& n) { for (int k = 0; k < ssize(N); ++k) o.n[k] = L(n[k]); }
template <unsigned short N, typename T, typename S>
inline void put_dndf(Out& o, const S& n) { for (int k = 0; k < ssize(N); ++k) o.dndf[k] = L(n[k]); }
template <unsigned short N, typename T, typename S>
inline void put_dn(Out& o, const S& d) { for (int i = 0; i < ssize(N); ++i) for (int j = 0; j < ssize(N); ++j) o.dn[i][j] = L(d(i, j)); }

static const char* STRATA[] = {"uniaxial", "biaxial", "shear", "hydro+dev", "random", "near-equal", "equal-pair", "high-triaxiality"};
constexpr int NSTRATA = 8;

inline L dmax(L a, L b) { return a > b ? a : b; }

// stress of unit magnitude for the stratum; eigenvalues are placed on random axes and rotated
inline M3 gen_unit_stress(vf::Rng& g, int N, int st) {
  L e[3];
  switch (st) {
    case 0: e[0] = g.sign(); e[1] = 0; e[2] = 0; break;
    case 1: e[0] = g.uni(-1, 1); e[1] = g.uni(-1, 1); e[2] = 0; break;
    case 2: e[0] = g.uni(0.2, 1); e[1] = -e[0]; e[2] = 0; break;
    case 3: { L p = g.uni(-3, 3); e[0] = p + g.uni(-1, 1); e[1] = p + g.uni(-1, 1); e[2] = p + g.uni(-1, 1); break; }
    case 4: e[0] = g.uni(-1, 1); e[1] = g.uni(-1, 1); e[2] = g.uni(-1, 1); break;
    case 5: { e[0] = g.uni(-1, 1); e[1] = e[0] + g.sign() * std::pow(10.0L, -g.uni(1, 7)); e[2] = g.uni(-1, 1); break; }
    case 6: e[0] = g.uni(-1, 1); e[1] = e[0]; e[2] = g.uni(-1, 1); break;
    default: { const L p = g.sign() * g.uni(0.3, 1), d = std::pow(10.0L, -g.uni(1, 3.5)); e[0] = p + d * g.uni(-1, 1); e[1] = p + d * g.uni(-1, 1); e[2] = p + d * g.uni(-1, 1); }
  }
  int p[3] = {0, 1, 2};
  for (int i = 2; i > 0; --i) std::swap(p[i], p[g.irange(0, i)]);
  M3 d = zero();
  for (int i = 0; i < 3; ++i) d[i][i] = e[p[i]];
  const M3 q = random_rotation(g, N);
  return sym(mul(mul(q, d), tr(q)));
}

template <unsigned short N, typename T>
inline tfm::stensor<N, T> mk(const M3& m) {
  tfm::stensor<N, T> s;
  auto v = to_st(m, N);
  for (int k = 0; k < ssize(N); ++k) s[k] = static_cast<T>(v[k]);
  return s;
}
template <unsigned short N, typename T, typename U>
inline tfm::stensor<N, T> lift(const tfm::stensor<N, U>& s) {
  tfm::stensor<N, T> r;
  for (int k = 0; k < ssize(N); ++k) r[k] = static_cast<T>(s[k]);
  return r;
}
inline L min_gap_rel(const M3& a) {
  V3 w = eigvals_sorted(a);
  const L sc = dmax(dmax(std::fabs(w[0]), std::fabs(w[2])), 1e-300L);
  return std::min(w[1] - w[0], w[2] - w[1]) / sc;
}
// conditioning of a symmetric function of the eigenvalues computed by TFEL's default analytical
// (Cardano) solver: documented as "less accurate" (docs/web/tensors.md); its eigenvalues lose
// up to half of the digits when two of them coalesce
inline L eigen_cond(const M3& a) {
  const L g = min_gap_rel(a);
  const L cap = 1 / std::sqrt(L(std::numeric_limits<double>::epsilon()));
  return 1 + (g > 0 ? std::min(1 / g, cap) : cap);
}
struct NoClass {
  template <typename PP> static void deriv_class(const PP&, char* b, size_t) { b[0] = 0; }
  template <typename PP> static L abs_tol(const M3&, const PP&) { return 0; }
};
inline L J2_of(const M3& a) { M3 d = dev(a); return dot(d, d) / 2; }
inline L J3_of(const M3& a) { return det(dev(a)); }
inline L mises_of(const M3& a) { return std::sqrt(3 * J2_of(a)); }

extern vf::Reporter R;

struct Tol {
  L consistency = 256;    // K for value/normal agreement between variants (same formulas)
  L invariance = 32768;   // K for homogeneity / isotropy / documented reductions
  L reference = 32768;    // K for the independent closed form
  L deriv = 524288;       // K for analytic derivative vs FD (added to 50 x FD error estimate)
};

template <class C, unsigned short N>
void run_case(const vf::Args& a, uint64_t idx, const Tol& K = Tol()) {
  using SD = tfm::stensor<N, double>;
  using SL = tfm::stensor<N, L>;
  const L eps = std::numeric_limits<double>::epsilon();
  vf::Rng g(a.seed, 2200 + C::id * 10 + N, idx);
  const int st = int(idx % NSTRATA);
  const char* S = STRATA[st];
  char api[160];
  auto nm = [&](const char* f) { std::snprintf(api, sizeof api, "%s<%d>:%s", C::name, int(N), f); vf::set_case(api, S, idx); return api; };
  typename C::P p; p.gen(g, N);
  const int sk = int((idx / NSTRATA) % 3);
  const L scale = sk == 0 ? 1.0L : L(g.logmag(C::smin, C::smax));
  const SD sd = mk<N, double>(scal(gen_unit_stress(g, N, st), scale));
  const SL sl = lift<N, L>(sd);
  const M3 A = from_st(sd, N);
  L seps_rel = 1e-10L, fd_seps_rel = 1e-10L;
  if constexpr (requires { C::seps_rel; }) { seps_rel = C::seps_rel; fd_seps_rel = C::fd_seps_rel; }
  const double seps = double(seps_rel * scale);
  const uint64_t h = vf::hash_arr(&sd[0], ssize(N), p.hash());
  auto dump = [&] { vf::J j; j.i("N", N).arr("s", &sd[0], &sd[0] + ssize(N)).f("seps", seps).d("scale", scale); p.dump(j); return j.str(); };
  const L nA = dmax(norm(A), 1e-300L);
  const L devfrac = norm(dev(A)) / nA;
  // whatever the generating stratum, a stress with |mean stress| > 5 sigma_eq is filed under
  // "high-triaxiality" so that this regime has its own key
  if (std::fabs(trace(A)) / 3 > 5 * mises_of(A)) S = STRATA[7];
  try {
    // ---- the three variants agree
    const double v0 = C::template value<N, double>(sd, p, seps);
    Out o1, o2;
    C::template normal<N, double>(sd, p, seps, o1);
    C::template second<N, double>(sd, p, seps, o2);
    const L vs = dmax(std::fabs(L(v0)), nA);
    const L kc = K.consistency * eps * vs * C::value_cond(A, p);
    R.check(nm("value(normal)=value"), S, idx, h, std::fabs(o1.v - v0), kc, dump);
    R.check(nm("value(second)=value"), S, idx, h, std::fabs(o2.v - v0), kc, dump);
    {
      L e = 0, nn = 0;
      for (int k = 0; k < ssize(N); ++k) { e = dmax(e, std::fabs(o1.n[k] - o2.n[k])); nn = dmax(nn, std::fabs(o1.n[k])); }
      // at coinciding eigenvalues (closer than 100 seps) the derivatives are outside the property
      if (C::gaprel(A, N, p) > 1e-8L && C::differentiable(A, p)) R.check(nm("normal(second)=normal"), S, idx, h, e, K.consistency * eps * dmax(nn, 1), dump);
      else R.skip(nm("normal(second)=normal"), S);
      if constexpr (C::porous) {
        // at |triaxiality| of several hundreds d(s*)/df ~ cosh(3 q2 sm/(2 s*)) overflows: not judged
        if (std::isfinite((double)o1.dvdf) || std::isfinite((double)o2.dvdf))
          R.check(nm("dvalue_df(second)=dvalue_df(normal)"), S, idx, h, std::fabs(o1.dvdf - o2.dvdf), K.consistency * eps * dmax(std::fabs(o1.dvdf), vs), dump);
        else R.skip(nm("dvalue_df(second)=dvalue_df(normal)"), S);
      }
    }
    // an equivalent stress is a norm-like, non-negative quantity (not so for yield functions)
    if constexpr (requires { C::yield_function; }) {} else {
      R.expect(nm("value>=0"), S, idx, h, v0 >= 0 && o1.v >= 0 && o2.v >= 0, dump);
      if (!(v0 >= 0)) { R.skip(nm("normal=FD(value)"), S); R.skip(nm("second=FD(normal)"), S); return; }
    }
    // ---- independent closed form
    const L gap = C::gaprel(A, N, p);
    if (C::has_ref) {
      const L rv = C::ref(A, p);
      if (std::isfinite((double)rv)) R.check(nm("value=reference"), S, idx, h, std::fabs(L(v0) - rv), K.reference * eps * vs * C::value_cond(A, p) + C::abs_tol(A, p), dump);
      else R.skip(nm("value=reference"), S);
    }
    // ---- degree-one homogeneity (exact scaling by a power of two, seps scaled as well)
    if (C::homogeneous) {
      const int k2 = g.irange(1, 8) * (g.coin() ? 1 : -1);
      const double al = std::ldexp(1.0, k2);
      SD s2 = sd; for (int k = 0; k < ssize(N); ++k) s2[k] = sd[k] * al;
      const double v2 = C::template value<N, double>(s2, p, seps * al);
      R.check(nm("homogeneity f(a.s)=a.f(s)"), S, idx, h, std::fabs(L(v2) - L(al) * L(v0)), K.invariance * eps * vs * L(al) * C::value_cond(A, p), dump);
    }
    // ---- isotropy: f(Q^T s Q) = f(s)
    if (C::isotropic) {
      M3 Q;
      if (N == 1) { Q = zero(); int q[3] = {0, 1, 2}; for (int i = 2; i > 0; --i) std::swap(q[i], q[g.irange(0, i)]); for (int i = 0; i < 3; ++i) Q[q[i]][i] = 1; }
      else Q = random_rotation(g, N);
      const SD sr = mk<N, double>(mul(mul(tr(Q), A), Q));
      const double vr = C::template value<N, double>(sr, p, seps);
      R.check(nm("isotropy f(Q^T.s.Q)=f(s)"), S, idx, h, std::fabs(L(vr) - L(v0)), K.invariance * eps * vs * C::value_cond(A, p) + C::abs_tol(A, p), dump);
    }
    C::template extra<N>(R, api, sizeof api, S, idx, h, sd, p, seps, v0, o1, o2, K, dump);
    // ---- derivatives: excluded at (nearly) hydrostatic states and when the eigenvalues the
    // derivatives depend on are closer than 100 seps (property: above the documented seps)
    if (!(devfrac > 1e-3L) || !(gap > 1e-8L) || !C::differentiable(A, p)) {
      R.skip(nm("normal=FD(value)"), S); R.skip(nm("second=FD(normal)"), S);
      return;
    }
    const L hstep = scale * std::min(L(1e-4), gap / 64) * dmax(devfrac, 1e-3L);
    const L seps_l = fd_seps_rel * scale;
    // conditioning: eigenvalue gap (eigen-projector formulas divide by it), digits lost in the
    // deviator of a nearly hydrostatic stress, criterion-specific cancellation
    const L cond_g = 1 + 1 / gap, cond = cond_g * C::value_cond(A, p) / devfrac;
    char cls[64];
    C::deriv_class(p, cls, sizeof cls);
    {  // normal = gradient of the value (Mandel components are orthonormal coordinates)
      bool ok = true; L e = 0, tol = 0, worst = 0;
      for (int k = 0; k < ssize(N) && ok; ++k) {
        auto f = [&](L x) { SL t = sl; t[k] = x; return std::array<L, 1>{C::template value<N, L>(t, p, seps_l)}; };
        fd::Res<1> r;
        try { r = fd::diff<1>(f, sl[k], hstep, nA); } catch (std::exception&) { r.ok = false; }
        if (!r.ok) { ok = false; break; }
        const L t = 50 * r.err[0] + K.deriv * eps * cond;
        const L d1 = std::fabs(o1.n[k] - r.d[0]), d2 = std::fabs(o2.n[k] - r.d[0]);
        const L d = dmax(d1, d2);
        if (d / t > worst) { worst = d / t; e = d; tol = t; }
      }
      if (ok) R.check(nm("normal=FD(value)"), S, idx, h, e, tol > 0 ? tol : 1, dump); else R.skip(nm("normal=FD(value)"), S);
    }
    {  // second derivative = gradient of the normal
      bool ok = true; L e = 0, tol = 0, worst = 0;
      for (int k = 0; k < ssize(N) && ok; ++k) {
        auto f = [&](L x) { SL t = sl; t[k] = x; Out o; C::template normal<N, L>(t, p, seps_l, o); std::array<L, 6> r{}; for (int i = 0; i < 6; ++i) r[i] = o.n[i]; return r; };
        fd::Res<6> r;
        try { r = fd::diff<6>(f, sl[k], hstep, 1); } catch (std::exception&) { r.ok = false; }
        if (!r.ok) { ok = false; break; }
        for (int i = 0; i < ssize(N); ++i) {
          const L t = 50 * r.err[i] + K.deriv * eps * cond * cond_g / (nA * devfrac);
          const L d = std::fabs(o2.dn[i][k] - r.d[i]);
          if (d / t > worst) { worst = d / t; e = d; tol = t; }
        }
      }
      char nm2[96]; std::snprintf(nm2, sizeof nm2, "second=FD(normal)%s", cls);
      if (ok) R.check(nm(nm2), S, idx, h, e, tol > 0 ? tol : 1, dump); else R.skip(nm(nm2), S);
    }
    if constexpr (C::porous) if (p.fd_in_f()) {
      const L hf = p.f_step();
      auto fv = [&](L x) { auto q = p; q.set_f(x); return std::array<L, 1>{C::template value<N, L>(sl, q, seps_l)}; };
      fd::Res<1> r;
      try { r = fd::diff<1>(fv, p.get_f(), hf, nA); } catch (std::exception&) { r.ok = false; }
      if (r.ok) R.check(nm("dvalue_df=FD(value)"), S, idx, h, dmax(std::fabs(o1.dvdf - r.d[0]), std::fabs(o2.dvdf - r.d[0])), 50 * r.err[0] + 512 * K.deriv * eps * dmax(std::fabs(r.d[0]), nA), dump);
      else R.skip(nm("dvalue_df=FD(value)"), S);
      auto fn = [&](L x) { auto q = p; q.set_f(x); Out o; C::template normal<N, L>(sl, q, seps_l, o); std::array<L, 6> rr{}; for (int i = 0; i < 6; ++i) rr[i] = o.n[i]; return rr; };
      fd::Res<6> r2;
      try { r2 = fd::diff<6>(fn, p.get_f(), hf, 1); } catch (std::exception&) { r2.ok = false; }
      if (r2.ok) {
        L e = 0, tol = 1, worst = 0;
        for (int i = 0; i < ssize(N); ++i) { const L t = 50 * r2.err[i] + 512 * K.deriv * eps * dmax(std::fabs(r2.d[i]), 1); const L d = std::fabs(o2.dndf[i] - r2.d[i]); if (d / t > worst) { worst = d / t; e = d; tol = t; } }
        R.check(nm("dnormal_df=FD(normal)"), S, idx, h, e, tol, dump);
      } else R.skip(nm("dnormal_df=FD(normal)"), S);
    }
  } catch (std::exception& ex) {
    char msg[160]; int j = 0;
    for (const char* c = ex.what(); *c && j < 150; ++c) if (*c != '"' && *c != '\\' && static_cast<unsigned char>(*c) >= 0x20) msg[j++] = *c;
    msg[j] = 0;
    R.expect(nm("no-exception"), S, idx, h, false, dump, msg);
  }
}

template <class C>
void run_all_dims(const vf::Args& a, uint64_t idx, const Tol& K = Tol()) {
  switch ((idx / (NSTRATA * 3)) % 3) {
    case 0: run_case<C, 3>(a, idx, K); break;
    case 1: run_case<C, 2>(a, idx, K); break;
    default: run_case<C, 1>(a, idx, K);
  }
}
}  // namespace c22
#endif
