"""C47 — the build-target registry (src/targets.lst) survives histories and crashes (DESIGN.md §4.5)."""
import json
import re
import shutil
from pathlib import Path

import vfcore
from vfcore import REPO, VERIF

META = {
    "engine": "conc", "level": "fault_enumeration", "design_ref": "DESIGN.md §4.5 C47",
    "technique": "histories of real mfront runs with an independent parser of src/targets.lst (union / idempotence monitors) and SIGKILL injected with strace at every file-related system call of a run (openat-for-write, write, writev, close, rename, unlink), followed by a later successful run",
    "text": "Random sequences of successful mfront runs in one directory are compared with the union of what each run alone registers in a fresh directory (libraries, sources, entry points, headers), and re-running the last run must leave the registry unchanged (write-then-read identity as seen through the tool). For the crash half a run is killed with SIGKILL at the entry of its k-th file system call, for every k the traced run performs from the first output file on (complete enumeration for that run, proven by the '+++ killed by SIGKILL +++' line); a later run must then either print a diagnostic naming targets.lst or still register every library known before the crash.",
    "note": "Reading of 'reports the damaged registry as an error': the unchanged tree prints \"can't read file 'src/targets.lst': ...\" and carries on (exit 0); that message is accepted as the report. Trusted: strace's inject, the independent registry parser in this file. Crashes are process kills (SIGKILL), not power loss: the page cache survives.",
}

# ----------------------------------------------------------------------------- registry parser

TOK = re.compile(r'\s*("(?:[^"\\]|\\.)*"|[{}:;,]|[^\s{}:;,"]+)')


def tokenize(txt):
    pos, out = 0, []
    while True:
        m = TOK.match(txt, pos)
        if not m:
            if txt[pos:].strip():
                raise ValueError("cannot tokenize at %d" % pos)
            return out
        out.append(m.group(1))
        pos = m.end()


def parse_block(t, i):
    """block := '{' (string (',' string)* | (key ':' value ';')*) '}'"""
    assert t[i] == "{", t[i]
    i += 1
    if t[i] == "}":
        return [], i + 1
    if t[i].startswith('"'):
        lst = []
        while True:
            lst.append(t[i][1:-1])
            i += 1
            if t[i] == ",":
                i += 1
                continue
            assert t[i] == "}", t[i]
            return lst, i + 1
    ent = []
    while t[i] != "}":
        key = t[i]
        assert t[i + 1] == ":", t[i + 1]
        i += 2
        if t[i] == "{":
            val, i = parse_block(t, i)
        else:
            val = t[i][1:-1] if t[i].startswith('"') else t[i]
            i += 1
        assert t[i] == ";", (key, t[i])
        i += 1
        ent.append((key, val))
    return ent, i + 1


def parse_registry(txt):
    t = tokenize(txt)
    ent, i = parse_block(t, 0)
    reg = {"libs": {}, "headers": set(), "other": {}}
    for k, v in ent:
        if k == "library":
            d = dict((kk, vv) for kk, vv in v)
            name = d.get("name")
            lib = reg["libs"].setdefault(name, {})
            for kk, vv in d.items():
                if isinstance(vv, list):
                    lib.setdefault(kk, set()).update(vv)
                else:
                    lib[kk] = vv
        elif k == "headers":
            reg["headers"].update(v)
        else:
            reg["other"].setdefault(k, []).append(v)
    return reg


def reg_union(a, b):
    out = {"libs": {}, "headers": set(a["headers"]) | set(b["headers"])}
    for r in (a, b):
        for n, lib in r["libs"].items():
            o = out["libs"].setdefault(n, {})
            for k, v in lib.items():
                if isinstance(v, set):
                    o.setdefault(k, set()).update(v)
                else:
                    o.setdefault(k, v)
    return out


def reg_diff(got, exp):
    """None if got == exp on libraries / set-valued fields / headers"""
    if set(got["libs"]) != set(exp["libs"]):
        return "libraries %s != %s" % (sorted(got["libs"]), sorted(exp["libs"]))
    for n in exp["libs"]:
        for k, v in exp["libs"][n].items():
            g = got["libs"][n].get(k)
            if g != v:
                return "library %s field %s: %s != %s" % (n, k, sorted(g) if isinstance(g, set) else g, sorted(v) if isinstance(v, set) else v)
    if set(got["headers"]) != set(exp["headers"]):
        return "headers %s != %s" % (sorted(got["headers"]), sorted(exp["headers"]))
    return None


# ----------------------------------------------------------------------------- corpus

def corpus(ctx, n):
    g = vfcore.rng(ctx.seed, "c47-corpus")
    props = sorted((REPO / "mfront/tests/properties").glob("*.mfront"))
    behs = sorted((REPO / "mfront/tests/behaviours").glob("*.mfront"))
    g.shuffle(props)
    g.shuffle(behs)
    items = [(p, i) for p in props[:n] for i in ("c", "c++", "generic")] + [(b, "generic") for b in behs[:n]]
    return items


def run_mfront(cwd, f, itf, timeout=60):
    return vfcore.mfront("plain", ["--interface=" + itf, "--search-path=" + str(f.parent), str(f)], cwd, timeout=timeout)


def read_reg(d):
    p = Path(d) / "src/targets.lst"
    return parse_registry(p.read_text()) if p.exists() else {"libs": {}, "headers": set(), "other": {}}


def alone(ctx, item, cache):
    if item in cache:
        return cache[item]
    f, itf = item
    d = ctx.work / ("alone-%s" % vfcore.sha(str(f), itf)[:10])
    d.mkdir()
    r = run_mfront(d, f, itf)
    res = None
    if r.rc == 0 and not r.timed_out:
        try:
            res = read_reg(d)
        except Exception as e:  # registry written by a successful run must parse
            ctx.violation("registry-unparsable:after-single-run", "registry written by a successful run of %s/%s does not parse: %s" % (f.name, itf, e),
                          {"file": str(f), "interface": itf})
    shutil.rmtree(d, ignore_errors=True)
    cache[item] = res
    return res


def run(ctx):
    vfcore.ensure_tree("plain")
    ctx.cov["rule"] = ("history = sequence of 2..6 successful mfront runs (file x interface from the repository corpus) in one directory; crash case = "
                       "history + one run killed by SIGKILL at the k-th file-related syscall + a later run; distinct = distinct (history) / (run, syscall, k); "
                       "non-trivial = the registry held >= 1 library before the judged step")
    items = corpus(ctx, ctx.n(10, 40))
    cache = {}
    usable = [it for it in items if alone(ctx, it, cache) is not None and alone(ctx, it, cache)["libs"]]
    ctx.cov["corpus_items_usable"] = len(usable)
    if len(usable) < 8:
        ctx.inconc("corpus too small: %d usable (file, interface) pairs" % len(usable))
        return
    # ---------------- histories
    nh = ctx.n(24, 400)

    def history(i):
        g = vfcore.rng(ctx.seed, "c47-h", i)
        seq = [g.choice(usable) for _ in range(g.randint(2, 6))]
        d = ctx.work / ("h%d" % i)
        d.mkdir()
        exp = {"libs": {}, "headers": set()}
        out = []
        for k, it in enumerate(seq):
            r = run_mfront(d, it[0], it[1])
            if r.rc != 0:
                out.append(("inconc", "run %s/%s failed in a directory with history (rc=%s): %s" % (it[0].name, it[1], r.rc, (r.out + r.err)[-300:])))
                break
            exp = reg_union(exp, cache[it])
            try:
                got = read_reg(d)
            except Exception as e:
                out.append(("viol", "registry-unparsable:after-history", "after %d runs: %s" % (k + 1, e), seq[:k + 1]))
                break
            df = reg_diff(got, exp)
            if df:
                out.append(("viol", "union:after-%d-runs" % (k + 1), df, seq[:k + 1]))
                break
        else:
            # idempotence: re-running the last run leaves the registry unchanged
            before = (d / "src/targets.lst").read_bytes()
            r = run_mfront(d, seq[-1][0], seq[-1][1])
            after = (d / "src/targets.lst").read_bytes()
            if r.rc == 0:
                df = reg_diff(parse_registry(after.decode()), parse_registry(before.decode()))
                if df:
                    out.append(("viol", "roundtrip:rerun-changes-registry", df, seq))
                out.append(("bytes-identical", before == after))
        shutil.rmtree(d, ignore_errors=True)
        return i, seq, out

    nlibs = 0
    for i, seq, out in vfcore.pmap(history, range(nh), workers=12):
        ctx.add_eval()
        ctx.add_distinct(vfcore.sha(*["%s/%s" % (a.name, b) for a, b in seq]))
        for o in out:
            if o[0] == "viol":
                ctx.violation(o[1], "%s (history %s)" % (o[2], [(a.name, b) for a, b in o[3]]), {"history": [(str(a), b) for a, b in o[3]]})
            elif o[0] == "inconc":
                ctx.count("history-run-failed")
            elif o[0] == "bytes-identical":
                ctx.count("rerun-bytes-identical" if o[1] else "rerun-bytes-differ")
        if i < 3:
            ctx.sample({"history": [(a.name, b) for a, b in seq]})
    # ---------------- crash points
    ncr = ctx.n(3, 40)
    crash_cases = 0
    fired = 0

    def crash_runs(j):
        g = vfcore.rng(ctx.seed, "c47-c", j)
        pre = [g.choice(usable) for _ in range(g.randint(1, 3))]
        victim = g.choice(usable)
        later = g.choice(usable)
        base = ctx.work / ("c%d-base" % j)
        base.mkdir()
        for it in pre:
            run_mfront(base, it[0], it[1])
        try:
            reg0 = read_reg(base)
        except Exception:
            return j, [], []
        # dry run of the victim in a copy, traced, to enumerate its syscalls
        d0 = ctx.work / ("c%d-dry" % j)
        shutil.copytree(base, d0)
        log = d0 / "trace.log"
        cmd = ["strace", "-f", "-e", "trace=openat,write,writev,close,rename,unlink", "-o", str(log),
               str(vfcore.tool("plain", "mfront")), "--interface=" + victim[1], "--search-path=" + str(victim[0].parent), str(victim[0])]
        r = vfcore.run(vfcore.isolated(cmd), timeout=120, cwd=d0, env={"LD_LIBRARY_PATH": vfcore.ld_path("plain")})
        points = []
        counts = {}
        started = False
        for line in log.read_text().splitlines():
            m = re.match(r"\d+\s+(\w+)\((.*)", line)
            if not m:
                continue
            sc, rest = m.group(1), m.group(2)
            counts[sc] = counts.get(sc, 0) + 1
            if sc == "openat" and ("targets.lst" in rest or "O_WRONLY" in rest or "O_RDWR|O_CREAT" in rest) and "/dev/shm" not in rest:
                started = True
                points.append((sc, counts[sc], rest[:60]))
            elif started and sc in ("write", "writev", "close", "rename", "unlink"):
                if sc in ("write", "writev") and re.match(r"[12],", rest):
                    continue  # stdout/stderr
                points.append((sc, counts[sc], rest[:60]))
        shutil.rmtree(d0, ignore_errors=True)
        res = []
        for sc, k, what in points:
            d = ctx.work / ("c%d-%s-%d" % (j, sc, k))
            shutil.copytree(base, d)
            slog = d / "strace.log"
            cmd = ["strace", "-f", "-e", "trace=" + sc, "-e", "inject=%s:signal=SIGKILL:when=%d" % (sc, k), "-o", str(slog),
                   str(vfcore.tool("plain", "mfront")), "--interface=" + victim[1], "--search-path=" + str(victim[0].parent), str(victim[0])]
            r1 = vfcore.run(vfcore.isolated(cmd), timeout=120, cwd=d, env={"LD_LIBRARY_PATH": vfcore.ld_path("plain")})
            killed = "killed by SIGKILL" in slog.read_text() if slog.exists() else False
            r2 = run_mfront(d, later[0], later[1])
            verdict = None
            if killed and r2.rc == 0 and not r2.timed_out:
                said = "targets.lst" in (r2.out + r2.err)
                try:
                    reg2 = read_reg(d)
                    missing = sorted(set(reg0["libs"]) - set(reg2["libs"]))
                except Exception as e:
                    missing, said = ["<unparsable: %s>" % e], said
                if missing and not said:
                    verdict = ("lost-libraries-silently:%s" % sc, "killed at %s #%d (%s); later run exit 0, no diagnostic, libraries lost: %s" % (sc, k, what, missing))
            res.append((sc, k, what, killed, r2.rc, verdict))
            shutil.rmtree(d, ignore_errors=True)
        shutil.rmtree(base, ignore_errors=True)
        return j, [(a[0].name, a[1]) for a in pre] + [("victim",) + (victim[0].name, victim[1]), ("later", later[0].name, later[1])], res

    per_syscall = {}
    for j, desc, res in vfcore.pmap(crash_runs, range(ncr), workers=6):
        for sc, k, what, killed, rc2, verdict in res:
            crash_cases += 1
            ctx.add_eval()
            if killed:
                fired += 1
                per_syscall[sc] = per_syscall.get(sc, 0) + 1
                ctx.add_distinct(vfcore.sha(str(desc), sc, str(k)))
            if verdict:
                ctx.violation(verdict[0], verdict[1], {"case": desc, "syscall": sc, "k": k})
        if res:
            ctx.sample({"crash_history": desc, "crash_points": [(sc, k, what, killed) for sc, k, what, killed, _, _ in res[:6]]}, cap=8)
    ctx.cov.update({"crash_points_enumerated": crash_cases, "crash_points_where_SIGKILL_fired": fired, "fired_per_syscall": per_syscall,
                    "exhaustive": True, "exhaustive_over": "file-related system calls of each traced victim run from its first output file on"})
    ctx.require(fired >= 10 * ncr // 2, "SIGKILL injection fired only %d times" % fired)
    ctx.require(fired == crash_cases, "some injections did not fire (%d of %d): enumeration and replay disagree" % (fired, crash_cases))
