"""gb_mon42.py — numpy monitor of C42 (worker side): the consistent tangent operator returned with
K[0]=4 equals the Richardson finite-difference derivative of the integrated stress with respect to
the total strain at the end of the step (the behaviour is called at perturbed increments)."""
import math
import random

import numpy as np

import gbnp
from checks import gb_mon41 as M
from checks.gb_mon41 import AXIAL, ULP, hooke, hooke_inv, seqv, rand_dir, rand_elastic, fl, hexs

H_STEP = 2e-6         # largest finite-difference step on the strain components
NJ_EPS = 1e-9         # perturbation used by numerical-jacobian solvers (parameter numerical_jacobian_epsilon)


def setup_case(kind, g, b, lib, name, hyp, spec):
    """-> dict(mp, isv0, esv0, esv1, eto0, de, dt, thf0, info, conv_eps) for one random point"""
    n = b.ns
    ax = AXIAL.get(hyp)
    young, nu = rand_elastic(g)
    la, mu = gbnp.lame(young, nu)
    info = {"young": young, "nu": nu}
    eps = 1e-14
    pars = []
    dt = 1.0
    szz0 = dszz = 0.0
    # planned share of steps with a temperature increment: none / near (1 K) / far (150 K), either sign
    T0 = g.uniform(293.15, 500.0)
    dTc = g.choice(["0", "0", "0", "1K", "1K", "1K", "150K", "150K", "150K", "150K"])
    dT = {"0": 0.0, "1K": g.choice([-1.0, 1.0]), "150K": g.choice([-150.0, 150.0]) if T0 > 443.15 else 150.0}[dTc]
    T1 = T0 + dT
    info.update({"T0": T0, "dT": dT, "dT_class": dTc})
    tdep = spec.get("tdep")
    if tdep:
        # elastic properties are formulae of the temperature in the source: the state is built with their value at T0
        young = tdep["E0"] * (1 + tdep["aE"] * (T0 - 293.15))
        nu = tdep["nu0"] + tdep["anu"] * (T0 - 293.15)
        la, mu = gbnp.lame(young, nu)
        info.update({"young": young, "nu": nu})
    if kind == "brick_t_elasticity":
        theta = g.choice([0.5, 1.0])
        for k, v in (("theta", theta), ("epsilon", eps)):
            if gbnp.set_parameter(lib, name, k, v) != 1:
                raise RuntimeError("setParameter %s failed for %s" % (k, name))
        s0 = M.rand_stress(g, n, 10 ** g.uniform(6.0, 8.5), hyp)
        eel0 = hooke_inv(young, nu, s0)
        de = M.rand_increment(g, n, hyp, -6, -2.7)
        if hyp == "AxisymmetricalGeneralisedPlaneStress":
            szz0, dszz = float(s0[1]), g.uniform(-1e6, 1e6)
        etozz0 = g.uniform(-1e-3, 1e-3)
        eto0 = rand_dir(g, n) * 10 ** g.uniform(-5, -2)
        if ax is not None:
            eto0[ax] = 0.0
        info.update({"theta": theta, "eel0": hexs(eel0), "etozz0": etozz0, "sigzz0": szz0, "dsigzz": dszz})
        return {"mp": [], "isv0": b.pack_isv(ElasticStrain=eel0, AxialStrain=etozz0), "esv0": b.pack_esv(AxialStress=szz0, Temperature=T0),
                "esv1": b.pack_esv(AxialStress=szz0 + dszz, Temperature=T1), "eto0": eto0, "de": de, "dt": 1.0, "thf0": s0, "info": info,
                "noise": 4 * (n + 2) * eps * (abs(la) + 2 * mu), "young": young, "theta": theta}
    if kind == "elasticity":
        e0 = rand_dir(g, n) * 10 ** g.uniform(-6, -2.5)
        de = M.rand_increment(g, n, hyp, -6, -2.5)
        if ax is not None:
            e0[ax] = 0.0
        szz0, dszz = g.uniform(-1e8, 1e8), g.uniform(-1e7, 1e7)
        return {"mp": b.pack_mp(YoungModulus=young, PoissonRatio=nu), "isv0": [], "esv0": b.pack_esv(AxialStress=szz0, Temperature=T0),
                "esv1": b.pack_esv(AxialStress=szz0 + dszz, Temperature=T1), "eto0": e0, "de": de, "dt": 1.0,
                "thf0": np.array([g.uniform(-1e8, 1e8) for _ in range(n)]), "info": info, "noise": 0.0, "young": young}
    if kind in ("implicit_norton", "norton_creep", "brick_norton", "brick_t_norton"):
        theta = g.choice([0.5, 1.0, round(g.uniform(0.3, 1.0), 3)]) if not tdep else g.choice([0.5, 1.0])
        fixed = spec.get("fixed") or {}
        if kind == "brick_t_norton":
            E = tdep["n"]
            Kn = tdep["K0"] * (1 + tdep["aK"] * (T0 + theta * dT - 293.15))
            A = 1.0 / Kn ** E
        elif kind == "brick_norton":
            E = g.choice([3.2, round(g.uniform(1.0, 8.0), 3)])
            Kn = g.uniform(50e6, 300e6)
            A = 1.0 / Kn ** E
            pars = [("Kn", Kn), ("En", E)]
            info.update({"K": Kn})
        else:
            E = fixed.get("E") or g.choice([8.2, round(g.uniform(1.0, 9.0), 3)])
            A = fixed.get("A") or 10 ** g.uniform(-2, 0) / (100e6 ** E)
            if kind == "implicit_norton" and not fixed:
                pars = [("A", A), ("E", E)]
        pars += [("theta", theta), ("epsilon", eps)]
        s0, eel0, p0, de, szz0 = M.norton_state(g, b, hyp, young, nu)
        dt, qtrial, rate = M.norton_rate_dt(g, A, E, young, nu, eel0, de, theta, lo=1e-2, hi=0.5)
        info.update({"A": A, "E": E, "theta": theta, "dt": dt})
        pn = {"implicit_norton": spec.get("pname", "p")}.get(kind, "EquivalentViscoplasticStrain")
        mp = b.pack_mp(YoungModulus=young, PoissonRatio=nu, NortonCoefficient=A, NortonExponent=E)
    else:  # plasticity, brick_plasticity, brick_t_plasticity
        theta = g.choice([1.0, 1.0, round(g.uniform(0.5, 1.0), 3)]) if not tdep else g.choice([0.5, 1.0])
        s0y = g.uniform(20e6, 500e6)
        H = g.choice([0.0, g.uniform(0, 0.1) * young])
        if tdep:
            s0y = tdep["R0"] * (1 + tdep["aR"] * (T0 - 293.15))
            H = tdep["H0"] * (1 + tdep["aH"] * (T0 - 293.15))
        pars = [("theta", theta), ("epsilon", eps)] + ([("s0", s0y), ("Hp", H)] if kind == "brick_plasticity" else [])
        s0, eel0, p0, de = M.plast_state(g, b, hyp, young, nu, s0y, H)
        info.update({"s0": s0y, "H": H, "theta": theta})
        pn = "EquivalentPlasticStrain"
        mp = b.pack_mp(YoungModulus=young, PoissonRatio=nu, H=H, s0=s0y)
    if spec.get("algo") in ("NewtonRaphson_NumericalJacobian", "Broyden", "PowellDogLeg_Broyden"):
        pars.append(("numerical_jacobian_epsilon", NJ_EPS))
    for k, v in pars:
        if gbnp.set_parameter(lib, name, k, v) != 1:
            raise RuntimeError("setParameter %s failed for %s" % (k, name))
    if hyp == "AxisymmetricalGeneralisedPlaneStress":
        dszz = g.uniform(-1e6, 1e6)
    etozz0 = g.uniform(-1e-3, 1e-3)
    eto0 = rand_dir(g, n) * 10 ** g.uniform(-5, -2)
    if ax is not None:
        eto0[ax] = 0.0
    isv0 = b.pack_isv(**{"ElasticStrain": eel0, pn: p0, "AxialStrain": etozz0})
    info.update({"eel0": hexs(eel0), "p0": p0, "etozz0": etozz0, "sigzz0": szz0, "dsigzz": dszz})
    # the integrated stress is known up to the convergence threshold of the local solver
    nunk = n + 2
    noise = 4 * nunk * eps * (abs(la) + 2 * mu)
    return {"mp": mp, "isv0": isv0, "esv0": b.pack_esv(AxialStress=szz0, Temperature=T0), "esv1": b.pack_esv(AxialStress=szz0 + dszz, Temperature=T1),
            "eto0": eto0, "de": de, "dt": dt, "thf0": s0, "info": info, "noise": noise, "young": young, "pname": pn, "p0": p0, "theta": theta}


def mon_tangent(R, s, g, npts):
    lib = gbnp.gen.load(s["lib"])
    name, kind, key = s["name"], s["kind"], s.get("key", s["name"])
    for hyp in gbnp.hypotheses(lib, name):
        b = gbnp.B(lib, name, hyp)
        n = b.ns
        ax = AXIAL.get(hyp)
        if s.get("closed_tangent") and ax is not None:
            continue
        keep = [i for i in range(n) if i != ax]
        judged = 0
        for ipt in range(npts):
            c = setup_case(kind, g, b, lib, name, hyp, s)
            e1 = c["eto0"] + c["de"]
            o = b.call(4, c["dt"], c["eto0"], e1, c["thf0"], c["mp"], c["isv0"], c["esv0"], c["esv1"])
            R.n += 1
            case = lambda: dict(c["info"], behaviour=name, hyp=hyp, eto0=hexs(c["eto0"]), eto1=hexs(e1), dt=c["dt"], rc=o["rc"],
                                msg=o["msg"], thf=fl(o["thf"]), isv1=fl(o["isv"]))
            if o["rc"] != 1:
                R.skip("%s:%s:tangent" % (key, hyp))
                R.count("%s:base-call-failed" % key)
                continue
            K = np.array(o["K"][:n * n]).reshape(n, n)
            sig_base = np.array(o["thf"])
            ncalls = [0]

            def f(x):
                ncalls[0] += 1
                q = b.call(0, c["dt"], c["eto0"], x, c["thf0"], c["mp"], c["isv0"], c["esv0"], c["esv1"])
                return np.array(q["thf"]) if q["rc"] == 1 else None
            # the stress must not depend on whether the operator was requested
            s00 = f(e1)
            if s00 is None:
                R.skip("%s:%s:tangent" % (key, hyp))
                continue
            sscale = max(float(np.max(np.abs(sig_base))), 1.0)
            R.rec("%s:%s:stress-independent-of-request" % (key, hyp), float(np.max(np.abs(s00 - sig_base))),
                  c["noise"] + 64 * ULP * sscale + 1e-300, case,
                  "stress returned with K[0]=4 differs from the one returned with K[0]=0: %s vs %s" % (fl(sig_base), fl(s00)),
                  vkey="%s:%s:stress-changes-with-tangent-request" % (key, hyp))
            h = np.full(n, H_STEP)
            J, E = gbnp.richardson_jacobian(f, e1, h)
            R.n += ncalls[0]
            scale = float(np.max(np.abs(K)))
            if any(J[j] is None for j in keep):
                R.skip("%s:%s:tangent" % (key, hyp))
                R.count("%s:fd-call-failed" % key)
                continue
            Jm = np.array([J[j] if J[j] is not None else np.zeros(n) for j in range(n)]).T
            Em = np.array([E[j] if E[j] is not None else np.zeros(n) for j in range(n)]).T
            sub = np.ix_(keep, keep)
            est = float(np.max(Em[sub]))
            fdnoise = 8 * (c["noise"] + 16 * ULP * sscale) / (H_STEP / 4)
            if not (est <= 1e-5 * scale):
                # the finite differences do not converge: regime switch (or kink) inside the stencil
                R.skip("%s:%s:tangent" % (key, hyp))
                R.count("%s:fd-not-converged" % key)
                continue
            err = float(np.max(np.abs(K[sub] - Jm[sub])))
            tol = 50 * est + 2e-6 * scale + fdnoise
            judged += 1
            if s.get("tdep"):
                R.count("%s:judged:dT=%s:theta=%s" % (key, c["info"]["dT_class"], c.get("theta")))
            else:
                R.count("%s:judged:dT=%s" % (key, c["info"]["dT_class"]))
            regime = ""
            if "pname" in c:
                dp = b.isv(o["isv"], c["pname"]) - c["p0"]
                regime = "inelastic" if dp > 1e-9 else "elastic"
                R.count("%s:%s-points" % (key, regime))
            R.rec("%s:%s:tangent" % (key, hyp), err, tol, lambda: dict(case(), K=fl(K.ravel()), FD=fl(Jm.ravel()), fd_error_estimate=est, regime=regime),
                  "consistent tangent differs from the finite-difference derivative: max|K-FD|=%.4g (|K|max=%.4g, FD error estimate %.3g)" % (err, scale, est))
            if ax is not None:
                # axial row/column: recorded, not judged (the axial total strain is not an input of these hypotheses)
                rest = max(float(np.max(np.abs(K[ax, :] - Jm[ax, :]))), float(np.max(np.abs(K[:, ax] - Jm[:, ax]))))
                if rest > tol:
                    R.count("%s:%s:axial-row-or-column-differs" % (key, hyp))
            if ipt < 1 and hyp == "Tridimensional":
                R.samples.append(dict(case(), K=fl(K.ravel())[:6], FD=fl(Jm.ravel())[:6], err=err, tol=tol))
        R.distinct += judged


def run(group, seed, npts):
    M.self_test()
    R = M.Strata()
    for s in group:
        g = random.Random("c42/%s/%s" % (seed, s["name"]))
        mon_tangent(R, s, g, npts)
    return R.report()
