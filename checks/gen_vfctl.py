"""Monitors on the control behaviour corpus/gen/VfCtl.mfront (C39 calling convention, C40
failure atomicity).  The functions here run in a worker process (lib/worker.py)."""
import math
import random

import gen

YOUNG, NU, RHO = 150e9, 0.3, 7800.0
POISON = 7.25e33
STAGES = {1: "InitLocalVariables", 2: "PredictionOperator", 3: "APrioriTimeStepScalingFactor", 4: "Integrator",
          5: "TangentOperator", 6: "UpdateAuxiliaryStateVariables", 7: "APosterioriTimeStepScalingFactor",
          8: "InternalEnergy", 9: "DissipatedEnergy", 10: "SpeedOfSound", 11: "StrictBounds", 12: "PhysicalBounds"}


def hyps(lib):
    out = []
    for h in gen.HYPOTHESES:
        try:
            out.append(gen.Behaviour(lib, "VfCtl", h, nmp=2, nisv=2, nesv=6))
        except AttributeError:
            pass
    return out


def set_policy(b, p):
    f = getattr(b.lib, "VfCtl_setOutOfBoundsPolicy")
    f.argtypes = [gen.C.c_int]
    f.restype = None
    f(p)


def rand_state(g, b):
    n = b.ngrad
    g0 = [g.uniform(-1e-3, 1e-3) for _ in range(n)]
    g1 = [a + g.uniform(-1e-4, 1e-4) for a in g0]
    thf0 = [g.uniform(-1e8, 1e8) for _ in range(n)]
    isv0 = [float(g.randint(0, 5)), g.uniform(-1, 1)]
    return g0, g1, thf0, isv0


def esv(ctl=0, how=0, rq=0, bv=0.5, pbv=1.0):
    return [293.15, float(ctl), float(how), float(rq), float(bv), float(pbv)]


def expected_operator(ke):
    """-> ('pred'|'int', operator code or None)"""
    if ke < -2.5:
        return "pred", 13
    if ke < -1.5:
        return "pred", 12
    if ke < -0.5:
        return "pred", 11
    if ke < 0.5:
        return "int", None
    if ke < 1.5:
        return "int", 1
    if ke < 2.5:
        return "int", 2
    if ke < 3.5:
        return "int", 3
    return "int", 4


KE_VALUES = [-3.0, -3.4, -2.7, -2.0, -2.3, -1.7, -1.0, -1.3, -0.7, 0.0, 0.2, -0.1, 1.0, 0.7, 1.3, 2.0, 1.7, 2.3, 3.0, 2.7, 3.3, 4.0, 3.7, 5.0]


def c39(lib, seed, per_combo):
    g = random.Random(seed)
    viol, n, seen = [], 0, {}
    bs = hyps(lib)
    samples = []
    for b in bs:
        set_policy(b, 0)
        for ke in KE_VALUES:
            for sos_flag in (False, True):
                for _ in range(per_combo):
                    n += 1
                    K0 = ke + 100 if sos_flag else ke
                    g0, g1, thf0, isv0 = rand_state(g, b)
                    rq = g.choice([0, 0, 0.5, 0.9, 0.98, 0.985, 0.99, 0.995, 1.0, 1.5])
                    o = b.integrate(K0, 1.0, g0, g1, thf0, [YOUNG, NU], isv0, esv(), esv(rq=rq), rho=RHO)
                    mode, op = expected_operator(ke)
                    case = {"hyp": b.hyp, "K0": K0, "rq": rq, "rc": o["rc"], "K00": o["K"][0], "sos": o["sos"], "rdt": o["rdt"],
                            "cnt0": isv0[0], "cnt1": o["isv"][0], "msg": o["msg"]}
                    key = None
                    got_op = o["K"][0] / YOUNG
                    if mode == "pred":
                        if o["rc"] != 1:
                            key = "prediction:return-value"
                        elif abs(got_op - op) > 1e-9:
                            key = "prediction%s:operator-kind:expected-%d-got-%.6g" % ("+100" if sos_flag else "", op, got_op)
                        elif o["isv"][0] != isv0[0] or any(a != c for a, c in zip(o["thf"], thf0)):
                            key = "prediction:state-integrated"
                    else:
                        exp_rdt = min(1.0, rq) if rq > 0 else 1.0
                        exp_rc = 0 if exp_rdt < 0.99 else 1
                        if o["rc"] != exp_rc:
                            key = "integration:return-value:expected-%d-got-%d" % (exp_rc, o["rc"])
                        elif abs(o["rdt"] - exp_rdt) > 1e-12:
                            key = "integration:rdt"
                        elif o["isv"][0] != isv0[0] + 1:
                            key = "integration:state-not-integrated"
                        elif op is None and o["K"][0] != K0:
                            key = "integration:operator-written-when-not-requested"
                        elif op is not None and abs(got_op - op) > 1e-9:
                            key = "integration%s:operator-kind:expected-%d-got-%.6g" % ("+100" if sos_flag else "", op, got_op)
                    exp_sos = math.sqrt(YOUNG / RHO) if sos_flag else 0.0
                    if key is None and abs(o["sos"] - exp_sos) > 1e-9 * max(1.0, exp_sos):
                        key = "speed-of-sound:%s" % ("not-computed-with-+100" if sos_flag else "computed-without-flag")
                    seen[(mode, op, sos_flag)] = seen.get((mode, op, sos_flag), 0) + 1
                    if key:
                        viol.append({"key": key, "case": case})
                    elif len(samples) < 3:
                        samples.append(case)
        # policies on a bounded external state variable
        for pol, pname in ((0, "None"), (1, "Warning"), (2, "Strict")):
            set_policy(b, pol)
            for bvv in (-0.5, 0.0, 0.5, 1.0, 1.5, math.nextafter(1.0, 2.0), math.nextafter(0.0, -1.0)):
                n += 1
                g0, g1, thf0, isv0 = rand_state(g, b)
                o = b.integrate(4, 1.0, g0, g1, thf0, [YOUNG, NU], isv0, esv(bv=bvv), esv(bv=bvv), rho=RHO)
                outside = bvv < 0 or bvv > 1
                exp_fail = outside and pol == 2
                if (o["rc"] == -1) != exp_fail:
                    viol.append({"key": "policy:%s:%s" % (pname, "outside" if outside else "inside"),
                                 "case": {"hyp": b.hyp, "bv": bvv, "rc": o["rc"], "msg": o["msg"]}})
                # the policy applies to every kind of request (prediction-only ones and the +100 flag included)
                for K0 in (-3.0, -2.0, -1.0, 0.0, 1.0, 97.0, 98.0, 99.0, 100.0, 104.0):
                    n += 1
                    o3 = b.integrate(K0, 1.0, g0, g1, thf0, [YOUNG, NU], isv0, esv(bv=bvv), esv(bv=bvv), rho=RHO)
                    if (o3["rc"] == -1) != exp_fail:
                        kind = "prediction" if (K0 if K0 < 50 else K0 - 100) < -0.25 else "integration"
                        viol.append({"key": "policy:%s:%s:%s-request" % (pname, "outside" if outside else "inside", kind),
                                     "case": {"hyp": b.hyp, "bv": bvv, "K0": K0, "rc": o3["rc"], "msg": o3["msg"]}})
                if not exp_fail and o["rc"] != -1:
                    set_policy(b, 0)
                    o2 = b.integrate(4, 1.0, g0, g1, thf0, [YOUNG, NU], isv0, esv(bv=0.5), esv(bv=0.5), rho=RHO)
                    set_policy(b, pol)
                    if o2["thf"] != o["thf"] or o2["isv"] != o["isv"] or o2["K"][:6] != o["K"][:6]:
                        viol.append({"key": "policy:%s:results-differ-from-None" % pname, "case": {"hyp": b.hyp, "bv": bvv}})
            # physical bounds fail whatever the policy
            n += 1
            g0, g1, thf0, isv0 = rand_state(g, b)
            o = b.integrate(4, 1.0, g0, g1, thf0, [YOUNG, NU], isv0, esv(pbv=-1.0), esv(pbv=-1.0), rho=RHO)
            if o["rc"] != -1:
                viol.append({"key": "policy:%s:physical-bound-not-enforced" % pname, "case": {"hyp": b.hyp, "rc": o["rc"]}})
        set_policy(b, 0)
    return {"n": n, "viol": viol[:50], "nviol": len(viol), "hyps": [b.hyp for b in bs],
            "combos": {"%s/%s/%s" % k: v for k, v in seen.items()}, "samples": samples}


def c40(lib, seed, per_combo):
    g = random.Random(seed)
    viol, n, reached, notreached = [], 0, {}, {}
    bs = hyps(lib)
    samples = []
    for b in bs:
        for stage, sname in STAGES.items():
            for how in (0, 1):
                for K0 in (0.0, 1.0, 4.0, 104.0, 100.0, -1.0, -2.0, 97.0):
                    for _ in range(per_combo):
                        n += 1
                        g0, g1, thf0, isv0 = rand_state(g, b)
                        e0 = (g.uniform(0, 10), g.uniform(0, 10))
                        pol = 0
                        kw = dict(ctl=stage if stage <= 10 else 0, how=how)
                        if stage == 11:
                            kw["bv"] = 2.0
                            pol = 2
                        if stage == 12:
                            kw["pbv"] = -1.0
                            pol = g.choice([0, 1, 2])
                        set_policy(b, pol)
                        o = b.integrate(K0, 1.0, g0, g1, thf0, [YOUNG, NU], isv0, esv(), esv(**kw), rho=RHO, poison=POISON, e0=e0)
                        set_policy(b, 0)
                        tag = "%s/%s" % (sname, "throw" if how else "return-false")
                        if o["rc"] != -1:
                            notreached[tag] = notreached.get(tag, 0) + 1
                            continue
                        reached[tag] = reached.get(tag, 0) + 1
                        what = []
                        if any(v != POISON for v in o["thf"]):
                            what.append("thermodynamic_forces")
                        if any(v != POISON for v in o["isv"]):
                            what.append("internal_state_variables")
                        if o["se"] != POISON:
                            what.append("stored_energy")
                        if o["de"] != POISON:
                            what.append("dissipated_energy")
                        case = {"hyp": b.hyp, "stage": sname, "how": how, "K0": K0, "rc": o["rc"], "msg": o["msg"], "written": what}
                        if what:
                            viol.append({"key": "stage=%s:outputs-written:%s" % (sname, "+".join(what)), "case": case})
                        elif len(samples) < 3:
                            samples.append(case)
    return {"n": n, "viol": viol[:60], "nviol": len(viol), "reached": reached, "notreached": notreached,
            "hyps": [b.hyp for b in bs], "samples": samples}
