"""C52 — tfel-check verdicts are independent of parallelism (DESIGN.md §4.5)."""
import re
import shutil

import vfcore
from vfcore import VERIF

META = {
    "engine": "conc", "level": "exploration", "design_ref": "DESIGN.md §4.5 C52",
    "technique": "generated trees of .check files run by the real tfel-check with -j 1..16 under hook-injected schedule perturbation (LD_PRELOAD of the hook library on the ThreadPool/ProcessManager points); exit status and per-file verdicts compared with a small executable model and with the -j 1 run; tfel-check.log parsed for missing / duplicated / interleaved blocks",
    "text": "Each case is a random set of 5..60 .check files (scripted commands that exit 0 / non-zero after random delays, shall_fail options, comparisons with a known outcome, files with and without tests so that the documented 'command failures are discarded when a test exists' rule is exercised in both --discard-commands-failure modes). The process exit status must be failure exactly when the model says some file fails; every file's block must appear exactly once and uninterleaved in tfel-check.log; every file's verdict must be the same for -j 1 and -j n. Held on the executed, perturbed schedules only.",
    "note": "Inherits C30's open finding: with -j>1 the SIGCHLD path of ProcessManager is not async-signal-safe, so a crash/hang of tfel-check itself maps to the C30 key and is printed as KNOWN-FINDING; a wrong exit code or a damaged log from a run that completed always alarms. The model of a file's verdict is taken from docs/web/tfel-check.md.",
}


def build(ctx):
    return {"hook": vfcore.hooklib(), "child": vfcore.compile_c("c30_child", [VERIF / "harness/conc/c30_child.c"])}


def gen_case(g):
    nfiles = g.randint(5, 60)
    files = []
    for i in range(nfiles):
        ncmd = g.randint(1, 3)
        cmds = []
        for _ in range(ncmd):
            code = g.choice([0, 0, 0, 0, 1, 3])
            # shall_fail is only generated for commands that do fail: docs and implementation agree there (a command
            # declared shall_fail that exits 0 is reported SUCCESS by the unchanged tree; that combination is outside C52)
            cmds.append({"code": code, "delay_us": g.choice([0, 0, 500, 3000, 15000]), "shall_fail": code != 0 and g.random() < 0.4})
        test = g.choice([None, None, "pass", "pass", "fail"])
        files.append({"id": i, "cmds": cmds, "test": test})
    return {"files": files, "discard": g.choice([None, True, False]), "jobs": g.choice([2, 3, 4, 8, 16])}


def model_file(f, discard):
    cmd_ok = all((c["code"] == 0) != c["shall_fail"] for c in f["cmds"])
    if f["test"] is None:
        return cmd_ok
    t_ok = f["test"] == "pass"
    if discard is False:
        return t_ok and cmd_ok
    return t_ok


def write_case(d, case, child):
    for f in case["files"]:
        fd = d / ("d%d" % f["id"])
        fd.mkdir(parents=True)
        shutil.copy(child, fd / ("cmd_%d" % f["id"]))
        lines = []
        for c in f["cmds"]:
            opt = " { shall_fail : true }" if c["shall_fail"] else ""
            lines.append('@Command "./cmd_%d %d %d 0"%s;' % (f["id"], c["code"], c["delay_us"], opt))
        if f["test"]:
            (fd / "r.res").write_text("0 1\n1 2\n2 3\n")
            (fd / "r.ref").write_text("0 1\n1 2\n2 %s\n" % ("3" if f["test"] == "pass" else "3.5"))
            lines += ["@Precision 1.e-6;", '@Test "r.res" "r.ref" 2;']
        (fd / ("t%d.check" % f["id"])).write_text("\n".join(lines) + "\n")


BEGIN = re.compile(r"^\* beginning of test '\./d(\d+)/t\d+\.check'")
END = re.compile(r"^\* end of test '\./d(\d+)/t\d+\.check'\s*(?:\x1b\[\d+m)?\s*\[\s*(SUCCESS|FAILED)\]")
EXEC = re.compile(r"^\*\* Exec-\d+ \./cmd_(\d+) ")
CMP = re.compile(r"^\*\* Compare-\d+ '\./d(\d+)/")


def parse_log(txt):
    """-> (verdicts {id: bool}, problems [str])"""
    verdicts, problems = {}, []
    cur = None
    seen_begin = {}
    for line in txt.splitlines():
        line = re.sub(r"\x1b\[\d*m", "", line)
        m = BEGIN.match(line)
        if m:
            i = int(m.group(1))
            if cur is not None:
                problems.append("block of file %d begins inside the block of file %d" % (i, cur))
            seen_begin[i] = seen_begin.get(i, 0) + 1
            cur = i
            continue
        m = END.match(line)
        if m:
            i = int(m.group(1))
            if cur != i:
                problems.append("end of file %d while the open block is %s" % (i, cur))
            if i in verdicts:
                problems.append("file %d has two end-of-test lines" % i)
            verdicts[i] = m.group(2) == "SUCCESS"
            cur = None
            continue
        m = EXEC.match(line) or CMP.match(line)
        if m and int(m.group(1)) != cur:
            problems.append("line of file %s inside the block of file %s: %s" % (m.group(1), cur, line[:80]))
    for i, n in seen_begin.items():
        if n != 1:
            problems.append("file %d has %d beginning-of-test lines" % (i, n))
    if cur is not None:
        problems.append("block of file %d never closed" % cur)
    return verdicts, problems


def run_tc(ctx, b, d, jobs, discard, perturb, seed):
    env = {"LD_LIBRARY_PATH": vfcore.ld_path("plain")}
    if perturb:
        env.update({"LD_PRELOAD": str(b["hook"]), "VF_HOOK_SEED": str(seed), "VF_HOOK_DELAYS": perturb})
    cmd = [vfcore.tool("plain", "tfel-check"), "-j", str(jobs), "--discard-jobs-limit=true"]
    if discard is not None:
        cmd.append("--discard-commands-failure=" + ("true" if discard else "false"))
    r = vfcore.run(cmd, timeout=90, cwd=d, env=env)
    log = (d / "tfel-check.log").read_text(errors="replace") if (d / "tfel-check.log").exists() else ""
    return r, log


PERTURB = [None, "tp.pop=-1", "tp.pop=2000/300,tp.done=1000/300", "tp.done=3000/500,tp.idle=-1", "pm.wait.before_waitpid=2000/500",
           "tp.pop=500/500,pm.wait.before_waitpid=1000/300,tp.idle=500/300"]


def run(ctx):
    b = build(ctx)
    vfcore.ensure_tree("plain")
    n = ctx.n(16, 200)
    ctx.cov["rule"] = ("case = (5..60 generated .check files, --discard-commands-failure mode, -j in {2,3,4,8,16}, hook delay plan); each case is run "
                       "with -j 1 and with -j n; distinct = distinct case hash; non-trivial = at least one failing and one succeeding file")

    def one(i):
        g = vfcore.rng(ctx.seed, "c52", i)
        case = gen_case(g)
        perturb = g.choice(PERTURB)
        out = []
        res = {}
        for tag, jobs, pt in (("j1", 1, None), ("jn", case["jobs"], perturb)):
            d = ctx.work / ("c%d-%s" % (i, tag))
            write_case(d, case, b["child"])
            r, log = run_tc(ctx, b, d, jobs, case["discard"], pt, ctx.seed + i)
            res[tag] = (r, log)
            shutil.rmtree(d, ignore_errors=True)
        return i, case, perturb, res

    completed = 0
    files_total = 0
    for i, case, perturb, res in vfcore.pmap(one, range(n), workers=6):
        ctx.add_eval()
        exp = {f["id"]: model_file(f, case["discard"]) for f in case["files"]}
        exp_fail = not all(exp.values())
        if any(exp.values()) and exp_fail:
            ctx.add_distinct(vfcore.sha(str(case)))
        verd = {}
        for tag in ("j1", "jn"):
            r, log = res[tag]
            jobs = 1 if tag == "j1" else case["jobs"]
            replay = {"case": case, "jobs": jobs, "perturb": perturb if tag == "jn" else None, "index": i}
            crash = ctx.classify_crash(r)
            if crash:
                cls = crash.split(":")[0] + ":" + crash.split(":")[1] if ":" in crash else crash
                if jobs > 1:
                    # same root cause as C30's open finding: key shared with it
                    ctx.violation("tfel-check-crash:-j>1:%s" % cls, "tfel-check -j %d died (%s)\n%s" % (jobs, crash, r.err[-1500:]), replay)
                else:
                    ctx.violation("tfel-check-crash:-j1:%s" % cls, "tfel-check -j 1 died (%s)\n%s" % (crash, r.err[-1500:]), replay)
                continue
            completed += 1
            v, problems = parse_log(log)
            verd[tag] = v
            files_total += len(v)
            if (r.rc != 0) != exp_fail:
                ctx.violation("exit-status:-j%s" % ("1" if jobs == 1 else "n"), "exit status %s but the model says %s (case %d, -j %d)" %
                              (r.rc, "failure" if exp_fail else "success", i, jobs), replay)
            missing = sorted(set(exp) - set(v))
            if missing:
                ctx.violation("log:missing-block:-j%s" % ("1" if jobs == 1 else "n"), "files %s have no block in tfel-check.log (-j %d)" % (missing[:10], jobs), replay)
            for p in problems[:3]:
                ctx.violation("log:%s:-j%s" % (p.split()[0] + "-" + p.split()[1], "1" if jobs == 1 else "n"), "tfel-check.log damaged (-j %d): %s" % (jobs, p), replay)
            wrong = [k for k in v if k in exp and v[k] != exp[k]]
            if wrong:
                f0 = [f for f in case["files"] if f["id"] == wrong[0]][0]
                ctx.violation("verdict-vs-model:%s:-j%s" % ("with-test" if f0["test"] else "no-test", "1" if jobs == 1 else "n"),
                              "file %s: verdict %s, model %s (discard=%s) -j %d" % (f0, v[wrong[0]], exp[wrong[0]], case["discard"], jobs), replay)
        if "j1" in verd and "jn" in verd:
            diff = [k for k in verd["j1"] if k in verd["jn"] and verd["j1"][k] != verd["jn"][k]]
            if diff:
                ctx.violation("verdict-differs:-j1-vs-jn", "files %s get different verdicts with -j 1 and -j %d" % (diff[:10], case["jobs"]),
                              {"case": case, "perturb": perturb, "index": i})
        if i < 3:
            ctx.sample({"files": len(case["files"]), "jobs": case["jobs"], "discard": case["discard"], "perturb": perturb,
                        "first_file": case["files"][0], "expected_exit_failure": exp_fail})
    ctx.cov.update({"runs_completed": completed, "file_blocks_parsed": files_total})
    ctx.require(completed >= n, "fewer than half of the tfel-check runs completed (%d of %d)" % (completed, 2 * n))
    ctx.require(files_total > 0, "no block parsed from tfel-check.log")
