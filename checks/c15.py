"""C15 — geometricDiscretization yields an ordered graded mesh."""
import vfcore

META = {
    "engine": "math", "level": "exploration", "design_ref": "DESIGN.md §4.1 C15",
    "technique": "ASan+UBSan harness calling geometricDiscretization; the returned vector alone is judged "
                 "(size, end nodes bitwise, strict monotonicity, constancy of the observed element-length ratios)",
    "text": "Random intervals (both directions, offsets up to 1e3 lengths, lengths 1e-6..1e6), density pairs from "
            "strongly graded to nearly equal (|r-1| from 1e-12 to 1e-3, on both sides of the 1e-5 switch of the "
            "code) and n in {1,2,3,10,...,1e5} (also non-round n) are discretised into std::vector<double>, "
            "tfel::math::vector<double> and std::vector<float>.  The constant ratio is taken from the mesh itself "
            "(ratio of the two largest consecutive interior elements) and every other ratio, the one closing on "
            "xe included, is compared with it under a rounding-level bound.  Held on the cases executed only.",
    "note": "Trusted: long-double differences of the returned nodes; the rounding model of the tolerances "
            "(one rounding per power, product and node addition; the closing element absorbs n roundings and the "
            "cancellation of 1-r^n).  Inputs outside the representable regime (smallest ideal element below "
            "1e-9 |xe-xb| or 400 n eps |xe-xb| or 1e4 eps (|xb|+|xe|); r^n not finite) are skipped and counted.",
}

SRC = vfcore.VERIF / "harness/math/c15.cxx"
ASPECT = {"monotone": "not-monotone", "ratio-last": "last-ratio-not-constant",
          "ratio-interior": "interior-ratio-not-constant", "size": "size", "first": "first-node",
          "last": "last-node", "accepts": "refused"}


def keymap(key, e):
    aspect = e.get("api", "?").split("/")[0]
    return "geometricDiscretization:%s:%s" % (e.get("stratum"), ASPECT.get(aspect, aspect))


def build(ctx):
    bins = {"asan": vfcore.compile_cxx("c15", [SRC], "asan")}
    if ctx.thorough:
        bins["O2"] = vfcore.compile_cxx("c15", [SRC], "O2")
    return bins


def run(ctx):
    bins = build(ctx)
    ctx.cov["rule"] = ("case = (container type, xb, xe, db, de, n) drawn from (VERIF_SEED, index) in the strata graded / "
                       "nearly-equal (|r-1|>1.1e-5) / near-uniform (|r-1|<=1.1e-5) / equal; distinct = hash of the rounded "
                       "inputs; non-trivial = in the representable regime (others are skipped and counted under domain/*); "
                       "ratio checks need n>=3")
    req = []
    for t in ("std::vector<double>", "tfel::math::vector<double>", "std::vector<float>"):
        for st in ("graded", "nearly-equal", "near-uniform", "equal"):
            for a in ("size", "first", "last", "monotone"):
                req.append(("%s/%s" % (a, t), st, 20))
            req.append(("ratio-last/%s" % t, st, 10))
            req.append(("ratio-interior/%s" % t, st, 10))
    ctx.run_events(bins["asan"], ctx.n(12000, 160000), require=req, keymap=keymap, timeout=3600)
    if ctx.thorough:
        ctx.run_events(bins["O2"], 160000, require=[], keymap=keymap, timeout=3600)
    ctx.assumptions += [
        "the ratio is judged for constancy only (its value is not prescribed by the property)",
        "element lengths are differences of the returned nodes: a length below ~1e4 ulp of the node coordinates is outside the domain",
    ]
