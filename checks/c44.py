"""C44 — behaviour responses are frame- and hypothesis-consistent (DESIGN.md §4.4)."""
import vfcore
import gbx
from checks import gb_src, c41

META = {
    "engine": "gen", "level": "exploration", "design_ref": "DESIGN.md §4.4 C44",
    "technique": "metamorphic relations on generated behaviours called through ctypes: same loading embedded in 1D/2D/3D hypotheses, rotated 3D loading, plane-stress steps replayed in the strain-driven hypothesis; rotate* helper functions of orthotropic generic behaviours compared with numpy rotations built from 3x3 matrix products",
    "text": "Isotropic behaviours of C41 (Default elasticity, Implicit Norton, isotropic creep and plasticity DSLs, brick plasticity, a Runge-Kutta Norton; more in thorough) are integrated for random loadings representable in several hypotheses (axisymmetrical generalised plane strain -> axisymmetrical / plane strain / generalised plane strain -> tridimensional) and the stress and every internal state variable are compared component-wise; a random rotation of a 3D loading (state included) must rotate stress, tensorial state variables and the consistent tangent operator; plane stress and axisymmetrical generalised plane stress results must have the zero / prescribed axial stress, and replaying the step in the strain-driven hypothesis with the axial strain found must give the same response. For orthotropic generic behaviours (small strain with orthotropic and isotropic constants, all hypotheses; the reference finite-strain orthotropic Saint-Venant Kirchhoff file) every exported rotateGradients / rotateThermodynamicForces[_CauchyStress|_PK1Stress|_PK2Stress] / rotateTangentOperatorBlocks[_dsig_dF|_dPK1_dF|_dPK2_dEGL|_dtau_ddF] function, its array variant and in-place use are compared with numpy (g_m = M g M^T, f_g = M^T f_m M, K_g = Q_out K_m Q_in^T, M = documented global->material matrix, column-major); with isotropic constants, integrating in any material frame and rotating back must reproduce the unrotated response. Orthotropic axes conventions: orthotropic elasticity with three distinct Young moduli and Poisson ratios, stiffness computed by TFEL from the nine constants, for (convention, family) in {Pipe, Plate} x {Default DSL + @ComputeStiffnessTensor, Implicit DSL + StandardElasticity brick} and Default x {@RequireStiffnessTensor}, in every hypothesis the convention allows: stress and operator are compared with the reduction (permutation of the Pipe convention, plane stress / prescribed axial stress condensation) of a 3D stiffness built with numpy from the compliance, with the Tridimensional entry point of the same library given the same loading, and, for a loading given in a rotated global frame, through rotateGradients / rotateThermodynamicForces / rotateTangentOperatorBlocks against the numpy rotation of that reference; a minimum count per (convention, family, hypothesis) is required.",
    "note": "Trusted: the convention documented in docs/web/generic-behaviours-interface.md; numpy. Tolerances: 200 (n+2) epsilon on strains for iterative schemes (epsilon = 1e-14 set at run time), roundoff for explicit ones and for the rotation helpers. 2D rotations are about the third axis; no rotation in 1D.",
}

NCASE = (40, 500)


def build(ctx):
    specs = gb_src.c44_specs(thorough=ctx.thorough, seed=ctx.seed)
    return specs, gbx.build_all(ctx, "C44", specs)


def run(ctx):
    specs, libs = build(ctx)
    ctx.cov["rule"] = ("case = (behaviour, pair of hypotheses or rotation or rotate* function, random constants, state, increment, "
                       "frame); distinct = cases whose reference integration succeeded; non-trivial: non-zero loading, rotation angle up to pi")
    ctx.cov["behaviours"] = sorted(libs)
    n = ctx.n(*NCASE)
    gs = c41.groups(specs, libs)

    def one(i):
        return gbx.call_vt(ctx, "checks.gb_mon44", "run", {"group": gs[i], "seed": ctx.seed, "ncase": n}, tag="c44-%d" % i)
    ok = 0
    for i, (res, r) in enumerate(vfcore.pmap(one, range(len(gs)), workers=8)):
        if gbx.fold(ctx, res, r, what="C44 worker %s" % [s["name"] for s in gs[i]]):
            ok += 1
    ctx.require(ok == len(gs), "some workers did not report")
    tab = ctx.cov.get("strata", {})

    def seen(sub):
        return sum(v.get("n", 0) for k, v in tab.items() if sub in k)
    for sub in ("-vs-Tridimensional:stress", ":rotation:stress", ":rotation:tangent", "PlaneStress:axial-stress", "PlaneStress-vs-Tridimensional:stress",
                ":rotateGradients", ":rotateThermodynamicForces", ":rotateTangentOperatorBlocks", "_dPK1_dF", "_PK1Stress", ":frame-invariance",
                "rotateArrayOfTangentOperatorBlocks"):
        ctx.require(seen(sub) >= n, "no judged case for stratum *%s*" % sub)
    # orthotropic axes conventions: every (family/convention, hypothesis the convention allows) is a planned stratum
    plan = {"VfOrthoC_Pipe": ["AxisymmetricalGeneralisedPlaneStrain", "Axisymmetrical", "PlaneStress", "PlaneStrain", "GeneralisedPlaneStrain", "Tridimensional"],
            "VfOrthoC_Plate": ["PlaneStress", "PlaneStrain", "GeneralisedPlaneStrain", "Tridimensional"],
            "VfOrthoR_Default": ["AxisymmetricalGeneralisedPlaneStrain", "Axisymmetrical", "PlaneStress", "PlaneStrain", "GeneralisedPlaneStrain", "Tridimensional"],
            "VfOrthoB_Pipe": ["AxisymmetricalGeneralisedPlaneStrain", "AxisymmetricalGeneralisedPlaneStress", "Axisymmetrical", "PlaneStress", "PlaneStrain",
                              "GeneralisedPlaneStrain", "Tridimensional"],
            "VfOrthoB_Plate": ["PlaneStress", "PlaneStrain", "GeneralisedPlaneStrain", "Tridimensional"]}
    for bn, hs in plan.items():
        for h in hs:
            for what in ["stress-vs-3D-stiffness", "operator-vs-3D-stiffness"] + (["stress-vs-Tridimensional"] if h != "Tridimensional" else []) + \
                    (["rotated-stress", "rotated-operator"] if not h.startswith("AxisymmetricalGeneralised") else []):
                k = "%s:%s:%s" % (bn, h, what)
                ctx.require(tab.get(k, {}).get("n", 0) >= n, "planned stratum %s judged %d times, %d planned" % (k, tab.get(k, {}).get("n", 0), n))
    ctx.require(not any(k.startswith("missing-symbol") or ":missing-symbol:" in k for k in ctx.cov.get("counters", {})),
                "a documented rotate* function is not exported: %s" % [k for k in ctx.cov.get("counters", {}) if "missing-symbol" in k])
