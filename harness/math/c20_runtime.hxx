// c20_runtime.hxx — run-time side of the generated C20 transparency harness (lib/qtgen.py).
// Every captured sub-expression of a quantity program (value of the qt object, read with
// getValue()) is compared with the same statement executed on raw floating-point variables.
// float/double -> long double is exact and injective, so equality of the long doubles plus equality
// of the sign bit is bitwise equality of the originals (two NaNs count as equal).
#ifndef VERIF_C20_RUNTIME_HXX
#define VERIF_C20_RUNTIME_HXX
#include "vfh.hxx"

namespace c20 {

// leaf values: positive (roots of the leaves are real), a few decades, sometimes exactly 1 or 2
inline double draw(vf::Rng& g) {
  const int k = g.irange(0, 9);
  if (k < 6) return g.uni(0.5, 2.0);
  if (k < 8) return g.logmag(-3, 3);
  if (k < 9) return double(g.irange(1, 4));
  return g.uni(0.5, 2.0) * 1e-2;
}

inline bool same(long double a, long double b) {
  if (std::isnan(a) || std::isnan(b)) return std::isnan(a) && std::isnan(b);
  return a == b && std::signbit(a) == std::signbit(b);
}

inline void judge(vf::Reporter& R, int pid, const char* base, uint64_t idx, const char* const* ops, const char* const* txt,
                  const long double* got, const long double* ref, int ns, const double* v, int nv) {
  const uint64_t h = vf::hash_bytes(v, sizeof(double) * size_t(nv), 0xcbf29ce484222325ull + uint64_t(pid));
  for (int i = 0; i < ns; ++i) {
    vf::set_case(ops[i], base, idx);
    R.expect(ops[i], base, idx, h + uint64_t(i), same(got[i], ref[i]), [&] {
      vf::J j;
      j.i("prog_id", pid).s("T", base).i("statement_index", i).s("statement", txt[i]).f("quantity_value", got[i]).f("raw_value", ref[i]);
      j.arr("v", v, v + nv);
      return j.str();
    });
  }
}

}  // namespace c20
#endif
