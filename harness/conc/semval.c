/* semval NAME — prints the value of a named POSIX semaphore, or "none" if it does not exist */
#include <errno.h>
#include <fcntl.h>
#include <semaphore.h>
#include <stdio.h>
int main(int argc, char** argv) {
  if (argc < 2) return 2;
  sem_t* s = sem_open(argv[1], 0);
  if (s == SEM_FAILED) { puts(errno == ENOENT ? "none" : "error"); return errno == ENOENT ? 0 : 2; }
  int v = -1;
  if (sem_getvalue(s, &v) != 0) { puts("error"); return 2; }
  printf("%d\n", v);
  return 0;
}
