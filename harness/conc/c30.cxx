// C30 — ProcessManager::execute reports the child's exit status faithfully, whatever the order
// of child exit, SIGCHLD handler and the waitpid of wait().  Links the hook-enabled
// libTFELSystem; the hook defined here injects the delay between the running-state test and
// waitpid (site pm.wait.before_waitpid) and counts SIGCHLD handler entries (async-signal-safe).
#define VFH_MAIN
#include "vfh.hxx"
#include <atomic>
#include <chrono>
#include <memory>
#include <mutex>
#include <thread>
#include <time.h>
#include "TFEL/System/ProcessManager.hxx"
#include "TFEL/System/SystemError.hxx"

static std::atomic<long> g_sigchld{0};
static std::atomic<long> g_before_waitpid{0};
static thread_local long tl_delay_us = 0;      // delay injected at the next pm.wait.before_waitpid on this thread
static thread_local long tl_handler_during = 0;  // SIGCHLD handler entries observed during that delay

extern "C" void tfel_verif_point(const char* site, long) {
  if (site[3] == 's') {  // pm.sigchld.enter — may run inside a signal handler: atomics only
    g_sigchld.fetch_add(1, std::memory_order_relaxed);
    return;
  }
  // pm.wait.before_waitpid
  g_before_waitpid.fetch_add(1, std::memory_order_relaxed);
  const long before = g_sigchld.load();
  if (tl_delay_us > 0) {
    // nanosleep is interrupted by SIGCHLD: sleep until the deadline
    struct timespec t0, t;
    clock_gettime(CLOCK_MONOTONIC, &t0);
    for (;;) {
      clock_gettime(CLOCK_MONOTONIC, &t);
      const long el = (t.tv_sec - t0.tv_sec) * 1000000L + (t.tv_nsec - t0.tv_nsec) / 1000;
      if (el >= tl_delay_us) break;
      struct timespec d = {0, 200000};
      nanosleep(&d, nullptr);
    }
  } else if (tl_delay_us == -2) {
    // deterministic schedule: hold the waiting thread until a SIGCHLD handler has run (bounded: 3 s)
    struct timespec t0, t;
    clock_gettime(CLOCK_MONOTONIC, &t0);
    while (g_sigchld.load() == before) {
      clock_gettime(CLOCK_MONOTONIC, &t);
      if ((t.tv_sec - t0.tv_sec) >= 3) break;
      struct timespec d = {0, 200000};
      nanosleep(&d, nullptr);
    }
  } else if (tl_delay_us < 0) {
    sched_yield();
  }
  tl_handler_during = g_sigchld.load() - before;
}

static vf::Reporter R;
static std::string g_child;

struct Spec { int code; long child_delay_us; int sig; long hook_delay_us; };

static Spec gen(vf::Rng& g) {
  Spec s{0, 0, 0, 0};
  const int k = g.irange(0, 9);
  if (k < 3) s.code = 0;
  else if (k < 7) s.code = g.pick(std::vector<int>{1, 2, 3, 42, 127, 255});
  else s.sig = g.pick(std::vector<int>{SIGKILL, SIGSEGV, SIGTERM, SIGABRT, SIGUSR1, SIGFPE});
  s.child_delay_us = g.pick(std::vector<long>{0, 0, 200, 2000, 10000});
  s.hook_delay_us = g.pick(std::vector<long>{0, -1, 1000, 8000, -2, -2});
  return s;
}

static std::string outcome_expected(const Spec& s) {
  if (s.sig) return "signal";
  if (s.code == 0) return "ok";
  return "abnormal:" + std::to_string(s.code);
}

static std::string run_one(tfel::system::ProcessManager& pm, const Spec& s) {
  const std::string cmd = g_child + " " + std::to_string(s.code) + " " + std::to_string(s.child_delay_us) + " " + std::to_string(s.sig);
  tl_delay_us = s.hook_delay_us;
  tl_handler_during = 0;
  try {
    pm.execute(cmd);
  } catch (tfel::system::SystemError& e) {
    const std::string m = e.what();
    auto p = m.find("exited abnormally with value ");
    if (p != std::string::npos) return "abnormal:" + std::to_string(std::atoi(m.c_str() + p + 29));
    if (m.find("exited du to a signal") != std::string::npos) return "signal";
    return "other:" + m;
  } catch (std::exception& e) {
    return std::string("other:") + e.what();
  }
  return "ok";
}

static const char* kind(const Spec& s) { return s.sig ? "signal-death" : (s.code ? "exit-nonzero" : "exit-zero"); }

int main(int argc, char** argv) {
  vf::Args a(argc, argv);
  g_child = a.get("--child");
  const std::string mode = a.get("--mode", "single");
  if (mode == "single") {
    tfel::system::ProcessManager pm;
    for (long i = 0; i < a.cases; ++i) {
      const uint64_t idx = a.only >= 0 ? uint64_t(a.only) : a.gidx(i);
      vf::Rng g(a.seed, 30, idx);
      const Spec s = gen(g);
      vf::set_case("execute", kind(s), idx);
      const std::string exp = outcome_expected(s), got = run_one(pm, s);
      const bool handler_first = tl_handler_during > 0;
      std::string st = std::string(kind(s)) + (handler_first ? "/sigchld-before-waitpid" : "/waitpid-first");
      const uint64_t h = vf::hash_bytes(&s, sizeof s);
      R.expect("execute", st.c_str(), idx, h, exp == got, [&] {
        vf::J j; j.i("code", s.code).i("child_delay_us", s.child_delay_us).i("sig", s.sig).i("hook_delay_us", s.hook_delay_us)
            .s("expected", exp).s("observed", got).i("sigchld_handler_runs_during_delay", tl_handler_during);
        return j.str(); });
      if (a.only >= 0) break;
    }
  } else if (mode == "idle") {
    // one thread, several managers alive: idle managers created before and/or after the one that executes the command.
    // Every manager registers its own SIGCHLD callback and all of them are called, in registration order, on every
    // SIGCHLD: the status must still reach the manager that owns the child (no concurrency is involved here).
    for (long i = 0; i < a.cases; ++i) {
      const uint64_t idx = a.only >= 0 ? uint64_t(a.only) : a.gidx(i);
      vf::Rng g(a.seed, 32, idx);
      Spec s = gen(g);
      const int nbefore = g.irange(0, 2), nafter = g.irange(0, 1);
      if (g.irange(0, 1)) s.hook_delay_us = -2;  // more handler-first schedules
      std::vector<std::unique_ptr<tfel::system::ProcessManager>> before, after;
      for (int k = 0; k < nbefore; ++k) before.emplace_back(new tfel::system::ProcessManager());
      tfel::system::ProcessManager pm;
      for (int k = 0; k < nafter; ++k) after.emplace_back(new tfel::system::ProcessManager());
      vf::set_case("execute-with-idle-managers", kind(s), idx);
      const std::string exp = outcome_expected(s), got = run_one(pm, s);
      const bool handler_first = tl_handler_during > 0;
      std::string st = std::string(kind(s)) + (handler_first ? "/sigchld-before-waitpid" : "/waitpid-first") +
                       (nbefore ? "/idle-manager-created-first" : (nafter ? "/idle-manager-created-after" : "/alone"));
      const uint64_t h = vf::hash_bytes(&s, sizeof s) ^ (uint64_t(nbefore) << 40) ^ (uint64_t(nafter) << 44);
      R.expect("execute-with-idle-managers", st.c_str(), idx, h, exp == got, [&] {
        vf::J j; j.i("code", s.code).i("child_delay_us", s.child_delay_us).i("sig", s.sig).i("hook_delay_us", s.hook_delay_us)
            .i("idle_managers_created_before", nbefore).i("idle_managers_created_after", nafter)
            .s("expected", exp).s("observed", got).i("sigchld_handler_runs_during_delay", tl_handler_during);
        return j.str(); });
      if (a.only >= 0) break;
    }
  } else {
    // concurrent managers (the way tfel-check uses them: one manager per worker thread)
    const int nth = std::atoi(a.get("--threads", "4").c_str());
    std::mutex rm;
    std::vector<std::thread> th;
    for (int t = 0; t < nth; ++t) {
      th.emplace_back([&, t] {
        tfel::system::ProcessManager pm;
        for (long i = 0; i < a.cases; ++i) {
          const uint64_t idx = a.gidx(i) * 64 + uint64_t(t);
          vf::Rng g(a.seed, 31, idx);
          const Spec s = gen(g);
          const std::string exp = outcome_expected(s), got = run_one(pm, s);
          std::lock_guard<std::mutex> l(rm);
          const uint64_t h = vf::hash_bytes(&s, sizeof s) ^ uint64_t(t);
          char st[64]; std::snprintf(st, sizeof st, "%s/threads=%d", kind(s), nth);
          R.expect("execute-concurrent", st, idx, h, exp == got, [&] {
            vf::J j; j.i("thread", t).i("code", s.code).i("child_delay_us", s.child_delay_us).i("sig", s.sig)
                .i("hook_delay_us", s.hook_delay_us).s("expected", exp).s("observed", got);
            return j.str(); });
        }
      });
    }
    for (auto& t : th) t.join();
  }
  std::printf("@@VF {\"ev\":\"note\",\"what\":\"sigchld_handler_entries\",\"n\":%ld}\n", g_sigchld.load());
  std::printf("@@VF {\"ev\":\"note\",\"what\":\"before_waitpid_points\",\"n\":%ld}\n", g_before_waitpid.load());
  R.finish();
  return 0;
}
