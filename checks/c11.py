"""C11 — linear and cubic-spline interpolation reproduce and extend data."""
import vfcore

META = {
    "engine": "math", "level": "exploration", "design_ref": "DESIGN.md §4.1 C11",
    "technique": "ASan+UBSan harness on CubicSpline<double|float>, computeCubicSplineInterpolation<extrapolate>(AndDerivative) "
                 "and computeLinearInterpolation<extrapolate>(AndDerivative); every observable judged against an independent "
                 "long-double natural spline (moment formulation) or against identities of the returned values themselves",
    "text": "Tables of 1..50 strictly increasing abscissae (uniform, geometric with spacing ratios up to 1e6, clustered, "
            "random, collinear data; lengths 1e-3..1e3 at offsets up to 10 lengths; values 1e-6..1e6) are queried at every "
            "node, one ulp left and right of every node, inside intervals and outside both ends.  Judged: node reproduction; "
            "value, first and second derivative limits at interior nodes; zero second derivative at the ends; stored node "
            "derivatives vs the independent spline; extrapolation = end tangent (extrapolate) / clamped (not); returned "
            "derivative = 4-point Lagrange differentiation of the returned values; computeIntegral = piecewise "
            "Gauss-Legendre of getValue including extrapolated parts; additivity; bitwise antisymmetry; computeMeanValue; "
            "linear interpolation: nodes, chords, slopes, extrapolation line, clamping.  Held on the cases executed only.",
    "note": "Trusted: the long-double reference spline and the rounding models of harness/math/c11.cxx (tolerances K=128 eps "
            "times the sum of magnitudes of the terms of each formula; first derivatives additionally weighted by the "
            "computed |A^-1| of the tridiagonal system).  Tables whose rounded abscissae are closer than 64 ulp are skipped "
            "and counted.  CubicSpline<long double> is not exercised (the reference has no extra precision there).",
}

SRC = vfcore.VERIF / "harness/math/c11.cxx"
LIBS = ("TFELMath", "TFELMathCubicSpline", "TFELException")
SPL = ["CubicSpline/node-value", "CubicSpline/C0", "CubicSpline/C1", "CubicSpline/C2+natural", "CubicSpline/d=reference",
       "CubicSpline/getValues=getValue", "CubicSpline/extrapolation", "CubicSpline/derivative=FD", "CubicSpline/integral=GL",
       "CubicSpline/integral-additive", "CubicSpline/integral-antisymmetric", "CubicSpline/mean-value",
       "spline-free-functions/inside", "spline-free-functions/outside", "linear/node-value+C0", "linear/inside",
       "linear/derivative", "linear/extrapolation<true>", "linear/derivative-at-node", "linear/clamp<false>+consistency"]
KINDS = ["uniform", "geometric", "clustered", "random", "linear-data"]


def build(ctx):
    bins = {"asan": vfcore.compile_cxx("c11", [SRC], "asan", libs=LIBS)}
    if ctx.thorough:
        bins["O2"] = vfcore.compile_cxx("c11", [SRC], "O2", libs=LIBS)
    return bins


def run(ctx):
    bins = build(ctx)
    ctx.cov["rule"] = ("case = one table (scalar type, n, spacing kind, abscissae, values) from (VERIF_SEED, index) with all its queries "
                       "(every node, +-1 ulp of every node, 8 interior points, 6 exterior points, 6 integration triples); one event per "
                       "(aspect, table) carrying the worst err/tol over the queries; distinct = hash of the rounded table; n=1 and n=2 "
                       "tables are their own strata")
    req = []
    for t in ("double", "float"):
        for a in SPL:
            for st in KINDS:
                req.append(("%s<%s>" % (a, t), st, 5))
        for a in ("CubicSpline/node-value", "CubicSpline/extrapolation", "CubicSpline/integral=GL", "linear/node-value+C0",
                  "linear/clamp<false>+consistency"):
            req.append(("%s<%s>" % (a, t), "n=1", 5))
            req.append(("%s<%s>" % (a, t), "n=2", 5))
    ctx.run_events(bins["asan"], ctx.n(24000, 240000), require=req, timeout=3600)
    if ctx.thorough:
        ctx.run_events(bins["O2"], 600000, require=[], timeout=3600)
    ctx.assumptions += [
        "the value one ulp beside a node is compared with the first-order expansion of the interpolant around the node "
        "(continuity = the limit equals the node value)",
        "the derivative of the linear interpolant at a node may be the slope of either adjacent interval",
    ]
