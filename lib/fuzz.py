"""fuzz.py — out-of-process mutation fuzzing of the ASan+UBSan tool binaries (C35, C54).

Mutators: byte level (flip/insert/delete/truncate/repeat), token level (delete / duplicate /
swap tokens, unbalance braces, swap numbers for hostile ones), keyword-aware (insert or
replace `@Keyword`s from the DSL dictionaries read from the binary itself), splicing between
corpus files, and pure random bytes.  Everything derives from (seed, index)."""
import re
import vfcore

TOKEN = re.compile(rb'"(?:[^"\\\n]|\\.)*"|@?[A-Za-z_][A-Za-z_0-9]*|\d+\.?\d*(?:[eE][-+]?\d+)?|\s+|.', re.S)
IDENT = re.compile(rb"[A-Za-z_][A-Za-z_0-9]*")
HOSTILE_NUMBERS = [b"0", b"-1", b"1e308", b"1e-320", b"nan", b"inf", b"-0", b"4294967296", b"18446744073709551616",
                   b"99999999999999999999999", b"0x10", b"1e", b".", b"1.e+", b"-", b"1e99999"]
HOSTILE_BYTES = [b"\x00", b"\xff", b"\xfe\xff", b"\xe2\x82", b"\r", b"\t", b"\\", b"\"", b"'", b"/*", b"*/", b"//", b"{", b"}", b";",
                 b"@", b"<", b">", b"[", b"]", b"(", b")", b"#", b"\xc3\xa9", b"\xce\x94", b"\xf0\x9f\x98\x80"]


def tokens(data):
    return TOKEN.findall(data)


def mutate(g, data, corpus, dictionary, max_len=65536):
    """one mutated input (bytes) from `data`"""
    kind = g.choice(["byte", "byte", "token", "token", "token", "keyword", "keyword", "splice", "number", "truncate", "random", "nest", "alias", "alias"])
    nmut = g.choice([1, 1, 1, 2, 3, 5, 8])
    d = bytearray(data)
    if kind == "random":
        n = g.choice([0, 1, 2, 8, 64, 512, 4096])
        return kind, bytes(g.getrandbits(8) for _ in range(n))
    if kind == "truncate":
        if not d:
            return kind, b""
        return kind, bytes(d[:g.randint(0, len(d))])
    if kind == "byte":
        for _ in range(nmut):
            op = g.choice(["flip", "ins", "del", "rep", "hostile"])
            pos = g.randint(0, max(0, len(d) - 1)) if d else 0
            if op == "flip" and d:
                d[pos] ^= 1 << g.randint(0, 7)
            elif op == "ins":
                d[pos:pos] = bytes([g.getrandbits(8)])
            elif op == "del" and d:
                del d[pos:pos + g.choice([1, 1, 2, 8, 64])]
            elif op == "rep" and d:
                chunk = d[pos:pos + g.choice([1, 4, 32, 256])]
                d[pos:pos] = chunk * g.choice([1, 2, 16, 200])
            else:
                d[pos:pos] = g.choice(HOSTILE_BYTES)
        return kind, bytes(d[:max_len])
    t = tokens(bytes(d))
    if not t:
        return kind, bytes(d)
    if kind == "splice" and corpus:
        other = tokens(g.choice(corpus))
        a, b = g.randint(0, len(t)), g.randint(0, len(other))
        c = g.randint(b, len(other))
        return kind, b"".join(t[:a] + other[b:c] + t[a:])[:max_len]
    if kind == "nest":
        pos = g.randint(0, len(t))
        depth = g.choice([10, 100, 1000, 5000])
        op, cl = g.choice([(b"{", b"}"), (b"(", b")"), (b"[", b"]"), (b"<", b">"), (b"{", b"")])
        t[pos:pos] = [op * depth + cl * depth]
        return kind, b"".join(t)[:max_len * 2]
    if kind == "alias":
        # make a name refer to another name of the same input (self references, duplicated or undefined names): an identifier or
        # the content of a quoted string is replaced by one found close to it (half of the time) or anywhere in the file
        idx = [i for i, x in enumerate(t) if IDENT.fullmatch(x) or (len(x) > 2 and x[:1] == b'"' and x[-1:] == b'"')]
        for _ in range(nmut):
            if len(idx) < 2:
                break
            i = g.choice(idx)
            near = [j for j in idx if j != i and abs(j - i) <= 12]
            j = g.choice(near) if near and g.random() < 0.5 else g.choice(idx)
            src = t[j][1:-1] if t[j][:1] == b'"' else t[j]
            t[i] = (b'"' + src + b'"') if t[i][:1] == b'"' else src
        return kind, b"".join(t)[:max_len]
    for _ in range(nmut):
        pos = g.randint(0, len(t) - 1)
        if kind == "token":
            op = g.choice(["del", "dup", "swap", "brace", "semicolon", "empty-string"])
            if op == "del":
                del t[pos]
                if not t:
                    break
            elif op == "dup":
                t[pos:pos] = [t[pos]] * g.choice([1, 1, 3, 50])
            elif op == "swap":
                q = g.randint(0, len(t) - 1)
                t[pos], t[q] = t[q], t[pos]
            elif op == "brace":
                t[pos:pos] = [g.choice([b"{", b"}", b"(", b")", b"[", b"]", b"<", b">", b"\"", b"'", b"/*"])]
            elif op == "semicolon":
                idx = [i for i, x in enumerate(t) if x == b";"]
                if idx:
                    del t[g.choice(idx)]
            else:
                t[pos:pos] = [b'""']
        elif kind == "keyword" and dictionary:
            kw = g.choice(dictionary)
            idx = [i for i, x in enumerate(t) if x.startswith(b"@")]
            if idx and g.random() < 0.6:
                t[g.choice(idx)] = kw
            else:
                t[pos:pos] = [b"\n", kw, g.choice([b" ", b" {", b" x;", b";", b" {};", b" true;", b" 1.e-8;", b" \"a\";", b" <", b""])]
        elif kind == "number":
            idx = [i for i, x in enumerate(t) if x[:1].isdigit()]
            if idx:
                t[g.choice(idx)] = g.choice(HOSTILE_NUMBERS)
            else:
                t[pos:pos] = [g.choice(HOSTILE_NUMBERS)]
    return kind, b"".join(t)[:max_len]


def keyword_dictionary(tool, args_for_dsl, dsls, env):
    """@Keywords of every DSL, read from the binary itself"""
    out = set()
    for r in vfcore.pmap(lambda dsl: vfcore.run([tool] + args_for_dsl(dsl), timeout=300, env=env), dsls):
        for m in re.finditer(r"(@[A-Za-z_0-9]+)", r.out + r.err):
            out.add(m.group(1).encode())
    return sorted(out)


def outcome_class(r):
    """coarse class of a regular (non-crash) outcome, for the evidence"""
    if r.rc == 0:
        return "success"
    txt = (r.err + r.out)[-400:]
    m = re.search(r"([A-Za-z_:]+)::?([A-Za-z_]+)\s*:", txt)
    return "error:" + (m.group(1)[-30:] if m else "other")


KEYWORD_SHAPES = [b";", b" {", b" {};", b" x;", b' "a";', b" 1.e-8;", b" <", b"", b" {x: 1};", b" x = 1;"]


def keyword_sweep(g, keywords, bases, thorough, nshapes=4):
    """systematic part of the keyword-aware fuzz: every keyword of a dictionary placed (a) alone after the header of a
    minimal input, (b) right after the header of a real input, (c) at the end of a real input, followed by a few argument
    shapes.  `bases` = (minimal header, real input) as bytes; the real input is split after its first ';'.
    quick: one (placement, shape) per keyword drawn by g; thorough: all placements x nshapes shapes.  -> list of (label, bytes)"""
    head, real = bases
    cut = real.find(b";") + 1
    out = []
    for kw in keywords:
        places = [("bare", head + b"\n" + kw + b"%s\n"), ("begin", real[:cut] + b"\n" + kw + b"%s\n" + real[cut:]), ("end", real + b"\n" + kw + b"%s\n")]
        if thorough:
            for pn, tpl in places:
                for sh in g.sample(KEYWORD_SHAPES, nshapes):
                    out.append(("%s/%s" % (kw.decode(), pn), tpl.replace(b"%s", sh, 1)))
        else:
            pn, tpl = g.choice(places)
            out.append(("%s/%s" % (kw.decode(), pn), tpl.replace(b"%s", g.choice(KEYWORD_SHAPES), 1)))
    return out
