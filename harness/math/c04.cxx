// C04 — requested eigenvalue ordering honoured, ties included (DESIGN.md §4.1)
// One binary per scalar type: -DC04_REAL=double|float.
// Purely combinatorial oracle (no tolerance): the ordered result must be
//   [notperm]  a permutation of the result of the UNSORTED call (exact multiset equality),
//   [unsorted] monotone as requested (3D: all three; 2D: the in-plane pair, third slot untouched;
//              1D: documented as "no effect": must equal the unsorted result),
//   [columns]  with every eigenvector column travelling with its eigenvalue: a permutation p exists
//              with vp_sorted[i] == vp_unsorted[p(i)] and column_i(m_sorted) == column_p(i)(m_unsorted).
// Entry points: tfel::math::sortEigenValues, internals::SortEigenValues<N>::exe,
// internals::SortEigenVectors<N>::exe, fses::sort (direct calls, every weak order of three values is
// fed exactly), stensor::computeEigenValues<es>(o), stensor::computeEigenVectors<es>(o) for the 8
// solvers (tie pattern = the one of the unsorted output).
// api = "<entry point>[/<solver>]", stratum = "<ORDERING>:ranks<r0r1r2>[:tag]" where r_i is the dense rank
// of the i-th unsorted value (ranks001 = v0 == v1 < v2).
#define VFH_MAIN
#include "eigcommon.hxx"
#include "FSES/Utilities.hxx"

#ifndef C04_REAL
#define C04_REAL double
#endif

using namespace ref;
using namespace vfx;
using real = C04_REAL;
using SC = tfm::stensor_common;
using vec3 = tfm::tvector<3u, real>;
using mat3 = tfm::tmatrix<3u, 3u, real>;

static vf::Reporter R;
static long g_skipped_nan = 0, g_skipped_abort = 0, g_1d_not_sorted = 0;

static const int PAT[13][3] = {{0, 0, 0}, {0, 0, 1}, {0, 1, 0}, {1, 0, 0}, {0, 1, 1}, {1, 0, 1}, {1, 1, 0},
                               {0, 1, 2}, {0, 2, 1}, {1, 0, 2}, {1, 2, 0}, {2, 0, 1}, {2, 1, 0}};
static const char* ONAME[3] = {"ASCENDING", "DESCENDING", "UNSORTED"};
static const SC::EigenValuesOrdering OV[3] = {SC::ASCENDING, SC::DESCENDING, SC::UNSORTED};

static void ranks_of(const vec3& v, int r[3]) {
  for (int i = 0; i < 3; ++i) {
    // dense rank: number of distinct values strictly below v[i]
    real below[3];
    int n = 0;
    for (int j = 0; j < 3; ++j) {
      if (!(v[j] < v[i])) continue;
      bool dup = false;
      for (int k = 0; k < n; ++k) dup = dup || below[k] == v[j];
      if (!dup) below[n++] = v[j];
    }
    r[i] = n;
  }
}
static const char* stratum_name(int o, const vec3& unsorted, int N) {
  static char b[64];
  int r[3];
  ranks_of(unsorted, r);
  if (N == 2) {  // only the in-plane pair matters
    std::snprintf(b, sizeof b, "%s:inplane%s", ONAME[o], unsorted[0] == unsorted[1] ? "00" : (unsorted[0] < unsorted[1] ? "01" : "10"));
  } else {
    std::snprintf(b, sizeof b, "%s:ranks%d%d%d", ONAME[o], r[0], r[1], r[2]);
  }
  return b;
}
static bool same_multiset(const vec3& a, const vec3& b, int n) {
  real x[3] = {a[0], a[1], a[2]}, y[3] = {b[0], b[1], b[2]};
  std::sort(x, x + n); std::sort(y, y + n);
  for (int i = 0; i < n; ++i) if (!(x[i] == y[i])) return false;
  for (int i = n; i < 3; ++i) if (!(a[i] == b[i])) return false;
  return true;
}
static bool monotone(const vec3& v, int o, int n) {
  if (o == 2) return true;
  for (int i = 0; i + 1 < n; ++i) {
    if (o == 0 && !(v[i] <= v[i + 1])) return false;
    if (o == 1 && !(v[i] >= v[i + 1])) return false;
  }
  return true;
}
// number of leading slots that are sorted in dimension N
static int nsorted(int N) { return N == 3 ? 3 : (N == 2 ? 2 : 0); }

// returns nullptr when fine, else the class of the failure
static const char* judge_values(const vec3& in, const vec3& out, int o, int N) {
  if (N == 1 || o == 2) {
    // documented: no effect
    for (int i = 0; i < 3; ++i) if (!(in[i] == out[i])) return "[notperm] ordering must have no effect here (documented): result differs from the unsorted one";
    return nullptr;
  }
  if (!same_multiset(in, out, nsorted(N))) return "[notperm] sorted values are not a permutation of the unsorted values";
  if (!monotone(out, o, nsorted(N))) return "[unsorted] values are not in the requested order";
  return nullptr;
}
static bool col_eq(const mat3& a, int ja, const mat3& b, int jb) {
  for (int i = 0; i < 3; ++i) if (!(a(i, ja) == b(i, jb))) return false;
  return true;
}
static const char* judge_vectors(const vec3& in, const mat3& min, const vec3& out, const mat3& mout, int o, int N) {
  static const int P[6][3] = {{0, 1, 2}, {0, 2, 1}, {1, 0, 2}, {1, 2, 0}, {2, 0, 1}, {2, 1, 0}};
  const int np = (N == 3 && o != 2) ? 6 : ((N == 2 && o != 2) ? 3 : 1);  // P[0], P[2] keep slot 2 in place
  if (const char* m = judge_values(in, out, o, N)) return m;
  for (int k = 0; k < np; ++k) {
    if (N == 2 && k == 1) continue;
    bool ok = true;
    for (int i = 0; i < 3 && ok; ++i) ok = out[i] == in[P[k][i]] && col_eq(mout, i, min, P[k][i]);
    if (ok) return nullptr;
  }
  return "[columns] eigenvector columns do not travel with their eigenvalues (no permutation maps (vp,m) unsorted to sorted)";
}

template <typename It>
static std::string jarr(const char* k, It b, It e) { vf::J j; j.arr(k, b, e); return j.str(); }

struct Dump {
  const char* what = "";
  const char* solver = "-";
  int N = 3, o = 0;
  const real* s = nullptr; int ns = 0;
  vec3 in, out;
  const mat3* min = nullptr; const mat3* mout = nullptr;
  std::string operator()() const {
    vf::J j;
    j.s("T", TName<real>::v).s("entry", what).s("solver", solver).i("N", N).s("ordering", ONAME[o]);
    if (s) j.arr("s", s, s + ns);
    j.arr("unsorted", &in[0], &in[0] + 3).arr("sorted", &out[0], &out[0] + 3);
    j.darr("unsorted_d", &in[0], &in[0] + 3).darr("sorted_d", &out[0], &out[0] + 3);
    if (min) { real a[9], b[9]; for (int i = 0; i < 3; ++i) for (int k = 0; k < 3; ++k) { a[3 * i + k] = (*min)(i, k); b[3 * i + k] = (*mout)(i, k); }
      j.darr("m_unsorted(rowmajor)", a, a + 9).darr("m_sorted(rowmajor)", b, b + 9); }
    return j.str();
  }
};

static void report(const char* api, const char* st, uint64_t idx, uint64_t h, const char* fail, const Dump& d) {
  vfx::set_case(api, st, idx);
  R.expect(api, st, idx, h, fail == nullptr, d, fail ? fail : "");
}

// ---- direct calls of the sorting helpers ------------------------------------------------
static void direct_calls(uint64_t idx, const vec3& v, int o) {
  const uint64_t h = vf::hash_arr(&v[0], 3, uint64_t(o));
  Dump d; d.in = v; d.o = o;
  // labelled matrix: column j is (10j+1, 10j+2, 10j+3)
  mat3 lab;
  for (int i = 0; i < 3; ++i) for (int j = 0; j < 3; ++j) lab(i, j) = real(10 * j + i + 1);
  {
    d.what = "sortEigenValues"; d.N = 3;
    d.out = tfm::sortEigenValues(v, OV[o]);
    report("sortEigenValues", stratum_name(o, v, 3), idx, h, judge_values(v, d.out, o, 3), d);
  }
  {
    d.what = "SortEigenValues<3>::exe";
    d.out = v; tfm::internals::SortEigenValues<3u>::exe(d.out[0], d.out[1], d.out[2], OV[o]);
    report("SortEigenValues<3>::exe", stratum_name(o, v, 3), idx, h, judge_values(v, d.out, o, 3), d);
    d.what = "SortEigenValues<2>::exe"; d.N = 2;
    d.out = v; tfm::internals::SortEigenValues<2u>::exe(d.out[0], d.out[1], d.out[2], OV[o]);
    report("SortEigenValues<2>::exe", stratum_name(o, v, 2), idx, h, judge_values(v, d.out, o, 2), d);
    d.what = "SortEigenValues<1>::exe"; d.N = 1;
    d.out = v; tfm::internals::SortEigenValues<1u>::exe(d.out[0], d.out[1], d.out[2], OV[o]);
    report("SortEigenValues<1>::exe", stratum_name(o, v, 3), idx, h, judge_values(v, d.out, o, 1), d);
  }
  {
    mat3 m = lab;
    d.min = &lab; d.mout = &m;
    d.what = "SortEigenVectors<3>::exe"; d.N = 3;
    d.out = v; tfm::internals::SortEigenVectors<3u>::exe(d.out, m, OV[o]);
    report("SortEigenVectors<3>::exe", stratum_name(o, v, 3), idx, h, judge_vectors(v, lab, d.out, m, o, 3), d);
    // 2D: the in-plane eigenvectors have no z component and the third one is e_z (documented layout)
    mat3 lab2 = lab;
    lab2(2, 0) = lab2(2, 1) = lab2(0, 2) = lab2(1, 2) = real(0); lab2(2, 2) = real(1);
    d.what = "SortEigenVectors<2>::exe"; d.N = 2; d.min = &lab2;
    m = lab2; d.out = v; tfm::internals::SortEigenVectors<2u>::exe(d.out, m, OV[o]);
    report("SortEigenVectors<2>::exe", stratum_name(o, v, 2), idx, h, judge_vectors(v, lab2, d.out, m, o, 2), d);
    d.min = &lab;
    d.what = "SortEigenVectors<1>::exe"; d.N = 1;
    m = lab; d.out = v; tfm::internals::SortEigenVectors<1u>::exe(d.out, m, OV[o]);
    report("SortEigenVectors<1>::exe", stratum_name(o, v, 3), idx, h, judge_vectors(v, lab, d.out, m, o, 1), d);
    if (o != 2) {
      d.what = "fses::sort"; d.N = 3;
      m = lab; d.out = v;
      fses::sort(m, d.out, o == 0 ? fses::EigenValuesOrdering::ASCENDING : fses::EigenValuesOrdering::DESCENDING);
      report("fses::sort", stratum_name(o, v, 3), idx, h, judge_vectors(v, lab, d.out, m, o, 3), d);
    }
  }
}

// ---- through the solvers -------------------------------------------------------------------
template <ES es, unsigned short N>
static void through_solver(uint64_t idx, const tfm::stensor<N, real>& s, int o, bool b) {
  using S = Solver<es>;
  char api[96];
  const uint64_t h = vf::hash_arr(&s[0], ssize(N), uint64_t(o) * 8 + N);
  Dump d; d.solver = S::name; d.N = N; d.o = o; d.s = &s[0]; d.ns = ssize(N);
  {
    vec3 u(real(0)), v(real(0));
    std::snprintf(api, sizeof api, "computeEigenValues(o)<%d>/%s", int(N), S::name);
    vfx::set_case(api, ONAME[o], idx);
    const bool ok = guarded([&] { s.template computeEigenValues<es>(u, b); s.template computeEigenValues<es>(v, OV[o], b); });
    if (!ok) { ++g_skipped_abort; R.skip(api, ONAME[o]); }
    else if (!finite3(u)) { ++g_skipped_nan; R.skip(api, ONAME[o]); }
    else {
      d.what = "computeEigenValues(o)"; d.in = u; d.out = v; d.min = d.mout = nullptr;
      const char* f = judge_values(u, v, o, N);
      if (N == 1 && o != 2 && !monotone(v, o, 3)) ++g_1d_not_sorted;
      report(api, stratum_name(o, u, N), idx, h, f, d);
    }
  }
  {
    vec3 u(real(0)), v(real(0));
    mat3 mu(real(0)), mv(real(0));
    std::snprintf(api, sizeof api, "computeEigenVectors(o)<%d>/%s", int(N), S::name);
    vfx::set_case(api, ONAME[o], idx);
    const bool ok = guarded([&] { s.template computeEigenVectors<es>(u, mu, b); s.template computeEigenVectors<es>(v, mv, OV[o], b); });
    if (!ok) { ++g_skipped_abort; R.skip(api, ONAME[o]); }
    else if (!finite3(u) || !finite33(mu)) { ++g_skipped_nan; R.skip(api, ONAME[o]); }
    else {
      d.what = "computeEigenVectors(o)"; d.in = u; d.out = v; d.min = &mu; d.mout = &mv;
      const char* f = judge_vectors(u, mu, v, mv, o, N);
      // independent of the unsorted call: every sorted pair must still be an eigenpair as good as the worst unsorted one
      if (!f && finite3(v) && finite33(mv)) {
        const M3 A = from_st(s, N);
        const L lu[3] = {L(u[0]), L(u[1]), L(u[2])}, lv[3] = {L(v[0]), L(v[1]), L(v[2])};
        const L ru = eig_residual(A, lu, to_m3(mu)), rv = eig_residual(A, lv, to_m3(mv));
        if (rv > ru * (1 + 1e-12L) + 0) f = "[columns] residual |S v_i - l_i v_i| of the sorted pairs exceeds the one of the unsorted pairs";
      }
      report(api, stratum_name(o, u, N), idx, h, f, d);
    }
  }
}

template <unsigned short N>
static void all_solvers(uint64_t idx, const M3& A, int o, bool b) {
  const auto s = mk<N, real>(A);
  through_solver<ES::TFELEIGENSOLVER, N>(idx, s, o, b);
  through_solver<ES::FSESJACOBIEIGENSOLVER, N>(idx, s, o, b);
  through_solver<ES::FSESQLEIGENSOLVER, N>(idx, s, o, b);
  through_solver<ES::FSESCUPPENEIGENSOLVER, N>(idx, s, o, b);
  through_solver<ES::FSESANALYTICALEIGENSOLVER, N>(idx, s, o, b);
  through_solver<ES::FSESHYBRIDEIGENSOLVER, N>(idx, s, o, b);
  through_solver<ES::GTESYMMETRICQREIGENSOLVER, N>(idx, s, o, b);
  through_solver<ES::HARARIEIGENSOLVER, N>(idx, s, o, b);
}

static void one_case(const vf::Args& a, uint64_t idx) {
  vf::Rng g(a.seed, 400, idx);
  const int p = int(idx % 13), o = int((idx / 13) % 3), fam = int((idx / 39) % 6);
  // three values realising the weak order p
  L lev[3];
  switch (fam) {
    case 0: lev[0] = -1; lev[1] = 0; lev[2] = 2; break;
    case 1: lev[0] = 0; lev[1] = 1; lev[2] = 3; break;
    case 2: lev[0] = 1; lev[1] = 2; lev[2] = 3; break;
    case 3: { lev[0] = g.uni(-2, 0); lev[1] = lev[0] + g.uni(0.1, 1); lev[2] = lev[1] + g.uni(0.1, 1); break; }
    case 4: {  // neighbouring floating-point numbers: a strict comparison must still order them
      const real x = real(g.uni(0.5, 2) * g.sign());
      const real y = std::nextafter(x, real(10)), z = std::nextafter(y, real(10));
      lev[0] = x; lev[1] = y; lev[2] = z; break;
    }
    default: { lev[0] = -g.logmag(-6, 6); lev[1] = g.coin() ? 0 : g.logmag(-8, -2); lev[2] = g.logmag(-1, 6); }
  }
  vec3 v;
  for (int i = 0; i < 3; ++i) v[i] = real(lev[PAT[p][i]]);
  direct_calls(idx, v, o);
  // tensors having these eigenvalues: on the diagonal, in a signed-permutation frame (exact), in a generic frame
  const int frame = int((idx / 234) % 3);
  const bool b = (idx / 702) % 2 == 1;
  const M3 D = diag(L(v[0]), L(v[1]), L(v[2]));
  for (int N = 1; N <= 3; ++N) {
    M3 A = D;
    if (N > 1 && frame == 1) A = rotate(random_rotation(g, N, 2), D);
    if (N > 1 && frame == 2) A = rotate(random_rotation(g, N, 0), D);
    if (N == 1) all_solvers<1>(idx, A, o, b);
    else if (N == 2) all_solvers<2>(idx, A, o, b);
    else all_solvers<3>(idx, A, o, b);
  }
}

int main(int argc, char** argv) {
  vf::Args a(argc, argv);
  install_abort_recovery();
  R.viol_cap = std::atoi(a.get("--violcap", "3").c_str());
  for (long i = 0; i < a.cases; ++i) {
    const uint64_t idx = a.only >= 0 ? uint64_t(a.only) : a.gidx(i);
    one_case(a, idx);
    if (a.only >= 0) break;
  }
  std::printf("@@VF {\"ev\":\"note\",\"what\":\"skipped: solver returned non-finite values (C03)\",\"n\":%ld}\n", g_skipped_nan);
  std::printf("@@VF {\"ev\":\"note\",\"what\":\"skipped: library assertion in the solver (C03)\",\"n\":%ld}\n", g_skipped_abort);
  std::printf("@@VF {\"ev\":\"note\",\"what\":\"1D results left unsorted (documented: ordering has no effect in 1D)\",\"n\":%ld}\n", g_1d_not_sorted);
  R.finish();
  return 0;
}
