// C03 — the eight symmetric eigen-solvers return a valid spectral decomposition (DESIGN.md §4.1)
// One binary per scalar type: compile with -DC03_REAL=double|float.
// Every case (a symmetric tensor of a named stratum, rounded to the scalar type) is pushed
// through all solvers; judged quantities (all relative to |S|_F, computed in long double from
// the returned values only, eigenvalues against the long-double cyclic Jacobi of ref.hxx):
//   values   : sorted computeEigenValues<es>()          vs reference eigenvalues
//   vvalues  : sorted eigenvalues of computeEigenVectors vs reference eigenvalues
//   residual : max_k |S v_k - l_k v_k|
//   ortho    : |V^T V - I|_F
//   recon    : |V diag(l) V^T - S|_F
// Tolerance: K * Delta_inf(solver, type) of docs/web/release-notes-5.0.md (K = 1024 in double, 512 in float); for the
// gap-sensitive family in 3D (closed forms TFEL/FSESANALYTICAL/FSESHYBRID/HARARI and Cuppen's
// divide and conquer) the three eigenvector quantities are scaled by 1/relgap; everything is
// capped at max(1e-3, 2 Delta_inf, 16 sqrt(eps)).  The msg field starts with a class tag
// [accuracy] | [gross] (error > 1e-2 |S|) | [nonfinite] | [assert] | [layout2d], which the
// Python side appends to the violation key: <solver><N,T>:<stratum>:<class>.
#define VFH_MAIN
#include "eigcommon.hxx"

#ifndef C03_REAL
#define C03_REAL double
#endif

using namespace ref;
using namespace vfx;
using real = C03_REAL;

static vf::Reporter R;
static constexpr bool IS_FLOAT = sizeof(real) == 4;
// safety factor on the documented accuracy, chosen so that the worst ratio observed on the sound solvers (Jacobi, QL, GTE, all 2D
// paths) over 5 seeds of the thorough tier stays <= ~0.02 (GTE reaches 225 eps on nearly triple eigenvalues); the tolerances remain
// <= 1e-6 of the O(1) error a wrong sign or coefficient produces
static constexpr L KSAFE = IS_FLOAT ? 512 : 1024;

enum St { RANDOM, DIAGONAL, NEARDIAG, TINYSHEAR, ZERO1, ZERO2, ZEROT, REP3, REP2, NEAR_A, NEAR_B, NEAR_C, NEAR_D, NEAR_E, SHEAR, SCALED, MIXED, XBIG, XSMALL, NST };
static const char* SN[NST] = {"random", "diagonal", "near_diagonal", "tiny_shear", "zero1", "zero2", "zero_tensor", "repeated3", "repeated2",
                              "nearrep_g1e-1..1e-3", "nearrep_g1e-3..1e-6", "nearrep_g1e-6..1e-9", "nearrep_g1e-9..1e-12",
                              "nearrep_g1e-12..1e-16", "shear_pressure", "scaled", "mixed_scale", "extreme_big", "extreme_small"};
static const int WEIGHT[NST] = {6, 6, 3, 2, 4, 4, 1, 2, 4, 4, 4, 4, 4, 4, 4, 3, 3, 1, 1};  // sums to 64
static int stratum_of(uint64_t idx) {
  int k = int(idx % 64);
  for (int s = 0; s < NST; ++s) { if (k < WEIGHT[s]) return s; k -= WEIGHT[s]; }
  return RANDOM;
}
static const double NEAR_LO[5] = {-3, -6, -9, -12, -16}, NEAR_HI[5] = {-1, -3, -6, -9, -12};

static L pow2(vf::Rng& g, int lo, int hi) { return std::ldexp(1.0L, g.irange(lo, hi)); }
static L small_int(vf::Rng& g, int a = 3) { return L(g.irange(-a, a)); }
static L nz_int(vf::Rng& g, int a = 3) { int v; do { v = g.irange(-a, a); } while (v == 0); return L(v); }
static L nz_real(vf::Rng& g) { return g.uni(0.1, 2) * g.sign(); }

// place three eigenvalues on the diagonal in random order (in 2D the third slot is the
// out-of-plane one, so the shuffle also decides which pair is in-plane)
static M3 shuffled_diag(vf::Rng& g, L a, L b, L c) {
  L v[3] = {a, b, c};
  shuffle3(g, v);
  return diag(v[0], v[1], v[2]);
}
// generic orientation only: aligned / nearly aligned frames have their own strata
static M3 rot(vf::Rng& g, int N) { return random_rotation(g, N, 0); }

// All strata but "diagonal" (and the a*I / zero tensors, which have no orientation) produce
// matrices with non-zero shear components, so that each key names one class of inputs.
static M3 gen(vf::Rng& g, int N, int st) {
  switch (st) {
    case RANDOM: return random_sym(g, N);
    case DIAGONAL: {
      switch (g.irange(0, 6)) {
        case 0: return diag(g.uni(-2, 2), g.uni(-2, 2), g.uni(-2, 2));
        case 1: return diag(small_int(g), small_int(g), small_int(g));  // zeros, ties, arithmetic triples
        case 2: return diag(g.logmag(-3, 3), g.logmag(-3, 3), g.logmag(-3, 3));
        case 3: { const L p = small_int(g, 4), t = L(g.irange(1, 4)); return shuffled_diag(g, p - t, p, p + t); }
        case 4: { const L a = g.uni(-2, 2); return shuffled_diag(g, a, a, g.uni(-2, 2)); }
        case 5: return shuffled_diag(g, nz_real(g), g.coin() ? 0 : nz_real(g), 0);
        default: { const L a = nz_real(g), b = g.uni(-2, 2); return shuffled_diag(g, a, a + g.logmag(-16, -1) * std::sqrt(2 * a * a + b * b), b); }
      }
    }
    case NEARDIAG: {
      M3 m = diag(g.uni(-2, 2), g.uni(-2, 2), g.uni(-2, 2));
      const L sc = norm(m);
      for (int k = 3; k < ssize(N); ++k) { const L v = g.sign() * sc * g.logmag(IS_FLOAT ? -7 : -14, -3); m[SI[k]][SJ[k]] = v; m[SJ[k]][SI[k]] = v; }
      return m;
    }
    case TINYSHEAR: {
      // numerically-zero but non-zero shear components (products of rounding residues): their
      // squares / fourth powers underflow although the tensor itself is of ordinary magnitude
      M3 m = diag(g.uni(-2, 2), g.uni(-2, 2), g.uni(-2, 2));
      for (int k = 3; k < ssize(N); ++k) {
        const L v = g.sign() * (IS_FLOAT ? g.logmag(-18, -8) : g.logmag(-150, -20));
        m[SI[k]][SJ[k]] = v; m[SJ[k]][SI[k]] = v;
      }
      return m;
    }
    case ZERO1: {
      if (g.coin()) {
        // alpha u u^T + beta v v^T, integer u, v not parallel: exactly one zero eigenvalue in 3D;
        // in 2D: in-plane rank one + non-zero out-of-plane value (zero eigenvalue in the plane)
        int u[3], v[3];
        const L al = nz_int(g, 2) * pow2(g, -2, 2), be = nz_int(g, 2) * pow2(g, -2, 2);
        if (N == 2) {
          do { int_vec(g, 2, u); } while (u[0] == 0 || u[1] == 0);
          M3 m = iso_plus_dyad(0, al, u);
          m[2][2] = be;
          return m;
        }
        do {
          int_vec(g, N, u); int_vec(g, N, v);
        } while (u[1] * v[2] - u[2] * v[1] == 0 && u[2] * v[0] - u[0] * v[2] == 0 && u[0] * v[1] - u[1] * v[0] == 0);
        return add(iso_plus_dyad(0, al, u), iso_plus_dyad(0, be, v));
      }
      return rotate(rot(g, N), shuffled_diag(g, nz_real(g), nz_real(g), 0));
    }
    case ZERO2: {
      if (g.coin()) {
        int u[3];
        do { int_vec(g, N, u); } while ((u[0] != 0) + (u[1] != 0) + (u[2] != 0) < 2);
        return iso_plus_dyad(0, nz_int(g, 2) * pow2(g, -2, 2), u);
      }
      return rotate(rot(g, N), shuffled_diag(g, nz_real(g), 0, 0));
    }
    case ZEROT: return zero();
    case REP3: {
      const L a = g.irange(0, 2) == 0 ? nz_int(g, 5) : (g.coin() ? g.uni(-2, 2) : g.sign() * g.logmag(-6, 6));
      return diag(a, a, a);
    }
    case REP2: {
      if (N == 2) {
        // in 2D an exactly repeated in-plane pair is a*I_2 (diagonal); the other exact tie is
        // between one in-plane and the out-of-plane eigenvalue
        const L a = g.coin() ? small_int(g) : g.uni(-2, 2);
        L b;
        do { b = g.coin() ? small_int(g) : g.uni(-2, 2); } while (b == a);
        if (g.coin()) return diag(a, a, b);
        int n[3];
        do { int_vec(g, 2, n); } while (n[0] == 0 || n[1] == 0);
        const L c1 = small_int(g, 4) * pow2(g, -2, 2);
        return iso_plus_dyad(c1, nz_int(g, 2) * pow2(g, -2, 2), n);  // zz = c1 = one in-plane eigenvalue
      }
      // c1 I + c2 n n^T : eigenvalues c1 (twice) and c1 + c2 |n|^2, exact in the scalar type
      int n[3];
      do { int_vec(g, N, n); } while ((n[0] != 0) + (n[1] != 0) + (n[2] != 0) < 2);
      return iso_plus_dyad(small_int(g, 4) * pow2(g, -2, 2), nz_int(g, 2) * pow2(g, -2, 2), n);
    }
    case NEAR_A: case NEAR_B: case NEAR_C: case NEAR_D: case NEAR_E: {
      const int bin = st - NEAR_A;
      const L r = g.logmag(NEAR_LO[bin], NEAR_HI[bin]);
      L a = g.uni(0.3, 2) * g.sign(), b;
      do { b = g.uni(-2, 2); } while (std::fabs(a - b) < 0.3);
      M3 d;
      if (g.irange(0, 3) == 0) {  // three nearly equal eigenvalues
        const L sc = std::sqrt(3.0L) * std::fabs(a);
        d = shuffled_diag(g, a, a + r * sc, a + r * sc * g.uni(1.5, 10) * g.sign());
      } else {
        const L sc = std::sqrt(2 * a * a + b * b);
        d = shuffled_diag(g, a, a + r * sc, b);
      }
      return rotate(rot(g, N), d);
    }
    case SHEAR: {
      // J3(dev S) = 0: S = p I + Q diag(-t, 0, t) Q^T
      if (g.coin()) {
        // p I + t (u v^T + v u^T) with orthogonal integer u, v: eigenvalues p, p +- t |u||v|
        static const int UV[6][2][3] = {{{1, 0, 0}, {0, 1, 0}}, {{1, 1, 0}, {1, -1, 0}}, {{1, 2, 0}, {2, -1, 0}},
                                        {{1, 0, 0}, {0, 0, 1}}, {{1, 1, 1}, {1, -1, 0}}, {{1, 1, 0}, {0, 0, 1}}};
        const int k = N == 2 ? g.irange(0, 2) : g.irange(0, 5);
        const L p = g.irange(0, 3) == 0 ? 0 : small_int(g, 4) * pow2(g, -1, 1), t = nz_int(g, 2) * pow2(g, -2, 1);
        M3 m = diag(p, p, p);
        for (int i = 0; i < 3; ++i) for (int j = 0; j < 3; ++j) m[i][j] += t * L(UV[k][0][i] * UV[k][1][j] + UV[k][1][i] * UV[k][0][j]);
        return m;
      }
      const L p = g.irange(0, 3) == 0 ? 0 : g.uni(-2, 2), t = g.uni(0.1, 2);
      return rotate(rot(g, N), shuffled_diag(g, p - t, p, p + t));
    }
    case SCALED: return random_sym(g, N, g.logmag(IS_FLOAT ? -4 : -12, IS_FLOAT ? 4 : 12));
    case MIXED: {
      M3 m = zero();
      for (int k = 0; k < ssize(N); ++k) { L v = g.sign() * g.logmag(IS_FLOAT ? -3 : -6, IS_FLOAT ? 3 : 6); m[SI[k]][SJ[k]] = v; m[SJ[k]][SI[k]] = v; }
      return m;
    }
    case XBIG: case XSMALL: return random_sym(g, N, std::pow(10.0L, (st == XBIG ? 1 : -1) * (IS_FLOAT ? 12 : 150)));
  }
  return zero();
}

template <unsigned short N>
struct Case {
  uint64_t idx, h;
  int st;
  bool b;  // "refine"/"aggressive" argument of the library calls
  tfm::stensor<N, real> s;
  M3 A;
  V3 w;       // reference eigenvalues, sorted
  L nA, rel;  // |A|_F and 1/|A|_F (1 for the zero tensor)
  L relgap;   // smallest gap between reference eigenvalues / |A|
};

static char g_msg[700];
static const char* tagged(L err, const char* what) {
  const char* tag = !std::isfinite(double(err)) ? "[nonfinite]" : (err > 1e-2L ? "[gross]" : "[accuracy]");
  std::snprintf(g_msg, sizeof g_msg, "%s %s", tag, what);
  return g_msg;
}

template <ES es, unsigned short N>
static void run_solver(const Case<N>& c) {
  const bool B = c.b;
  using S = Solver<es>;
  char api[80];
  std::snprintf(api, sizeof api, "%s<%d,%s>", S::name, int(N), TName<real>::v);
  const char* SS = SN[c.st];
  vfx::set_case(api, SS, c.idx);
  const L d = S::delta(real{});
  // upper bound of any tolerance: O(1) errors are never accepted, whatever the gap
  const L cap = std::max<L>({1e-3L, 2 * d, 16 * std::sqrt(L(std::numeric_limits<real>::epsilon()))});
  // eigenvalues of computeEigenValues: FSESHYBRID runs the analytical formula there (syevc3)
  const L dv = es == ES::FSESHYBRIDEIGENSOLVER ? std::max(d, Solver<ES::FSESANALYTICALEIGENSOLVER>::delta(real{})) : d;
  const L vtol = std::min(KSAFE * dv, std::max<L>(cap, 2 * dv));
  const L vvtol = std::min(KSAFE * d, cap);
  L gtol = KSAFE * d;
  if (S::gap_sensitive && N == 3) gtol = c.relgap > 0 ? gtol / std::min<L>(1, c.relgap) : cap;
  gtol = std::min(gtol, cap);

  tfm::tvector<3u, real> vp(real(0)), vp2(real(0));
  tfm::tmatrix<3u, 3u, real> m(real(0));
  auto dump = [&] {
    vf::J j;
    j.s("T", TName<real>::v).i("N", N).s("solver", S::name).i("b", B).arr("s", &c.s[0], &c.s[0] + ssize(N));
    j.darr("ref_eigenvalues", c.w.begin(), c.w.end()).d("relgap", c.relgap);
    j.darr("computeEigenValues", &vp[0], &vp[0] + 3).darr("computeEigenVectors.vp", &vp2[0], &vp2[0] + 3);
    real mm[9];
    for (int i = 0; i < 3; ++i) for (int k = 0; k < 3; ++k) mm[3 * i + k] = m(i, k);
    j.darr("computeEigenVectors.m(rowmajor)", mm, mm + 9);
    return j.str();
  };
  auto sorted_err = [&](const tfm::tvector<3u, real>& v) {
    L a[3] = {L(v[0]), L(v[1]), L(v[2])};
    if (!finite3(v)) return L(NAN);
    std::sort(a, a + 3);
    L e = 0;
    for (int i = 0; i < 3; ++i) e = std::max(e, std::fabs(a[i] - c.w[i]));
    return e * c.rel;
  };
  // ---- eigenvalues only
  if (!guarded([&] { c.s.template computeEigenValues<es>(vp, B); })) {
    std::snprintf(g_msg, sizeof g_msg, "[%s] computeEigenValues: %s", g_kind, g_why);
    R.check(api, SS, c.idx, c.h, INFINITY, 0, dump, g_msg);
  } else {
    const L e = sorted_err(vp);
    R.check(api, SS, c.idx, c.h, e, vtol, dump, tagged(e, "values: sorted computeEigenValues vs long-double Jacobi, relative to |S|"));
    if (N == 2) R.expect(api, SS, c.idx, c.h, vp[2] == c.s[2], dump, "[layout2d] third eigenvalue is not the out-of-plane component");
  }
  // ---- eigenvalues and eigenvectors
  if (!guarded([&] { c.s.template computeEigenVectors<es>(vp2, m, B); })) {
    std::snprintf(g_msg, sizeof g_msg, "[%s] computeEigenVectors: %s", g_kind, g_why);
    R.check(api, SS, c.idx, c.h, INFINITY, 0, dump, g_msg);
    return;
  }
  {
    const L e = sorted_err(vp2);
    R.check(api, SS, c.idx, c.h, e, vvtol, dump, tagged(e, "vvalues: sorted eigenvalues of computeEigenVectors vs long-double Jacobi, relative to |S|"));
  }
  if (!finite33(m)) {
    R.check(api, SS, c.idx, c.h, NAN, gtol, dump, "[nonfinite] eigenvector matrix has non-finite entries");
    return;
  }
  const M3 V = to_m3(m);
  const L l[3] = {L(vp2[0]), L(vp2[1]), L(vp2[2])};
  {
    const L e = finite3(vp2) ? eig_residual(c.A, l, V) * c.rel : L(NAN);
    R.check(api, SS, c.idx, c.h, e, gtol, dump, tagged(e, "residual: max_k |S v_k - l_k v_k| / |S|"));
  }
  {
    const L e = dist(mul(tr(V), V), eye());
    R.check(api, SS, c.idx, c.h, e, gtol, dump, tagged(e, "ortho: |V^T V - I|"));
  }
  {
    const L e = finite3(vp2) ? dist(reconstruct(l, V), c.A) * c.rel : L(NAN);
    R.check(api, SS, c.idx, c.h, e, gtol, dump, tagged(e, "recon: |V diag(l) V^T - S| / |S|"));
  }
  if (N == 2) {
    const bool lay = vp2[2] == c.s[2] && m(0, 2) == 0 && m(1, 2) == 0 && m(2, 0) == 0 && m(2, 1) == 0 && std::fabs(m(2, 2)) == 1;
    R.expect(api, SS, c.idx, c.h, lay, dump, "[layout2d] third eigenpair is not (s_zz, e_z)");
  }
}

template <unsigned short N>
static void one_case(const vf::Args& a, uint64_t idx) {
  vf::Rng g(a.seed, 300 + N, idx);
  Case<N> c;
  c.idx = idx;
  c.st = stratum_of(idx / 2);
  c.b = (idx / 128) % 2 == 1;
  c.s = mk<N, real>(gen(g, N, c.st));
  c.A = from_st(c.s, N);
  c.h = vf::hash_arr(&c.s[0], ssize(N), N);
  c.w = eigvals_sorted(c.A);
  c.nA = norm(c.A);
  c.rel = c.nA > 0 ? 1 / c.nA : 1;
  c.relgap = c.nA > 0 ? std::min(c.w[1] - c.w[0], c.w[2] - c.w[1]) / c.nA : 0;
  run_solver<ES::TFELEIGENSOLVER>(c);
  run_solver<ES::FSESJACOBIEIGENSOLVER>(c);
  run_solver<ES::FSESQLEIGENSOLVER>(c);
  run_solver<ES::FSESCUPPENEIGENSOLVER>(c);
  run_solver<ES::FSESANALYTICALEIGENSOLVER>(c);
  run_solver<ES::FSESHYBRIDEIGENSOLVER>(c);
  run_solver<ES::GTESYMMETRICQREIGENSOLVER>(c);
  run_solver<ES::HARARIEIGENSOLVER>(c);
}

int main(int argc, char** argv) {
  vf::Args a(argc, argv);
  install_abort_recovery();
  R.viol_cap = std::atoi(a.get("--violcap", "3").c_str());
  for (long i = 0; i < a.cases; ++i) {
    const uint64_t idx = a.only >= 0 ? uint64_t(a.only) : a.gidx(i);
    if (idx % 2 == 0) one_case<3>(a, idx);
    else one_case<2>(a, idx);
    if (a.only >= 0) break;
  }
  R.finish();
  return 0;
}
