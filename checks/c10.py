"""C10 — CubicRoots::exe returns genuine roots of cubics whose roots are known by construction."""
import vfcore

META = {
    "engine": "math", "level": "exploration", "design_ref": "DESIGN.md §4.1 C10",
    "technique": "ASan+UBSan harness calling CubicRoots::exe (float/double/long double, with and without refinement) on cubics "
                 "constructed from chosen roots; count, root values (multiplicity-aware perturbation bound) and refinement "
                 "monotonicity judged against the constructed truth in long double",
    "text": "Cubics are built from chosen roots (exact dyadic families whose coefficients are representable in every scalar type, and "
            "rounded families whose simple roots are re-polished in long double on the rounded polynomial), in the strata three "
            "separated real roots, one real root + complex pair, depressed with p=0 (plain and shifted), q=0, double and triple "
            "roots, nearly double roots, leading coefficient 10^±8, roots spread over 10^±3, one real root with |p|^3<<q^2. "
            "The monitor checks the returned count where the property fixes it, that every value presented as a root lies within "
            "K·S·max(eps, min(eps·cond, sqrt(eps·S/g), cbrt(eps))) of a true root and that every true root is returned, and that "
            "exe(...,true) never increases |p(x)| beyond evaluation noise. Held on the cases executed; no claim beyond them.",
    "note": "Trusted: the construction of the cubic from its roots and long-double Horner evaluation; g++ and the sanitizer "
            "runtimes. 'Accuracy achievable' is read as the first-order perturbation bound of the root under relative "
            "coefficient perturbations of size eps, at the scale S of the largest root (K=1000).",
}

STRATA = ["three-real-exact", "three-real-rounded", "three-real-spread", "one-real-exact", "one-real-rounded",
          "depressed-p0", "shifted-p0", "depressed-q0", "shifted-q0", "double-exact", "triple-exact", "near-double",
          "scaled-a3", "one-real-small-p"]


def build(ctx):
    return {"asan": vfcore.compile_cxx("c10", [vfcore.VERIF / "harness/math/c10.cxx"], "asan")}


def run(ctx):
    b = build(ctx)
    ctx.cov["rule"] = ("case = (scalar type, stratum, roots, leading coefficient) drawn from (VERIF_SEED, index); the cubic is "
                       "expanded from its roots in long double and rounded to the scalar type; distinct = distinct hash of the 4 "
                       "rounded coefficients per (API, stratum); non-trivial = every case (a3 != 0, at least one non-zero root "
                       "except by chance)")
    n = ctx.n(300000, 6000000)
    # a value that fails is filed under "<stratum>:cancellation|gross|other" (see harness), so the planned strata are
    # counted over "<stratum>" and "<stratum>:*" together
    summ = ctx.run_events(b["asan"], n, require=[])
    for st in STRATA:
        mn = 50 if st != "one-real-small-p" else 20
        for api in ("exe", "exe+improve", "exe/count", "exe/improve-monotone"):
            tot = sum(v["n"] for (a, t), v in summ.items() if a == api and (t == st or t.startswith(st + ":")))
            ctx.require(tot >= mn, "planned stratum %s:%s observed %d < %d events" % (api, st, tot, mn))
    ctx.assumptions += [
        "coefficients within about 1e±30 (root scale 1e±6 for double/long double, 1e±4 for float, leading coefficient 1e±8): "
        "the extreme-scale stratum of DESIGN §3 is not sampled (the closed form works with S^6; for float, roots below ~1e-6 make "
        "the discriminant smaller than the absolute threshold 100*FLT_MIN and are treated as a double root)",
        "completeness ('3 together with the three roots') is judged only for roots separated by >= 0.05*S; elsewhere each value "
        "presented as a root must be one, but the refinement may move two values onto the same root",
        "when 1 is returned only the real root is 'presented as a root'; x2,x3 (real parts of the pair) are not judged",
        "for double/triple/nearly-double roots either count (1 or 3) is accepted",
        "violation keys carry a mechanism suffix: ':cancellation' = 1 returned, |4p^3/27| < 0.1 q^2 for the cubic seen by the "
        "library and error <= 4*eps^(1/3)*S; ':gross' = error > 1e-3*S (sign/branch errors); ':other' otherwise",
    ]
