"""C55 — strain-measure finite-strain strategies are hyperelastically consistent (DESIGN.md §4.4)."""
import vfcore
import gbx
from checks import gb_src

META = {
    "engine": "gen", "level": "exploration", "design_ref": "DESIGN.md §4.4 C55",
    "technique": "small-strain linear elasticity generated with @StrainMeasure GreenLagrange / Hencky, called through the generic finite-strain interface for every (stress measure K[1], operator K[2]) pair; stresses compared with an independent numpy reference (eigen-decomposition of C, divided differences of log), operators with Richardson finite differences of the returned stress",
    "text": "F = R.U with rotations up to pi and principal stretches in [0.5, 2] (plus strata with two equal stretches, spherical and nearly unit stretches), random elastic constants, hypotheses axisymmetrical generalised plane strain (1D), axisymmetrical / plane strain / generalised plane strain (2D), tridimensional. GreenLagrange: the second Piola-Kirchhoff stress must be lambda tr(E) I + 2 mu E; Hencky: the stress T = lambda tr(E_log) I + 2 mu E_log dual to the logarithmic strain, converted to S through the derivative of the logarithm (the monitor's own conversion is verified by finite differences of E_log at start-up); the returned stress must be S converted to Cauchy / PK2 / PK1 as requested by K[1], whatever operator K[2] is requested and whether or not one is requested; for every pair (stress measure K[1] in {Cauchy, PK2, PK1}) x (operator K[2] in {0 dsigma/dF, 1 dS/dE_GL, 2 dPK1/dF, 3 dtau/dDF (Integrate.hxx::getTangentOperator)}) the returned operator must equal the Richardson finite-difference derivative of the stress the flavour differentiates (taken from the behaviour's own output in that measure, itself judged against the closed form) with respect to F (9/5/3 components), to E_GL (F rebuilt as R.sqrt(2E+I)) or to DF = F1.F0^-1 (tau = J sigma): the operator must not depend on the stress measure requested. A minimum number of judged operators per (strategy, stress measure, flavour, dimension) is required.",
    "note": "Trusted: numpy.linalg.eigh, the storage conventions of tensors ([xx yy zz xy yx xz zx yz zy], Mandel for symmetric tensors). Tolerances: 1e-12 x stress scale (x 1e-2/gap when two stretches differ by less than 1e-2), operators: 50 x Richardson estimate + 1e-7 |K|. Plane stress hypotheses are not exercised.",
}

NCASE = (60, 1500)
NFD = (15, 300)


def build(ctx):
    specs = gb_src.c55_specs(thorough=ctx.thorough, seed=ctx.seed)
    return specs, gbx.build_all(ctx, "C55", specs)


def run(ctx):
    specs, libs = build(ctx)
    ctx.cov["rule"] = ("case = (strain measure, hypothesis, random elastic constants, F0, F1 = R.U in a stratum of stretches, K[1], K[2]); "
                       "distinct = deformation gradients; non-trivial: all but the small-strain stratum have stretches far from 1")
    ctx.cov["behaviours"] = sorted(libs)
    gs = [[dict({k: v for k, v in s.items() if k != "text"}, lib=libs[s["name"]])] for s in specs if s["name"] in libs]

    def one(i):
        return gbx.call_vt(ctx, "checks.gb_mon55", "run", {"group": gs[i], "seed": ctx.seed, "ncase": ctx.n(*NCASE), "nfd": ctx.n(*NFD)},
                           tag="c55-%d" % i)
    ok = 0
    for i, (res, r) in enumerate(vfcore.pmap(one, range(len(gs)), workers=4)):
        if gbx.fold(ctx, res, r, what="C55 worker %s" % gs[i][0]["name"]):
            ok += 1
    ctx.require(ok == 2, "both strain measures must be exercised")
    tab = ctx.cov.get("strata", {})
    nfd = ctx.n(*NFD)
    for meas in ("GreenLagrange", "Hencky"):
        for sub in ("stress:Cauchy", "stress:PK2", "stress:PK1"):
            n = sum(v.get("n", 0) for k, v in tab.items() if k.startswith("VfElasticity" + meas) and k.endswith(sub))
            ctx.require(n >= nfd, "%s: stratum %s judged %d times only" % (meas, sub, n))
        # full cross product (strategy) x (stress measure K[1]) x (operator flavour K[2]) x (dimension)
        for dim in (1, 2, 3):
            for fl in ("dsig_dF", "dS_dEGL", "dPK1_dF", "dtau_dDF"):
                for sm in ("Cauchy", "PK2", "PK1"):
                    k = "VfElasticity%s:%dD:tangent:%s:with-%s" % (meas, dim, fl, sm)
                    n = tab.get(k, {}).get("n", 0)
                    ctx.require(n >= (6 * nfd) // 10, "stratum %s: %d operators judged, at least %d planned" % (k, n, (6 * nfd) // 10))
