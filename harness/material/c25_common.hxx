#ifndef VERIF_C25_COMMON_HXX
#define VERIF_C25_COMMON_HXX
// c25_common.hxx — shared part of the C25 harnesses (DESIGN.md §4.1 C25).
// Oracles: textbook closed forms (Voigt/Reuss means, Hashin-Shtrikman 1963 two-phase bounds,
// Eshelby's sphere tensor, dilute / Mori-Tanaka estimates written from A = [I+P:(Ci-C0)]^-1) and
// the integral definition of the Hill tensor evaluated by self-converging quadrature in long
// double (eshelby_ref.hxx).
#include <span>
#include <vector>
#include "eshelby_ref.hxx"
#include "TFEL/Math/stensor.hxx"
#include "TFEL/Math/st2tost2.hxx"
#include "TFEL/Material/IsotropicModuli.hxx"
#include "TFEL/Material/LinearHomogenizationBounds.hxx"
#include "TFEL/Material/LinearHomogenizationSchemes.hxx"
#include "TFEL/Material/IsotropicEshelbyTensor.hxx"
#include "TFEL/Material/LocalisationTensor.hxx"

using namespace ref;
namespace tfm = tfel::math;
namespace tmat = tfel::material;
namespace hom = tfel::material::homogenization::elasticity;

extern vf::Reporter R;
static const L EPS = std::numeric_limits<double>::epsilon();
static const L KF = 512;

template <unsigned short N>
static tfm::st2tost2<N, double> mk4(const T4& t) {
  tfm::st2tost2<N, double> r;
  for (int i = 0; i < ssize(N); ++i) for (int j = 0; j < ssize(N); ++j) r(i, j) = double(st2tost2_comp(t, i, j));
  return r;
}
static L dmax(L a, L b) { return a > b ? a : b; }

// ------------------------------------------------------------------------- inclusion problems
struct Medium { double E, nu; L K, G, la; T4 C; };
static Medium gen_medium(vf::Rng& g, L scale, double span) {
  Medium m;
  m.E = double(scale * g.logmag(-span, span));
  m.nu = g.irange(0, 5) == 0 ? g.uni(-0.5, 0.05) : g.uni(0.05, 0.45);
  const L E = m.E, n = m.nu;
  m.K = E / (3 * (1 - 2 * n)); m.G = E / (2 * (1 + n)); m.la = m.K - 2 * m.G / 3;
  m.C = mref::iso_t4(m.la, m.G);
  return m;
}
#endif
