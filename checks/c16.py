"""C16 — IEEE-754 classification is bit-exact for every value, whatever the optimisation flags."""
import vfcore

META = {
    "engine": "math", "level": "exploration", "design_ref": "DESIGN.md §4.1 C16",
    "technique": "exhaustive (float) / structured (double, x87 long double) enumeration of bit patterns through "
                 "tfel::math::ieee754::{fpclassify,isnan,isfinite} compiled with -O2, -Ofast and -O1 ASan+UBSan, each "
                 "answer compared with an independent bit decoder and with glibc's out-of-line __fpclassify*/__isnan*",
    "text": "All 2^32 float patterns; for double every (sign, exponent) and for x87 long double every (sign, exponent, "
            "explicit integer bit) with mantissas {0, 1, all ones, every single bit and its complement, half masks, "
            "random}; long double padding bytes carry garbage.  The x87 strata pseudo-denormal, unnormal, "
            "pseudo-infinity and pseudo-NaN are reported separately.  exhaustive: true for float (per build flavour); "
            "double and long double are sampled, no claim beyond the patterns executed.",
    "note": "Trusted: the decoder in harness/math/c16.cxx, glibc 2.36 __fpclassifyf/__fpclassify/__fpclassifyl, "
            "__isnanf/__isnan/__isnanl, __finitef/__finite entered through their symbols (never the compiler builtin). "
            "isfinite(long double) is judged against the class (zero/subnormal/normal): glibc's __finitel answers 1 on "
            "x87 unnormals although its own __fpclassifyl says FP_NAN; that disagreement is recorded as a counter, not judged.",
}

SRC = vfcore.VERIF / "harness/math/c16.cxx"
TYPES = ("float", "double", "ldouble")
BASE = ("zero", "subnormal", "normal", "infinite", "nan")
X87 = ("x87-pseudo-denormal", "x87-unnormal", "x87-pseudo-infinity", "x87-pseudo-nan")


def build(ctx):
    bins = {"O2": vfcore.compile_cxx("c16", [SRC], "O2"), "Ofast": vfcore.compile_cxx("c16", [SRC], "Ofast")}
    if ctx.thorough:
        bins["asan"] = vfcore.compile_cxx("c16", [SRC], "asan")
    return bins


def run(ctx):
    bins = build(ctx)
    ctx.cov["rule"] = ("case = one bit pattern of one type in one build flavour; every pattern is enumerated once per flavour, so "
                       "distinct = number of distinct bit patterns (counted on one flavour); all classes are non-trivial (each has its own stratum).  float is exhaustive.")
    req = []
    for t in TYPES:
        for a in ("fpclassify", "isnan", "isfinite"):
            for st in BASE + (X87 if t == "ldouble" else ()):
                req.append(("%s<%s>" % (a, t), st, 2))
    nrand = ctx.n(64, 2048)
    per_flavour = {}
    for fl in (("O2", "Ofast", "asan") if ctx.thorough else ("O2", "Ofast")):
        summ = ctx.run_events(bins[fl], nrand, shards=1, extra=["--what", "float,double,ldouble"], require=req,
                              keymap=lambda k, e, fl=fl: "%s:%s" % (k, fl), timeout=3600)
        per_flavour[fl] = {"patterns": sum(s["n"] for (a, _), s in summ.items() if a.startswith("fpclassify")),
                           "float_patterns": sum(s["n"] for (a, _), s in summ.items() if a == "fpclassify<float>"),
                           "mismatches": sum(s["viol"] for s in summ.values())}
        ctx.require(per_flavour[fl]["float_patterns"] == 2 ** 32, "float enumeration incomplete in flavour %s" % fl)
    ctx.cov["flavours"] = per_flavour
    # `exhaustive` (boolean, whole space) is not claimed: only the float sub-space is enumerated completely
    ctx.cov["exhaustive_subspaces"] = {"float: all 2^32 bit patterns, in every build flavour of this run": True,
                                       "double": False, "long double": False}
    # evaluations counts API calls (3 per pattern and flavour); distinct = distinct bit patterns (the same
    # patterns are replayed in every flavour, so one flavour is counted)
    ctx.cov["distinct_nontrivial"] = max(v["patterns"] for v in per_flavour.values())
    ctx.assumptions += ["x86-64, x87 80-bit long double, little endian (other long double formats are not exercised)",
                        "the property's 'as the platform C library does' is read on glibc's __fpclassifyl"]
