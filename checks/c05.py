"""C05 — isotropic functions of symmetric tensors and their derivatives."""
import re

import vfcore

META = {
    "engine": "math", "level": "exploration", "design_ref": "DESIGN.md §4.1 C05",
    "technique": "ASan+UBSan+assert harness on the real templates; values judged against sum f(l_i) n_i x n_i from a long-double "
                 "cyclic Jacobi, derivatives against Richardson-extrapolated long-double central differences of that reference "
                 "function along random symmetric directions; strata distinct / two equal / three equal / gap just below / just "
                 "above the eps argument / three nearly equal",
    "text": "For N=1,2,3 (double) and f in {exp, log, x^3, sqrt, |x|, max(x,0), min(x,0)} every entry point is exercised: the static "
            "computeIsotropicFunction / computeIsotropicFunctionDerivative overloads working from a given eigen-decomposition "
            "(functions or values, returned or output argument), the member and free computeIsotropicFunction, "
            "...Derivative, ...AndDerivative with three eigen-solvers, logarithm, absolute_value, positive_part, negative_part, "
            "square_root, positive_part+negative_part=s, and the positive/negative decomposition functions with their derivatives. "
            "The derivative is compared with (dF/dS):H from finite differences of the reference tensor function; tolerance = 50 x "
            "the FD error estimate + rounding (conditioned by the smallest non-merged gap) + 16 eps sup|f''| when a gap is below the "
            "eps argument. Ill-conditioned cases and non-converged finite differences are skipped and counted. Held on the cases "
            "executed.",
    "note": "Trusted: harness/ref.hxx (long-double Jacobi, isofun), g++, sanitizer runtimes. Only double is exercised (finite "
            "differences need the head-room of long double). The accuracy of the eigen-solvers themselves is C03: solver-based entry "
            "points are given sqrt(eps)-level slack at close eigenvalues. Keys are <entry point><N,double>:<stratum>; the scalar "
            "function and the solver are in the replay data.",
}

# the harness recovers from SIGSEGV itself (unbounded recursion in the library): keep the ASan runtime off that signal
SEGV_ENV = {"ASAN_OPTIONS": vfcore.SAN_ENV["ASAN_OPTIONS"] + ":handle_segv=0"}
SRC = vfcore.VERIF / "harness/math/c05.cxx"
STATIC = ["computeIsotropicFunction(f,vp,m)", "computeIsotropicFunction(fvalues,m)",
          "computeIsotropicFunctionDerivative(f,df,vp,m,eps)", "computeIsotropicFunctionDerivative(d,f,df,vp,m,eps)",
          "computeIsotropicFunctionDerivative(fvalues,dfvalues,vp,m,eps)",
          "computeIsotropicFunctionDerivative(d,fvalues,dfvalues,vp,m,eps)"]
SOLVER = ["computeIsotropicFunction", "computeIsotropicFunction(f,s)", "computeIsotropicFunctionDerivative",
          "computeIsotropicFunctionDerivative(f,df,s)", "computeIsotropicFunctionAndDerivative.first",
          "computeIsotropicFunctionAndDerivative.second", "computeIsotropicFunctionAndDerivative(f,df,s).first",
          "computeIsotropicFunctionAndDerivative(f,df,s).second"]
NAMED = {"logarithm": "log", "square_root": "sqrt", "absolute_value": "abs", "positive_part": "pos", "negative_part": "neg"}
FUNS = ["exp", "log", "cube", "sqrt", "abs", "pos", "neg"]
STRATA = {1: ["distinct", "equal2", "equal3"], 2: ["distinct", "equal2", "near2_below_eps", "near2_above_eps"],
          3: ["distinct", "equal2", "equal3", "near2_below_eps", "near2_above_eps", "near3"]}


def build(ctx):
    out = vfcore.pmap(lambda n: vfcore.compile_cxx("c05n%d" % n, [SRC], "asan", flags=("-DC05_N=%d" % n,)), (1, 2, 3))
    return dict(zip((1, 2, 3), out))


def keymap(key, e):
    api = e.get("api", "?").split("/")[0]
    api = re.sub(r"\[[A-Z]+\]", "", api)
    return "%s:%s" % (api, e.get("stratum", "?"))


def run(ctx):
    bins = build(ctx)
    ctx.cov["rule"] = ("case = (scalar function, stratum, eps argument in 1e-12..1e-3, spectrum, random frame, two random unit "
                       "directions) drawn from (VERIF_SEED, index); distinct = distinct hash of the tensor per (entry point, f, "
                       "stratum); non-trivial = every judged case (skipped ones are counted separately)")
    if ctx.replay:
        c = ctx.replay.get("case") or {}
        e = c.get("event") or {}
        n = int((e.get("in") or {}).get("N", 3))
        r = vfcore.run([bins[n], "--seed", ctx.seed, "--only", e.get("case", 0)], timeout=300, cwd=ctx.work, env=SEGV_ENV)
        summ = {}
        ctx.fold_events(r, summ, where="replay", keymap=keymap, replay_base=c)
        return ctx.merge_summary(summ)
    for n, cases in ((3, ctx.n(64000, 480000)), (2, ctx.n(40000, 300000)), (1, ctx.n(12000, 48000))):
        req = []
        mn = ctx.n(20, 400)
        for f in FUNS:
            for st in STRATA[n]:
                for ep in STATIC:
                    req.append(("%s<%d,double>/%s" % (ep, n, f), st, mn))
                for ep in SOLVER:
                    for s in ("TFEL", "FSESJACOBI", "GTESYMMETRICQR"):
                        # derivatives through the closed-form default solver are mostly skipped at close eigenvalues
                        lo = 0 if (s == "TFEL" and "erivative" in ep and st != "distinct" and n > 1) else mn
                        req.append(("%s[%s]<%d,double>/%s" % (ep, s, n, f), st, lo))
        for nm, f in NAMED.items():
            for st in STRATA[n]:
                req.append(("%s<%d,double>/%s" % (nm, n, f), st, mn))
        for st in STRATA[n]:
            req.append(("positive_part+negative_part<%d,double>/pos" % n, st, mn))
            req.append(("computeStensorDecompositionInPositiveAndNegativeParts.pp<%d,double>/pos" % n, st, mn))
            req.append(("computeStensorPositivePartAndDerivative.pp<%d,double>/pos" % n, st, mn))
        req.append(("computeStensorDecompositionInPositiveAndNegativeParts.dnp<%d,double>/pos" % n, "distinct", mn))
        req.append(("computeStensorPositivePartAndDerivative.dpp<%d,double>/pos" % n, "distinct", mn))
        summ = ctx.run_events(bins[n], cases, require=req, keymap=keymap, timeout=3000, env=SEGV_ENV)
        sk = sum(v["skipped"] for v in summ.values())
        ctx.count("skipped_ill_conditioned_or_fd_not_converged<N=%d>" % n, sk)
    ctx.assumptions += [
        "eps argument: eigenvalues closer than eps are treated as equal (stensor.hxx); the resulting error is accepted up to "
        "16 eps sup|f''| (for |x|, max, min across the kink: 2 sup|f'| / distance to the other eigenvalue instead of f'')",
        "the positive/negative decomposition functions also merge the *values* of eigenvalues closer than eps (error <= eps)",
        "|x|, max(x,0), min(x,0) are only exercised with |eigenvalues| >= 0.2, far from the kink compared with eps and the FD step",
    ]
