"""gb_src43.py — harvest of brick configurations for C43 from the repository's test behaviours
(StandardElastoViscoPlasticity*/, StandardElasticity/, DDIF2/): text of each file with the
jacobian-comparison keywords injected, features for the pairwise-covering sample.  No numpy."""
import re

import gbx
import vfcore

DIRS = ["mfront/tests/behaviours/StandardElastoViscoPlasticity", "mfront/tests/behaviours/StandardElasticity",
        "mfront/tests/behaviours/DDIF2"]
FEATURE_KEYS = ["stress_potential", "inelastic_flow", "criterion", "flow_criterion", "isotropic_hardening", "kinematic_hardening",
                "nucleation_model", "porosity_evolution", "stress_threshold", "elastic_properties"]
HYPS = "Tridimensional, PlaneStress, AxisymmetricalGeneralisedPlaneStress"


def inject(text, crit, pert):
    kw = ("\n@CompareToNumericalJacobian true;\n@JacobianComparisonCriterion %r;\n"
          "@PerturbationValueForNumericalJacobianComputation %r;\n" % (crit, pert))
    t, n = re.subn(r"(@Behaviour\s+\w+\s*;)", lambda m: m.group(1) + kw, text, count=1)
    if n != 1:
        return None
    # the comparison keywords may already be there
    if len(re.findall(r"@CompareToNumericalJacobian", t)) > 1:
        return None
    # all hypotheses -> three representative ones (3D + the two with an axial strain unknown)
    t = re.sub(r'@ModellingHypotheses\s*\{\s*"\.\+"\s*\}\s*;', "@ModellingHypotheses {%s};" % HYPS, t)
    return t


def features(text):
    """-> sorted list of 'key=value' strings read from the brick options (all occurrences)"""
    body = re.sub(r"//[^\n]*", "", text)
    out = set()
    m = re.search(r'@Brick\s+"?(\w+)"?', body)
    out.add("brick=" + (m.group(1) if m else "?"))
    for k in FEATURE_KEYS:
        for mm in re.finditer(r'\b%s\s*:\s*(?:"([^"]+)"|([A-Za-z_][\w-]*))' % k, body):
            out.add("%s=%s" % (k, (mm.group(1) or mm.group(2)).strip()))
    if re.search(r"@OrthotropicBehaviour", body):
        out.add("symmetry=orthotropic")
    if re.search(r"isotropic_hardening\s*:\s*\{", body) or len(re.findall(r"\bisotropic_hardening\s*:", body)) > 1:
        out.add("isotropic_hardening=sum")
    if len(re.findall(r"\bkinematic_hardening\s*:", body)) > 1 or re.search(r"kinematic_hardening\s*:\s*\{", body):
        out.add("kinematic_hardening=several")
    if len(re.findall(r"\binelastic_flow\s*:", body)) > 1:
        out.add("inelastic_flow=several")
    if re.search(r"@UseQt\s+true", body):
        out.add("useqt=true")
    if re.search(r"young_modulus\s*:\s*2\d\de3", body):
        out.add("units=MPa")
    return sorted(out)


def harvest():
    """-> list of dict(name, path, text, features) for every brick file with an analytical jacobian"""
    out = []
    for d in DIRS:
        for p in sorted((vfcore.REPO / d).glob("*.mfront")):
            t = p.read_text(errors="replace")
            if "@Brick" not in t or not re.search(r"@DSL\s+Implicit\w*\s*;", t):
                continue
            if re.search(r"@Algorithm\s+(?!NewtonRaphson\s*;)\w+", t):
                continue  # numerical jacobian / quasi-Newton variants: nothing analytical to compare
            if "@NumericallyComputedJacobianBlocks" in t:
                continue
            m = re.search(r"@Behaviour\s+(\w+)\s*;", t)
            if not m:
                continue
            out.append({"name": m.group(1), "path": str(p), "dir": str(p.parent), "text": t, "features": features(t)})
    return out


def pairwise_sample(cfgs, k, seed=0, forced=()):
    """greedy sample of k configurations maximising the number of covered feature pairs"""
    g = vfcore.rng(seed, "c43-sample")
    pool = list(cfgs)
    g.shuffle(pool)
    chosen, covered = [], set()

    def pairs(c):
        f = c["features"]
        return {(a, b) for i, a in enumerate(f) for b in f[i + 1:]} | {(a,) for a in f}
    for c in pool:
        if c["name"] in forced:
            chosen.append(c)
            covered |= pairs(c)
    while len(chosen) < k and len(chosen) < len(pool):
        best, gain = None, -1
        for c in pool:
            if c in chosen:
                continue
            new = pairs(c) - covered
            # new feature values first, new pairs of values next
            gn = 1000 * len([x for x in new if len(x) == 1]) + len(new)
            if gn > gain:
                best, gain = c, gn
        chosen.append(best)
        covered |= pairs(best)
    return chosen


def spec(cfg, crit, pert):
    t = inject(cfg["text"], crit, pert)
    if t is None:
        return None
    extra = ["--debug", "--search-path=" + cfg["dir"], "--search-path=" + str(vfcore.REPO / "mfront/tests/properties")]
    return {"slot": "c43-" + cfg["name"].lower(), "name": cfg["name"], "text": t, "fname": cfg["name"] + ".mfront",
            "key": cfg["name"], "extra": extra, "features": cfg["features"], "original": cfg["text"], "dir": cfg["dir"]}
