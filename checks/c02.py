"""C02 — tensor / fourth-order tensor algebra vs index notation on the full 3x3 / 3x3x3x3 arrays."""
import vfcore

META = {
    "engine": "math", "level": "exploration", "design_ref": "DESIGN.md §4.1 C02",
    "technique": "ASan+UBSan+assert harnesses on the real tensor / st2tost2 / t2tot2 / t2tost2 / st2tot2 templates; every result "
                 "is unpacked with the documented storage conventions and compared with a slow long-double index-notation model",
    "text": "Randomised and structured (single non-zero component, globally scaled 1e+-12, mixed component scales) tensors, "
            "symmetric tensors, the four kinds of fourth-order tensors, rotations (random, identity, signed permutations, "
            "near-identity) and deformation gradients (mild, stretch ratio <=10 and 100..1000, nearly equal / equal stretches, pure "
            "rotations) for N=1,2,3 and float/double (long double too for tensor<N>) go through every product, contraction, "
            "transposition, determinant, inverse, change of basis, push-forward/pull-back, projector (Id, IxI, J, K, M), "
            "syme/unsyme/convert conversion and polar_decomposition; each result is judged against the 3x3 / 3x3x3x3 long-double "
            "array computed from the definitions, with tolerance K*eps*(norm product)*(condition number where the operation has "
            "one). Held on the cases executed; no claim beyond them.",
    "note": "Trusted: the long-double reference of harness/ref.hxx + harness/math/ref4.hxx, g++, sanitizer runtimes. Conventions "
            "assumed (docs/web/tensors.md, doxygen): stensor [xx yy zz v2xy v2xz v2yz], tensor [xx yy zz xy yx xz zx yz zy], "
            "change_basis(a,r)=r^T.a.r and its fourth-order analogue, push_forward(C,F)_ijkl=F_im F_jn F_kp F_lq C_mnpq, "
            "transpose(st2tost2)=major transposition, st2tost2::convert(t2tost2) = restriction to symmetric arguments. "
            "Ill-conditioned inverses / decompositions (K*eps*cond > 1e-3) are skipped and counted. Violation keys are "
            "<api><N,T>:<stratum> (st2tost2:: prefix for the APIs of harness c02b).",
}

H = vfcore.VERIF / "harness/math"
PARTS = {"c02a": H / "c02a.cxx", "c02b": H / "c02b.cxx", "c02c": H / "c02c.cxx"}

TENSOR_APIS = ["tensor(i,j)", "matrix_view", "trace", "det", "a|b", "a*b", "a*s", "s*a", "s*s", "a*b*s", "a+s", "s-a", "2a-b/4",
               "transpose", "transpose(a)*b", "syme", "unsyme", "syme(unsyme)", "computeRightCauchyGreenTensor",
               "computeLeftCauchyGreenTensor", "computeGreenLagrangeTensor", "push_forward(s,F)", "pushForward(s,F)", "invert",
               "change_basis/random", "change_basis/identity", "change_basis/perm", "change_basis/nearid", "changeBasis(member)",
               "syme(change_basis)", "Id", "buildFromFortranMatrix", "import/write",
               "convertCauchyStressToSecondPiolaKirchhoffStress", "convertSecondPiolaKirchhoffStressToCauchyStress",
               "convertCauchyStressToFirstPiolaKirchhoffStress", "convertFirstPiolaKirchhoffStressToCauchyStress",
               "polar_decomposition:U", "polar_decomposition:R", "polar_decomposition:F=RU", "polar_decomposition:RtR=I",
               "polar_decomposition:detR=1", "polar_decomposition:U>0"]
ST2TOST2_APIS = ["getComponent", "setComponent", "A*s", "s*A", "s|A", "A*B", "s^s", "A+B", "2A-B/4", "-A", "A*B*A", "(A*B)*s",
                 "s|(A*s)", "transpose", "transpose(A)*B", "trace", "quaddot", "norm", "invert", "invert:X*A=Id",
                 "change_basis/random", "change_basis/identity", "change_basis/perm", "change_basis/nearid",
                 "fromRotationMatrix", "fromRotationMatrix*s", "push_forward(C,F)", "pull_back(C,F)",
                 "convert(t2tost2):diag-diag", "convert(t2tost2):diag-shear", "convert(t2tost2):shear-diag",
                 "Id", "IxI", "J", "K", "M", "J+K=Id", "K*K=K", "J*J=J", "J*K=0", "K*J=0", "M=3K/2", "K*s=dev(s)",
                 "J*s=tr(s)I/3", "IxI*s=tr(s)I", "Id*s=s", "s|M*s=seq^2", "Id2^Id2=IxI"]
ST2TOST2_APIS_23 = ["convert(t2tost2):shear-shear", "convert(t2tost2):as-map"]
MIXED_APIS = ["t2tot2*t", "t*t2tot2", "t|t2tot2", "t2tot2*t2tot2", "t^t", "t2tot2+t2tot2", "2*t2tot2-t2tot2/4", "-t2tot2",
              "t|(t2tot2*t)", "t2tost2*t", "s*t2tost2", "s|t2tost2", "s^t", "st2tost2*t2tost2", "t2tost2*t2tot2",
              "t2tost2+t2tost2", "-t2tost2", "st2tot2*s", "t*st2tot2", "t|st2tot2", "t^s", "t2tot2*st2tot2", "st2tot2*t2tost2",
              "st2tot2*st2tost2", "t2tost2*st2tot2", "st2tot2+st2tot2", "-st2tot2", "t2tot2(t2tost2)",
              "convert(t2tot2&,t2tost2)", "convertToT2toST2", "syme(t2tot2*t)==convertToT2toST2*t",
              "t2tot2::fromRotationMatrix", "t2tot2::fromRotationMatrix*t", "t2tot2::Id", "t2tot2::IxI", "t2tot2::K",
              "t2tot2::transpose_derivative", "t2tot2::Id*t=t", "t2tot2::IxI*t=tr(t)I", "t2tot2::K*t=dev(t)",
              "t2tot2::transpose_derivative*t=t^T", "t2tot2::K*K=K", "t2tot2::dt*dt=Id", "t2tot2::Id2^Id2=IxI"] + \
             ["change_basis(%s)/%s" % (k, r) for k in ("t2tot2", "t2tost2") for r in ("random", "identity", "perm", "nearid")]


def build(ctx):
    jobs = [(n, "asan") for n in PARTS]
    if ctx.thorough:
        jobs += [(n, "O2") for n in PARTS]
    out = vfcore.pmap(lambda j: vfcore.compile_cxx(j[0], [PARTS[j[0]]], j[1]), jobs, workers=3)
    return {j: b for j, b in zip(jobs, out)}


def req(apis, types, mn, dims=(1, 2, 3)):
    return [("%s<%d,%s>" % (a, n, t), None, mn) for a in apis for n in dims for t in types]


def run(ctx):
    bins = build(ctx)
    ctx.cov["rule"] = ("case = (N, scalar type, stratum, operands rounded to the scalar type) drawn from (VERIF_SEED, index); "
                       "distinct = distinct hash of the rounded operands per (API<N,T>, stratum); non-trivial = every case (the "
                       "'single' stratum keeps exactly one non-zero component per leading operand)")
    if ctx.replay:
        return replay(ctx, bins)
    mn = ctx.n(20, 400)
    # (polar decomposition of float is only judged for stretch ratios <= ~6, others are skipped and counted)
    ctx.run_events(bins[("c02a", "asan")], ctx.n(28800, 1728000), timeout=3000,
                   require=req(TENSOR_APIS, ("double", "float", "ldouble"), mn))
    ctx.run_events(bins[("c02b", "asan")], ctx.n(14400, 576000), timeout=3000,
                   require=req(["st2tost2::" + a for a in ST2TOST2_APIS], ("double", "float"), mn) +
                   req(["st2tost2::" + a for a in ST2TOST2_APIS_23], ("double", "float"), mn, (2, 3)))
    ctx.run_events(bins[("c02c", "asan")], ctx.n(7200, 288000), timeout=3000,
                   require=req(MIXED_APIS, ("double", "float"), mn))
    if ctx.thorough:
        # what users run: -O2 -DNDEBUG
        ctx.run_events(bins[("c02a", "O2")], 1728000, timeout=3000, require=[])
        ctx.run_events(bins[("c02b", "O2")], 576000, timeout=3000, require=[])
        ctx.run_events(bins[("c02c", "O2")], 288000, timeout=3000, require=[])
    ctx.assumptions += [
        "change_basis(x,r) means r^T.x.r for second-order tensors (docs/web/tensors.md, same convention as C01) and "
        "C'_ijkl = r_mi r_nj r_pk r_ql C_mnpq for the fourth-order ones; fromRotationMatrix(r) is the map x -> r^T.x.r",
        "st2tost2::convert(t2tost2) is read as the restriction of the t2tost2 to symmetric arguments: convert(D)*s == D*unsyme(s)",
        "convertFirstPiolaKirchhoffStressToCauchyStress is only exercised with P = J.s.F^-T (s symmetric), its domain",
        "polar decomposition is judged with K*eps*kU^2 (kU = ratio of extreme stretches; what any method forming C=F^T.F can reach); "
        "float cases with kU > ~6 and all cases with K*eps*kU^2 > 4e-3 are skipped and counted",
        "scales: 'scaled' stratum spans 1e+-12 (double, long double) and 1e+-5 (float); F of push_forward spans 1e+-2; extreme "
        "scales (overflow of fourth powers) are not sampled",
        "not covered (outside the property's list): det/abs of fourth-order tensors, ConvertToTangentModuli, "
        "ConvertSpatialModuliToKirchhoffJaumanRateModuli, ConvertKirchhoffStress*ToSpatialModuli, "
        "ConvertLogarithmicStrainTangentOperator, UmatNormaliseTangentOperator, WalpoleBasis, views/expression aliasing (C17); "
        "long double is exercised for tensor<N> only",
    ]


def replay(ctx, bins):
    c = ctx.replay.get("case") or {}
    e = c.get("event") or {}
    name = str(c.get("harness", "c02a")).rsplit("/", 1)[-1]
    b = bins.get((name, "asan"), bins[("c02a", "asan")])
    r = vfcore.run([b, "--seed", ctx.seed, "--only", e.get("case", 0), "--tier", ctx.tier], timeout=300, cwd=ctx.work)
    summ = {}
    ctx.fold_events(r, summ, where="replay", replay_base=c)
    ctx.merge_summary(summ)
