// C08 — TinyBroyden2Solver: one solver class per translation unit (see c08_common.hxx and DESIGN.md §4.1 C08, §6)
#define VFH_MAIN
#include "vfh.hxx"
#include "TFEL/Math/TinyBroyden2Solver.hxx"
#define C08_NAME "TinyBroyden2Solver"
#define C08_KIND K_BROYDEN2
template <unsigned short N, typename T, typename C>
using C08Base = tfel::math::TinyBroyden2Solver<N, T, C>;
#include "c08_common.hxx"
int main(int argc, char** argv) { return c08::run(argc, argv); }
