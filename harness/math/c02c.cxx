// C02 (part c) — t2tot2 / t2tost2 / st2tot2 <N,T>: every product and contraction between the four
// fourth-order kinds and the two second-order kinds, special values, change of basis and conversions,
// against the 3x3x3x3 long-double arrays the objects denote (rows/columns follow the tensor storage
// [xx yy zz xy yx xz zx yz zy] for a "T2" side and the Mandel storage [xx yy zz v2xy v2xz v2yz] for an "ST2" side).
#define VFH_MAIN
#include "math/ref4.hxx"
#include "TFEL/Math/stensor.hxx"
#include "TFEL/Math/tensor.hxx"
#include "TFEL/Math/st2tost2.hxx"
#include "TFEL/Math/t2tot2.hxx"
#include "TFEL/Math/t2tost2.hxx"
#include "TFEL/Math/st2tot2.hxx"
#include "TFEL/Math/tmatrix.hxx"

using namespace ref;
namespace tfm = tfel::math;

static vf::Reporter R;
// scalar types of the two halves of the case stream (overridable to split the compilation)
#ifndef C02C_T1
#define C02C_T1 double
#define C02C_N1 "double"
#define C02C_T2 float
#define C02C_N2 "float"
#endif

template <unsigned short N, typename T>
static tfm::tensor<N, T> mkt(const M3& m) {
  tfm::tensor<N, T> t;
  auto v = to_t(m, N);
  for (int k = 0; k < tsize(N); ++k) t[k] = static_cast<T>(v[k]);
  return t;
}
template <unsigned short N, typename T>
static tfm::stensor<N, T> mks(const M3& m) {
  tfm::stensor<N, T> s;
  auto v = to_st(m, N);
  for (int k = 0; k < ssize(N); ++k) s[k] = static_cast<T>(v[k]);
  return s;
}
template <typename T>
static tfm::rotation_matrix<T> mkr(const M3& m, M3& rounded) {
  tfm::rotation_matrix<T> r;
  for (int i = 0; i < 3; ++i) for (int j = 0; j < 3; ++j) { r(i, j) = static_cast<T>(m[i][j]); rounded[i][j] = L(r(i, j)); }
  return r;
}
template <typename A4>
static void fill4(A4& a, int rows, int cols, vf::Rng& g, int st, double kmax) {
  using T = tfm::numeric_type<A4>;
  L v[81];
  gen_values(g, st, rows * cols, v, kmax);
  for (int p = 0; p < rows; ++p) for (int q = 0; q < cols; ++q) a(p, q) = static_cast<T>(v[p * cols + q]);
}
template <typename A4>
static uint64_t hash4(const A4& a, int rows, int cols, uint64_t h = 0xcbf29ce484222325ull) {
  for (int p = 0; p < rows; ++p) for (int q = 0; q < cols; ++q) { auto x = a(p, q); h = vf::hash_bytes(&x, sizeof x, h); }
  return h;
}
template <typename A4>
static std::vector<L> flat4(const A4& a, int rows, int cols) {
  std::vector<L> v;
  for (int p = 0; p < rows; ++p) for (int q = 0; q < cols; ++q) v.push_back(L(a(p, q)));
  return v;
}

template <unsigned short N, typename T>
static void one_case(const vf::Args& a, uint64_t idx, const char* tname) {
  vf::Rng g(a.seed, 2301 + N * 7 + sizeof(T), idx);
  const int st = int(idx % ST_NSTRATA);
  const char* S = STRATA4[st];
  const L eps = EpsOf<T>::v;
  const double kmax = KmaxOf<T>::v;
  const int ns = ssize(N), nt = tsize(N);
  const int st2 = st == ST_SINGLE ? (g.coin() ? ST_SINGLE : ST_RANDOM) : st;
  tfm::t2tot2<N, T> TT, TT2;      // T2 -> T2
  tfm::t2tost2<N, T> TS;          // T2 -> ST2
  tfm::st2tot2<N, T> ST;          // ST2 -> T2
  tfm::st2tost2<N, T> SS;         // ST2 -> ST2
  fill4(TT, nt, nt, g, st, kmax); fill4(TT2, nt, nt, g, st2, kmax);
  fill4(TS, ns, nt, g, st2, kmax); fill4(ST, nt, ns, g, st2, kmax); fill4(SS, ns, ns, g, st2, kmax);
  auto ta = mkt<N, T>(gen_gen(g, N, st2, kmax));
  auto tb = mkt<N, T>(gen_gen(g, N, st2, kmax));
  auto s1 = mks<N, T>(gen_sym4(g, N, st2, kmax));
  const T4 rTT = from_t2tot2(TT, N), rTT2 = from_t2tot2(TT2, N), rTS = from_t2tost2(TS, N), rST = from_st2tot2(ST, N), rSS = from_st2tost2(SS, N);
  const M3 A = from_t(ta, N), B = from_t(tb, N), S1 = from_st(s1, N);
  const L nTT = t4norm(rTT), nTT2 = t4norm(rTT2), nTS = t4norm(rTS), nST = t4norm(rST), nSS = t4norm(rSS);
  const L nA = norm(A), nB = norm(B), nS1 = norm(S1);
  uint64_t h = hash4(TT, nt, nt); h = hash4(TT2, nt, nt, h); h = hash4(TS, ns, nt, h); h = hash4(ST, nt, ns, h); h = hash4(SS, ns, ns, h);
  h = vf::hash_arr(&ta[0], nt, h); h = vf::hash_arr(&tb[0], nt, h); h = vf::hash_arr(&s1[0], ns, h);
  auto dump = [&] {
    auto f1 = flat4(TT, nt, nt), f2 = flat4(TT2, nt, nt), f3 = flat4(TS, ns, nt), f4 = flat4(ST, nt, ns), f5 = flat4(SS, ns, ns);
    vf::J j; j.s("T", tname).i("N", N).arr("t2tot2_A", f1.begin(), f1.end()).arr("t2tot2_B", f2.begin(), f2.end())
        .arr("t2tost2", f3.begin(), f3.end()).arr("st2tot2", f4.begin(), f4.end()).arr("st2tost2", f5.begin(), f5.end())
        .arr("a", &ta[0], &ta[0] + nt).arr("b", &tb[0], &tb[0] + nt).arr("s", &s1[0], &s1[0] + ns);
    return j.str();
  };
  char api[96];
  auto nm = [&](const char* f) { std::snprintf(api, sizeof api, "%s<%d,%s>", f, int(N), tname); vf::set_case(api, S, idx); return api; };
  const L K = 128;
  // ---------------- t2tot2
  { tfm::tensor<N, T> r = TT * ta; R.check(nm("t2tot2*t"), S, idx, h, dist(from_t(r, N), ddot(rTT, A)), K * eps * nTT * nA, dump); }
  { tfm::tensor<N, T> r = ta * TT; R.check(nm("t*t2tot2"), S, idx, h, dist(from_t(r, N), ddot(A, rTT)), K * eps * nTT * nA, dump); }
  { tfm::tensor<N, T> r = ta | TT; R.check(nm("t|t2tot2"), S, idx, h, dist(from_t(r, N), ddot(A, rTT)), K * eps * nTT * nA, dump); }
  { tfm::t2tot2<N, T> r = TT * TT2; R.check(nm("t2tot2*t2tot2"), S, idx, h, t4dist(from_t2tot2(r, N), ddot(rTT, rTT2)), K * eps * nTT * nTT2, dump); }
  { tfm::t2tot2<N, T> r = ta ^ tb; R.check(nm("t^t"), S, idx, h, t4dist(from_t2tot2(r, N), otimes(A, B)), K * eps * nA * nB, dump); }
  { tfm::t2tot2<N, T> r = TT + TT2; R.check(nm("t2tot2+t2tot2"), S, idx, h, t4dist(from_t2tot2(r, N), t4add(rTT, rTT2)), K * eps * (nTT + nTT2), dump); }
  { tfm::t2tot2<N, T> r = T(2) * TT - TT2 / T(4); R.check(nm("2*t2tot2-t2tot2/4"), S, idx, h, t4dist(from_t2tot2(r, N), t4add(t4scal(rTT, 2), rTT2, -0.25L)), K * eps * (nTT + nTT2), dump); }
  { tfm::t2tot2<N, T> r = -TT; R.check(nm("-t2tot2"), S, idx, h, t4dist(from_t2tot2(r, N), t4scal(rTT, -1)), 0, dump); }
  {
    const L r = L(ta | (TT * tb));
    R.check(nm("t|(t2tot2*t)"), S, idx, h, std::fabs(r - dot(A, ddot(rTT, B))), K * eps * 2 * nTT * nA * nB, dump);
  }
  // ---------------- t2tost2
  { tfm::stensor<N, T> r = TS * ta; R.check(nm("t2tost2*t"), S, idx, h, dist(from_st(r, N), ddot(rTS, A)), K * eps * nTS * nA, dump); }
  { tfm::tensor<N, T> r = s1 * TS; R.check(nm("s*t2tost2"), S, idx, h, dist(from_t(r, N), ddot(S1, rTS)), K * eps * nTS * nS1, dump); }
  { tfm::tensor<N, T> r = s1 | TS; R.check(nm("s|t2tost2"), S, idx, h, dist(from_t(r, N), ddot(S1, rTS)), K * eps * nTS * nS1, dump); }
  { tfm::t2tost2<N, T> r = s1 ^ ta; R.check(nm("s^t"), S, idx, h, t4dist(from_t2tost2(r, N), otimes(S1, A)), K * eps * nS1 * nA, dump); }
  { tfm::t2tost2<N, T> r = SS * TS; R.check(nm("st2tost2*t2tost2"), S, idx, h, t4dist(from_t2tost2(r, N), ddot(rSS, rTS)), K * eps * nSS * nTS, dump); }
  { tfm::t2tost2<N, T> r = TS * TT; R.check(nm("t2tost2*t2tot2"), S, idx, h, t4dist(from_t2tost2(r, N), ddot(rTS, rTT)), K * eps * nTS * nTT, dump); }
  { tfm::t2tost2<N, T> r = TS + TS; R.check(nm("t2tost2+t2tost2"), S, idx, h, t4dist(from_t2tost2(r, N), t4scal(rTS, 2)), K * eps * nTS, dump); }
  { tfm::t2tost2<N, T> r = -TS; R.check(nm("-t2tost2"), S, idx, h, t4dist(from_t2tost2(r, N), t4scal(rTS, -1)), 0, dump); }
  // ---------------- st2tot2
  { tfm::tensor<N, T> r = ST * s1; R.check(nm("st2tot2*s"), S, idx, h, dist(from_t(r, N), ddot(rST, S1)), K * eps * nST * nS1, dump); }
  { tfm::stensor<N, T> r = ta * ST; R.check(nm("t*st2tot2"), S, idx, h, dist(from_st(r, N), ddot(A, rST)), K * eps * nST * nA, dump); }
  { tfm::stensor<N, T> r = ta | ST; R.check(nm("t|st2tot2"), S, idx, h, dist(from_st(r, N), ddot(A, rST)), K * eps * nST * nA, dump); }
  { tfm::st2tot2<N, T> r = ta ^ s1; R.check(nm("t^s"), S, idx, h, t4dist(from_st2tot2(r, N), otimes(A, S1)), K * eps * nS1 * nA, dump); }
  { tfm::st2tot2<N, T> r = TT * ST; R.check(nm("t2tot2*st2tot2"), S, idx, h, t4dist(from_st2tot2(r, N), ddot(rTT, rST)), K * eps * nTT * nST, dump); }
  { tfm::t2tot2<N, T> r = ST * TS; R.check(nm("st2tot2*t2tost2"), S, idx, h, t4dist(from_t2tot2(r, N), ddot(rST, rTS)), K * eps * nST * nTS, dump); }
  { tfm::st2tot2<N, T> r = ST * SS; R.check(nm("st2tot2*st2tost2"), S, idx, h, t4dist(from_st2tot2(r, N), ddot(rST, rSS)), K * eps * nST * nSS, dump); }
  { tfm::st2tost2<N, T> r = TS * ST; R.check(nm("t2tost2*st2tot2"), S, idx, h, t4dist(from_st2tost2(r, N), ddot(rTS, rST)), K * eps * nST * nTS, dump); }
  { tfm::st2tot2<N, T> r = ST + ST; R.check(nm("st2tot2+st2tot2"), S, idx, h, t4dist(from_st2tot2(r, N), t4scal(rST, 2)), K * eps * nST, dump); }
  { tfm::st2tot2<N, T> r = -ST; R.check(nm("-st2tot2"), S, idx, h, t4dist(from_st2tot2(r, N), t4scal(rST, -1)), 0, dump); }
  // ---------------- conversions between storages
  {
    // a t2tost2 seen as a t2tot2 (constructor / convert): same full tensor
    tfm::t2tot2<N, T> c(TS);
    R.check(nm("t2tot2(t2tost2)"), S, idx, h, t4dist(from_t2tot2(c, N), rTS), K * eps * nTS, dump);
    tfm::t2tot2<N, T> c2; tfm::convert(c2, TS);
    R.check(nm("convert(t2tot2&,t2tost2)"), S, idx, h, t4dist(from_t2tot2(c2, N), rTS), K * eps * nTS, dump);
    // a t2tot2 whose result is symmetrised: (C_ijkl + C_jikl)/2
    const auto d = tfm::convertToT2toST2(TT);
    R.check(nm("convertToT2toST2"), S, idx, h, t4dist(from_t2tost2(d, N), t4lsym(rTT)), K * eps * nTT, dump);
    // syme(t2tot2*t) must agree with convertToT2toST2(t2tot2)*t
    tfm::tensor<N, T> y = TT * ta;
    tfm::stensor<N, T> l = tfm::syme(y);
    tfm::stensor<N, T> r = d * ta;
    R.check(nm("syme(t2tot2*t)==convertToT2toST2*t"), S, idx, h, dist(from_st(l, N), from_st(r, N)), 4 * K * eps * nTT * nA, dump);
  }
  // ---------------- change of basis  C'_ijkl = r_mi r_nj r_pk r_ql C_mnpq
  for (int kind = 0; kind < 4; ++kind) {
    static const char* KN[] = {"random", "identity", "perm", "nearid"};
    char nme[64];
    M3 Rr;
    auto r = mkr<T>(random_rotation(g, N, kind), Rr);
    { tfm::t2tot2<N, T> c = tfm::change_basis(TT, r); std::snprintf(nme, sizeof nme, "change_basis(t2tot2)/%s", KN[kind]);
      R.check(nm(nme), S, idx, h, t4dist(from_t2tot2(c, N), t4rotate(rTT, Rr)), K * eps * 16 * nTT, dump); }
    { tfm::t2tost2<N, T> c = tfm::change_basis(TS, r); std::snprintf(nme, sizeof nme, "change_basis(t2tost2)/%s", KN[kind]);
      R.check(nm(nme), S, idx, h, t4dist(from_t2tost2(c, N), t4rotate(rTS, Rr)), K * eps * 16 * nTS, dump); }
    if (kind == 0 || kind == 2) {
      const auto rt = tfm::t2tot2<N, T>::fromRotationMatrix(r);
      T4 E;
      VF_FOR4 E.v[i][j][k][l] = Rr[k][i] * Rr[l][j];
      R.check(nm("t2tot2::fromRotationMatrix"), S, idx, h, t4dist(from_t2tot2(rt, N), restrict_dim(E, N)), K * eps * 3, dump);
      tfm::tensor<N, T> ra = rt * ta;
      R.check(nm("t2tot2::fromRotationMatrix*t"), S, idx, h, dist(from_t(ra, N), mul(mul(tr(Rr), A), Rr)), K * eps * 9 * nA, dump);
    }
  }
}

// ---- special values of t2tot2 ---------------------------------------------------------------
template <unsigned short N, typename T>
static void special_case(const vf::Args& a, uint64_t idx, const char* tname) {
  vf::Rng g(a.seed, 2401 + N * 7 + sizeof(T), idx);
  const int st = int(idx % ST_NSTRATA);
  const char* S = STRATA4[st];
  const L eps = EpsOf<T>::v;
  auto ta = mkt<N, T>(gen_gen(g, N, st, KmaxOf<T>::v));
  const M3 A = from_t(ta, N);
  const L nA = norm(A);
  const uint64_t h = vf::hash_arr(&ta[0], tsize(N));
  auto dump = [&] { vf::J j; j.s("T", tname).i("N", N).arr("a", &ta[0], &ta[0] + tsize(N)); return j.str(); };
  char api[96];
  auto nm = [&](const char* f) { std::snprintf(api, sizeof api, "%s<%d,%s>", f, int(N), tname); vf::set_case(api, S, idx); return api; };
  using T4t = tfm::t2tot2<N, T>;
  const T4t Id = T4t::Id(), IxI = T4t::IxI(), Kp = T4t::K(), dt = T4t::transpose_derivative();
  const T4 rId = restrict_dim(t4id(), N), rIxI = t4IxI(), rK = t4add(rId, t4scal(t4IxI(), 1 / 3.0L), -1), rT = restrict_dim(t4transposer(), N);
  const L K = 256;
  R.check(nm("t2tot2::Id"), S, idx, h, t4dist(from_t2tot2(Id, N), rId), 0, dump);
  R.check(nm("t2tot2::IxI"), S, idx, h, t4dist(from_t2tot2(IxI, N), rIxI), 0, dump);
  R.check(nm("t2tot2::K"), S, idx, h, t4dist(from_t2tot2(Kp, N), rK), 64 * eps, dump);
  R.check(nm("t2tot2::transpose_derivative"), S, idx, h, t4dist(from_t2tot2(dt, N), rT), 0, dump);
  { tfm::tensor<N, T> r = Id * ta; R.check(nm("t2tot2::Id*t=t"), S, idx, h, dist(from_t(r, N), A), 0, dump); }
  { tfm::tensor<N, T> r = IxI * ta; R.check(nm("t2tot2::IxI*t=tr(t)I"), S, idx, h, dist(from_t(r, N), scal(eye(), trace(A))), K * eps * nA, dump); }
  { tfm::tensor<N, T> r = Kp * ta; R.check(nm("t2tot2::K*t=dev(t)"), S, idx, h, dist(from_t(r, N), dev(A)), K * eps * nA, dump); }
  { tfm::tensor<N, T> r = dt * ta; R.check(nm("t2tot2::transpose_derivative*t=t^T"), S, idx, h, dist(from_t(r, N), tr(A)), 0, dump); }
  { T4t r = Kp * Kp; R.check(nm("t2tot2::K*K=K"), S, idx, h, t4dist(from_t2tot2(r, N), rK), K * eps, dump); }
  { T4t r = dt * dt; R.check(nm("t2tot2::dt*dt=Id"), S, idx, h, t4dist(from_t2tot2(r, N), rId), 0, dump); }
  {
    const auto id2 = tfm::tensor<N, T>::Id();
    T4t r = id2 ^ id2;
    R.check(nm("t2tot2::Id2^Id2=IxI"), S, idx, h, t4dist(from_t2tot2(r, N), rIxI), 0, dump);
  }
}

template <typename T>
static void dispatch(const vf::Args& a, uint64_t idx, const char* tname) {
  const int n = int((idx / 4) % 3);
  const bool spec = ((idx / 24) % 8) == 7;
  if (spec) {
    switch (n) {
      case 0: special_case<1, T>(a, idx, tname); break;
      case 1: special_case<2, T>(a, idx, tname); break;
      default: special_case<3, T>(a, idx, tname);
    }
    return;
  }
  switch (n) {
    case 0: one_case<1, T>(a, idx, tname); break;
    case 1: one_case<2, T>(a, idx, tname); break;
    default: one_case<3, T>(a, idx, tname);
  }
}

int main(int argc, char** argv) {
  vf::Args a(argc, argv);
  for (long i = 0; i < a.cases; ++i) {
    const uint64_t idx = a.only >= 0 ? uint64_t(a.only) : a.gidx(i);
    switch ((idx / 12) % 2) {
      case 0: dispatch<C02C_T1>(a, idx, C02C_N1); break;
      default: dispatch<C02C_T2>(a, idx, C02C_N2);
    }
    if (a.only >= 0) break;
  }
  R.finish();
  return 0;
}
