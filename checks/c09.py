"""C09 — scalarNewtonRaphson / bisection: sound convergence claims, bounded iterations, bracket confinement."""
import vfcore

META = {
    "engine": "math", "level": "exploration", "design_ref": "DESIGN.md §4.1 C09",
    "technique": "ASan+UBSan harness calling scalarNewtonRaphson with logging function and criterion objects; soundness, "
                 "iteration bound and bracket confinement decided from the callback logs by a monitor that maintains its own bracket",
    "text": "Scalar functions (monotone, non-monotone, flat derivative, f'=0 at iterates, NaN/±Inf regions and windows, wrong/zero/"
            "NaN/Inf derivatives, constant), seven stopping criteria, im in 0..100, guesses inside/outside/far from the bracket, "
            "brackets valid / root at an end / same sign / one-sided / infinite / absent, for float, double, long double and two "
            "index types. From the logs: convergence is only claimed at a finite x where f was evaluated finite and the criterion "
            "answered true on (f(x),dx,x,i); the returned count is <= im and evaluations <= 3+2*im; with a valid sign-changing "
            "bracket every later evaluation point lies in the current bracket recomputed by the monitor. Held on the cases executed.",
    "note": "Trusted: the harness functors (deterministic in x) and the monitor's bracket update rule (shrink on finite non-zero "
            "values strictly inside); g++ and the sanitizer runtimes.",
}

FAMS = ["monotone", "nonmonotone", "flat", "naninf"]


def build(ctx):
    return {"asan": vfcore.compile_cxx("c09", [vfcore.VERIF / "harness/math/c09.cxx"], "asan")}


def run(ctx):
    b = build(ctx)
    ctx.cov["rule"] = ("case = (scalar type, index type, function family and parameters, disturbance window, derivative mode, "
                       "criterion, im, bracket, x0) drawn from (VERIF_SEED, index); distinct = distinct hash of those inputs per "
                       "(API, stratum); non-trivial = every case (im=0 cases only exercise the iteration bound)")
    req = []
    for fam in FAMS:
        for bk in ("valid", "nobracket", "samesign", "onesided"):
            req.append(("scalarNewtonRaphson/sound", "%s/%s" % (fam, bk), 20))
            req.append(("scalarNewtonRaphson/iter", "%s/%s" % (fam, bk), 20))
        req.append(("scalarNewtonRaphson/bracket", "%s/valid" % fam, 50))
    req.append(("scalarNewtonRaphson/bracket0", None, 20))
    ctx.run_events(b["asan"], ctx.n(300000, 6000000), require=req,
                   env={"ASAN_OPTIONS": vfcore.SAN_ENV["ASAN_OPTIONS"] + ":quarantine_size_mb=16"})
    cnt = ctx.cov.get("counters", {})
    for fam in FAMS:  # both outcomes must have been observed, else the soundness half is vacuous
        for what in ("converged", "not-converged"):
            k = "note:%s:%s/valid" % (what, fam)
            ctx.require(cnt.get(k, 0) >= 5, "outcome '%s' observed %d < 5 times" % (k, cnt.get(k, 0)))
    ctx.assumptions += [
        "a bracket is 'valid' when both bounds are finite, xmin0 < xmax0, and f is finite with strictly opposite signs at them; "
        "with an exact root at a bound only confinement to the initial bracket is judged",
        "x0 itself may lie outside the bracket (it is evaluated before the bracket is known)",
    ]
