// c23_common.hxx — shared by c23.cxx (driver, references, verdicts) and c23_p*.cxx (instantiations of the conversion
// table, split over several translation units to keep each compilation short).
#ifndef VERIF_C23_COMMON_HXX
#define VERIF_C23_COMMON_HXX
#include <cmath>
#include <cstring>
#include <limits>
#include <stdexcept>
#include <type_traits>
#include <utility>
#include "TFEL/Math/tensor.hxx"
#include "TFEL/Math/stensor.hxx"
#include "TFEL/Math/st2tost2.hxx"
#include "TFEL/Math/t2tost2.hxx"
#include "TFEL/Math/t2tot2.hxx"
#include "TFEL/Material/FiniteStrainBehaviourTangentOperator.hxx"

#ifndef C23_DIM
#error "compile with -DC23_DIM=1|2|3"
#endif

namespace c23 {
namespace tfm = tfel::math;
namespace tmat = tfel::material;
using FB = tmat::FiniteStrainBehaviourTangentOperatorBase;
constexpr unsigned short N = C23_DIM;
constexpr int ns = (N == 1 ? 3 : (N == 2 ? 4 : 6)), nt = (N == 1 ? 3 : (N == 2 ? 5 : 9));
constexpr int NF = 15;       // number of flags (static_assert'ed against the enumeration in c23.cxx)
constexpr int NPARTS = 4;    // translation units instantiating the table
using real = double;
using TensorN = tfm::tensor<N, real>;
using StensorN = tfm::stensor<N, real>;

// ---- which conversions exist?  (a conversion exists iff the converter specialisation is a complete type) ---------
template <FB::Flag A, FB::Flag B>
concept has_conv = requires { sizeof(tmat::FiniteStrainBehaviourTangentOperatorConverter<A, B>); };
// a flag has a storage type iff FiniteStrainBehaviourTangentOperatorType<Flag,N,T> is specialised (DSIG_DDE is not)
template <FB::Flag A>
concept has_type = requires { sizeof(tmat::FiniteStrainBehaviourTangentOperatorType<A, N, double>); };

struct AnyK { double a[9][9]; int nr, nc; };
template <typename KT> constexpr int rows_of() { return std::is_same_v<KT, tfm::t2tot2<N, real>> ? nt : ns; }
template <typename KT> constexpr int cols_of() { return std::is_same_v<KT, tfm::st2tost2<N, real>> ? ns : nt; }
template <typename KT> constexpr const char* type_of() {
  return std::is_same_v<KT, tfm::t2tot2<N, real>> ? "t2tot2" : (std::is_same_v<KT, tfm::st2tost2<N, real>> ? "st2tost2" : "t2tost2");
}

using ConvFn = AnyK (*)(const AnyK&, const TensorN&, const TensorN&, const StensorN&);
extern ConvFn TABLE[NF][NF];   // TABLE[To][From], nullptr when the library has no such conversion
extern int ROWS[NF], COLS[NF];
extern const char* TYPES[NF];

// The output-argument overload of convert is called on a result pre-filled with NaN: an entry the conversion leaves
// unset is then seen by the verdict (NaN is a failure).
template <FB::Flag A, FB::Flag B>
AnyK wrap(const AnyK& k, const TensorN& F0, const TensorN& F1, const StensorN& s) {
  using KS = tmat::tangent_operator<B, N, real>;
  using KR = tmat::tangent_operator<A, N, real>;
  KS ks;
  for (int p = 0; p < rows_of<KS>(); ++p) for (int q = 0; q < cols_of<KS>(); ++q) ks(p, q) = k.a[p][q];
  KR kr;
  for (int p = 0; p < rows_of<KR>(); ++p) for (int q = 0; q < cols_of<KR>(); ++q) kr(p, q) = std::numeric_limits<double>::quiet_NaN();
  tmat::convert<A, B>(kr, ks, F0, F1, s);
  AnyK r;
  r.nr = rows_of<KR>(); r.nc = cols_of<KR>();
  for (auto& row : r.a) for (double& x : row) x = 0;
  for (int p = 0; p < r.nr; ++p) for (int q = 0; q < r.nc; ++q) r.a[p][q] = kr(p, q);
  return r;
}

template <int I> using IC = std::integral_constant<int, I>;
template <typename F, int... Is>
void for_flags(F&& f, std::integer_sequence<int, Is...>) { (f(IC<Is>{}), ...); }
using AllFlags = std::make_integer_sequence<int, NF>;

// part P instantiates the conversions whose ordinal (To * NF + From) is congruent to P modulo NPARTS
template <int P>
void fill_table_part() {
  for_flags([](auto a) {
    for_flags([](auto b) {
      constexpr auto A = FB::Flag(decltype(a)::value);
      constexpr auto B = FB::Flag(decltype(b)::value);
      if constexpr ((int(A) * NF + int(B)) % NPARTS == P) {
        if constexpr (has_conv<A, B> && has_type<A> && has_type<B>) TABLE[A][B] = &wrap<A, B>;
        else TABLE[A][B] = nullptr;
      }
    }, AllFlags{});
  }, AllFlags{});
}
void fill_part0(); void fill_part1(); void fill_part2(); void fill_part3();
}  // namespace c23
#endif
