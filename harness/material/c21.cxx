// C21 — isotropic moduli conversions and stiffness tensors (DESIGN.md §4.1 C21)
// Oracle: Hooke's law written in index notation in long double (mat_ref.hxx); orthotropic
// tensors by inversion of the engineering compliance; reduced hypotheses = restriction of the
// 3D tensor to the stored components after the documented axis permutation (PIPE: 2nd and 3rd
// material axes exchanged in plane stress / plane strain / generalised plane strain); plane
// stress = static condensation of the out-of-plane normal component, in long double.
#define VFH_MAIN
#include "mat_ref.hxx"
#include "TFEL/Math/stensor.hxx"
#include "TFEL/Math/st2tost2.hxx"
#include "TFEL/Material/IsotropicModuli.hxx"
#include "TFEL/Material/Lame.hxx"
#include "TFEL/Material/StiffnessTensor.hxx"

using namespace ref;
namespace tfm = tfel::math;
namespace tmat = tfel::material;
using MH = tmat::ModellingHypothesis;
using SA = tmat::StiffnessTensorAlterationCharacteristic;
using OC = tmat::OrthotropicAxesConvention;

static vf::Reporter R;
static const L KF = 200;

template <typename T> struct Eps { static constexpr L v = std::numeric_limits<T>::epsilon(); };

template <MH::Hypothesis H> struct HT;
#define HT_DEF(h, nm, pl, ps_) \
  template <> struct HT<MH::h> { static constexpr const char* name = nm; static constexpr bool plane = pl; static constexpr bool ps = ps_; \
    static constexpr unsigned short N = tmat::ModellingHypothesisToSpaceDimension<MH::h>::value; };
HT_DEF(AXISYMMETRICALGENERALISEDPLANESTRAIN, "AGPStrain", false, false)
HT_DEF(AXISYMMETRICALGENERALISEDPLANESTRESS, "AGPStress", false, true)
HT_DEF(AXISYMMETRICAL, "Axi", false, false)
HT_DEF(PLANESTRESS, "PlaneStress", true, true)
HT_DEF(PLANESTRAIN, "PlaneStrain", true, false)
HT_DEF(GENERALISEDPLANESTRAIN, "GPStrain", true, false)
HT_DEF(TRIDIMENSIONAL, "3D", false, false)

static const char* sa_name(SA s) { return s == SA::ALTERED ? "ALTERED" : "UNALTERED"; }
static const char* oc_name(OC c) { return c == OC::DEFAULT ? "DEFAULT" : (c == OC::PIPE ? "PIPE" : "PLATE"); }

// the reduction demanded by the property
static T4 reduce(const T4& c3d, int N, bool swap23, bool condense_zz) {
  static const int P[3] = {0, 2, 1};
  T4 t = swap23 ? mref::permute(c3d, P) : c3d;
  if (condense_zz) t = mref::condense(t, 2);
  return restrict_dim(t, N);
}

template <unsigned short N, typename T>
static void poison(tfm::st2tost2<N, T>& C) {
  for (unsigned short i = 0; i < ssize(N); ++i) for (unsigned short j = 0; j < ssize(N); ++j) C(i, j) = std::numeric_limits<T>::quiet_NaN();
}
// judge a library tensor against the reference; components left unset (still NaN) are
// reported under their own key and then excluded from the numeric comparison
template <unsigned short N, typename T, typename D>
static void judge(const char* api, const char* S, uint64_t idx, uint64_t h, tfm::st2tost2<N, T>& C, const T4& expect, L tol, D&& dump) {
  int unset = 0;
  for (unsigned short i = 0; i < ssize(N); ++i) for (unsigned short j = 0; j < ssize(N); ++j)
    if (std::isnan(C(i, j))) { ++unset; C(i, j) = static_cast<T>(st2tost2_comp(expect, i, j)); }
  char a2[160];
  std::snprintf(a2, sizeof a2, "%s/all-components-set", api);
  R.expect(a2, S, idx, h, unset == 0, dump, "an [out] tensor must be completely written");
  R.check(api, S, idx, h, t4dist(from_st2tost2(C, N), expect), tol, dump);
}

// ------------------------------------------------------------------------------------ isotropic
// the plane-stress moduli E/(1-nu^2), E nu/(1-nu^2) are only defined through 1-nu^2, whose
// evaluation from a rounded nu loses 1/(1+nu) digits at the auxetic edge: allowed for
template <typename T> static L ps_cond(T nu) { return 1 + 1 / (1 + L(nu)); }
static const char* ISO_STRATA[] = {"interior", "incompressible-edge", "auxetic-edge", "nu-near-0"};

template <MH::Hypothesis H, SA smt, typename T, typename D>
static void iso_hyp(const char* tname, const char* S, uint64_t idx, uint64_t h, T E, T nu, const T4& c3d, L tol, D&& dump) {
  constexpr unsigned short N = HT<H>::N;
  char api[160];
  std::snprintf(api, sizeof api, "computeIsotropicStiffnessTensor<%s,%s,%s>", HT<H>::name, sa_name(smt), tname);
  vf::set_case(api, S, idx);
  tfm::st2tost2<N, T> C; poison(C);
  tmat::computeIsotropicStiffnessTensor<H, smt>(C, E, nu);
  judge(api, S, idx, h, C, reduce(c3d, N, false, HT<H>::ps && smt == SA::ALTERED), (HT<H>::ps && smt == SA::ALTERED) ? tol * ps_cond(nu) : tol, dump);
}
template <unsigned short N, SA smt, typename T, typename D>
static void iso_II(const char* tname, const char* S, uint64_t idx, uint64_t h, T E, T nu, const T4& c3d, L tol, D&& dump) {
  char api[160];
  std::snprintf(api, sizeof api, "computeIsotropicStiffnessTensorII<%d,%s,%s>", int(N), sa_name(smt), tname);
  vf::set_case(api, S, idx);
  tfm::st2tost2<N, T> C; poison(C);
  tmat::computeIsotropicStiffnessTensorII<N, smt>(C, E, nu);
  // ALTERED means "plane stress" for N=1 (axisymmetrical generalised plane stress) and N=2
  judge(api, S, idx, h, C, reduce(c3d, N, false, N != 3 && smt == SA::ALTERED), (N != 3 && smt == SA::ALTERED) ? tol * ps_cond(nu) : tol, dump);
}
template <unsigned short N, typename T, typename D>
static void lame_unaltered(const char* tname, const char* S, uint64_t idx, uint64_t h, T la, T mu, const T4& c3d, L tol, D&& dump) {
  char api[160];
  std::snprintf(api, sizeof api, "computeElasticStiffness<%d,%s>", int(N), tname);
  vf::set_case(api, S, idx);
  tfm::st2tost2<N, T> C; poison(C);
  tmat::computeElasticStiffness<N, T>::exe(C, la, mu);
  judge(api, S, idx, h, C, reduce(c3d, N, false, false), tol, dump);
}
template <MH::Hypothesis H, typename T, typename D>
static void lame_altered(const char* tname, const char* S, uint64_t idx, uint64_t h, T la, T mu, const T4& c3d, L tol, D&& dump) {
  constexpr unsigned short N = HT<H>::N;
  char api[160];
  std::snprintf(api, sizeof api, "computeAlteredElasticStiffness<%s,%s>", HT<H>::name, tname);
  vf::set_case(api, S, idx);
  tfm::st2tost2<N, T> C; poison(C);
  tmat::computeAlteredElasticStiffness<H, T>::exe(C, la, mu);
  judge(api, S, idx, h, C, reduce(c3d, N, false, HT<H>::ps), tol, dump);
}

template <typename T>
static void iso_case(const vf::Args& a, uint64_t idx, const char* tname) {
  vf::Rng g(a.seed, 2101 + sizeof(T), idx);
  const int st = int((idx / 6) % 4);
  const char* S = ISO_STRATA[st];
  const L eps = Eps<T>::v;
  const int kmax = sizeof(T) == 4 ? 5 : (sizeof(T) == 8 ? 12 : 14);
  L nuL;
  switch (st) {
    case 0: nuL = g.uni(-0.95, 0.45); break;
    case 1: nuL = 0.5L - std::pow(10.0L, -g.uni(1, kmax)); break;
    case 2: nuL = -1.0L + std::pow(10.0L, -g.uni(1, kmax)); break;
    default: nuL = g.irange(0, 9) == 0 ? 0.0L : g.sign() * std::pow(10.0L, -g.uni(1, 15));
  }
  const T E = static_cast<T>(g.logmag(-3, 12));
  const T nu = static_cast<T>(nuL);
  char api[160];
  auto nm = [&](const char* f) { std::snprintf(api, sizeof api, "%s<%s>", f, tname); vf::set_case(api, S, idx); return api; };
  if (!(L(nu) > -1 && L(nu) < 0.5L && E > 0)) { R.skip(nm("YoungNuModuli::ToKG"), S); return; }
  const L El = E, nl = nu;
  const L Kr = El / (3 * (1 - 2 * nl)), Gr = El / (2 * (1 + nl)), lar = El * nl / ((1 + nl) * (1 - 2 * nl));
  const T Kt = static_cast<T>(Kr), Gt = static_cast<T>(Gr), lat = static_cast<T>(lar);
  T in[5] = {E, nu, Kt, Gt, lat};
  const uint64_t h = vf::hash_arr(in, 5);
  auto dump = [&] { vf::J j; j.s("T", tname).f("E", E).f("nu", nu).f("K", Kt).f("G", Gt).f("lambda", lat); return j.str(); };
  const L cnu = 1 / (1 + nl), cK = 1 / (1 - 2 * nl);
  // ---- conversions, each judged on its own (rounded) inputs
  {
    tmat::YoungNuModuli<T> m(E, nu);
    auto kg = m.ToKG();
    R.check(nm("YoungNuModuli::ToKG.kappa"), S, idx, h, std::fabs(L(kg.kappa) - Kr), KF * eps * Kr, dump);
    R.check(nm("YoungNuModuli::ToKG.mu"), S, idx, h, std::fabs(L(kg.mu) - Gr), KF * eps * Gr, dump);
    auto lm = m.ToLambdaMu();
    R.check(nm("YoungNuModuli::ToLambdaMu.lambda"), S, idx, h, std::fabs(L(lm.lambda) - lar), KF * eps * std::fabs(lar), dump);
    R.check(nm("YoungNuModuli::ToLambdaMu.mu"), S, idx, h, std::fabs(L(lm.mu) - Gr), KF * eps * Gr, dump);
    auto yn = m.ToYoungNu();
    R.expect(nm("YoungNuModuli::ToYoungNu"), S, idx, h, yn.young == E && yn.nu == nu, dump);
    R.check(nm("computeLambda"), S, idx, h, std::fabs(L(tmat::computeLambda<T>(E, nu)) - lar), KF * eps * std::fabs(lar), dump);
    R.check(nm("computeMu"), S, idx, h, std::fabs(L(tmat::computeMu<T>(E, nu)) - Gr), KF * eps * Gr, dump);
    // round trips
    auto y2 = kg.ToYoungNu();
    R.check(nm("roundtrip(E,nu)->KG->(E,nu).nu"), S, idx, h, std::fabs(L(y2.nu) - nl), KF * eps, dump);
    R.check(nm("roundtrip(E,nu)->KG->(E,nu).E"), S, idx, h, std::fabs(L(y2.young) - El), KF * eps * El * (1 + cnu), dump);
    auto y3 = lm.ToYoungNu();
    R.check(nm("roundtrip(E,nu)->LambdaMu->(E,nu).nu"), S, idx, h, std::fabs(L(y3.nu) - nl), KF * eps * 4, dump);
    R.check(nm("roundtrip(E,nu)->LambdaMu->(E,nu).E"), S, idx, h, std::fabs(L(y3.young) - El), KF * eps * El * (1 + 4 * cnu), dump);
    auto k3 = lm.ToKG();
    R.check(nm("roundtrip(E,nu)->LambdaMu->KG.kappa"), S, idx, h, std::fabs(L(k3.kappa) - Kr), KF * eps * (std::fabs(lar) + Gr + Kr), dump);
  }
  {  // from (K,G): reference recomputed from the rounded K,G
    const L K = Kt, G = Gt;
    const L nur = (3 * K - 2 * G) / (6 * K + 2 * G), Er = 9 * K * G / (3 * K + G), lr = K - 2 * G / 3;
    tmat::KGModuli<T> m(Kt, Gt);
    auto yn = m.ToYoungNu();
    R.check(nm("KGModuli::ToYoungNu.nu"), S, idx, h, std::fabs(L(yn.nu) - nur), KF * eps, dump);
    R.check(nm("KGModuli::ToYoungNu.young"), S, idx, h, std::fabs(L(yn.young) - Er), KF * eps * Er * (1 + 1 / (1 + nur)), dump);
    auto lm = m.ToLambdaMu();
    R.check(nm("KGModuli::ToLambdaMu.lambda"), S, idx, h, std::fabs(L(lm.lambda) - lr), KF * eps * (K + G), dump);
    R.expect(nm("KGModuli::ToLambdaMu.mu"), S, idx, h, lm.mu == Gt, dump);
    auto kg = m.ToKG();
    R.expect(nm("KGModuli::ToKG"), S, idx, h, kg.kappa == Kt && kg.mu == Gt, dump);
    // (K,G) -> (E,nu) -> (K,G): 1-2nu and 1+nu are recovered with absolute error eps
    const L c = 1 / (1 - 2 * nur) + 1 / (1 + nur);
    if (c * eps < 1e-3L) {
      auto k2 = yn.ToKG();
      R.check(nm("roundtrip(K,G)->(E,nu)->(K,G).kappa"), S, idx, h, std::fabs(L(k2.kappa) - K), KF * eps * K * (1 + c), dump);
      R.check(nm("roundtrip(K,G)->(E,nu)->(K,G).mu"), S, idx, h, std::fabs(L(k2.mu) - G), KF * eps * G * (1 + c), dump);
    } else R.skip(nm("roundtrip(K,G)->(E,nu)->(K,G).kappa"), S);
    auto k4 = lm.ToKG();
    R.check(nm("roundtrip(K,G)->LambdaMu->(K,G).kappa"), S, idx, h, std::fabs(L(k4.kappa) - K), KF * eps * (K + G), dump);
  }
  {  // from (lambda,mu)
    const L la = lat, mu = Gt;
    if (la + mu > 0 && 3 * la + 2 * mu > 0) {
      const L nur = la / (2 * (la + mu)), Er = mu * (3 * la + 2 * mu) / (la + mu), Kk = la + 2 * mu / 3;
      tmat::LambdaMuModuli<T> m(lat, Gt);
      auto yn = m.ToYoungNu();
      R.check(nm("LambdaMuModuli::ToYoungNu.nu"), S, idx, h, std::fabs(L(yn.nu) - nur), KF * eps * std::fabs(nur), dump);
      R.check(nm("LambdaMuModuli::ToYoungNu.young"), S, idx, h, std::fabs(L(yn.young) - Er), KF * eps * Er * (1 + 1 / (1 + nur)), dump);
      auto kg = m.ToKG();
      R.check(nm("LambdaMuModuli::ToKG.kappa"), S, idx, h, std::fabs(L(kg.kappa) - Kk), KF * eps * (std::fabs(la) + mu), dump);
      R.expect(nm("LambdaMuModuli::ToKG.mu"), S, idx, h, kg.mu == Gt, dump);
      auto lm = m.ToLambdaMu();
      R.expect(nm("LambdaMuModuli::ToLambdaMu"), S, idx, h, lm.lambda == lat && lm.mu == Gt, dump);
    } else R.skip(nm("LambdaMuModuli::ToYoungNu.nu"), S);
  }
  // ---- tensors
  const T4 c3d = mref::iso_t4(lar, Gr);
  const L scaleC = 3 * std::fabs(lar) + 2 * Gr + 3 * Kr;
  const L tolC = KF * eps * scaleC;
  {
    tmat::YoungNuModuli<T> m1(E, nu);
    auto C = tmat::computeIsotropicStiffnessTensor<T>(m1);
    R.check(nm("computeIsotropicStiffnessTensor(YoungNu)"), S, idx, h, t4dist(from_st2tost2(C, 3), c3d), tolC, dump);
    const T4 lib = from_st2tost2(C, 3);
    R.check(nm("computeIsotropicStiffnessTensor:major-symmetry"), S, idx, h, mref::major_asym(lib), KF * eps * scaleC, dump);
    {  // D:eps = lambda tr(eps) I + 2 mu eps
      tfm::stensor<3u, T> e;
      for (int k = 0; k < 6; ++k) e[k] = static_cast<T>(g.uni(-1, 1));
      const M3 Em = from_st(e, 3);
      const tfm::stensor<3u, T> s = C * e;
      M3 expect = scal(Em, 2 * Gr);
      for (int i = 0; i < 3; ++i) expect[i][i] += lar * trace(Em);
      R.check(nm("D:eps=lambda.tr(eps).I+2mu.eps"), S, idx, h, dist(from_st(s, 3), expect), KF * eps * scaleC * (norm(Em) + 1e-300L) * 3, dump);
    }
    {  // SPD (eigenvalues 3K and 2G): decided only when rounding cannot hide the small one
      const L cnd = std::max(3 * Kr, 2 * Gr) / std::min(3 * Kr, 2 * Gr);
      if (cnd * eps * 100 < 1) {
        static const int I6[6] = {0, 1, 2, 3, 4, 5};
        L mr; const bool ok = mref::cholesky(mref::to_m6(lib), I6, 6, mr);
        R.expect(nm("computeIsotropicStiffnessTensor:SPD(Cholesky)"), S, idx, h, ok, dump);
      } else R.skip(nm("computeIsotropicStiffnessTensor:SPD(Cholesky)"), S);
    }
    {  // computeKGModuli recovers the moduli (norm-wise: both come from contractions of C)
      auto kg = tmat::computeKGModuli<T>(C);
      R.check(nm("computeKGModuli(C).kappa"), S, idx, h, std::fabs(L(kg.kappa) - Kr), KF * eps * scaleC, dump);
      R.check(nm("computeKGModuli(C).mu"), S, idx, h, std::fabs(L(kg.mu) - Gr), KF * eps * scaleC, dump);
      const T tol_iso = sizeof(T) == 4 ? T(1e-4) : T(1e-6);
      R.expect(nm("isIsotropic(C)"), S, idx, h, tmat::isIsotropic<T>(C, tol_iso), dump, "tolerance 1e-6 (documentation example), 1e-4 in float");
    }
    tmat::KGModuli<T> m2(Kt, Gt);
    auto C2 = tmat::computeIsotropicStiffnessTensor<T>(m2);
    // reference from the rounded K,G
    R.check(nm("computeIsotropicStiffnessTensor(KG)"), S, idx, h, t4dist(from_st2tost2(C2, 3), mref::iso_t4(L(Kt) - 2 * L(Gt) / 3, L(Gt))),
            KF * eps * (3 * L(Kt) + 2 * L(Gt)), dump);
    tmat::LambdaMuModuli<T> m3(lat, Gt);
    auto C3 = tmat::computeIsotropicStiffnessTensor<T>(m3);
    R.check(nm("computeIsotropicStiffnessTensor(LambdaMu)"), S, idx, h, t4dist(from_st2tost2(C3, 3), mref::iso_t4(L(lat), L(Gt))),
            KF * eps * (3 * std::fabs(L(lat)) + 4 * L(Gt)), dump);
  }
  // ---- per hypothesis, ALTERED / UNALTERED.  In plane stress the condensation divides by
  // lambda+2mu (>0, no cancellation): same tolerance
#define ISO_H(h_) iso_hyp<MH::h_, SA::UNALTERED>(tname, S, idx, h, E, nu, c3d, tolC, dump); iso_hyp<MH::h_, SA::ALTERED>(tname, S, idx, h, E, nu, c3d, tolC, dump);
  ISO_H(AXISYMMETRICALGENERALISEDPLANESTRAIN) ISO_H(AXISYMMETRICALGENERALISEDPLANESTRESS) ISO_H(AXISYMMETRICAL)
  ISO_H(PLANESTRESS) ISO_H(PLANESTRAIN) ISO_H(GENERALISEDPLANESTRAIN) ISO_H(TRIDIMENSIONAL)
#undef ISO_H
  iso_II<1u, SA::UNALTERED>(tname, S, idx, h, E, nu, c3d, tolC, dump); iso_II<1u, SA::ALTERED>(tname, S, idx, h, E, nu, c3d, tolC, dump);
  iso_II<2u, SA::UNALTERED>(tname, S, idx, h, E, nu, c3d, tolC, dump); iso_II<2u, SA::ALTERED>(tname, S, idx, h, E, nu, c3d, tolC, dump);
  iso_II<3u, SA::UNALTERED>(tname, S, idx, h, E, nu, c3d, tolC, dump); iso_II<3u, SA::ALTERED>(tname, S, idx, h, E, nu, c3d, tolC, dump);
  {  // Lame.hxx: reference from the rounded (lambda, mu)
    const T4 cl = mref::iso_t4(L(lat), L(Gt));
    const L tl = KF * eps * (3 * std::fabs(L(lat)) + 4 * L(Gt));
    lame_unaltered<1u>(tname, S, idx, h, lat, Gt, cl, tl, dump);
    lame_unaltered<2u>(tname, S, idx, h, lat, Gt, cl, tl, dump);
    lame_unaltered<3u>(tname, S, idx, h, lat, Gt, cl, tl, dump);
    if (L(lat) + 2 * L(Gt) > 0) {
#define LAME_H(h_) lame_altered<MH::h_>(tname, S, idx, h, lat, Gt, cl, tl, dump);
      LAME_H(AXISYMMETRICALGENERALISEDPLANESTRAIN) LAME_H(AXISYMMETRICALGENERALISEDPLANESTRESS) LAME_H(AXISYMMETRICAL)
      LAME_H(PLANESTRESS) LAME_H(PLANESTRAIN) LAME_H(GENERALISEDPLANESTRAIN) LAME_H(TRIDIMENSIONAL)
#undef LAME_H
    }
  }
}

// ----------------------------------------------------------------------------------- orthotropic
static const char* ORTHO_STRATA[] = {"random", "near-isotropic", "strong-anisotropy", "badly-scaled"};

template <typename T> struct OrthoIn { T E1, E2, E3, n12, n23, n13, G12, G23, G13; };

template <MH::Hypothesis H, SA smt, OC c, typename T, typename D>
static void ortho_conv(const char* tname, const char* S, uint64_t idx, uint64_t h, const OrthoIn<T>& p, const T4& c3d, L tol, D&& dump) {
  constexpr unsigned short N = HT<H>::N;
  char api[192];
  std::snprintf(api, sizeof api, "computeOrthotropicStiffnessTensor<%s,%s,%s,%s>", HT<H>::name, sa_name(smt), oc_name(c), tname);
  vf::set_case(api, S, idx);
  tfm::st2tost2<N, T> C; poison(C);
  tmat::computeOrthotropicStiffnessTensor<H, smt, c>(C, p.E1, p.E2, p.E3, p.n12, p.n23, p.n13, p.G12, p.G23, p.G13);
  judge(api, S, idx, h, C, reduce(c3d, N, HT<H>::plane && c == OC::PIPE, HT<H>::ps && smt == SA::ALTERED), tol, dump);
}
template <MH::Hypothesis H, SA smt, typename T, typename D>
static void ortho_hyp(const char* tname, const char* S, uint64_t idx, uint64_t h, const OrthoIn<T>& p, const T4& c3d, L tol, D&& dump) {
  constexpr unsigned short N = HT<H>::N;
  char api[192];
  std::snprintf(api, sizeof api, "computeOrthotropicStiffnessTensor<%s,%s,%s>", HT<H>::name, sa_name(smt), tname);
  vf::set_case(api, S, idx);
  tfm::st2tost2<N, T> C; poison(C);
  tmat::computeOrthotropicStiffnessTensor<H, smt>(C, p.E1, p.E2, p.E3, p.n12, p.n23, p.n13, p.G12, p.G23, p.G13);
  judge(api, S, idx, h, C, reduce(c3d, N, false, HT<H>::ps && smt == SA::ALTERED), tol, dump);
  ortho_conv<H, smt, OC::DEFAULT>(tname, S, idx, h, p, c3d, tol, dump);
  ortho_conv<H, smt, OC::PIPE>(tname, S, idx, h, p, c3d, tol, dump);
#ifdef VF_C21_PLATE
  if constexpr (N != 1 && H != MH::AXISYMMETRICAL) ortho_conv<H, smt, OC::PLATE>(tname, S, idx, h, p, c3d, tol, dump);
#endif
}
template <unsigned short N, SA smt, typename T, typename D>
static void ortho_II(const char* tname, const char* S, uint64_t idx, uint64_t h, const OrthoIn<T>& p, const T4& c3d, L tol, D&& dump) {
  char api[192];
  std::snprintf(api, sizeof api, "computeOrthotropicStiffnessTensorII<%d,%s,%s>", int(N), sa_name(smt), tname);
  vf::set_case(api, S, idx);
  tfm::st2tost2<N, T> C; poison(C);
  tmat::computeOrthotropicStiffnessTensorII<N, smt>(C, p.E1, p.E2, p.E3, p.n12, p.n23, p.n13, p.G12, p.G23, p.G13);
  judge(api, S, idx, h, C, reduce(c3d, N, false, N != 3 && smt == SA::ALTERED), tol, dump);
}
template <MH::Hypothesis H, typename T, typename D>
static void altered_from_unaltered(const char* tname, const char* S, uint64_t idx, uint64_t h, const OrthoIn<T>& p, L eps, D&& dump) {
  constexpr unsigned short N = HT<H>::N;
  char api[192];
  std::snprintf(api, sizeof api, "ComputeAlteredStiffnessTensor<%s,%s>", HT<H>::name, tname);
  vf::set_case(api, S, idx);
  tfm::st2tost2<N, T> D0, Da; poison(Da);
  tmat::computeOrthotropicStiffnessTensor<H, SA::UNALTERED>(D0, p.E1, p.E2, p.E3, p.n12, p.n23, p.n13, p.G12, p.G23, p.G13);
  tmat::ComputeAlteredStiffnessTensor<H>::exe(Da, D0);
  const T4 d0 = from_st2tost2(D0, N);  // reference from the rounded unaltered tensor
  // only plane stress is altered by this class (AGPStress falls in the generic copy)
  const T4 expect = (H == MH::PLANESTRESS) ? restrict_dim(mref::condense(d0, 2), N) : d0;
  judge(api, S, idx, h, Da, expect, KF * eps * 4 * t4norm(d0), dump);
}

template <typename T>
static void ortho_case(const vf::Args& a, uint64_t idx, const char* tname) {
  vf::Rng g(a.seed, 2201 + sizeof(T), idx);
  const int st = int((idx / 6) % 4);
  const char* S = ORTHO_STRATA[st];
  const L eps = Eps<T>::v;
  char api[192];
  auto nm = [&](const char* f) { std::snprintf(api, sizeof api, "%s<%s>", f, tname); vf::set_case(api, S, idx); return api; };
  // float: the cofactor formulas form products of three compliances; keep them inside the float range
  const L scale = g.logmag(-3, sizeof(T) == 4 ? 8 : 12);
  L r1, r2, r3, rho_max, gspan;
  switch (st) {
    case 0: r1 = g.logmag(-0.5, 0.5); r2 = g.logmag(-0.5, 0.5); r3 = g.logmag(-0.5, 0.5); rho_max = 0.6; gspan = 1; break;
    case 1: r1 = 1 + g.uni(-1e-3, 1e-3); r2 = 1 + g.uni(-1e-3, 1e-3); r3 = 1 + g.uni(-1e-3, 1e-3); rho_max = 0.45; gspan = 0.01; break;
    case 2: r1 = g.logmag(-1, 1); r2 = g.logmag(-1, 1); r3 = g.logmag(-1, 1); rho_max = 0.9; gspan = 2; break;
    default: r1 = g.logmag(-2, 2); r2 = g.logmag(-2, 2); r3 = g.logmag(-2, 2); rho_max = 0.5; gspan = 3;
  }
  // admissible by construction: S_ij = -rho_ij sqrt(S_ii S_jj) with a positive definite
  // "correlation" matrix [[1,-a,-b],[-a,1,-c],[-b,-c,1]]
  L ra = 0, rb = 0, rc = 0; bool okrho = false;
  for (int t = 0; t < 50 && !okrho; ++t) {
    ra = g.uni(-rho_max, rho_max); rb = g.uni(-rho_max, rho_max); rc = g.uni(-rho_max, rho_max);
    okrho = (1 - ra * ra - rb * rb - rc * rc - 2 * ra * rb * rc) > 0.05L;
  }
  if (!okrho) { R.skip(nm("computeOrthotropicStiffnessTensor:admissible-constants"), S); return; }
  OrthoIn<T> p;
  p.E1 = static_cast<T>(scale * r1); p.E2 = static_cast<T>(scale * r2); p.E3 = static_cast<T>(scale * r3);
  p.n12 = static_cast<T>(ra * std::sqrt(r1 / r2)); p.n13 = static_cast<T>(rb * std::sqrt(r1 / r3)); p.n23 = static_cast<T>(rc * std::sqrt(r2 / r3));
  p.G12 = static_cast<T>(scale * g.logmag(-gspan, gspan)); p.G23 = static_cast<T>(scale * g.logmag(-gspan, gspan)); p.G13 = static_cast<T>(scale * g.logmag(-gspan, gspan));
  const uint64_t h = vf::hash_bytes(&p, sizeof p);
  auto dump = [&] {
    vf::J j; j.s("T", tname).f("E1", p.E1).f("E2", p.E2).f("E3", p.E3).f("nu12", p.n12).f("nu23", p.n23).f("nu13", p.n13).f("G12", p.G12).f("G23", p.G23).f("G13", p.G13);
    return j.str();
  };
  T4 c3d; L cond = 0;
  if (!mref::ortho_t4(c3d, cond, p.E1, p.E2, p.E3, p.n12, p.n23, p.n13, p.G12, p.G23, p.G13) || !(cond * eps < 1e-3L)) {
    R.skip(nm("computeOrthotropicStiffnessTensor:ill-conditioned-compliance"), S); return;
  }
  // still SPD after rounding of the constants?  (reference Cholesky on the exact tensor)
  static const int I6[6] = {0, 1, 2, 3, 4, 5};
  L mr0; if (!mref::cholesky(mref::to_m6(c3d), I6, 6, mr0)) { R.skip(nm("computeOrthotropicStiffnessTensor:admissible-constants"), S); return; }
  const L nC = t4norm(c3d);
  const L tol = KF * eps * cond * nC;
#define ORTHO_H(h_) ortho_hyp<MH::h_, SA::UNALTERED>(tname, S, idx, h, p, c3d, tol, dump); ortho_hyp<MH::h_, SA::ALTERED>(tname, S, idx, h, p, c3d, tol, dump); \
  altered_from_unaltered<MH::h_>(tname, S, idx, h, p, eps, dump);
  ORTHO_H(AXISYMMETRICALGENERALISEDPLANESTRAIN) ORTHO_H(AXISYMMETRICALGENERALISEDPLANESTRESS) ORTHO_H(AXISYMMETRICAL)
  ORTHO_H(PLANESTRESS) ORTHO_H(PLANESTRAIN) ORTHO_H(GENERALISEDPLANESTRAIN) ORTHO_H(TRIDIMENSIONAL)
#undef ORTHO_H
  ortho_II<1u, SA::UNALTERED>(tname, S, idx, h, p, c3d, tol, dump); ortho_II<1u, SA::ALTERED>(tname, S, idx, h, p, c3d, tol, dump);
  ortho_II<2u, SA::UNALTERED>(tname, S, idx, h, p, c3d, tol, dump); ortho_II<2u, SA::ALTERED>(tname, S, idx, h, p, c3d, tol, dump);
  ortho_II<3u, SA::UNALTERED>(tname, S, idx, h, p, c3d, tol, dump); ortho_II<3u, SA::ALTERED>(tname, S, idx, h, p, c3d, tol, dump);
  {  // the 3D tensor: symmetric, SPD, sigma = C:eps consistent with the compliance
    tfm::st2tost2<3u, T> C;
    tmat::computeOrthotropicStiffnessTensor<MH::TRIDIMENSIONAL, SA::UNALTERED>(C, p.E1, p.E2, p.E3, p.n12, p.n23, p.n13, p.G12, p.G23, p.G13);
    const T4 lib = from_st2tost2(C, 3);
    R.check(nm("computeOrthotropicStiffnessTensor<3D>:major-symmetry"), S, idx, h, mref::major_asym(lib), tol, dump);
    if (cond * eps * 100 < 1 && mr0 > 100 * cond * eps) {
      L mr; const bool ok = mref::cholesky(mref::to_m6(lib), I6, 6, mr);
      R.expect(nm("computeOrthotropicStiffnessTensor<3D>:SPD(Cholesky)"), S, idx, h, ok, dump);
    } else R.skip(nm("computeOrthotropicStiffnessTensor<3D>:SPD(Cholesky)"), S);
    // uniaxial stress along axis 1 of magnitude E1 gives strains (1, -nu12, -nu13): C:(1,-nu12,-nu13) = (E1,0,0)
    tfm::stensor<3u, T> e(T(0));
    e[0] = T(1); e[1] = -p.n12; e[2] = -p.n13;
    const tfm::stensor<3u, T> s = C * e;
    M3 expect = zero(); expect[0][0] = p.E1;
    R.check(nm("C:(1,-nu12,-nu13)=(E1,0,0)"), S, idx, h, dist(from_st(s, 3), expect), tol * 3, dump);
  }
}

int main(int argc, char** argv) {
  vf::Args a(argc, argv);
  for (long i = 0; i < a.cases; ++i) {
    const uint64_t idx = a.only >= 0 ? uint64_t(a.only) : a.gidx(i);
    const int kind = int(idx % 2), ty = int((idx / 2) % 3);
    if (kind == 0) {
      if (ty == 0) iso_case<double>(a, idx, "double"); else if (ty == 1) iso_case<float>(a, idx, "float"); else iso_case<long double>(a, idx, "ldouble");
    } else {
      if (ty == 0) ortho_case<double>(a, idx, "double"); else if (ty == 1) ortho_case<float>(a, idx, "float"); else ortho_case<long double>(a, idx, "ldouble");
    }
    if (a.only >= 0) break;
  }
  R.finish();
  return 0;
}
