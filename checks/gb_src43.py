"""gb_src43.py — harvest of brick configurations for C43 from the repository's test behaviours
(StandardElastoViscoPlasticity*/, StandardElasticity/, DDIF2/): text of each file with the
jacobian-comparison keywords injected, features for the pairwise-covering sample.  No numpy."""
import re
import shutil

import gbx
import vfcore

DIRS = ["mfront/tests/behaviours/StandardElastoViscoPlasticity", "mfront/tests/behaviours/StandardElasticity",
        "mfront/tests/behaviours/DDIF2"]
FEATURE_KEYS = ["stress_potential", "inelastic_flow", "criterion", "flow_criterion", "isotropic_hardening", "kinematic_hardening",
                "nucleation_model", "porosity_evolution", "stress_threshold", "elastic_properties"]
HYPS = "Tridimensional, PlaneStress, AxisymmetricalGeneralisedPlaneStress"


def inject(text, crit, pert):
    kw = ("\n@CompareToNumericalJacobian true;\n@JacobianComparisonCriterion %r;\n"
          "@PerturbationValueForNumericalJacobianComputation %r;\n" % (crit, pert))
    t, n = re.subn(r"(@Behaviour\s+\w+\s*;)", lambda m: m.group(1) + kw, text, count=1)
    if n != 1:
        return None
    # the comparison keywords may already be there
    if len(re.findall(r"@CompareToNumericalJacobian", t)) > 1:
        return None
    # all hypotheses -> three representative ones (3D + the two with an axial strain unknown)
    t = re.sub(r'@ModellingHypotheses\s*\{\s*"\.\+"\s*\}\s*;', "@ModellingHypotheses {%s};" % HYPS, t)
    return t


def features(text):
    """-> sorted list of 'key=value' strings read from the brick options (all occurrences)"""
    body = re.sub(r"//[^\n]*", "", text)
    out = set()
    m = re.search(r'@Brick\s+"?(\w+)"?', body)
    out.add("brick=" + (m.group(1) if m else "?"))
    for k in FEATURE_KEYS:
        for mm in re.finditer(r'\b%s\s*:\s*(?:"([^"]+)"|([A-Za-z_][\w-]*))' % k, body):
            out.add("%s=%s" % (k, (mm.group(1) or mm.group(2)).strip()))
    if re.search(r"@OrthotropicBehaviour", body):
        out.add("symmetry=orthotropic")
    if re.search(r"isotropic_hardening\s*:\s*\{", body) or len(re.findall(r"\bisotropic_hardening\s*:", body)) > 1:
        out.add("isotropic_hardening=sum")
    if len(re.findall(r"\bkinematic_hardening\s*:", body)) > 1 or re.search(r"kinematic_hardening\s*:\s*\{", body):
        out.add("kinematic_hardening=several")
    if len(re.findall(r"\binelastic_flow\s*:", body)) > 1:
        out.add("inelastic_flow=several")
    if re.search(r"@UseQt\s+true", body):
        out.add("useqt=true")
    if re.search(r"young_modulus\s*:\s*2\d\de3", body):
        out.add("units=MPa")
    return sorted(out)


def harvest():
    """-> list of dict(name, path, text, features) for every brick file with an analytical jacobian"""
    out = []
    for d in DIRS:
        for p in sorted((vfcore.REPO / d).glob("*.mfront")):
            t = p.read_text(errors="replace")
            if "@Brick" not in t or not re.search(r"@DSL\s+Implicit\w*\s*;", t):
                continue
            if re.search(r"@Algorithm\s+(?!NewtonRaphson\s*;)\w+", t):
                continue  # numerical jacobian / quasi-Newton variants: nothing analytical to compare
            if "@NumericallyComputedJacobianBlocks" in t:
                continue
            m = re.search(r"@Behaviour\s+(\w+)\s*;", t)
            if not m:
                continue
            out.append({"name": m.group(1), "path": str(p), "dir": str(p.parent), "text": t, "features": features(t)})
    return out


def pairwise_sample(cfgs, k, seed=0, forced=()):
    """greedy sample of k configurations maximising the number of covered feature pairs"""
    g = vfcore.rng(seed, "c43-sample")
    pool = list(cfgs)
    g.shuffle(pool)
    chosen, covered = [], set()

    def pairs(c):
        f = c["features"]
        return {(a, b) for i, a in enumerate(f) for b in f[i + 1:]} | {(a,) for a in f}
    for c in pool:
        if c["name"] in forced:
            chosen.append(c)
            covered |= pairs(c)
    while len(chosen) < k and len(chosen) < len(pool):
        best, gain = None, -1
        for c in pool:
            if c in chosen:
                continue
            new = pairs(c) - covered
            # new feature values first, new pairs of values next
            gn = 1000 * len([x for x in new if len(x) == 1]) + len(new)
            if gn > gain:
                best, gain = c, gn
        chosen.append(best)
        covered |= pairs(best)
    return chosen


def spec(cfg, crit, pert):
    t = inject(cfg["text"], crit, pert)
    if t is None:
        return None
    extra = ["--debug", "--search-path=" + cfg["dir"], "--search-path=" + str(vfcore.REPO / "mfront/tests/properties")]
    return {"slot": "c43-" + cfg["name"].lower(), "name": cfg["name"], "text": t, "fname": cfg["name"] + ".mfront",
            "key": cfg["name"], "extra": extra, "features": cfg["features"], "original": cfg["text"], "dir": cfg["dir"]}


# ---------------------------------------------------------------------------------------------
# Synthesised StandardElastoViscoPlasticity configurations (generated, not harvested): every stress
# criterion registered in the brick's factory x {associated, non associated with a deviatoric flow
# criterion, non associated with a non deviatoric one} x {Plastic, Norton, HyperbolicSine} x
# {no hardening, one isotropic rule, one kinematic rule}.  MPa everywhere (E = 150e3 MPa, yield
# stress 150 MPa); option values from the harvested files and docs/web (MohrCoulomb.md,
# StandardElastoViscoPlasticityBrick-PorousPlasticity.md).
ALIASES = {"Hill1948": "Hill", "Hill 1948": "Hill", "Drucker 1949": "Drucker1949", "Cazacu 2001": "Cazacu2001",
           "Isotropic Cazacu 2004": "IsotropicCazacu2004", "Orthotropic Cazacu 2004": "OrthotropicCazacu2004",
           "Hosford1972": "Hosford", "Hosford 1972": "Hosford", "Barlat2004": "Barlat", "Barlat 2004": "Barlat",
           "GTN": "GursonTvergaardNeedleman1982", "GTN 1982": "GursonTvergaardNeedleman1982",
           "RousselierTanguyBesson 2002": "RousselierTanguyBesson2002"}
A6 = "{0.586, 1.05, 0.823, 0.96, 1, 1}"
B11 = "{1.44, 0.061, -1.302, -0.281, -0.375, 1, 1, 1, 1, 0.445, 1}"
# canonical name -> (options, orthotropic?, porous?)
CRITERIA = {
    "Mises": ("", False, False),
    "Hosford": ("{a : 6}", False, False),
    "Drucker1949": ("{c : 1.285}", False, False),
    "IsotropicCazacu2004": ("{c : -1.056}", False, False),
    "MohrCoulomb": ("{c : 3.e1, phi : 0.523598775598299, lodeT : 0.506145483078356, a : 1e1}", False, False),
    "Hill": ("{F : 0.371, G : 0.629, H : 4.052, L : 1.5, M : 1.5, N : 1.5}", True, False),
    "Barlat": ("{a : 8, l1 : {-0.069888, 0.079143, 0.936408, 0.524741, 1.00306, 1.36318, 0.954322, 1.06906, 1.02377}, "
               "l2 : {0.981171, 0.575316, 0.476741, 1.14501, 0.866827, -0.079294, 1.40462, 1.1471, 1.05166}}", True, False),
    "Cazacu2001": ("{a : %s, b : %s, c : 1.285}" % (A6, B11), True, False),
    "OrthotropicCazacu2004": ("{a : %s, b : %s, c : 1.285}" % (A6, B11), True, False),
    "GursonTvergaardNeedleman1982": ("{f_c : 0.01, f_r : 0.10, q_1 : 2, q_2 : 1, q_3 : 4}", False, True),
    "RousselierTanguyBesson2002": ("{qR : 0.89, DR : 2.2}", False, True),
    "MichelAndSuquet1992HollowSphere": ("{n : 8}", False, True),
}
# flow criteria of the non associated variants: (kind, canonical name, options)
FLOW_CRITERIA = {
    "deviatoric": ("Mises", ""),
    "deviatoric-alt": ("Hosford", "{a : 8}"),          # used when the stress criterion is Mises itself
    "non-deviatoric": ("MohrCoulomb", "{c : 3.e1, phi : 0.174532925199433, lodeT : 0.506145483078356, a : 3e1}"),
    "non-deviatoric-alt": ("MohrCoulomb", "{c : 3.e1, phi : 0.35, lodeT : 0.506145483078356, a : 2e1}"),
}
FLOWS = {
    "Plastic": "",
    "Norton": "K : 100, n : 3.2",
    "HyperbolicSine": "K : 2e4",
}
HARDENINGS = ["none", "isotropic", "kinematic"]


def registered(kind):
    """names printed by `mfront --list-<kind>` of the current binary (None when the tool cannot be run)"""
    import subprocess
    try:
        r = vfcore.run([vfcore.tool("plain", "mfront"), "--list-" + kind], timeout=60, env={"LD_LIBRARY_PATH": vfcore.ld_path("plain")})
    except Exception:  # noqa
        return None
    if r.rc != 0:
        return None
    out = []
    for l in r.out.splitlines():
        m = re.match(r"^- (.*?)\s*(?:\x1b\[\d+m)?\((?:un)?documented\)", l) or re.match(r"^- (\S.*?)\s{2,}", l) or re.match(r"^- (\S.*\S)\s*$", l)
        if m:
            out.append(m.group(1).strip())
    return out


def canonical(name):
    return ALIASES.get(name, name)


def synth_text(name, crit, assoc, flow, hard):
    copt, ortho, porous = CRITERIA[crit]
    lines = ["criterion : \"%s\" %s" % (crit, copt)]
    if assoc != "associated":
        k = assoc + ("-alt" if FLOW_CRITERIA[assoc][0] == crit else "")
        fn, fo = FLOW_CRITERIA[k]
        lines.append("flow_criterion : \"%s\" %s" % (fn, fo))
    if flow == "Plastic":
        # a yield radius is mandatory; "no hardening" = perfect plasticity
        lines.append('isotropic_hardening : "Linear" {R0 : 150%s}' % (", H : 2e3" if hard == "isotropic" else ""))
    elif hard == "isotropic":
        lines.append('isotropic_hardening : "Linear" {R0 : 50, H : 2e3}')
    if hard == "kinematic":
        lines.append('kinematic_hardening : "Armstrong-Frederick" {C : 2.5e4, D : 100}')
    if FLOWS[flow]:
        lines.append(FLOWS[flow])
    body = ",\n    ".join(l.rstrip() for l in lines)
    t = "@DSL Implicit;\n@Behaviour %s;\n@Description {\n  /verif C43: synthesised brick configuration (%s, %s, %s flow, %s hardening).\n}\n" % (
        name, crit, assoc, flow, hard)
    t += "@ModellingHypotheses {@@HYPS@@};\n"
    if ortho:
        # (the Cazacu criteria only support the Plate convention, as in the repository's PlasticityTest14/15)
        t += "@OrthotropicBehaviour<%s>;\n" % ("Plate" if "Cazacu" in crit else "Pipe")
    t += "@Algorithm NewtonRaphson;\n@Epsilon 1.e-14;\n@Theta 1;\n\n"
    t += "@Brick StandardElastoViscoPlasticity {\n  stress_potential : \"Hooke\" {young_modulus : 150e3, poisson_ratio : 0.3},\n"
    t += "  inelastic_flow : \"%s\" {\n    %s\n  }\n};\n" % (flow, body)
    return t


def synthesize():
    """-> (list of configurations, list of registered criteria that have no parameter set here)"""
    reg = registered("stress-criteria")
    crits = list(CRITERIA)
    unknown = []
    if reg is not None:
        unknown = sorted({canonical(n) for n in reg} - set(CRITERIA))
    out = []
    for crit in crits:
        for assoc in ("associated", "deviatoric", "non-deviatoric"):
            for flow in FLOWS:
                for hard in HARDENINGS:
                    name = "VfB_%s_%s_%s_%s" % (crit, {"associated": "A", "deviatoric": "ND", "non-deviatoric": "NN"}[assoc], flow, hard[0].upper())
                    feats = ["brick=StandardElastoViscoPlasticity", "stress_potential=Hooke", "criterion=" + crit,
                             "associativity=" + assoc, "inelastic_flow=" + flow, "hardening=" + hard, "synthesised=yes"]
                    if CRITERIA[crit][1]:
                        feats.append("symmetry=orthotropic")
                    out.append({"name": name, "path": None, "dir": str(vfcore.REPO / "mfront/tests/behaviours"),
                                "text": synth_text(name, crit, assoc, flow, hard), "features": sorted(feats), "synth": True,
                                "crit": crit, "assoc": assoc, "flow": flow, "hard": hard})
    return out, unknown


SYNTH_HYPS = ["Tridimensional, PlaneStress", "Tridimensional"]


def synth_spec(cfg, crit, pert, hyps):
    t = cfg["text"].replace("@@HYPS@@", hyps)
    ti = inject(t, crit, pert)
    extra = ["--debug", "--search-path=" + cfg["dir"]]
    return {"slot": "c43s-" + cfg["name"].lower(), "name": cfg["name"], "text": ti, "fname": cfg["name"] + ".mfront",
            "key": cfg["name"], "extra": extra, "features": cfg["features"], "original": t, "dir": cfg["dir"], "synth": True,
            "hyps": hyps, "cfg": cfg}


def covering_sample(harvested, synth, seed=0, forced=()):
    """quick tier: a sample in which every stress criterion, every flow kind, every nucleation model, every kind of
    associativity and of hardening of the synthesised space appears at least once (greedy set cover on single feature
    values, synthesised configurations first, then the harvested ones for the values only they have)"""
    g = vfcore.rng(seed, "c43-cover")
    need = set()
    for c in synth:
        need |= {f for f in c["features"] if f.split("=")[0] in ("criterion", "associativity", "inelastic_flow", "hardening")}
    for c in harvested:
        need |= {f for f in c["features"] if f.split("=")[0] in ("nucleation_model", "inelastic_flow", "stress_potential", "brick")}
    chosen = [c for c in harvested if c["name"] in forced]
    covered = set()
    for c in chosen:
        covered |= set(c["features"])
    pool = list(synth) + list(harvested)
    g.shuffle(pool)
    # stable preference: synthesised first (they are the smaller files)
    pool.sort(key=lambda c: 0 if c.get("synth") else 1)
    while need - covered:
        best, gain = None, 0
        for c in pool:
            if c in chosen:
                continue
            gn = len((set(c["features"]) & need) - covered)
            if gn > gain:
                best, gain = c, gn
        if best is None:
            break
        chosen.append(best)
        covered |= set(best["features"])
    return chosen


def screen(ctx, cfgs, crit, pert):
    """run the generator alone (no compilation) on every synthesised configuration -> (specs accepted, rejected
    {name: first line of the message}, broken {name: log}: accepted without the comparison keywords but not with them)"""
    import gen
    import gbx
    root = ctx.work / "screen"

    def gen_ok(name, fname, text, extra):
        d = root / name
        shutil.rmtree(d, ignore_errors=True)
        d.mkdir(parents=True)
        (d / fname).write_text(text)
        r = gen.generate(d, [fname], ["generic"], extra=extra)
        shutil.rmtree(d, ignore_errors=True)
        return r.rc == 0, (r.out + r.err)

    def one(cfg):
        msg = ""
        for hyps in SYNTH_HYPS:
            s = synth_spec(cfg, crit, pert, hyps)
            ok, log = gen_ok(cfg["name"], s["fname"], s["text"], tuple(s["extra"]))
            if ok:
                return cfg, s, None, None
            if gbx.tool_could_not_start(log):
                return cfg, None, "tool", log
            msg = log
        # rejected with the comparison keywords: is the configuration itself refused?
        s = synth_spec(cfg, crit, pert, SYNTH_HYPS[-1])
        ok, log0 = gen_ok(cfg["name"], s["fname"], s["original"], tuple(s["extra"][1:]))
        if ok:
            return cfg, None, "broken", msg
        return cfg, None, "rejected", log0
    acc, rej, broken = [], {}, {}
    for cfg, s, why, log in vfcore.pmap(one, cfgs, workers=min(12, vfcore.NCPU)):
        if s is not None:
            acc.append(s)
        elif why == "tool":
            raise vfcore.HarnessFailure("mfront could not start (build tree being relinked?): %s" % log[-800:])
        elif why == "broken":
            broken[cfg["name"]] = log
        else:
            lines = [l.strip() for l in log.splitlines() if l.strip() and not l.startswith("Error while treating file")]
            rej[cfg["name"]] = (lines[-1] if lines else "?")[:200]
    return acc, rej, broken


NON_DEVIATORIC = ("MohrCoulomb", "GursonTvergaardNeedleman1982", "RousselierTanguyBesson2002", "MichelAndSuquet1992HollowSphere")
UNDRIVABLE = ("DDIF2", "SingleCrystal_DD_FCC")  # need material properties without default values (listed in the evidence)


def quick_sample(harvested, accepted, seed=0):
    """quick tier.  Synthesised space (accepted specs only): for every stress criterion one associated and one non
    associated configuration, flows and hardenings rotating so that each appears; criteria whose normal is not
    deviatoric get their non associated configuration with a deviatoric flow criterion and a viscoplastic flow (the
    combination where the 'deviatoric normal' shortcuts of the jacobian blocks matter).  Harvested files: the ones
    that bring what the synthesised space does not have (every nucleation model, the other flows and stress
    potentials, the StandardElasticity brick with an orthotropic stiffness in plane stress)."""
    g = vfcore.rng(seed, "c43-quick")
    by = {}
    for s in accepted:
        by.setdefault(s["cfg"]["crit"], []).append(s)
    flows, hards = list(FLOWS), list(HARDENINGS)
    out = []
    k = g.randrange(9)
    for crit in CRITERIA:
        ss = by.get(crit, [])

        def pick(assocs, flow_pref, hard_pref):
            for fl in flow_pref:
                for hd in hard_pref:
                    for a in assocs:
                        for s in ss:
                            c = s["cfg"]
                            if c["assoc"] == a and c["flow"] == fl and c["hard"] == hd and s not in out:
                                return s
            return None
        fr = [flows[(k + i) % 3] for i in range(3)]
        hr = [hards[(k // 3 + i) % 3] for i in range(3)]
        a = pick(["associated"], fr, hr)
        if crit in NON_DEVIATORIC:
            visco = [f for f in fr[::-1] if f != "Plastic"] + ["Plastic"]
            n = pick(["deviatoric", "non-deviatoric"], visco, hr[::-1])
        else:
            n = pick(["non-deviatoric", "deviatoric"] if k % 2 else ["deviatoric", "non-deviatoric"], fr[::-1], hr[::-1])
        out += [x for x in (a, n) if x is not None]
        k += 4
    names = ("Test5", "UserDefinedViscoplasticityTest3", "ChuNeedleman1980StrainBasedNucleationModelTest",
             "ChuNeedleman1980StressBasedNucleationModelTest", "PowerLawStrainBasedNucleationModelTest",
             "PowerLawStressBasedNucleationModelTest", "HarmonicSumOfNortonHoffViscoplasticFlowsTest", "IsotropicDamageHookeLaw",
             "PlasticityTest11_na")
    hv = [c for c in harvested if c["name"] in names]
    # any nucleation model / flow / stress potential not yet represented
    have = set()
    for c in hv:
        have |= set(c["features"])
    for s in out:
        have |= set(s["features"])
    for c in harvested:
        if c["name"].startswith(UNDRIVABLE):
            continue
        new = {f for f in c["features"] if f.split("=")[0] in ("nucleation_model", "inelastic_flow", "stress_potential")} - have
        if new:
            hv.append(c)
            have |= set(c["features"])
    return out, hv
