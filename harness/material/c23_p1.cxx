// C23 — conversion table, part 1 of 4 (see c23_common.hxx)
#include "c23_common.hxx"
namespace c23 { void fill_part1() { fill_table_part<1>(); } }
