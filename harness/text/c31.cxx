// C31 — CxxTokenizer: generated token streams with random layout (DESIGN.md §4.2)
//   --mode structure --class <name> : --cases streams of class <name>; events per (api, class/options)
//   --mode text                     : robustness; reads one input from --file, tokenizes it with every
//                                     option set, stripComments, walks the tokens; prints "DONE <n>"
//   --mode batch                    : robustness; --file holds one hex-encoded input per line
//   --mode fuzz                     : robustness; --corpus lists seed files; case idx mutates one of them (or draws
//                                     random bytes); prints "@@CASE i idx size" before each case; --from/--only/--dump
#define VFH_MAIN
#include "vfh.hxx"
#include <fstream>
#include <iostream>
#include "TFEL/Utilities/CxxTokenizer.hxx"

namespace tu = tfel::utilities;
using S = std::string;
static vf::Reporter R;

// ------------------------------------------------------------------ option sets used by the tools
struct OptSet { const char* name; bool charAsString, noDotPlusMinus, keepBounds; };
static const OptSet OPTS[] = {
    {"default", false, false, false},         // mfront DSLs
    {"charAsString", true, false, false},     // mtest, tfel-check, TextData
    {"config", false, true, false},           // mfront configuration files: . + - are not separators
    {"keepCommentBoundaries", false, false, true},
};
static tu::CxxTokenizerOptions mkopts(const OptSet& o) {
  tu::CxxTokenizerOptions r;
  r.charAsString = o.charAsString;
  if (o.noDotPlusMinus) { r.dotAsSeparator = false; r.plusAsSeparator = false; r.minusAsSeparator = false; }
  r.bKeepCommentBoundaries = o.keepBounds;
  return r;
}

// ------------------------------------------------------------------ generated items
enum Kind { IDENT, NUMBER, STRING, CHAR, OP, CCOMMENT, CXXCOMMENT, PREPROC_HASH, PREPROC_KEY };
struct Item {
  Kind kind;
  S text;            // source text
  S body;            // comments: text between the boundaries
  int dox = 0;       // comments: 0 plain, 1 doxygen (!), 2 backward doxygen (!<)
  const char* sub = "";  // sub-kind (number form ...)
  bool extract_int = false, extract_dbl = false;
  // filled by the printer
  size_t line = 0, offset = 0, body_line = 0, body_offset = 0;
};

struct Gen {
  vf::Rng& g;
  const S cls;
  const OptSet& o;
  explicit Gen(vf::Rng& r, const S& c, const OptSet& os) : g(r), cls(c), o(os) { if (c == "comments-hostile") hostile = 0.9; }
  bool is(const char* c) const { return cls == c; }
  S ident() {
    static const S a0 = "abcdefghijklmnopqrstuvwxyzABCDEFGHIJKLMNOPQRSTUVWXYZ_", a1 = a0 + "0123456789";
    static const char* const kw[] = {"if", "else", "for", "return", "const", "auto", "real", "stress", "Stensor", "std", "tfel", "math", "operator", "template", "R", "L", "u8"};
    if (g.u01() < 0.25) return kw[g.u64() % (sizeof kw / sizeof *kw)];
    S s(1, a0[g.u64() % a0.size()]);
    const int n = g.irange(0, 9);
    for (int i = 0; i < n; ++i) s += a1[g.u64() % a1.size()];
    return s;
  }
  S digits(int lo, int hi, bool nz_first = false) {
    S d; const int n = g.irange(lo, hi);
    for (int i = 0; i < n; ++i) d += char('0' + g.irange((i == 0 && nz_first) ? 1 : 0, 9));
    return d;
  }
  Item number() {
    Item it; it.kind = NUMBER;
    int form = g.irange(0, 5);
    if (is("hex")) form = 6;
    if (is("binary")) form = 7;
    if (is("float-suffix-exp")) form = 8;
    switch (form) {
      case 0: it.text = digits(1, 9, true); it.sub = "dec-int"; it.extract_int = true; break;
      case 1: {
        static const char* const suf[] = {"u", "U", "l", "L", "ul", "UL", "lu", "ll", "LL", "ull", "llu", "uLL"};
        it.text = digits(1, 9, true) + suf[g.u64() % 12]; it.sub = "int-suffix"; break;
      }
      case 2: { S d = "0"; int n = g.irange(0, 6); for (int i = 0; i < n; ++i) d += char('0' + g.irange(0, 7)); it.text = d; it.sub = "octal"; it.extract_int = (n == 0); break; }
      case 3: {
        const int f = g.irange(0, 2);
        it.text = f == 0 ? digits(1, 6) + "." + digits(1, 8) : (f == 1 ? digits(1, 6, true) + "." : "." + digits(1, 8));
        if (it.text[0] == '0' && it.text.size() > 1 && it.text[1] != '.') it.text = "1" + it.text;
        it.sub = "float"; it.extract_dbl = true; break;
      }
      case 4: {
        const int f = g.irange(0, 3);
        S m = f == 0 ? digits(1, 4, true) : (f == 1 ? digits(1, 3, true) + "." + digits(1, 6) : (f == 2 ? digits(1, 3, true) + "." : "." + digits(1, 6)));
        const int es = g.irange(0, 2);
        it.text = m + (g.coin() ? "e" : "E") + (es == 0 ? "" : (es == 1 ? "+" : "-")) + std::to_string(g.irange(0, 200));
        it.sub = "float-exp"; it.extract_dbl = true; break;
      }
      case 5: {
        S m = digits(1, 4, true) + "." + digits(1, 6);
        if (g.coin()) m += S(g.coin() ? "e" : "E") + "-" + std::to_string(g.irange(1, 20));
        static const char* const suf[] = {"f", "F", "l", "L"};
        it.text = m + suf[g.u64() % 4]; it.sub = "float-suffix"; break;
      }
      case 6: {
        static const S hx = "0123456789abcdefABCDEF";
        S d = "0x"; const int n = g.irange(1, 8);
        for (int i = 0; i < n; ++i) d += hx[g.u64() % hx.size()];
        it.text = d; it.sub = "hex"; break;
      }
      case 7: { S d = "0b"; const int n = g.irange(1, 12); for (int i = 0; i < n; ++i) d += char('0' + g.irange(0, 1)); it.text = d; it.sub = "binary"; break; }
      default: {  // 1e5f : a floating literal whose only float mark is a positive exponent
        it.text = digits(1, 3, true) + (g.coin() ? "e" : "E") + (g.coin() ? "+" : "") + std::to_string(g.irange(0, 30)) + (g.coin() ? "f" : "F");
        it.sub = "float-suffix-exp";
      }
    }
    return it;
  }
  S text_chars(int lo, int hi, const S& al) { S s; const int n = g.irange(lo, hi); for (int i = 0; i < n; ++i) s += al[g.u64() % al.size()]; return s; }
  Item string(char q) {
    static const S al = "abcXYZ019 _+-*/%=<>(){}[];:,.!?#&|^~@$`'";
    Item it; it.kind = (q == '"') ? STRING : CHAR;
    S s(1, q);
    const int n = g.irange(0, 12);
    for (int i = 0; i < n; ++i) {
      const double u = g.u01();
      if (u < 0.08) s += S("\\") + q;
      else if (u < 0.14) s += "\\\\";
      else if (u < 0.2) s += "\\n";
      else if (u < 0.25) s += (q == '"') ? "'" : "\"";
      else if (u < 0.3) s += "//";
      else if (u < 0.34) s += "/*";
      else { char c = al[g.u64() % al.size()]; if (c == q) c = 'q'; s += c; }
    }
    it.text = s + q;
    return it;
  }
  Item chr() {
    if (o.charAsString) return string('\'');
    Item it; it.kind = CHAR;
    static const S al = "abcXYZ019 _+-*/%=<>(){}[];:,.!?#&|^~@$`\"";
    static const char* const esc[] = {"\\n", "\\t", "\\0", "\\'", "\\\\", "\\\"", "\\r"};
    it.text = "'" + (g.u01() < 0.3 ? S(esc[g.u64() % 7]) : S(1, al[g.u64() % al.size()])) + "'";
    return it;
  }
  Item op() {
    static const char* const one[] = {"?", ";", "/", "!", "&", "*", "|", "{", "}", "[", "]", "(", ")", "%", "=", "^", ",", ":", "<", ">", ".", "+", "-"};
    static const char* const two[] = {"<<", "<=", ">>", ">=", "::", "++", "--", "->", "+=", "-=", "/=", "*=", "%=", "!=", "==", "&&", "||", "|=", ".*"};
    Item it; it.kind = OP;
    if (is("op-and-assign")) { it.text = "&="; return it; }
    if (is("op-xor-assign")) { it.text = "^="; return it; }
    if (is("op-arrow-star")) { it.text = "->*"; return it; }
    it.text = g.u01() < 0.6 ? one[g.u64() % 23] : two[g.u64() % 19];
    return it;
  }
  // hostile-but-valid comment bodies: runs of '*' (also right before the closing "*/"), '/', "/*" and "//" inside,
  // "*/" inside a // comment, empty bodies, a last line made of stars only.  A C body never holds "*/".
  S hostile_body(bool c_comment) {
    static const S al = "abcdefgXYZ0123 _+-=<>(){}[];:,.?#&|^~@$`'\"";
    static const char* const special[] = {"", "", "*", "**", "***", "*<", "/", "//", " * ", "* *", "/ *", "*\n**", "x\n*", "\n**", "****", "/*", "/*/", "* /"};
    S body;
    if (g.u01() < 0.3) {
      body = special[g.u64() % (sizeof special / sizeof *special)];
    } else {
      const int parts = g.irange(0, 6);
      for (int k = 0; k < parts; ++k) {
        const double u = g.u01();
        if (u < 0.3) body += text_chars(1, 6, al);
        else if (u < 0.5) body += S(size_t(g.irange(1, 7)), '*');
        else if (u < 0.6) body += "/";
        else if (u < 0.7) body += "/*";
        else if (u < 0.76) body += "//";
        else if (u < 0.82) body += "*/";          // removed below for a C comment
        else if (u < 0.9) body += " ";
        else body += c_comment ? S("\n") + text_chars(0, 2, " \t") : S(" ");
      }
    }
    if (c_comment) {
      const double u = g.u01();
      if (u < 0.35) body += S(size_t(g.irange(1, 7)), '*');                     // .. ***/
      else if (u < 0.45) body += "\n" + S(size_t(g.irange(1, 4)), '*');          // last line is only **/
      size_t q;
      while ((q = body.find("*/")) != S::npos) body.insert(q + 1, " ");
    } else {
      for (auto& c : body) if (c == '\n') c = ' ';
    }
    return body;
  }
  double hostile = 0.35;
  Item comment(bool can_be_cxx, bool allow_dox, bool allow_back) {
    static const S al = "abcdefgXYZ0123 _+-=<>(){}[];:,.?#&|^~@$`'\"";
    Item it;
    it.kind = (can_be_cxx && g.coin()) ? CXXCOMMENT : CCOMMENT;
    const double u = g.u01();
    it.dox = (allow_dox && u < 0.25) ? 1 : ((allow_back && u < 0.45 && u >= 0.25) ? 2 : 0);
    S body;
    if (g.u01() < hostile) {
      body = hostile_body(it.kind == CCOMMENT);
    } else {
      const int words = g.irange(0, 5);
      for (int w = 0; w < words; ++w) {
        if (w) body += (it.kind == CCOMMENT && g.u01() < 0.3) ? S("\n") + text_chars(0, 3, " \t") : S(" ");
        body += text_chars(1, 8, al);
      }
      if (g.coin()) body = " " + body;
      if (g.coin() && it.kind == CCOMMENT) body += " ";
    }
    // the body must not start with the characters that change the comment class
    if (!body.empty() && (body[0] == '!' || (it.dox == 1 && body[0] == '<'))) body[0] = 'x';
    it.body = body;
    const S mark = it.dox == 0 ? "" : (it.dox == 1 ? "!" : "!<");
    it.text = (it.kind == CCOMMENT ? "/*" : "//") + mark + body + (it.kind == CCOMMENT ? "*/" : "");
    return it;
  }
};

static bool bracket(const S& t) { return t.size() == 1 && S("()[]{};,").find(t[0]) != S::npos; }
// must a blank separate a from b so that C++ (and any C++-like lexer) sees two tokens ?
static bool need_space(const Item& a, const Item& b, const OptSet& o) {
  auto word = [](const Item& x) { return x.kind == IDENT || x.kind == NUMBER || x.kind == PREPROC_KEY; };
  auto quoted = [](const Item& x) { return x.kind == STRING || x.kind == CHAR; };
  auto comment = [](const Item& x) { return x.kind == CCOMMENT || x.kind == CXXCOMMENT; };
  auto op = [](const Item& x) { return x.kind == OP && !bracket(x.text); };   // an operator that may fuse
  if (a.kind == PREPROC_HASH) return false;
  if (word(a) && word(b)) return true;
  if ((word(a) && quoted(b)) || (quoted(a) && word(b))) return true;  // R"..", u8"..", 1'0, "a"b (user-defined literal)
  if (quoted(a) && quoted(b)) return true;                            // adjacent strings concatenate
  if (comment(a) || comment(b)) return op(a) || op(b);                // '/' + "/*", "*/" + '/' ...
  if (op(a) && op(b)) return true;                                    // "<" "<", "-" ">", "/" "/" ...
  if (op(a) && b.kind == NUMBER) return true;                         // ".5", "-1", "+1"
  if (a.kind == NUMBER && op(b)) return true;                         // "1." , "1e+", "0xE+1"
  if (o.noDotPlusMinus) {
    if (op(a) && a.text.find_first_of(".+-") != S::npos) return true;
    if (op(b) && b.text.find_first_of(".+-") != S::npos) return true;
  }
  return false;
}

struct Stream {
  S src;
  std::vector<Item> items;
};

static Stream make_stream(vf::Rng& g, const S& cls, const OptSet& o) {
  Gen G(g, cls, o);
  Stream st;
  const int n = g.irange(1, 24);
  size_t line = 1, col = 0;
  S& src = st.src;
  auto put = [&](const S& t) { for (char c : t) { src += c; if (c == '\n') { ++line; col = 0; } else ++col; } };
  auto blanks = [&](bool at_least_one, bool newline_allowed) {
    int k = at_least_one ? g.irange(1, 3) : (g.u01() < 0.5 ? 0 : g.irange(1, 3));
    for (int i = 0; i < k; ++i) {
      const double u = g.u01();
      if (newline_allowed && u < 0.25) put("\n"); else put(u < 0.85 ? " " : "\t");
    }
  };
  bool line_has_token = false;      // a token already stands on the current line
  bool in_preproc = false;          // the current line is a preprocessor line (no newline inside)
  bool non_comment_seen = false;
  const bool exotic_first_backward = (cls == "doxygen-backward-first");
  for (int i = 0; i < n; ++i) {
    Item it;
    const double u = g.u01();
    const size_t lnb = src.find_last_not_of(" \t");
    const bool fresh_line = (lnb == S::npos) || src[lnb] == '\n';
    if (cls == "preprocessor" && fresh_line && !in_preproc && u < 0.5) {
      static const char* const keys[] = {"define", "undef", "include", "line", "error", "if", "ifdef", "ifndef", "elif", "else", "endif", "pragma", "warning"};
      Item h; h.kind = PREPROC_HASH; h.text = "#"; h.line = line; h.offset = col; put("#"); st.items.push_back(h);
      if (g.coin()) put(g.coin() ? " " : "  ");
      Item k; k.kind = PREPROC_KEY; k.text = keys[g.u64() % 13]; k.line = line; k.offset = col; put(k.text); st.items.push_back(k);
      in_preproc = true; line_has_token = true; non_comment_seen = true;
      continue;
    }
    if (exotic_first_backward && i == 0) { it = G.comment(true, false, false); }
    else if (exotic_first_backward && i == 1) { it = G.comment(true, false, true); it.dox = 2; const S b = it.body; it.text = (it.kind == CCOMMENT ? "/*!<" : "//!<") + b + (it.kind == CCOMMENT ? "*/" : ""); }
    else if (u < 0.28) { it.kind = IDENT; it.text = G.ident(); }
    else if (u < 0.45) it = G.number();
    else if (u < 0.55) it = G.string('"');
    else if (u < 0.62) it = G.chr();
    else if (u < 0.85 || cls.rfind("op-", 0) == 0) it = G.op();
    else it = G.comment(!in_preproc || true, true, non_comment_seen);
    // the class of hostile comments: about half of the items are comments (several on one line, back to back)
    if (cls == "comments-hostile" && g.u01() < 0.45) it = G.comment(true, true, non_comment_seen);
    if ((cls == "hex" || cls == "binary" || cls == "float-suffix-exp") && i == 0) it = G.number();
    if (cls.rfind("op-", 0) == 0 && i == 1) it = G.op();
    const bool is_comment = it.kind == CCOMMENT || it.kind == CXXCOMMENT;
    if (in_preproc && it.kind == CCOMMENT && it.body.find('\n') != S::npos) { for (auto& c : it.body) if (c == '\n') c = ' '; it.text = S("/*") + (it.dox == 0 ? "" : (it.dox == 1 ? "!" : "!<")) + it.body + "*/"; }
    // layout before the token
    bool must = !st.items.empty() && need_space(st.items.back(), it, o);
    // a blank is also needed when the previous source character and the first one could fuse in ways
    // not captured above (previous item was a // comment: a newline is mandatory)
    if (!st.items.empty() && st.items.back().kind == CXXCOMMENT) { put("\n"); in_preproc = false; line_has_token = false; must = false; }
    const size_t l0 = line;
    blanks(must, !in_preproc);
    if (line != l0) { line_has_token = false; in_preproc = false; }
    it.line = line; it.offset = col;
    if (is_comment) {
      const size_t mark = 2 + (it.dox == 0 ? 0 : (it.dox == 1 ? 1 : 2));
      // position of the first non-blank character of the body (where the boundary-less token starts)
      size_t bl = line, bo = col + mark;
      for (char c : it.body) { if (c == ' ' || c == '\t') ++bo; else if (c == '\n') { ++bl; bo = 0; } else break; }
      it.body_line = bl; it.body_offset = bo;
    }
    put(it.text);
    line_has_token = true;
    if (!is_comment) non_comment_seen = true;
    st.items.push_back(it);
  }
  // trailing layout (a blank after a // comment would belong to the comment)
  if (g.coin()) put((g.coin() || st.items.back().kind == CXXCOMMENT) ? "\n" : " ");
  (void)line_has_token;
  return st;
}

static S squeeze(const S& s) { S r; for (char c : s) if (!std::isspace(static_cast<unsigned char>(c))) r += c; return r; }
static const char* flagname(int f) {
  static const char* const n[] = {"Standard", "Comment", "Number", "DoxygenComment", "DoxygenBackwardComment", "String", "Char", "Preprocessor"};
  return (f >= 0 && f < 8) ? n[f] : "?";
}
static S dump_tokens(const tu::CxxTokenizer& t) {
  S r;
  for (const auto& k : t) { r += "[" + k.value + "|" + flagname(k.flag) + "|" + std::to_string(k.line) + ":" + std::to_string(k.offset) + "]"; if (r.size() > 1500) { r += "..."; break; } }
  return r;
}

static void structure_case(const vf::Args& a, uint64_t idx, const S& cls) {
  const bool exotic = !(cls == "core" || cls == "preprocessor" || cls == "comments-hostile");
  const OptSet& o = OPTS[exotic ? 0 : idx % 4];   // the one-feature classes run with the default options only
  vf::Rng g(a.seed, 3101, idx);
  const Stream st = make_stream(g, cls, o);
  const uint64_t h = vf::hash_bytes(st.src.data(), st.src.size());
  const S stratum = cls + "/" + o.name;
  const char* ST = stratum.c_str();
  auto dump = [&](const S& got, const S& why) { return [&st, got, why] { return vf::J().s("source", st.src).s("tokens", got).s("why", why).str(); }; };
  // expected tokens
  struct Exp { S value; int flag; size_t line, offset; bool squeeze; const Item* it; };
  std::vector<Exp> exp;
  for (const auto& it : st.items) {
    Exp e{it.text, tu::Token::Standard, it.line, it.offset, false, &it};
    switch (it.kind) {
      case IDENT: case OP: break;
      case NUMBER: e.flag = tu::Token::Number; break;
      case STRING: e.flag = tu::Token::String; break;
      case CHAR: e.flag = o.charAsString ? tu::Token::String : tu::Token::Char; break;
      case PREPROC_HASH: case PREPROC_KEY: e.flag = tu::Token::Preprocessor; break;
      case CCOMMENT: case CXXCOMMENT:
        e.flag = exp.empty() ? tu::Token::Comment
                             : (it.dox == 0 ? tu::Token::Comment : (it.dox == 1 ? tu::Token::DoxygenComment : tu::Token::DoxygenBackwardComment));
        // without boundaries the token is positioned at the first non-blank character of the body when that
        // character stands on the first line of the comment; otherwise only the line is judged
        if (!o.keepBounds) { e.value = it.body; e.squeeze = true; e.offset = (it.body_line == it.line) ? it.body_offset : size_t(-1); }
        break;
    }
    exp.push_back(e);
  }
  tu::CxxTokenizer t(mkopts(o));
  vf::set_case("parseString", ST, idx);
  try {
    t.parseString(st.src);
  } catch (std::exception& e) {
    R.expect("tokens", ST, idx, h, false, dump("", S("exception: ") + e.what()), "exception on a well-formed stream");
    return;
  }
  // ---- values, order, flags
  S why; bool ok = true;
  if (t.size() != exp.size()) { ok = false; why = "token count " + std::to_string(t.size()) + " != " + std::to_string(exp.size()); }
  for (size_t i = 0; ok && i < exp.size(); ++i) {
    const auto& k = t[i];
    const bool same = exp[i].squeeze ? squeeze(k.value) == squeeze(exp[i].value) : k.value == exp[i].value;
    if (!same) { ok = false; why = "token " + std::to_string(i) + " value '" + k.value + "' != '" + exp[i].value + "'"; }
    else if (int(k.flag) != exp[i].flag) { ok = false; why = "token " + std::to_string(i) + " '" + k.value + "' flag " + flagname(k.flag) + " != " + flagname(exp[i].flag); }
  }
  R.expect("tokens", ST, idx, h, ok, dump(dump_tokens(t), why), "token values / order / flags");
  if (!ok) return;
  // ---- lines
  ok = true;
  for (size_t i = 0; ok && i < exp.size(); ++i)
    if (t[i].line != exp[i].line) { ok = false; why = "token " + std::to_string(i) + " '" + t[i].value + "' line " + std::to_string(t[i].line) + " != " + std::to_string(exp[i].line); }
  R.expect("lines", ST, idx, h, ok, dump(dump_tokens(t), why), "line numbers");
  // ---- offsets (column of the first character of the token in its line).  Tokens that follow, on the
  // same line, a comment opened on that line are a class of their own (api offsets-after-comment).
  {
    bool ok_plain = true, ok_cmt = true; S why_p, why_c; long np = 0, nc = 0;
    std::map<size_t, size_t> comment_opened_at;   // line -> offset of the first comment opened on it
    for (const auto& it : st.items)
      if ((it.kind == CCOMMENT || it.kind == CXXCOMMENT) && !comment_opened_at.count(it.line)) comment_opened_at[it.line] = it.offset;
    for (size_t i = 0; i < exp.size(); ++i) {
      const auto q = comment_opened_at.find(exp[i].line);
      const bool c = q != comment_opened_at.end() && exp[i].it->offset > q->second;
      const bool good = (exp[i].offset == size_t(-1)) || t[i].offset == exp[i].offset;
      const S w = "token " + std::to_string(i) + " '" + t[i].value + "' offset " + std::to_string(t[i].offset) + " != " + std::to_string(exp[i].offset);
      if (c) { ++nc; if (!good && ok_cmt) { ok_cmt = false; why_c = w; } }
      else { ++np; if (!good && ok_plain) { ok_plain = false; why_p = w; } }
    }
    if (np) R.expect("offsets", ST, idx, h, ok_plain, dump(dump_tokens(t), why_p), "offsets");
    if (nc) R.expect("offsets-after-comment", ST, idx, h, ok_cmt, dump(dump_tokens(t), why_c), "offsets of tokens following a comment opened on the same line");
  }
  // ---- number extraction
  for (size_t i = 0; i < exp.size(); ++i) {
    const Item& it = *exp[i].it;
    if (it.kind != NUMBER) continue;
    if (it.extract_dbl || it.extract_int) {
      auto p = t.begin() + long(i);
      double v = 0; bool thrown = false;
      try { v = tu::CxxTokenizer::readDouble(p, t.end()); } catch (std::exception&) { thrown = true; }
      const double ref = std::strtod(it.text.c_str(), nullptr);
      R.expect("readDouble", it.sub, idx, vf::hash_bytes(it.text.data(), it.text.size()), !thrown && v == ref && p == t.begin() + long(i) + 1,
               [&] { return vf::J().s("literal", it.text).d("got", v).d("expected", ref).i("thrown", thrown).str(); });
    }
    if (it.extract_int) {
      auto p = t.begin() + long(i);
      long v = 0; bool thrown = false;
      try { v = tu::CxxTokenizer::readInt(p, t.end()); } catch (std::exception&) { thrown = true; }
      const long ref = std::strtol(it.text.c_str(), nullptr, 10);
      R.expect("readInt", it.sub, idx, vf::hash_bytes(it.text.data(), it.text.size()), !thrown && v == ref,
               [&] { return vf::J().s("literal", it.text).i("got", v).i("expected", ref).i("thrown", thrown).str(); });
      auto q = t.begin() + long(i);
      unsigned long u = 0; thrown = false;
      try { u = tu::CxxTokenizer::readUnsignedInt(q, t.end()); } catch (std::exception&) { thrown = true; }
      R.expect("readUnsignedInt", it.sub, idx, vf::hash_bytes(it.text.data(), it.text.size()), !thrown && long(u) == ref,
               [&] { return vf::J().s("literal", it.text).i("got", long(u)).i("expected", ref).i("thrown", thrown).str(); });
    }
  }
  // ---- stripComments removes exactly the comment tokens
  {
    std::vector<tu::Token> before(t.begin(), t.end());
    vf::set_case("stripComments", ST, idx);
    t.stripComments();
    std::vector<const tu::Token*> keep;
    for (const auto& k : before) if (!tu::isComment(k) && k.flag != tu::Token::Comment && k.flag != tu::Token::DoxygenComment && k.flag != tu::Token::DoxygenBackwardComment) keep.push_back(&k);
    ok = keep.size() == t.size(); why = ok ? "" : "count " + std::to_string(t.size()) + " != " + std::to_string(keep.size());
    for (size_t i = 0; ok && i < keep.size(); ++i)
      if (t[i].value != keep[i]->value || t[i].flag != keep[i]->flag || t[i].line != keep[i]->line || t[i].offset != keep[i]->offset) { ok = false; why = "token " + std::to_string(i) + " changed"; }
    R.expect("stripComments", ST, idx, h, ok, dump(dump_tokens(t), why), "stripComments");
  }
}

// ------------------------------------------------------------------ robustness
static long robust_one(const S& data) {
  long n = 0;
  for (const auto& o : OPTS) {
    try {
      tu::CxxTokenizer t(mkopts(o));
      t.parseString(data);
      for (const auto& k : t) n += long(k.value.size()) + long(k.line) + long(k.offset);
      std::ostringstream os;
      if (!t.empty()) t.printFileTokens(os);
      t.stripComments();
      for (const auto& k : t) n += long(k.comment.size());
      auto p = t.begin();
      while (p != t.end()) {
        try { if (p->flag == tu::Token::Number) { n += long(tu::CxxTokenizer::readDouble(p, t.end()) != 0); continue; }
              if (p->flag == tu::Token::String) { n += long(tu::CxxTokenizer::readString(p, t.end()).size()); continue; } }
        catch (std::exception&) {}
        ++p;
      }
    } catch (std::exception&) { n += 1; }
  }
  // line by line with the comment / raw string state carried over, as mfront-doc and the editors' helpers do
  try {
    tu::CxxTokenizer t;
    bool c = false, r = false; S d;
    std::istringstream is(data); S l;
    while (std::getline(is, l)) {
      t.clear(); t.setCStyleCommentOpened(c);
      if (r) t.setRawStringDelimiter(d);
      t.parseString(l);
      c = t.isCStyleCommentOpened(); r = t.isRawStringOpened(); d = t.getCurrentRawStringDelimiter();
      n += long(t.size());
    }
  } catch (std::exception&) { n += 1; }
  return n;
}
static S unhex(const S& h) { S r; for (size_t i = 0; i + 1 < h.size(); i += 2) r += char(std::stoi(h.substr(i, 2), nullptr, 16)); return r; }

int main(int argc, char** argv) {
  vf::Args a(argc, argv);
  const S mode = a.get("--mode", "structure");
  if (mode == "structure") {
    const S cls = a.get("--class", "core");
    R.sample_cap = 1;
    for (long i = 0; i < a.cases; ++i) {
      const uint64_t idx = a.only >= 0 ? uint64_t(a.only) : a.gidx(i);
      structure_case(a, idx, cls);
      if (a.only >= 0) break;
    }
    R.finish();
    return 0;
  }
  if (mode == "text") {   // one input file; also exercises openFile
    const S f = a.get("--file");
    std::ifstream in(f, std::ios::binary);
    const S data{std::istreambuf_iterator<char>{in}, {}};
    vf::set_case("robust", "file", 0);
    long n = robust_one(data);
    try { tu::CxxTokenizer t(f); n += long(t.size()); } catch (std::exception&) {}
    std::printf("DONE %ld\n", n);
    return 0;
  }
  if (mode == "fuzz") {
    // corpus: file with one path per line; case idx mutates corpus[idx % n] (or draws random bytes)
    std::vector<S> corpus;
    {
      std::ifstream in(a.get("--corpus")); S l;
      while (std::getline(in, l)) {
        std::ifstream f(l, std::ios::binary);
        S d{std::istreambuf_iterator<char>{f}, {}};
        if (!d.empty() && d.size() <= 65536) corpus.push_back(d);
      }
    }
    if (corpus.empty()) { std::fprintf(stderr, "empty corpus\n"); return 3; }
    static const char* const DICT[] = {"/*", "*/", "//", "//!<", "/*!<", "/*!", "\"", "'", "R\"(", ")\"", "R\"x(", "\\", "#", "#define ", "#if", "0x", "0b", "1e", "1e+", ".", "..", "'\\", "\\\"", "@", "{", "}", "<", ">", "->", "->*", "::", "1'0", "\n", "\r\n", "\t", "<NUL>", "\xff", "\xc3", "\xe2\x88", "0x1p3", "1.e", "1..2", "u8\"", "L'", "%:"};
    const long from = std::atol(a.get("--from", "0").c_str());
    const S dumpf = a.get("--dump");
    long done = 0;
    for (long i = from; i < a.cases; ++i) {
      const uint64_t idx = a.only >= 0 ? uint64_t(a.only) : a.gidx(i);
      vf::Rng g(a.seed, 3102, idx);
      S d;
      const int kind = int(idx % 5);
      if (kind == 4) {   // random bytes, biased towards the characters the tokenizer branches on
        static const S hot = "/*\"'\\#<>:+-.=&|!%0123456789eExXbRuUlLfF_ \t\n(){}[];,?^~`@$";
        const int n = g.irange(0, g.coin() ? 64 : 2048);
        for (int k = 0; k < n; ++k) d += g.u01() < 0.7 ? hot[g.u64() % hot.size()] : char(g.u64() & 0xff);
      } else {
        d = corpus[(idx / 5) % corpus.size()];
        if (kind == 3 && d.size() > 400) { const size_t b0 = g.u64() % (d.size() - 200); d = d.substr(b0, 200 + g.u64() % 200); }
        const int nm = g.irange(1, kind == 0 ? 2 : 8);
        for (int m = 0; m < nm; ++m) {
          const size_t pos = d.empty() ? 0 : g.u64() % (d.size() + 1);
          switch (g.irange(0, 7)) {
            case 0: if (!d.empty()) d[pos % d.size()] = char(g.u64() & 0xff); break;
            case 1: if (!d.empty()) d[pos % d.size()] ^= char(1 << g.irange(0, 7)); break;
            case 2: if (!d.empty()) d.erase(pos % d.size(), 1 + g.u64() % 8); break;
            case 3: d.insert(pos, 1, char(g.u64() & 0xff)); break;
            case 4: case 5: { const char* w = DICT[g.u64() % (sizeof DICT / sizeof *DICT)]; S ws(w); if (ws == "<NUL>") ws = S(1, '\0'); d.insert(pos, ws); break; }
            case 6: if (!d.empty()) { const size_t b0 = g.u64() % d.size(); const S chunk = d.substr(b0, 1 + g.u64() % 64); d.insert(pos, chunk); } break;
            default: d = d.substr(0, pos); break;
          }
        }
        if (d.size() > 65536) d.resize(65536);
      }
      if (!dumpf.empty()) { std::ofstream o(dumpf, std::ios::binary); o.write(d.data(), std::streamsize(d.size())); }
      std::printf("@@CASE %ld %llu %zu\n", i, (unsigned long long)idx, d.size()); std::fflush(stdout);
      vf::set_case("robust", kind == 4 ? "random-bytes" : "mutated-file", idx);
      robust_one(d);
      ++done;
      if (a.only >= 0) break;
    }
    std::printf("DONE %ld\n", done);
    return 0;
  }
  if (mode == "batch") {  // many inputs, hex encoded, one per line; prints "OK <i>" after each
    std::ifstream in(a.get("--file"));
    S l; long i = 0;
    while (std::getline(in, l)) {
      vf::set_case("robust", "batch", uint64_t(i));
      const long n = robust_one(unhex(l));
      std::printf("OK %ld %ld\n", i, n); std::fflush(stdout);
      ++i;
    }
    std::printf("DONE %ld\n", i);
    return 0;
  }
  std::fprintf(stderr, "unknown mode\n");
  return 3;
}
