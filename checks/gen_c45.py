"""Worker-side functions of C45 (run through lib/worker.py)."""
import random

import gen
import mpgen


def _setpar(lib, entry, h, p, v):
    """what ExternalLibraryManager::setParameter(l, f, h, p, v) does: <f>_<h>_setParameter if it exists, else <f>_setParameter"""
    try:
        f = getattr(lib, "%s_%s_setParameter" % (entry, h))
    except AttributeError:
        f = getattr(lib, entry + "_setParameter")
    f.restype = gen.C.c_int
    f.argtypes = [gen.C.c_char_p, gen.C.c_double]
    return f(p.encode(), v)


def bhv_setpar(lib_a, lib_b, entry, hyps, nmp, nisv, nesv, pname, value, seed, n):
    """lib_a: default parameters, then setParameter(pname, value); lib_b: regenerated with that default.
    -> list of differing cases (same inputs, outputs compared)"""
    g = random.Random(seed)
    la, lb = gen.load(lib_a), gen.load(lib_b)
    out = {"n": 0, "diff": [], "rc_set": None, "effect": 0}
    for h in hyps:
        a = gen.Behaviour(la, entry, h, nmp=nmp, nisv=nisv[h], nesv=nesv)
        b = gen.Behaviour(lb, entry, h, nmp=nmp, nisv=nisv[h], nesv=nesv)
        cases = []
        for _ in range(n):
            g0 = [g.uniform(-1e-3, 1e-3) for _ in range(a.ngrad)]
            g1 = [x + g.uniform(-1e-4, 1e-4) for x in g0]
            mp = [150e9] + [g.uniform(0.1, 1.0) for _ in range(nmp - 1)]
            isv = [g.uniform(-1e-3, 1e-3) for _ in range(nisv[h])]
            esv = [293.15] + [g.uniform(0.1, 1.0) for _ in range(nesv - 1)]
            cases.append((g0, g1, mp, isv, esv))
        before = [a.integrate(4, 1.0, c[0], c[1], [0.0] * a.nthf, c[2], c[3], c[4], c[4]) for c in cases]
        out["rc_set"] = _setpar(la, entry, h, pname, value)
        for c, o0 in zip(cases, before):
            oa = a.integrate(4, 1.0, c[0], c[1], [0.0] * a.nthf, c[2], c[3], c[4], c[4])
            ob = b.integrate(4, 1.0, c[0], c[1], [0.0] * b.nthf, c[2], c[3], c[4], c[4])
            out["n"] += 1
            if oa["thf"] != o0["thf"]:
                out["effect"] += 1
            bad = oa["rc"] != ob["rc"]
            for x, y in zip(oa["thf"] + oa["K"][:a.ngrad * a.nthf], ob["thf"] + ob["K"][:a.ngrad * a.nthf]):
                if not (x == y or abs(x - y) <= 1e-13 * max(abs(x), abs(y))):
                    bad = True
            if bad and len(out["diff"]) < 3:
                out["diff"].append({"hyp": h, "rc": [oa["rc"], ob["rc"]], "thf_set": oa["thf"], "thf_regenerated": ob["thf"], "thf_default": o0["thf"]})
    return out


def mp_setpar(lib_a, lib_b, name, pname, value, points):
    la, lb = gen.MaterialProperty(lib_a, name), gen.MaterialProperty(lib_b, name)
    pts = [[mpgen.unf(v) for v in p] for p in points]
    before = [la(p)[0] for p in pts]
    rc = la.set_parameter(pname, value)
    out = {"n": 0, "diff": [], "rc_set": rc, "effect": 0}
    for p, v0 in zip(pts, before):
        va, vb = la(p), lb(p)
        out["n"] += 1
        if va[0] != v0:
            out["effect"] += 1
        x, y = va[0], vb[0]
        if not (x == y or (x != x and y != y) or abs(x - y) <= 1e-13 * max(abs(x), abs(y))) or va[1] != vb[1]:
            if len(out["diff"]) < 3:
                out["diff"].append({"args": p, "after_setParameter": repr(x), "regenerated": repr(y), "default": repr(v0)})
    return out
