"""mpgen — random MaterialLaw programs and the generate -> mfront -> g++ -> ctypes pipeline for them
(C37, C38, C45; DESIGN.md §4.4).

A *spec* is a plain dict (see random_spec) from which are derived
  * the .mfront text (mfront_text),
  * the value of the law, computed in Python with the C library's own functions through
    exprgen.evaluate on the same fully parenthesised tree (law_value),
  * the documented verdict of the bounds checks (see checks/c38.py).
One mfront run produces the sources of the three interfaces; each interface is compiled into its
own shared library (the `c` and `generic` entry points have the same C name, so they cannot share
one); the `c++` class gets a small extern "C" driver compiled with it.
The functions prefixed by w_ run in a worker process (lib/worker.py): a crash of generated code
is then an observed event.
"""
import ctypes as C
import math
import os
import re
import shutil
from pathlib import Path

import exprgen as X
import gen
import vfcore

U = 2.0 ** -53
F1_SAFE = ("exp", "expm1", "sqrt", "cbrt", "log", "log10", "log1p", "cosh", "sinh", "tanh", "asinh", "abs", "cos", "sin",
           "atan", "erf")
F2_SAFE = ("max", "min", "hypot", "atan2")
INPUT_NAMES = ["T", "p", "Bu", "f", "phi", "tau", "zeta", "x0", "x1", "x2", "sig_eq", "r_g", "Tm", "w"]
OUTPUT_NAMES = ["y", "E", "k", "alpha", "nu_", "Cp", "res2"]
BOXES = [(0.1, 10.0), (-5.0, 5.0), (250.0, 2500.0), (0.0, 1.0), (1e-3, 50.0), (-1.0, 1.0), (1.0, 1e4), (2.0, 3.0)]
GLOSSARY_IN = ["Temperature", "Porosity", "Pressure", "FissionDensity", "NeutronFluence", "GrainSize", "KelvinTemperature",
               "NeutronFlux", "IrradiationDamage", "MeanTemperature"]
GLOSSARY_OUT = ["YoungModulus", "ThermalConductivity", "PoissonRatio", "SpecificHeat", "ThermalExpansion", "ShearModulus",
                "MassDensity"]
SCALAR_TYPES = ["real", "real", "real", "temperature", "stress", "strain", "length", "massdensity", "thermalconductivity"]
LAYOUTS = ("single-line-function", "multi-line-function", "multi-line-function-closed-on-last-line")
IFACES = ("c", "c++", "generic")


# ---------------------------------------------------------------------------------------- numbers
def numtext(v, digits):
    """decimal text of v rounded to `digits` significant digits, and the double it denotes"""
    t = repr(float("%.*g" % (digits, v)))
    return t, float(t)


def outward(v, digits, up):
    """v rounded to `digits` significant digits, away from the interval (up: towards +inf)"""
    t, w = numtext(v, digits)
    k = 0
    while (w < v if up else w > v) and k < 40:
        k += 1
        step = abs(v) * 10.0 ** (-digits + 1) * k if v else 10.0 ** -digits
        t, w = numtext(v + step if up else v - step, digits)
    return t, w


def printed6(v):
    """the double a C++ stream writes with its default precision (6 significant digits)"""
    return float("%.6g" % v)


# ---------------------------------------------------------------------------------------- trees
def subst(t, m):
    """replace ('var', n) by m[n] (locals inlined, so that the oracle performs the operations of the
    generated code in the same order)"""
    if not isinstance(t, tuple):
        return t
    if t[0] == "var" and t[1] in m:
        return m[t[1]]
    return tuple(subst(c, m) for c in t)


def split_lines(rng, s, p=0.35):
    """break a fully parenthesised C++ expression after some binary operators"""
    out = []
    i = 0
    while i < len(s):
        if s[i] == ")" and i + 2 < len(s) and s[i + 1] in "+-*/" and s[i + 2] == "(" and rng.random() < p:
            out.append(s[i:i + 2] + "\n      ")
            i += 2
            continue
        out.append(s[i])
        i += 1
    return "".join(out)


# ---------------------------------------------------------------------------------------- specs
def _bounds(rng, lo, hi, digits, allow=("both", "lower", "upper")):
    """bounds containing [lo, hi] with a margin -> dict(kind, lo, hi, lo_text, hi_text)"""
    kind = rng.choice(allow)
    w = max(hi - lo, 1e-3 * max(abs(lo), abs(hi)), 1e-6)
    b = {"kind": kind}
    if kind in ("both", "lower"):
        b["lo_text"], b["lo"] = outward(lo - rng.uniform(0.05, 0.6) * w, digits, False)
    if kind in ("both", "upper"):
        b["hi_text"], b["hi"] = outward(hi + rng.uniform(0.05, 0.6) * w, digits, True)
    return b


def _pkinds(b):
    """sides a physical bound may have, given the standard bounds: mfront refuses a physical side without the
    standard one, and (unchanged tree, see findings/C37-two-sided-bounds-with-upper-only-physical-bounds.md) two-sided
    standard bounds with a non-positive lower value next to upper-only physical bounds; the latter combination has
    its own fixed witness in checks/c37.py and is kept out of the random programs"""
    if b is None:
        return ("both", "lower", "upper")
    if b["kind"] == "both":
        return ("both", "lower")
    return (b["kind"],)


def bounds_text(b):
    if b["kind"] == "both":
        return "[%s:%s]" % (b["lo_text"], b["hi_text"])
    if b["kind"] == "lower":
        return "[%s:*[" % b["lo_text"]
    return "]*:%s]" % b["hi_text"]


def outside(b, v):
    """-1 below, +1 above, 0 inside (bounds are inclusive); None for NaN"""
    if v != v:
        return None
    if "lo" in b and v < b["lo"]:
        return -1
    if "hi" in b and v > b["hi"]:
        return 1
    return 0


def random_spec(rng, idx, n_inputs=None, n_params=None, layout=None, digits="short", bounds_p=0.5, useqt=False,
                depth=None, typed=True, funcs1=F1_SAFE, funcs2=F2_SAFE, conditional=True):
    """A random material property.  digits: 'short' (every declared number has <= 5 significant digits, so that
    any printing precision >= 6 reproduces it) or 'long' (8..12 digits)."""
    nd = (lambda: rng.randint(2, 5)) if digits == "short" else (lambda: rng.randint(8, 12))
    n_in = rng.randint(0, 6) if n_inputs is None else n_inputs
    n_par = rng.randint(0, 4) if n_params is None else n_params
    names = rng.sample(INPUT_NAMES, n_in)
    gl_in = rng.sample(GLOSSARY_IN, len(GLOSSARY_IN))
    inputs = []
    for i, n in enumerate(names):
        lo, hi = rng.choice(BOXES)
        v = {"name": n, "type": "real" if (useqt or not typed) else rng.choice(SCALAR_TYPES), "box": (lo, hi), "ext": None}
        u = rng.random()
        if u < 0.35:
            v["ext"] = ("glossary", gl_in[i])
        elif u < 0.6:
            v["ext"] = ("entry", "In%d_%s" % (i, n))
        if rng.random() < bounds_p:
            v["bounds"] = _bounds(rng, lo, hi, nd())
        if rng.random() < bounds_p:
            blo = v["bounds"].get("lo", lo) if "bounds" in v else lo
            bhi = v["bounds"].get("hi", hi) if "bounds" in v else hi
            v["pbounds"] = _bounds(rng, blo, bhi, nd(), _pkinds(v.get("bounds")))
        inputs.append(v)
    params = []
    for i in range(n_par):
        mag = rng.choice((1, 1, 10, 0.1, 100, 1e-3, 1e3))
        t, val = numtext(rng.uniform(0.11, 9.9) * mag * rng.choice((1, 1, 1, -1)), nd())
        p = {"name": "%s%d" % (rng.choice(("a", "c", "Pm", "k_")), i), "text": t, "value": val, "ext": None,
             "type": "real" if (useqt or not typed) else rng.choice(SCALAR_TYPES),
             "decl": rng.choice(("=", "=", "setDefaultValue"))}
        if rng.random() < 0.3:
            p["ext"] = ("entry", "Par%d" % i)
        params.append(p)
    g = X.ExprGen(rng, {v["name"]: v["box"] for v in inputs}, parameters={p["name"]: p["value"] for p in params},
                  functions1=list(funcs1), functions2=list(funcs2), conditional=conditional, number_forms="float", max_abs=1e6)
    locs, inl = [], {}
    for i in range(rng.choice((0, 0, 1, 1, 2, 3))):
        t, iv = g.arith(rng.randint(2, 4))
        if not g.ok(iv):
            continue
        n = "t%d" % i
        locs.append((n, t))
        inl[n] = subst(t, inl)
        if iv[1] > iv[0]:
            g.vars[n] = iv
    tree, iv = g.tree(depth or rng.randint(2, 6))
    for n, _ in locs:                       # locals are not inputs: never sampled
        g.vars.pop(n, None)
    out = {"name": rng.choice(OUTPUT_NAMES), "type": "real" if (useqt or not typed) else rng.choice(SCALAR_TYPES),
           "declared": True, "ext": None, "iv": iv}
    if rng.random() < 0.15 and not useqt:
        out.update(name="res", declared=False, type="real")
    elif rng.random() < 0.4:
        out["ext"] = ("glossary", rng.choice(GLOSSARY_OUT))
    elif rng.random() < 0.3:
        out["ext"] = ("entry", "Out%d" % idx)
    # the default output `res` only exists once @Function is read: no bounds can be declared on it
    if out["declared"] and rng.random() < 0.6 * bounds_p:
        out["bounds"] = _bounds(rng, iv[0], iv[1], nd())
    if out["declared"] and rng.random() < 0.6 * bounds_p:
        blo = out["bounds"].get("lo", iv[0]) if "bounds" in out else iv[0]
        bhi = out["bounds"].get("hi", iv[1]) if "bounds" in out else iv[1]
        out["pbounds"] = _bounds(rng, blo, bhi, nd(), _pkinds(out.get("bounds")))
    spec = {"kind": "function", "idx": idx, "law": "VfLaw%d" % idx, "material": rng.choice(("", "", "VfMat", "UO2_%d" % (idx % 7))),
            "inputs": inputs, "output": out, "params": params, "locals": locs, "tree": tree, "full_tree": subst(tree, inl),
            "layout": layout or rng.choice(LAYOUTS + ("multi-line-function",)), "digits": digits, "useqt": useqt,
            "split": rng.random() < 0.3, "dsl": rng.choice(("@DSL MaterialProperty;", "@DSL MaterialLaw;", "@Parser MaterialLaw;")),
            "input_decl": rng.choice(("together", "separate")), "gen": g}
    return spec


def fname(spec):
    return (spec["material"] + "_" if spec["material"] else "") + spec["law"]


def features(spec):
    f = [spec["layout"]] if spec["kind"] == "function" else ["data:%s" % spec["data"]["interpolation"]]
    if "bounds" in spec["output"] or "pbounds" in spec["output"]:
        f.append("output-bounds")
    if not spec["inputs"]:
        f.append("no-input")
    if spec.get("useqt"):
        f.append("useqt")
    return "+".join(f)


def _ext(v):
    if v.get("ext"):
        return '%s.set%sName("%s");\n' % (v["name"], "Glossary" if v["ext"][0] == "glossary" else "Entry", v["ext"][1])
    return ""


def ext_name(v):
    return v["ext"][1] if v.get("ext") else v["name"]


def mfront_text(spec, rng=None, meta=None):
    o = [spec["dsl"] if "dsl" in spec else "@DSL MaterialProperty;"]
    if spec["material"]:
        o.append("@Material %s;" % spec["material"])
    o.append("@Law %s;" % spec["law"])
    for k in ("Author", "Date"):
        if meta and meta.get(k.lower()):
            o.append("@%s %s;" % (k, meta[k.lower()]))
    if meta and meta.get("description"):
        o.append("@Description{\n%s\n}" % meta["description"])
    if spec.get("useqt"):
        o.append("@UseQt true;")
    out = spec["output"]
    if out["declared"]:
        o.append("@Output %s %s;" % (out["type"], out["name"]))
    e = _ext(out)
    if e:
        o.append(e.strip())
    ins = spec["inputs"]
    if ins and spec.get("input_decl") == "together" and len({v["type"] for v in ins}) == 1:
        o.append("@Input %s %s;" % (ins[0]["type"], ", ".join(v["name"] for v in ins)))
        o += [_ext(v).strip() for v in ins if v.get("ext")]
    else:
        for v in ins:
            o.append("@Input %s %s;" % (v["type"], v["name"]))
            if v.get("ext"):
                o.append(_ext(v).strip())
    for p in spec["params"]:
        d = p.get("decl", "=")
        if d == "=":
            o.append("@Parameter %s %s = %s;" % (p["type"], p["name"], p["text"]))
        elif d == "{}":
            o.append("@Parameter %s %s{%s};" % (p["type"], p["name"], p["text"]))
        elif d == "()":
            o.append("@Parameter %s %s(%s);" % (p["type"], p["name"], p["text"]))
        else:
            o.append("@Parameter %s %s;\n%s.setDefaultValue(%s);" % (p["type"], p["name"], p["name"], p["text"]))
        if p.get("ext"):
            o.append(_ext(p).strip())
    for v in ins + [out]:
        if "pbounds" in v:
            o.append("@PhysicalBounds %s in %s;" % (v["name"], bounds_text(v["pbounds"])))
        if "bounds" in v:
            o.append("@Bounds %s in %s;" % (v["name"], bounds_text(v["bounds"])))
    if spec["kind"] == "data":
        o.append(data_block(spec))
        return "\n".join(o) + "\n"
    st = []
    for n, t in spec["locals"]:
        st.append("const real %s = %s;" % (n, X.to_cxx(t)))
    ex = X.to_cxx(spec["tree"])
    if spec.get("split") and spec["layout"] != "single-line-function" and rng is not None:
        ex = split_lines(rng, ex)
    st.append("%s = %s;" % (out["name"], ex))
    lay = spec["layout"]
    if lay == "single-line-function":
        o.append("@Function { %s }" % " ".join(st))
    elif lay == "multi-line-function":
        o.append("@Function\n{\n  " + "\n  ".join(st) + "\n}")
    else:
        o.append("@Function {\n  " + "\n  ".join(st) + " }")
    return "\n".join(o) + "\n"


def law_value(spec, args, pvals=None):
    """-> (value, absolute rounding-error bound, decision margin) or None when the law is not evaluable there"""
    if spec["kind"] == "data":
        return data_value(spec, args), 0.0, float("inf")
    env = {v["name"]: a for v, a in zip(spec["inputs"], args)}
    for p in spec["params"]:
        env[p["name"]] = p["value"]
    if pvals:
        env.update(pvals)
    try:
        v, e, d = X.evaluate(spec["full_tree"], env, None)
    except X.DomainError:
        return None
    return v, e * U, d


def points(spec, rng, n):
    if spec["kind"] == "data":
        return data_points(spec, rng, n)
    g = spec["gen"]
    g.rng = rng
    out = []
    for _ in range(n):
        env = g.point()
        out.append([env[v["name"]] for v in spec["inputs"]])
    return out


# ---------------------------------------------------------------------------------------- @Data tables
# every documented spelling of the options of @Data (docs/mfront/MaterialLaw/Data.md, SingleVariableInterpolatedData::extract);
# None = option absent (defaults: linear interpolation, extrapolation)
DATA_INTERPOLATIONS = ("linear", "cubic_spline", None)
DATA_EXTRAPOLATIONS = (True, False, "bound_to_last_value", "constant", None)
DATA_COMBINATIONS = tuple((i, e) for i in DATA_INTERPOLATIONS for e in DATA_EXTRAPOLATIONS)


def random_data_spec(rng, idx, digits="short", interp="random", extra="random", has_in=None, nodes=None):
    """interp / extra: a member of DATA_INTERPOLATIONS / DATA_EXTRAPOLATIONS, or "random";
    has_in / nodes: force a table with an input / its number of nodes"""
    nd = (lambda: rng.randint(2, 5)) if digits == "short" else (lambda: rng.randint(8, 12))
    if has_in is None:
        has_in = rng.random() < 0.85
    n = (nodes or rng.choice((1, 2, 2, 3, 4, 5, 8))) if has_in else 1
    lo, hi = rng.choice(((250.0, 2500.0), (0.0, 1.0), (-10.0, 10.0), (1e-2, 1e2)))
    # abscissae on distinct cells of a 40-cell grid: the spacing stays >= 1 % of the range (well-conditioned spline)
    cells = sorted(rng.sample(range(40), n))
    xs = []
    for c in cells:
        t, v = numtext(lo + (c + rng.uniform(0.3, 0.7)) * (hi - lo) / 40, max(nd(), 4))
        if not xs or v > float(xs[-1]) + 0.01 * (hi - lo):
            xs.append(t)
    if not xs:
        xs = [numtext(0.5 * (lo + hi), 4)[0]]
    mag = rng.choice((1.0, 1e-3, 1e9, 50.0))
    ys = [numtext(rng.uniform(-1, 2) * mag, nd())[0] for _ in xs]
    ri, re_ = rng.choice(DATA_INTERPOLATIONS), rng.choice(DATA_EXTRAPOLATIONS)      # always drawn: the stream does not depend on the arguments
    interp = ri if interp == "random" else interp
    extra = re_ if extra == "random" else extra
    name = rng.choice(INPUT_NAMES)
    spec = {"kind": "data", "idx": idx, "law": "VfTab%d" % idx, "material": rng.choice(("", "VfMat")),
            "inputs": [{"name": name, "type": "real", "box": (lo, hi), "ext": rng.choice((None, ("glossary", "Temperature")))}] if has_in else [],
            "output": {"name": rng.choice(OUTPUT_NAMES), "type": "real", "declared": True, "ext": None},
            "params": [], "locals": [], "layout": "data", "digits": digits, "useqt": False,
            "data": {"x": xs, "y": ys, "interpolation": interp or "linear", "interp_decl": interp, "extrapolation": extra,
                     "extrapolate": extra in (True, None)}}
    if rng.random() < 0.2:
        spec["output"].update(name="res", declared=False)
    return spec


def data_block(spec):
    d = spec["data"]
    if not spec["inputs"]:
        return "@Data {\n  value: %s\n}" % d["y"][0]
    o = ["  values: {%s}" % ", ".join("%s : %s" % xy for xy in zip(d["x"], d["y"]))]
    if d["interp_decl"]:
        o.append('  interpolation: "%s"' % d["interp_decl"])
    e = d["extrapolation"]
    if e is not None:
        o.append("  extrapolation: %s" % ("true" if e is True else "false" if e is False else '"%s"' % e))
    return "@Data {\n" + ",\n".join(o) + "\n}"


def _natural_spline_second_derivatives(x, y):
    """textbook natural cubic spline: second derivatives M_i (M_0 = M_n = 0), Thomas algorithm"""
    n = len(x)
    if n < 3:
        return [0.0] * n
    a, b, c, r = [0.0] * n, [1.0] * n, [0.0] * n, [0.0] * n
    for i in range(1, n - 1):
        h0, h1 = x[i] - x[i - 1], x[i + 1] - x[i]
        a[i], b[i], c[i] = h0 / 6, (h0 + h1) / 3, h1 / 6
        r[i] = (y[i + 1] - y[i]) / h1 - (y[i] - y[i - 1]) / h0
    for i in range(1, n):
        m = a[i] / b[i - 1]
        b[i] -= m * c[i - 1]
        r[i] -= m * r[i - 1]
    M = [0.0] * n
    M[-1] = r[-1] / b[-1]
    for i in range(n - 2, -1, -1):
        M[i] = (r[i] - c[i] * M[i + 1]) / b[i]
    return M


def data_value(spec, args):
    d = spec["data"]
    x = [float(v) for v in d["x"]]
    y = [float(v) for v in d["y"]]
    if not spec["inputs"] or len(x) == 1:
        return y[0]
    a = args[0]
    n = len(x)
    if d["interpolation"] == "linear":
        if a <= x[0]:
            return y[0] + (y[1] - y[0]) / (x[1] - x[0]) * (a - x[0]) if d["extrapolate"] else y[0]
        if a >= x[-1]:
            return y[-2] + (y[-1] - y[-2]) / (x[-1] - x[-2]) * (a - x[-2]) if d["extrapolate"] else y[-1]
        i = max(k for k in range(n - 1) if x[k] <= a)
        return y[i] + (y[i + 1] - y[i]) / (x[i + 1] - x[i]) * (a - x[i])
    M = _natural_spline_second_derivatives(x, y)
    if a <= x[0]:
        if not d["extrapolate"]:
            return y[0]
        h = x[1] - x[0]
        return y[0] + ((y[1] - y[0]) / h - h * (2 * M[0] + M[1]) / 6) * (a - x[0])
    if a >= x[-1]:
        if not d["extrapolate"]:
            return y[-1]
        h = x[-1] - x[-2]
        return y[-1] + ((y[-1] - y[-2]) / h + h * (M[-2] + 2 * M[-1]) / 6) * (a - x[-1])
    i = max(k for k in range(n - 1) if x[k] <= a)
    h = x[i + 1] - x[i]
    A, B = (x[i + 1] - a) / h, (a - x[i]) / h
    return A * y[i] + B * y[i + 1] + ((A ** 3 - A) * M[i] + (B ** 3 - B) * M[i + 1]) * h * h / 6


def data_scale(spec):
    ys = [abs(float(v)) for v in spec["data"]["y"]]
    return max(ys + [1e-300])


def data_points(spec, rng, n):
    """the nodes, one ulp around each node, points strictly outside the table on both sides (near: 1e-6, 1 %, 30 % of the
    width; far: 2 and 50 widths) -- always kept --, then random points in and around the table"""
    if not spec["inputs"]:
        return [[] for _ in range(min(n, 3))]
    x = [float(v) for v in spec["data"]["x"]]
    w = (x[-1] - x[0]) or max(1.0, abs(x[0]))
    out = [[x[0] - f * w] for f in (1e-6, 0.01, 0.3, 2.0, 50.0)] + [[x[-1] + f * w] for f in (1e-6, 0.01, 0.3, 2.0, 50.0)]
    pts = out + [[v] for v in x] + [[math.nextafter(v, s)] for v in x for s in (-math.inf, math.inf)]
    while len(pts) < n:
        pts.append([rng.uniform(x[0] - 0.5 * w, x[-1] + 0.5 * w)])
    return pts


# ---------------------------------------------------------------------------------------- pipeline
def shim():
    return vfcore.compile_c("vfshim", [vfcore.VERIF / "harness/gen/vfshim.c"], shared=True)


def cxx_driver(spec):
    n = fname(spec)
    nin = len(spec["inputs"])
    call = ", ".join("a[%d]" % i for i in range(nin))
    sets = "".join("    f.set%s(pv[%d]);\n" % (p["name"], i) for i, p in enumerate(spec["params"]))
    gets = "".join("    pv[%d] = f.get%s()%s;\n" % (i, p["name"], ".getValue()" if spec.get("useqt") else "") for i, p in enumerate(spec["params"]))
    has_b = any(("bounds" in v) or ("pbounds" in v) for v in spec["inputs"])
    cb = ""
    if has_b:
        cb = ('VFX int vf_cxx_checkBounds(const double* a, char* msg){\n  (void)a;\n  try{ mfront::%s::checkBounds(%s); }\n'
              '  catch(std::exception& e){ std::strncpy(msg, e.what(), 511); msg[511] = 0; return 1; }\n  catch(...){ return 2; }\n  return 0;\n}\n'
              % (n, call))
    return ('#include <cerrno>\n#include <cmath>\n#include <cstring>\n#include <exception>\n#include "%s-cxx.hxx"\n'
            '#define VFX extern "C" __attribute__((visibility("default")))\n'
            '/* call the class call operator: status 0 value returned, 1 std::exception, 2 other exception */\n'
            'VFX double vf_cxx_call(const double* a, const double* pv, int set, int* status, char* msg, int e0, int* e1){\n'
            '  (void)a; (void)pv;\n  *status = 0;\n  try{\n    mfront::%s f;\n    if(set){\n%s    }\n    errno = e0;\n'
            '    const double r = f(%s);\n    *e1 = errno;\n    return r;\n  } catch(std::exception& e){\n    *e1 = errno; *status = 1;\n'
            '    std::strncpy(msg, e.what(), 511); msg[511] = 0;\n  } catch(...){ *e1 = errno; *status = 2; }\n  return std::nan("");\n}\n'
            'VFX void vf_cxx_defaults(double* pv){\n  (void)pv;\n  mfront::%s f;\n%s}\n%s' % (n, n, sets, call, n, gets, cb))


SRC_OF = {"c": "%s.cxx", "c++": "%s-cxx.cxx", "generic": "%s-generic.cxx"}


def compile_one(cwd, sources, out, flags=("-O1",), timeout=600):
    """sources -> one shared library linked like vfcore.compile_generated does.  -> (path or None, log)"""
    cwd = Path(cwd)
    cmd = ["g++", "-std=c++20", "-fPIC", "-shared", "-DNDEBUG", "-DTFEL_NO_RUNTIME_CHECK_BOUNDS", "-fvisibility=hidden",
           "-fvisibility-inlines-hidden"] + list(flags) + ["-I" + str(cwd / "include")] + vfcore.include_flags("plain")
    cmd += ["-o", str(out)] + [str(s) for s in sources]
    cmd += vfcore.link_flags("plain", ["TFELMaterial", "TFELMath", "TFELUtilities", "TFELException"])
    r = vfcore.run(cmd, timeout=timeout, cwd=cwd)
    if r.rc != 0 or not Path(out).exists():
        return None, (r.err + r.out) or ("g++ exited %s" % r.rc)
    return Path(out), r.err


LIBTAG = {"c": "c", "c++": "cxx", "generic": "generic"}


def generate_spec(cwd, spec, text, interfaces=IFACES):
    """write text, run mfront once for all interfaces -> vfcore.Result"""
    cwd = Path(cwd)
    shutil.rmtree(cwd, ignore_errors=True)
    cwd.mkdir(parents=True)
    fn = fname(spec) + ".mfront"
    (cwd / fn).write_text(text)
    return gen.generate(cwd, [fn], list(interfaces))


def compile_iface(cwd, spec, i, flags=("-O1",), mutate=None):
    """compile the source mfront wrote for interface i into its own library
    -> {"lib": path or None, "stage": "ok"|"compile"|"no-source", "log": str}
    mutate(iface, source_text) -> source_text : hook used by the sensitivity experiments only."""
    cwd = Path(cwd)
    n = fname(spec)
    src = cwd / "src" / (SRC_OF[i] % n)
    if not src.exists():
        return {"lib": None, "stage": "no-source", "log": "mfront did not write %s" % src.name}
    if mutate:
        src.write_text(mutate(i, src.read_text()))
    srcs = [src]
    if i == "c++":
        d = cwd / "src" / "vf_cxx_driver.cxx"
        d.write_text(cxx_driver(spec))
        srcs.append(d)
    lib, log = compile_one(cwd, srcs, cwd / "src" / ("libvf_%s_%s.so" % (n, LIBTAG[i])), flags)
    return {"lib": str(lib) if lib else None, "stage": "ok" if lib else "compile", "log": log[-4000:]}


def build_spec(cwd, spec, text, interfaces=IFACES, flags=("-O1",), mutate=None):
    """generate_spec + compile_iface for every interface -> {iface: result dict}"""
    r = generate_spec(cwd, spec, text, interfaces)
    if r.rc != 0 or r.timed_out:
        return {i: {"lib": None, "stage": "mfront", "log": (r.out + r.err)[-3000:], "rc": r.rc} for i in interfaces}
    return {i: compile_iface(cwd, spec, i, flags, mutate) for i in interfaces}


def tool_unavailable(r):
    """the tool could not be *executed* (binary or one of its libraries is being re-linked by a concurrent build of the
    tree, ...): a harness failure, never a verdict on the code under test"""
    txt = (r.err or "") + (r.out if isinstance(r.out, str) else "")
    return r.rc in (126, 127) or any(m in txt for m in ("error while loading shared libraries", "file too short", "Permission denied",
                                                        "Text file busy", "cannot execute", "Exec format error"))


def link_race(log):
    """the compiler / linker met a TFEL library that a concurrent build was re-writing"""
    return any(m in (log or "") for m in ("file truncated", "file too short", "file not recognized", "Text file busy")) or \
        bool(re.search(r"cannot find -lTFEL|libTFEL\w+\.so[^\n]*No such file", log or ""))


def first_error(log):
    for line in log.splitlines():
        if "error" in line:
            return line.strip()[:300]
    return log.strip().splitlines()[0][:300] if log.strip() else ""


# ---------------------------------------------------------------------------------------- worker side
class _Shim:
    def __init__(self, path):
        s = C.CDLL(str(path))
        s.vf_call_gmp.restype = C.c_double
        s.vf_call_gmp.argtypes = [C.c_void_p, C.c_void_p, C.POINTER(C.c_double), C.c_size_t, C.c_int, C.c_int, C.POINTER(C.c_int)]
        s.vf_call_c.restype = C.c_double
        s.vf_call_c.argtypes = [C.c_void_p, C.POINTER(C.c_double), C.c_int, C.c_int, C.POINTER(C.c_int)]
        s.vf_call_cb.restype = C.c_int
        s.vf_call_cb.argtypes = [C.c_void_p, C.POINTER(C.c_double), C.c_int]
        self.s = s


def _addr(lib, name):
    return C.cast(getattr(lib, name), C.c_void_p).value


def _f(v):
    """JSON-safe float"""
    if v != v:
        return "nan"
    if v in (math.inf, -math.inf):
        return "inf" if v > 0 else "-inf"
    return v.hex()


def unf(v):
    if isinstance(v, str):
        if v in ("nan", "inf", "-inf"):
            return float(v)
        return float.fromhex(v)
    return v


class Generic:
    def __init__(self, shim, lib, name):
        self.sh, self.lib, self.name = shim, lib, name
        self.fn = _addr(lib, name)

    def call(self, args, policy=0, nargs=None, e0=0, poison_msg=False):
        st = gen.OutputStatus()
        st.status, st.c_error_number, st.bounds_status = 12345, 12345, 12345
        a = gen.arr(args)
        e1 = C.c_int(-7)
        v = self.sh.s.vf_call_gmp(self.fn, C.addressof(st), a, len(args) if nargs is None else nargs, policy, e0, C.byref(e1))
        return {"v": _f(v), "status": st.status, "bs": st.bounds_status, "cerr": st.c_error_number,
                "msg": st.msg.decode("utf-8", "replace"), "e1": e1.value}

    def set_parameter(self, p, v):
        f = getattr(self.lib, self.name + "_setParameter")
        f.restype = C.c_int
        f.argtypes = [C.c_char_p, C.c_double]
        return f(p.encode(), v)


class CIface:
    def __init__(self, shim, lib, name, nin):
        self.sh, self.nin = shim, nin
        self.fn = _addr(lib, name)
        try:
            self.cb = _addr(lib, name + "_checkBounds")
        except AttributeError:
            self.cb = None

    def call(self, args, e0=0):
        e1 = C.c_int(-7)
        v = self.sh.s.vf_call_c(self.fn, gen.arr(args), self.nin, e0, C.byref(e1))
        return {"v": _f(v), "e1": e1.value}

    def check_bounds(self, args):
        return None if self.cb is None else self.sh.s.vf_call_cb(self.cb, gen.arr(args), self.nin)


class CxxIface:
    def __init__(self, lib, npar):
        self.lib, self.npar = lib, npar
        lib.vf_cxx_call.restype = C.c_double
        lib.vf_cxx_call.argtypes = [C.POINTER(C.c_double), C.POINTER(C.c_double), C.c_int, C.POINTER(C.c_int), C.c_char_p, C.c_int,
                                    C.POINTER(C.c_int)]

    def call(self, args, pvals=None, e0=0):
        st, e1 = C.c_int(-9), C.c_int(-7)
        msg = C.create_string_buffer(512)
        v = self.lib.vf_cxx_call(gen.arr(args), gen.arr(pvals or []), 1 if pvals else 0, C.byref(st), msg, e0, C.byref(e1))
        return {"v": _f(v), "status": st.value, "msg": msg.value.decode("utf-8", "replace"), "e1": e1.value}

    def defaults(self):
        a = gen.arr([0.0] * self.npar)
        self.lib.vf_cxx_defaults.restype = None
        self.lib.vf_cxx_defaults.argtypes = [C.POINTER(C.c_double)]
        self.lib.vf_cxx_defaults(a)
        return [_f(a[i]) for i in range(self.npar)]

    def check_bounds(self, args):
        try:
            f = self.lib.vf_cxx_checkBounds
        except AttributeError:
            return None
        f.restype = C.c_int
        f.argtypes = [C.POINTER(C.c_double), C.c_char_p]
        msg = C.create_string_buffer(512)
        return f(gen.arr(args), msg), msg.value.decode("utf-8", "replace")


def w_open(libs, name, nin, npar, shim_path, cwd=None):
    """(worker side) chdir first: the parameter file is looked for in the cwd at the first call.
    An interface whose entry point cannot be resolved is reported in o["errors"], not raised."""
    if cwd:
        os.chdir(cwd)
    gen.preload_tfel()
    sh = _Shim(shim_path)
    o = {"errors": {}}
    for k, mk in (("generic", lambda: Generic(sh, C.CDLL(libs["generic"]), name)),
                  ("c", lambda: CIface(sh, C.CDLL(libs["c"]), name, nin)),
                  ("c++", lambda: CxxIface(C.CDLL(libs["c++"]), npar))):
        if not libs.get(k):
            continue
        try:
            o[k] = mk()
        except (AttributeError, OSError) as e:
            o["errors"][k] = str(e)[-300:]
    return o


def w_values(libs, name, nin, params, points, shim_path, cwd=None, setp=None):
    """C37 worker: values of every interface at `points` (lists of hex floats)
    1. with the parameters the library has at load time (defaults, or the parameter file of cwd),
    2. after setParameter / set<p> for every (name used, parameter index, value) of setp."""
    o = w_open(libs, name, nin, len(params), shim_path, cwd)
    pts = [[unf(v) for v in p] for p in points]
    res = {"first": {}, "set": {}, "setrc": [], "open_errors": o.pop("errors")}
    for k, f in o.items():
        res["first"][k] = [f.call(p) for p in pts]
    if "c++" in o and params:
        res["cxx_defaults"] = o["c++"].defaults()
    if setp:
        if "generic" in o:
            for ext, i, v in setp:
                res["setrc"].append(o["generic"].set_parameter(ext, unf(v)))
            res["setrc_unknown"] = o["generic"].set_parameter("vf_no_such_parameter", 1.0)
            res["set"]["generic"] = [o["generic"].call(p) for p in pts]
        if "c++" in o:
            pv = [unf(x) for x in o["c++"].defaults()]
            for ext, i, v in setp:
                pv[i] = unf(v)
            res["set"]["c++"] = [o["c++"].call(p, pv) for p in pts]
    return res


def w_contract(libs, name, nin, calls, shim_path, cwd=None):
    """C38 worker: calls = [{"args": [hex...], "policy": p, "nargs": n or None, "e0": errno before the call}]
    -> generic results (status, bounds_status, value, msg, errno after), C checkBounds results for the same arguments"""
    o = w_open(libs, name, nin, 0, shim_path, cwd)
    out = {"generic": [], "cb": [], "has_cb": False, "open_errors": o.pop("errors")}
    c = o.get("c")
    out["has_cb"] = bool(c and c.cb)
    for k in calls:
        a = [unf(v) for v in k["args"]]
        if "generic" in o:
            buf = a + [0.0] * (8 - len(a)) if len(a) < 8 else a   # wrong-nargs calls still get a valid buffer
            st = gen.OutputStatus()
            st.status, st.c_error_number, st.bounds_status = 12345, 12345, 12345
            arr = gen.arr(buf)
            e1 = C.c_int(-7)
            g = o["generic"]
            v = g.sh.s.vf_call_gmp(g.fn, C.addressof(st), arr, len(a) if k.get("nargs") is None else k["nargs"], k["policy"], k["e0"],
                                   C.byref(e1))
            out["generic"].append({"v": _f(v), "status": st.status, "bs": st.bounds_status, "cerr": st.c_error_number,
                                   "msg": st.msg.decode("utf-8", "replace"), "e1": e1.value})
        if out["has_cb"] and k.get("nargs") is None:
            out["cb"].append(c.check_bounds(a))
        else:
            out["cb"].append(None)
    return out
