"""C42 — consistent tangent operators are derivatives of the integration (DESIGN.md §4.4)."""
import vfcore
import gbx
from checks import gb_src, c41

META = {
    "engine": "gen", "level": "exploration", "design_ref": "DESIGN.md §4.4 C42",
    "technique": "K returned with K[0]=4 compared with Richardson-extrapolated central finite differences (steps h, h/2, h/4) of the stress integrated by the same generated behaviour at perturbed total strains; points where the differences do not converge (regime switch in the stencil) skipped and counted",
    "text": "For the C41 behaviours that provide a consistent tangent operator (Default-DSL elasticity; Norton in the Implicit DSL with NewtonRaphson, NewtonRaphson_NumericalJacobian, Broyden2 (closed form), PowellDogLeg_NewtonRaphson, LevenbergMarquardt through getPartialJacobianInvert; IsotropicMisesCreep and IsotropicPlasticMisesFlow DSLs; StandardElastoViscoPlasticity brick plasticity and Norton; the reference ImplicitNorton_Broyden.mfront verbatim) and every hypothesis they support, at random states and increments in the elastic and inelastic regimes, with a temperature increment over the step in a planned share of the cases (none / 1 K / 150 K), including synthesised brick behaviours on the Hooke potential whose elastic properties and flow / hardening parameters are formulae of the temperature (theta = 0.5 and 1 both planned), the operator is compared component-wise with the finite-difference derivative of the integrated stress with respect to the total strain at the end of the step; the stress returned with and without the operator request must also be identical.",
    "note": "Trusted: smoothness of the integration on the stencil where the three finite-difference levels agree (|R1(h/2)-R1(h)| <= 1e-5 |K|); tolerance 50 x that estimate + 2e-6 |K| + solver-threshold noise / (h/4). In (generalised) plane stress only the block of the components that are inputs is judged (the axial row/column is recorded). Behaviours whose operator comes from a quasi-Newton jacobian approximation (Broyden, PowellDogLeg_Broyden templates) are not judged.",
}

NPTS = (25, 300)


def build(ctx):
    specs = gb_src.c42_specs(thorough=ctx.thorough, seed=ctx.seed)
    return specs, gbx.build_all(ctx, "C42", specs)


def run(ctx):
    specs, libs = build(ctx)
    ctx.cov["rule"] = ("case = (behaviour, hypothesis, random material/law constants, theta, state, increment); one case = 1 operator + "
                       "6 x (number of strain components) perturbed integrations; distinct = points where the finite differences converged")
    ctx.cov["behaviours"] = sorted(libs)
    n = ctx.n(*NPTS)
    gs = c41.groups(specs, libs)

    def one(i):
        return gbx.call_vt(ctx, "checks.gb_mon42", "run", {"group": gs[i], "seed": ctx.seed, "npts": n}, tag="c42-%d" % i)
    ok = 0
    for i, (res, r) in enumerate(vfcore.pmap(one, range(len(gs)), workers=8)):
        if gbx.fold(ctx, res, r, what="C42 worker %s" % [s["name"] for s in gs[i]]):
            ok += 1
    ctx.require(ok == len(gs), "some workers did not report")
    tab = ctx.cov.get("strata", {})
    for fam in ("VfElasticity:", "VfImplicitNorton_NR:", "VfNorton:", "VfPlasticity:", "VfBrickPlasticity:", "VfBrickNorton:"):
        ctx.require(sum(v.get("n", 0) for k, v in tab.items() if k.startswith(fam) and k.endswith(":tangent")) >= 3 * n,
                    "too few judged tangent operators for %s" % fam)
    c = ctx.cov.get("counters", {})
    # planned strata of the behaviours whose elastic properties depend on the temperature: (no / near / far temperature
    # increment) x (theta 0.5 / 1)
    for bn in ("VfBrickTElasticity", "VfBrickTNorton", "VfBrickTPlasticity"):
        for dT in ("0", "1K", "150K"):
            for th in ("0.5", "1.0"):
                k = "%s:judged:dT=%s:theta=%s" % (bn, dT, th)
                ctx.require(c.get(k, 0) >= max(5, (3 * n) // 10), "planned stratum %s: %d operators judged, %d planned" % (k, c.get(k, 0), max(5, (3 * n) // 10)))
    for bn in ("VfElasticity", "VfImplicitNorton_NR", "VfBrickPlasticity"):
        ctx.require(c.get("%s:judged:dT=150K" % bn, 0) >= n, "no judged operator with a temperature increment for %s" % bn)
    for fam in ("VfPlasticity", "VfBrickPlasticity"):
        ctx.require(c.get(fam + ":inelastic-points", 0) >= n and c.get(fam + ":elastic-points", 0) >= n,
                    "%s: both regimes must be judged" % fam)
