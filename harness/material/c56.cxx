// C56 — SlipSystemsDescription (DESIGN.md §4.1 C56)
// Oracle: the orbit of (Burgers vector, plane) under the crystal point group computed on integer
// indices — cubic m-3m: the 48 signed permutation matrices; hexagonal 6/mmm: the 24 operations of
// the Miller-Bravais notation (permutations of the first three indices, their simultaneous sign
// change, sign change of the fourth) — two systems being the same when they differ by the signs
// of b and/or n; Cartesian directions from the lattice vectors; dyadic products; (d.n)(d.m).
#define VFH_MAIN
#include <algorithm>
#include <array>
#include <numeric>
#include <set>
#include <stdexcept>
#include <vector>
#include "ref.hxx"
#include "TFEL/Material/SlipSystemsDescription.hxx"

using namespace ref;
namespace tmat = tfel::material;
using SSD = tmat::SlipSystemsDescription;
using CS = tmat::CrystalStructure;
static vf::Reporter R;
static long g_asym[4] = {0, 0, 0, 0}, g_pairs[4] = {0, 0, 0, 0};

template <size_t N> using IV = std::array<int, N>;
template <size_t N> struct Sys { IV<N> b, n; bool operator<(const Sys& o) const { return std::tie(b, n) < std::tie(o.b, o.n); } bool operator==(const Sys& o) const { return b == o.b && n == o.n; } };

template <size_t N> static IV<N> canon_sign(IV<N> v) {
  for (size_t i = 0; i < N; ++i) { if (v[i] > 0) break; if (v[i] < 0) { for (auto& x : v) x = -x; break; } }
  return v;
}
template <size_t N> static Sys<N> canon(const Sys<N>& s) { return {canon_sign(s.b), canon_sign(s.n)}; }
template <size_t N> static int gcdv(const IV<N>& v) { int g = 0; for (int x : v) g = std::gcd(g, std::abs(x)); return g; }

// ---- point groups acting on index vectors
static std::vector<std::array<int, 6>> cubic_ops() {  // (perm, signs)
  std::vector<std::array<int, 6>> ops;
  int p[3] = {0, 1, 2};
  do { for (int s = 0; s < 8; ++s) ops.push_back({p[0], p[1], p[2], (s & 1) ? -1 : 1, (s & 2) ? -1 : 1, (s & 4) ? -1 : 1}); } while (std::next_permutation(p, p + 3));
  return ops;  // 48
}
static IV<3> act(const std::array<int, 6>& o, const IV<3>& v) { return {o[3] * v[o[0]], o[4] * v[o[1]], o[5] * v[o[2]]}; }
static std::vector<std::array<int, 5>> hex_ops() {  // (perm of first three, sign of first three, sign of fourth)
  std::vector<std::array<int, 5>> ops;
  int p[3] = {0, 1, 2};
  do { for (int s = 0; s < 4; ++s) ops.push_back({p[0], p[1], p[2], (s & 1) ? -1 : 1, (s & 2) ? -1 : 1}); } while (std::next_permutation(p, p + 3));
  return ops;  // 24
}
static IV<4> act(const std::array<int, 5>& o, const IV<4>& v) { return {o[3] * v[o[0]], o[3] * v[o[1]], o[3] * v[o[2]], o[4] * v[3]}; }

static std::set<Sys<3>> orbit(const Sys<3>& s) { static const auto ops = cubic_ops(); std::set<Sys<3>> r; for (const auto& o : ops) r.insert(canon<3>({act(o, s.b), act(o, s.n)})); return r; }
static std::set<Sys<4>> orbit(const Sys<4>& s) { static const auto ops = hex_ops(); std::set<Sys<4>> r; for (const auto& o : ops) r.insert(canon<4>({act(o, s.b), act(o, s.n)})); return r; }

// ---- Cartesian geometry
static const L RATIO = std::sqrt(8.0L / 3.0L);  // c/a, "the length of the c axis is taken as sqrt(8/3)" (NUMODIS/HCP)
static V3 cart_dir(const IV<3>& v) { return {L(v[0]), L(v[1]), L(v[2])}; }
static V3 cart_nrm(const IV<3>& v) { return {L(v[0]), L(v[1]), L(v[2])}; }
static const L S3 = std::sqrt(3.0L);
// a1 = (sqrt3/2, 1/2, 0), a2 = (-sqrt3/2, 1/2, 0), a3 = (0,-1,0), c = (0,0,c/a)
static V3 cart_dir(const IV<4>& v) { return {S3 / 2 * (v[0] - v[1]), 0.5L * (v[0] + v[1]) - v[2], RATIO * v[3]}; }
// normal of (hkil): 2/3 (h a1 + k a2 + i a3) + l c / |c|^2
static V3 cart_nrm(const IV<4>& v) { return {(2 / 3.0L) * S3 / 2 * (v[0] - v[1]), (2 / 3.0L) * (0.5L * (v[0] + v[1]) - v[2]), v[3] / RATIO}; }
static V3 unit(V3 v) { const L n = std::sqrt(v[0] * v[0] + v[1] * v[1] + v[2] * v[2]); for (auto& x : v) x /= n; return v; }
static L dot3(const V3& a, const V3& b) { return a[0] * b[0] + a[1] * b[1] + a[2] * b[2]; }

template <size_t N> static int idot(const IV<N>& a, const IV<N>& b) { int s = 0; for (size_t i = 0; i < N; ++i) s += a[i] * b[i]; return s; }

template <size_t N> struct Traits;
template <> struct Traits<3> { using sys = SSD::system3d; using vec = SSD::vec3d; };
template <> struct Traits<4> { using sys = SSD::system4d; using vec = SSD::vec4d; };

// all primitive index vectors with entries in [-3,3]
template <size_t N> static std::vector<IV<N>> box();
template <> std::vector<IV<3>> box<3>() {
  std::vector<IV<3>> r;
  for (int a = -3; a <= 3; ++a) for (int b = -3; b <= 3; ++b) for (int c = -3; c <= 3; ++c) { IV<3> v{a, b, c}; if (gcdv(v) == 1) r.push_back(v); }
  return r;
}
template <> std::vector<IV<4>> box<4>() {
  std::vector<IV<4>> r;
  for (int a = -3; a <= 3; ++a) for (int b = -3; b <= 3; ++b) { const int c = -a - b; if (std::abs(c) > 3) continue; for (int d = -3; d <= 3; ++d) { IV<4> v{a, b, c, d}; if (gcdv(v) == 1) r.push_back(v); } }
  return r;
}
// the families: one representative (b,n), b.n = 0, per orbit; sorted for a seed-independent numbering
template <size_t N> static const std::vector<Sys<N>>& families() {
  static std::vector<Sys<N>> fam;
  if (fam.empty()) {
    std::set<Sys<N>> seen;
    const auto vs = box<N>();
    for (const auto& b : vs) for (const auto& n : vs) {
      if (idot(b, n) != 0) continue;
      const Sys<N> s = canon<N>({b, n});
      if (seen.count(s)) continue;
      const auto o = orbit(s);
      seen.insert(o.begin(), o.end());
      fam.push_back(*o.begin());
    }
  }
  return fam;
}

static const char* cs_name(CS c) { return c == CS::Cubic ? "Cubic" : (c == CS::FCC ? "FCC" : (c == CS::BCC ? "BCC" : "HCP")); }

template <size_t N>
static void family_case(const vf::Args& a, CS cs, uint64_t idx, uint64_t fidx) {
  using sysT = typename Traits<N>::sys;
  using vecT = typename Traits<N>::vec;
  const auto& fams = families<N>();
  vf::Rng g(a.seed, 5600 + int(cs), idx);
  // the representative handed to the library: a random member of the orbit with random signs
  const auto orb = orbit(fams[fidx % fams.size()]);
  auto it = orb.begin(); std::advance(it, g.irange(0, int(orb.size()) - 1));
  Sys<N> rep = *it;
  if (g.coin()) for (auto& x : rep.b) x = -x;
  if (g.coin()) for (auto& x : rep.n) x = -x;
  int maxidx = 0; for (int x : rep.b) maxidx = std::max(maxidx, std::abs(x)); for (int x : rep.n) maxidx = std::max(maxidx, std::abs(x));
  // hexagonal families whose planes (hkil), l != 0, are only all reached with the sign change of l
  // (-(hki) is not a permutation of (hki)) are filed under their own stratum
  bool needsl = false;
  if constexpr (N == 4) {
    IV<3> p{rep.n[0], rep.n[1], rep.n[2]}, q{-rep.n[0], -rep.n[1], -rep.n[2]};
    std::sort(p.begin(), p.end()); std::sort(q.begin(), q.end());
    needsl = rep.n[3] != 0 && p != q;
  }
  char S[64]; std::snprintf(S, sizeof S, "max-index-%d%s", maxidx, needsl ? "/plane-needs-l-sign-change" : "");
  char api[128];
  auto nm = [&](const char* f) { std::snprintf(api, sizeof api, "%s:%s", cs_name(cs), f); vf::set_case(api, S, idx); return api; };
  const uint64_t h = vf::hash_bytes(&rep, sizeof rep);
  auto dump = [&] { vf::J j; j.s("structure", cs_name(cs)).arr("burgers", rep.b.begin(), rep.b.end()).arr("plane", rep.n.begin(), rep.n.end()); return j.str(); };
  try {
    SSD ssd(cs);
    vecT vb, vn; for (size_t i = 0; i < N; ++i) { vb[i] = rep.b[i]; vn[i] = rep.n[i]; }
    ssd.addSlipSystemsFamily(vb, vn);
    const auto sys = ssd.getSlipSystems(0);
    std::vector<Sys<N>> lib;
    bool typed = true;
    for (const auto& s : sys) { if (!s.template is<sysT>()) { typed = false; break; } const auto& t = s.template get<sysT>(); Sys<N> q; for (size_t i = 0; i < N; ++i) { q.b[i] = t.burgers[i]; q.n[i] = t.plane[i]; } lib.push_back(q); }
    R.expect(nm("systems-have-the-structure's-index-type"), S, idx, h, typed, dump);
    if (!typed) return;
    std::set<Sys<N>> libset; for (const auto& q : lib) libset.insert(canon(q));
    R.expect(nm("no-duplicate-up-to-sign"), S, idx, h, libset.size() == lib.size(), dump);
    R.check(nm("family-size=orbit-size"), S, idx, h, std::fabs(L(lib.size()) - L(orb.size())), 0.5L, dump);
    R.expect(nm("family=orbit-under-point-group"), S, idx, h, libset == orb, dump);
    R.expect(nm("getNumberOfSlipSystems"), S, idx, h, ssd.getNumberOfSlipSystems(0) == lib.size() && ssd.getNumberOfSlipSystems() == lib.size() && ssd.getNumberOfSlipSystemsFamilies() == 1, dump);
    bool orth = true; for (const auto& q : lib) orth = orth && idot(q.b, q.n) == 0;
    R.expect(nm("integer b.n=0 for every system"), S, idx, h, orth, dump);
    // ---- geometry
    const auto nn = ssd.getSlipPlaneNormals(0), mm = ssd.getSlipDirections(0);
    const auto ot = ssd.getOrientationTensors(0), ct = ssd.getClimbTensors(0);
    R.expect(nm("one normal/direction/tensor per system"), S, idx, h, nn.size() == lib.size() && mm.size() == lib.size() && ot.size() == lib.size() && ct.size() == lib.size(), dump);
    if (nn.size() != lib.size() || mm.size() != lib.size() || ot.size() != lib.size() || ct.size() != lib.size()) return;
    // NUMODIS stores its lattice in double (sqrt(8/3) given with 10 digits)
    const L tg = N == 4 ? 2e-9L : 64 * std::numeric_limits<double>::epsilon();
    L e_unit = 0, e_orth = 0, e_dir = 0, e_ot = 0, e_ct = 0;
    for (size_t k = 0; k < lib.size(); ++k) {
      const V3 n = {nn[k][0], nn[k][1], nn[k][2]}, m = {mm[k][0], mm[k][1], mm[k][2]};
      e_unit = std::max({e_unit, std::fabs(dot3(n, n) - 1), std::fabs(dot3(m, m) - 1)});
      e_orth = std::max(e_orth, std::fabs(dot3(n, m)));
      const V3 nr = unit(cart_nrm(lib[k].n)), mr = unit(cart_dir(lib[k].b));
      for (int i = 0; i < 3; ++i) e_dir = std::max({e_dir, std::fabs(n[i] - nr[i]), std::fabs(m[i] - mr[i])});
      // tensor storage [xx yy zz xy yx xz zx yz zy]; orientation tensor = m (x) n, climb tensor = n (x) n
      for (int c = 0; c < 9; ++c) { e_ot = std::max(e_ot, std::fabs(ot[k][c] - m[TI[c]] * n[TJ[c]])); e_ct = std::max(e_ct, std::fabs(ct[k][c] - n[TI[c]] * n[TJ[c]])); }
    }
    R.check(nm("unit normal and direction"), S, idx, h, e_unit, tg, dump);
    R.check(nm("normal orthogonal to direction"), S, idx, h, e_orth, tg, dump);
    R.check(nm("normal/direction=lattice geometry of the indices"), S, idx, h, e_dir, tg, dump);
    R.check(nm("orientation tensor=m(x)n"), S, idx, h, e_ot, tg, dump);
    R.check(nm("climb tensor=n(x)n"), S, idx, h, e_ct, tg, dump);
    // ---- Schmid factors for a random loading direction with integer indices
    {
      const auto vs = box<N>();
      const IV<N> d = vs[size_t(g.u64() % vs.size())];
      vecT vd; for (size_t i = 0; i < N; ++i) vd[i] = d[i];
      const auto sf = ssd.getSchmidFactors(SSD::vec(vd), 0);
      const V3 dr = unit(cart_dir(d));
      auto dump2 = [&] { vf::J j; j.s("structure", cs_name(cs)).arr("burgers", rep.b.begin(), rep.b.end()).arr("plane", rep.n.begin(), rep.n.end()).arr("direction", d.begin(), d.end()); return j.str(); };
      R.expect(nm("one Schmid factor per system"), S, idx, h, sf.size() == lib.size(), dump2);
      L e_rng = 0, e_def = 0;
      for (size_t k = 0; k < sf.size() && k < lib.size(); ++k) {
        e_rng = std::max(e_rng, std::fabs(sf[k]) - 0.5L);
        const V3 n = {nn[k][0], nn[k][1], nn[k][2]}, m = {mm[k][0], mm[k][1], mm[k][2]};
        e_def = std::max(e_def, std::fabs(sf[k] - dot3(dr, n) * dot3(dr, m)));
      }
      R.check(nm("Schmid factor in [-1/2,1/2]"), S, idx, h, std::max(e_rng, L(0)), tg, dump2);
      R.check(nm("Schmid factor=(d.n)(d.m)"), S, idx, h, e_def, tg * 4, dump2);
    }
    // ---- structure of the interaction matrix (quadratic in the family size: families up to 24 systems)
    if (lib.size() <= 24 && (a.thorough || (idx / 4) % 4 == 0)) {
      const auto ims = ssd.getInteractionMatrixStructure();
      const auto& cont = ims.getSlidingSystemsInteraction();
      R.expect(nm("interaction:rank()=number of classes"), S, idx, h, ims.rank() == cont.size(), dump);
      auto to_sys = [&](const SSD::system& s) { const auto& t = s.template get<sysT>(); Sys<N> q; for (size_t i = 0; i < N; ++i) { q.b[i] = t.burgers[i]; q.n[i] = t.plane[i]; } return q; };
      std::map<std::pair<Sys<N>, Sys<N>>, size_t> rk;
      bool once = true, members = true;
      for (size_t r = 0; r < cont.size(); ++r) for (const auto& p : cont[r]) {
        const Sys<N> g1 = to_sys(p.g1), g2 = to_sys(p.g2);
        members = members && std::find(lib.begin(), lib.end(), g1) != lib.end() && std::find(lib.begin(), lib.end(), g2) != lib.end();
        once = once && rk.emplace(std::make_pair(g1, g2), r).second;
      }
      R.expect(nm("interaction:every ordered pair in exactly one rank"), S, idx, h, once && members && rk.size() == lib.size() * lib.size(), dump);
      if (once && members && rk.size() == lib.size() * lib.size()) {
        bool getrank = true, diag = true;
        for (size_t i = 0; i < lib.size(); ++i) for (size_t j = 0; j < lib.size(); ++j) {
          const size_t r = rk.at({lib[i], lib[j]});
          getrank = getrank && ims.getRank(sys[i], sys[j]) == r;
          // documented: rank 0 contains all the interactions of a slip system with itself
          diag = diag && ((r == 0) == (i == j));
        }
        R.expect(nm("interaction:getRank=container"), S, idx, h, getrank, dump);
        R.expect(nm("interaction:rank 0=self-interactions"), S, idx, h, diag, dump);
        // equivalent interactions: the rank is invariant under the operations of the point group
        std::map<Sys<N>, Sys<N>> bycanon; for (const auto& q : lib) bycanon[canon(q)] = q;
        bool inv = true; long asym = 0;
        auto check_ops = [&](auto ops) {
          for (const auto& o : ops) for (size_t i = 0; i < lib.size() && inv; ++i) for (size_t j = 0; j < lib.size(); ++j) {
            const auto i1 = bycanon.find(canon<N>({act(o, lib[i].b), act(o, lib[i].n)})), i2 = bycanon.find(canon<N>({act(o, lib[j].b), act(o, lib[j].n)}));
            if (i1 == bycanon.end() || i2 == bycanon.end()) { inv = false; break; }
            if (rk.at({i1->second, i2->second}) != rk.at({lib[i], lib[j]})) { inv = false; break; }
          }
        };
        if constexpr (N == 3) check_ops(cubic_ops()); else check_ops(hex_ops());
        R.expect(nm("interaction:rank invariant under the point group"), S, idx, h, inv, dump);
        for (size_t i = 0; i < lib.size(); ++i) for (size_t j = i + 1; j < lib.size(); ++j) asym += rk.at({lib[i], lib[j]}) != rk.at({lib[j], lib[i]});
        g_asym[int(cs)] += asym; g_pairs[int(cs)] += long(lib.size() * (lib.size() - 1) / 2);
      }
    }
    // ---- a family already generated by another one is refused
    {
      auto it2 = orb.begin(); std::advance(it2, g.irange(0, int(orb.size()) - 1));
      vecT b2, n2; for (size_t i = 0; i < N; ++i) { b2[i] = it2->b[i]; n2[i] = it2->n[i]; }
      bool refused = false;
      try { ssd.addSlipSystemsFamily(b2, n2); } catch (std::exception&) { refused = true; }
      // only when the library stores this very representative (the test compares indices exactly)
      if (std::find(lib.begin(), lib.end(), *it2) != lib.end()) R.expect(nm("equivalent family refused"), S, idx, h, refused, dump);
    }
  } catch (std::exception& e) {
    char msg[160]; int j = 0; for (const char* c = e.what(); *c && j < 150; ++c) if (*c != '"' && *c != '\\' && static_cast<unsigned char>(*c) >= 0x20) msg[j++] = *c; msg[j] = 0;
    R.expect(nm("no-exception"), S, idx, h, false, dump, msg);
  }
}

// documented example (ImplicitII-keywords.md): FCC <1,-1,0>{1,1,1}: 12 systems, 7 independent
// coefficients, rank 0 = the 12 self interactions, rank 1 = the 24 ordered coplanar pairs
static void documented_fcc(uint64_t idx) {
  const char* S = "documented-example";
  auto dump = [] { return std::string("{\"structure\":\"FCC\",\"family\":\"<1,-1,0>{1,1,1}\"}"); };
  vf::set_case("FCC:documented-example", S, idx);
  try {
    SSD ssd(CS::FCC);
    ssd.addSlipSystemsFamily(SSD::vec3d{1, -1, 0}, SSD::vec3d{1, 1, 1});
    const auto sys = ssd.getSlipSystems(0);
    R.expect("FCC:<1,-1,0>{1,1,1}:12 systems", S, idx, 1, sys.size() == 12, dump);
    const auto ims = ssd.getInteractionMatrixStructure();
    R.expect("FCC:<1,-1,0>{1,1,1}:7 independent interaction coefficients", S, idx, 2, ims.rank() == 7, dump);
    const auto& c = ims.getSlidingSystemsInteraction();
    bool ok = c.size() > 1 && c[0].size() == 12 && c[1].size() == 24;
    if (ok) for (const auto& p : c[1]) { const auto& a1 = p.g1.get<SSD::system3d>(); const auto& a2 = p.g2.get<SSD::system3d>(); ok = ok && a1.plane == a2.plane && a1.burgers != a2.burgers; }
    R.expect("FCC:<1,-1,0>{1,1,1}:rank 1=coplanar pairs", S, idx, 3, ok, dump);
  } catch (std::exception&) { R.expect("FCC:documented-example:no-exception", S, idx, 4, false, dump); }
}

int main(int argc, char** argv) {
  vf::Args a(argc, argv);
  if (a.only < 0 && a.shard == 0) documented_fcc(0);
  const size_t n3 = families<3>().size(), n4 = families<4>().size();
  if (a.shard == 0) {
    std::printf("@@VF {\"ev\":\"note\",\"what\":\"cubic families in the index box\",\"n\":%zu}\n", n3);
    std::printf("@@VF {\"ev\":\"note\",\"what\":\"hexagonal families in the index box\",\"n\":%zu}\n", n4);
  }
  // exhaustive numbering: idx -> (structure, family); in the quick tier families are drawn at random
  for (long i = 0; i < a.cases; ++i) {
    const uint64_t idx = a.only >= 0 ? uint64_t(a.only) : a.gidx(i);
    const int s = int(idx % 4);
    const uint64_t k = idx / 4;
    uint64_t f = k;
    if (!a.thorough) { vf::Rng g(a.seed, 5699, idx); f = g.u64(); }
    switch (s) {
      case 0: family_case<3>(a, CS::Cubic, idx, f); break;
      case 1: family_case<3>(a, CS::FCC, idx, f); break;
      case 2: family_case<3>(a, CS::BCC, idx, f); break;
      default: family_case<4>(a, CS::HCP, idx, f);
    }
    if (a.only >= 0) break;
  }
  for (int c = 0; c < 4; ++c) if (g_pairs[c]) {
    std::printf("@@VF {\"ev\":\"note\",\"what\":\"%s:unordered pairs with rank(g1,g2)!=rank(g2,g1)\",\"n\":%ld}\n", cs_name(CS(c)), g_asym[c]);
    std::printf("@@VF {\"ev\":\"note\",\"what\":\"%s:unordered pairs examined\",\"n\":%ld}\n", cs_name(CS(c)), g_pairs[c]);
  }
  R.finish();
  return 0;
}
