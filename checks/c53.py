"""C53 — PipeTest reproduces the elastic thick-walled cylinder (Lame) solution (DESIGN.md §4.6)."""
import math
import os
import re

import vfcore
from checks import mt_common as M
from checks import c48

META = {
    "engine": "mtest", "level": "exploration", "design_ref": "DESIGN.md §4.6 C53",
    "technique": "generated .ptest inputs (isotropic elastic behaviour built from the reference Elasticity.mfront, generic interface, small strain) run by `mtest --scheme=ptest` on meshes N, 2N, 4N; radial/hoop/axial stresses at the Gauss points of the @Profile file, inner/outer displacements and axial strain of the result file compared with the closed-form Lame solution of the selected axial loading; error bound C.(h/Ri)^p and observed convergence order",
    "text": "For random inner radius (1e-3..1), thickness ratio (0.01..2), inner/outer pressures of either sign applied as constants, as one-step ramps from zero or up to twice the final value then down in four steps (the final state of a linear elastic pipe only depends on the final loads), E, nu, element type (Linear, Quadratic, Cubic), base element count (1..50, refined x2 and x4) and axial loading (None = zero axial force, EndCapEffect = pi(Ri^2 Pi - Re^2 Pe), ImposedAxialForce, ImposedAxialGrowth = imposed uniform axial strain; semantics read from docs/mtest/ptest/AxialLoading.md and checked against PipeTest.cxx), the stresses A -/+ B/r^2, sigma_zz = 2 nu A + E ezz and u(r) = r (sigma_tt - nu (sigma_rr + sigma_zz))/E are compared with the PipeTest output. Required: finite results; stress and axial-strain errors (relative to |A|+|B|/Ri^2) below 100 (h/Ri)^p + 1e-6 with p = 1, 2, 3; displacement errors below 100 (h/Ri)^(p+1) + 1e-6 (1e-6: 25x the rounding floor observed on thin pipes with 200 cubic elements); errors decreasing under refinement while above 1e-5; observed order of the stress error at least p - 0.5 when the coarser mesh has h/Ri <= 0.15 and the errors are above 1e-5.",
    "note": "Trusted: the Lame formulas (generalised plane strain with uniform ezz). A linear elastic problem that PipeTest cannot solve (no convergence) is reported, not excluded: the property quantifies over every geometry and element type. Finite-strain analysis is not covered (the closed form is a small-strain one).",
}

ETYPES = {"Linear": 1, "Quadratic": 2, "Cubic": 3}
AXIAL = ["None", "EndCapEffect", "ImposedAxialForce", "ImposedAxialGrowth"]
CB, FLOOR = 100.0, 1e-6


def build(ctx):
    return M.build_libs(["Elasticity"])


def lame(c):
    Ri, Re, Pi, Pe, E, nu = c["Ri"], c["Re"], c["Pi"], c["Pe"], c["E"], c["nu"]
    A = (Pi * Ri ** 2 - Pe * Re ** 2) / (Re ** 2 - Ri ** 2)
    B = (Pi - Pe) * Ri ** 2 * Re ** 2 / (Re ** 2 - Ri ** 2)
    S = math.pi * (Re ** 2 - Ri ** 2)
    if c["axial"] == "ImposedAxialGrowth":
        ezz = c["aval"]
    else:
        Fz = {"None": 0.0, "EndCapEffect": math.pi * (Ri ** 2 * Pi - Re ** 2 * Pe), "ImposedAxialForce": c["aval"]}[c["axial"]]
        ezz = (Fz / S - 2 * nu * A) / E
    szz = 2 * nu * A + E * ezz

    def srr(r):
        return A - B / r ** 2

    def stt(r):
        return A + B / r ** 2

    def u(r):
        return r / E * (stt(r) - nu * (srr(r) + szz))
    # scales: bound of the in-plane stresses; the axial load may dominate
    scale = max(abs(A) + abs(B) / Ri ** 2, abs(szz))
    return srr, stt, szz, u, ezz, scale


def gen_case(seed, i):
    g = vfcore.rng(seed, "c53", i)
    et = list(ETYPES)[i % 3]
    axial = AXIAL[(i // 3) % 4]
    Ri = 10.0 ** g.uniform(-3, 0)
    th = 10.0 ** g.uniform(-2, math.log10(2.0))
    Re = Ri * (1 + th)
    E = 10.0 ** g.uniform(9.5, 11.5)
    nu = g.uniform(0.0, 0.45)
    pm = E * 1e-3

    def press():
        u = g.random()
        if u < 0.15:
            return 0.0
        return g.choice([-1, 1]) * 10.0 ** g.uniform(5, math.log10(pm))
    Pi, Pe = press(), press()
    if Pi == 0.0 and Pe == 0.0:
        Pi = 10.0 ** g.uniform(5, math.log10(pm))
    aval = 0.0
    if axial == "ImposedAxialForce":
        aval = g.choice([-1, 1]) * 10.0 ** g.uniform(5, math.log10(pm)) * math.pi * (Re ** 2 - Ri ** 2)
    if axial == "ImposedAxialGrowth":
        aval = g.choice([0.0, g.uniform(-1e-3, 1e-3)])
    # base mesh: half of the cases start in the asymptotic range (h/Ri <= 0.15)
    if g.random() < 0.5:
        n0 = max(1, min(50, int(math.ceil(th / g.uniform(0.02, 0.15)))))
    else:
        n0 = g.randrange(1, 51)
    # loading history: the problem is linear elastic, so the state at the last time only depends on the loads at that time
    # whatever the path and the number of steps (constant loads in one step; ramp from zero in one step; up to twice the
    # final value then down, in four steps)
    hist = HISTORIES[(i // 12) % len(HISTORIES)]
    return {"i": i, "etype": et, "p": ETYPES[et], "axial": axial, "Ri": Ri, "Re": Re, "th": th, "E": E, "nu": nu, "Pi": Pi, "Pe": Pe, "aval": aval, "n0": n0,
            "hist": hist}


HISTORIES = ["constant", "ramp", "up-down"]


def evolution(c, v):
    """the mtest evolution reaching the value v at the final time t=1"""
    if c.get("hist", "constant") == "constant" or v == 0.0:
        return M.fl(v)
    if c["hist"] == "ramp":
        return "{0:0,1:%s}" % M.fl(v)
    return "{0:0,0.5:%s,1:%s}" % (M.fl(2 * v), M.fl(v))


def ptest_text(c, lib, n):
    L = ["@InnerRadius %s;" % M.fl(c["Ri"]), "@OuterRadius %s;" % M.fl(c["Re"]), "@NumberOfElements %d;" % n, "@ElementType '%s';" % c["etype"],
         "@AxialLoading '%s';" % c["axial"], "@PerformSmallStrainAnalysis true;", "@Behaviour<generic> '%s' 'Elasticity';" % lib,
         "@MaterialProperty<constant> 'YoungModulus' %s;" % M.fl(c["E"]), "@MaterialProperty<constant> 'PoissonRatio' %s;" % M.fl(c["nu"]),
         "@ExternalStateVariable 'Temperature' 293.15;", "@InnerPressureEvolution %s;" % evolution(c, c["Pi"]), "@OuterPressureEvolution %s;" % evolution(c, c["Pe"]),
         "@Times {0,1 in 4};" if c.get("hist") == "up-down" else "@Times {0,1};", "@OutputFilePrecision 17;", "@Profile 'prof.res' {'SRR','STT','SZZ'};",
         # the default residual criterion (1e-3, absolute) is below the rounding noise of thin pipes under high pressure
         # (observed 2e-3 for sigma_tt = 3e9): it is given relative to the stress scale.  The problem being linear, the
         # second Newton iteration is at rounding level whatever the criterion.
         "@ResidualEpsilon %s;" % M.fl(max(1e-3, 1e-9 * lame(c)[5]))]
    if c["axial"] == "ImposedAxialForce":
        L.append("@AxialForceEvolution %s;" % evolution(c, c["aval"]))
    if c["axial"] == "ImposedAxialGrowth":
        L.append("@AxialGrowthEvolution %s;" % evolution(c, c["aval"]))
    return "\n".join(L) + "\n"


def run_one(ctx, c, lib, n, doctor=None):
    d = ctx.work / ("c%d" % c["i"]) / ("n%d" % n)
    d.mkdir(parents=True, exist_ok=True)
    txt = ptest_text(c, lib, n)
    (d / "a.ptest").write_text(txt)
    r = vfcore.run([vfcore.tool("plain", "mtest"), "--scheme=ptest", "--verbose=level1", "a.ptest"], timeout=180, cwd=d, env=M.env(), merge=True)
    o = {"n": n, "status": None, "text": txt}
    crash = ctx.classify_crash(r, recognised_terminate=True)
    if crash == "hang":
        o["status"] = "timeout"
        return o
    if crash:
        o["status"] = "crash:" + crash
        o["tail"] = r.out[-1200:]
        return o
    if r.rc != 0:
        o["status"] = "failed:" + c48.failure_reason(r.out)
        return o
    try:
        rows = [[float(x) for x in l.split()] for l in (d / "a.res").read_text().splitlines() if l.strip() and not l.startswith("#")]
        # one block per time step ("#Time t"): the block of the last time is the one compared
        pl = (d / "prof.res").read_text().splitlines()
        marks = [k for k, l in enumerate(pl) if l.startswith("#Time")]
        prof = [[float(x) for x in l.split()] for l in pl[(marks[-1] if marks else 0):] if l.strip() and not l.startswith("#")]
    except (OSError, ValueError):
        o["status"] = "unreadable"
        return o
    last = rows[-1]
    if doctor:
        doctor(c, n, last, prof)
    srr, stt, szz, u, ezz, scale = lame(c)
    vals = last[1:] + [x for p in prof for x in p]
    o["gauss_points"] = len(prof)
    if not all(math.isfinite(x) for x in vals):
        o["status"] = "nan"
        return o
    o["status"] = "ok"
    o["e_s"] = max(max(abs(p[1] - srr(p[0])), abs(p[2] - stt(p[0])), abs(p[3] - szz)) for p in prof) / scale
    o["e_u"] = max(abs(last[3] - u(c["Ri"])), abs(last[4] - u(c["Re"]))) / (c["Re"] * scale / c["E"])
    o["e_z"] = abs(last[5] - ezz) / (scale / c["E"])
    o["e_r"] = max(abs(last[1] - (c["Ri"] + last[3])), abs(last[2] - (c["Re"] + last[4]))) / c["Re"]     # radii columns consistent with displacements
    o["h"] = c["th"] / n
    return o


def judge(c, outs):
    """-> list of (key, what)"""
    V = []
    kb = "%s:%s" % (c["etype"], c["axial"])
    desc = "Ri=%r Re=%r Pi=%r Pe=%r E=%r nu=%r axial=%s(%r) %s history=%s" % (c["Ri"], c["Re"], c["Pi"], c["Pe"], c["E"], c["nu"], c["axial"], c["aval"], c["etype"],
                                                                                  c.get("hist"))
    for o in outs:
        if o["status"] == "nan":
            V.append(("%s:nan-results" % kb, "PipeTest reports success but the results are not finite (%d elements): %s" % (o["n"], desc)))
            return V
        if o["status"].startswith("failed:"):
            V.append(("%s:linear-elastic-problem-not-solved" % kb, "PipeTest fails on a linear elastic problem (%d elements): %s; %s" % (o["n"], o["status"][7:], desc)))
            return V
        if o["status"].startswith("crash:"):
            V.append(("%s:%s" % (kb, o["status"]), "mtest --scheme=ptest died: %s\n%s" % (desc, o.get("tail", ""))))
            return V
        if o["status"] != "ok":
            return V
    p = c["p"]
    for o in outs:
        x = o["h"]
        for q, name, order in (("e_s", "stress", p), ("e_z", "axial-strain", p), ("e_u", "displacement", p + 1)):
            bound = CB * x ** order + FLOOR
            o.setdefault("ratios", {})[q] = o[q] / bound
            if not (o[q] <= bound):
                V.append(("%s:%s:error-above-bound" % (kb, name),
                          "%s error %.3g (relative to the stress scale) with %d elements, h/Ri=%.3g, bound %g*(h/Ri)^%d+%g = %.3g: %s" %
                          (name, o[q], o["n"], x, CB, order, FLOOR, bound, desc)))
        if not (o["e_r"] <= 1e-12):
            V.append(("%s:radius-columns-inconsistent" % kb, "radius columns differ from R0 + displacement by %.3g Re: %s" % (o["e_r"], desc)))
    for a, b in zip(outs, outs[1:]):
        for q, name in (("e_s", "stress"), ("e_u", "displacement")):
            if a[q] > 1e-5 and not (b[q] < a[q]):
                V.append(("%s:%s:error-not-decreasing" % (kb, name), "%s error %.3g with %d elements, %.3g with %d: %s" % (name, a[q], a["n"], b[q], b["n"], desc)))
        if a["h"] <= 0.15 and b["e_s"] > 1e-5:
            order = math.log2(a["e_s"] / b["e_s"])
            a["order"] = order
            if not (order >= p - 0.5):
                V.append(("%s:stress:order-too-low" % kb, "stress error %.3g -> %.3g from %d to %d elements (h/Ri=%.3g): order %.2f < %g: %s" %
                          (a["e_s"], b["e_s"], a["n"], b["n"], a["h"], order, p - 0.5, desc)))
    return V


def run_case(ctx, c, lib, doctor=None):
    outs = []
    for k in (1, 2, 4):
        o = run_one(ctx, c, lib, c["n0"] * k, doctor)
        outs.append(o)
        if o["status"] != "ok":
            break
    return outs


def run(ctx, doctor=None):
    lib = build(ctx)["Elasticity"]
    ncase = ctx.n(36, 1000)
    ctx.cov["rule"] = ("case = (geometry, pressures, E, nu, element type, axial loading, base element count) solved on 3 meshes (N, 2N, 4N); "
                       "distinct = cases whose three runs gave finite results; non-trivial = non-zero loading")
    cases = [gen_case(ctx.seed, i) for i in range(ncase)]
    res = vfcore.pmap(lambda c: run_case(ctx, c, lib, doctor), cases, workers=min(vfcore.NCPU, 12))
    orders = {}
    for c, outs in zip(cases, res):
        ctx.add_eval(len(outs))
        kb = "%s:%s" % (c["etype"], c["axial"])
        for o in outs:
            ctx.count("runs:%s" % o["status"].split(":")[0])
        if any(o["status"] == "timeout" for o in outs):
            ctx.count("watchdog")
            continue
        V = judge(c, outs)
        for key, what in V:
            ctx.violation(key, what, {"case": c, "ptest_files": [o["text"] for o in outs], "runs": [{k: v for k, v in o.items() if k != "text"} for o in outs]})
        if len(outs) == 3 and all(o["status"] == "ok" for o in outs):
            ctx.add_distinct("c%d" % c["i"])
            ctx.count("judged:%s" % kb)
            ctx.count("judged:%s" % c["etype"])
            ctx.count("judged:history=%s" % c["hist"])
            if c["hist"] != "constant" and c["Pe"] != 0.0:
                ctx.count("judged:outer-pressure-varying-in-time")
            if c["hist"] != "constant" and c["Pi"] != 0.0:
                ctx.count("judged:inner-pressure-varying-in-time")
            ctx.count("gauss_points_compared", sum(o["gauss_points"] for o in outs))
            for o in outs:
                for q, v in o.get("ratios", {}).items():
                    ctx.maxstat("max_err_over_bound:%s:%s" % (c["etype"], q), float("%.3g" % v))
                if "order" in o:
                    orders.setdefault(c["etype"], []).append(o["order"])
            ctx.sample({"i": c["i"], "etype": c["etype"], "axial": c["axial"], "Ri": c["Ri"], "th": c["th"], "n0": c["n0"],
                        "e_s": [float("%.3g" % o["e_s"]) for o in outs], "e_u": [float("%.3g" % o["e_u"]) for o in outs]})
    ctx.cov["observed_stress_orders"] = {k: {"n": len(v), "min": float("%.3g" % min(v)), "max": float("%.3g" % max(v))} for k, v in orders.items()}
    cnt = ctx.cov.get("counters", {})
    if cnt.get("watchdog", 0) > max(2, ncase // 50):
        ctx.inconc("%d cases hit the watchdog" % cnt["watchdog"])
    for h in HISTORIES:
        ctx.require(cnt.get("judged:history=%s" % h, 0) >= ncase // 6, "too few judged cases with the %s loading history" % h)
    for q in ("outer", "inner"):
        ctx.require(cnt.get("judged:%s-pressure-varying-in-time" % q, 0) >= ncase // 6, "too few judged cases with a time-dependent %s pressure" % q)
    for et in ("Linear", "Quadratic"):
        ctx.require(cnt.get("judged:%s" % et, 0) >= ncase // 6, "too few judged cases for %s elements" % et)
        ctx.require(et in orders, "no convergence order observed for %s elements" % et)
    # Cubic: either judged like the others or reported through violations (never silently absent)
    cub = [c for c in cases if c["etype"] == "Cubic"]
    ctx.require(cnt.get("judged:Cubic", 0) > 0 or any(k.startswith(ctx.pid + ":Cubic:") for k, _, _ in ctx.violations) or
                any(k.startswith(ctx.pid + ":Cubic:") for k in ctx.known_hits), "cubic elements neither judged nor reported (%d cases)" % len(cub))
