// fd.hxx — central finite differences with Richardson extrapolation in long double
// (DESIGN.md §3 "Finite differences").  The differentiated functions are the library's own
// templates instantiated in long double; a derivative is accepted when the three estimates
// D(h), D(h/2), D(h/4) contract as a smooth function's do, otherwise the point is reported as
// non-converged (kink, domain edge) and the caller skips it.
#ifndef VERIF_MAT_FD_HXX
#define VERIF_MAT_FD_HXX
#include <array>
#include <cmath>

namespace fd {
using L = long double;

template <int NOUT>
struct Res {
  std::array<L, NOUT> d{};    // extrapolated derivative
  std::array<L, NOUT> err{};  // estimated error of d
  bool ok = true;             // all components converged
};

// f: L -> std::array<L,NOUT>, derivative at x along the scalar parameter with base step h.
// fscale: magnitude of the function values (for the rounding floor of the differences).
template <int NOUT, typename F>
inline Res<NOUT> diff(F&& f, L x, L h, L fscale) {
  Res<NOUT> r;
  std::array<L, NOUT> D[3];
  L hh = h;
  for (int lev = 0; lev < 3; ++lev, hh /= 2) {
    // make x+h-x exactly representable
    volatile L xp = x + hh, xm = x - hh;
    const L dx = xp - xm;
    const auto fp = f(xp), fm = f(xm);
    for (int i = 0; i < NOUT; ++i) D[lev][i] = (fp[i] - fm[i]) / dx;
  }
  const L floor_ = 256 * std::numeric_limits<L>::epsilon() * fscale / (h / 4);
  for (int i = 0; i < NOUT; ++i) {
    const L e1 = std::fabs(D[1][i] - D[0][i]), e2 = std::fabs(D[2][i] - D[1][i]);
    const L r1 = (4 * D[1][i] - D[0][i]) / 3, r2 = (4 * D[2][i] - D[1][i]) / 3;
    r.d[i] = (16 * r2 - r1) / 15;
    r.err[i] = std::fabs(r2 - r1) + floor_;
    // a smooth function gives e2 ~ e1/4 (a kink inside the stencil gives 1/2: first order);
    // accept up to 0.4 unless both are at the rounding floor
    if (!(std::isfinite((double)r.d[i]))) r.ok = false;
    else if (e2 > 0.4L * e1 && e2 > 4 * floor_) r.ok = false;
  }
  return r;
}
}  // namespace fd
#endif
