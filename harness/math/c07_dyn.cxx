// C07 (part 1) — LUSolve / LUDecomp + back substitution / QRDecomp on matrix<T>, and LUSolve on
// tmatrix<N,N,T>  (DESIGN.md §4.1 C07).  Oracle: c07_ref.hxx (long-double full-pivot Gauss-Jordan).
#define VFH_MAIN
#include "c07_ref.hxx"
#include "TFEL/Math/vector.hxx"
#include "TFEL/Math/matrix.hxx"
#include "TFEL/Math/tvector.hxx"
#include "TFEL/Math/tmatrix.hxx"
#include "TFEL/Math/LUSolve.hxx"
#include "TFEL/Math/QR/QRDecomp.hxx"

using namespace c07;
namespace tfm = tfel::math;
template <typename T, unsigned short N>
static void tmatrix_case(const Case<T>& c) {
  for (int k = 0; k < NRHS; ++k) {
    Out o = guarded([&](Out& out) {
      tfm::tmatrix<N, N, T> m; tfm::tvector<N, T> b;
      for (int i = 0; i < N; ++i) { for (int j = 0; j < N; ++j) m(i, j) = static_cast<T>(c.A(i, j)); b(i) = static_cast<T>(c.B[k][i]); }
      tfm::LUSolve::exe(m, b);
      for (int i = 0; i < N; ++i) out.x.push_back(L(b(i)));
    });
    judge(c, "LUSolve::exe(tmatrix,tvector)", k, o);
  }
}

template <typename T>
static void one_case(const vf::Args& a, uint64_t idx, const char* tname) {
  Case<T> c;
  make_case(c, a, idx, tname);
  const int n = c.n;
  using size_type = tfm::index_type<tfm::matrix<T>>;
  auto load = [&](tfm::matrix<T>& m) { for (int i = 0; i < n; ++i) for (int j = 0; j < n; ++j) m(i, j) = static_cast<T>(c.A(i, j)); };
  auto loadv = [&](tfm::vector<T>& b, int k) { for (int i = 0; i < n; ++i) b(i) = static_cast<T>(c.B[k][i]); };
  auto grab = [&](Out& o, const tfm::vector<T>& b) { o.x.clear(); for (int i = 0; i < n; ++i) o.x.push_back(L(b(i))); };

  // ---- LUSolve::exe(m, b)
  vf::set_case("LUSolve::exe(matrix,vector)", c.S, idx);
  for (int k = 0; k < NRHS; ++k) {
    Out o = guarded([&](Out& out) { tfm::matrix<T> m(n, n); tfm::vector<T> b(n); load(m); loadv(b, k); tfm::LUSolve::exe(m, b); grab(out, b); });
    judge(c, "LUSolve::exe(matrix,vector)", k, o);
  }
  // ---- LUSolve::exe(m, b, x, p) then back_substitute on the factorised matrix for the other right-hand sides
  vf::set_case("LUSolve::exe(matrix,vector,x,p)", c.S, idx);
  {
    tfm::matrix<T> m(n, n); tfm::vector<T> b(n), x(n); tfm::Permutation<size_type> p(n);
    load(m); loadv(b, 0);
    bool factorised = false;
    Out o = guarded([&](Out& out) { tfm::LUSolve::exe(m, b, x, p); factorised = true; grab(out, b); });
    judge(c, "LUSolve::exe(matrix,vector,x,p)", 0, o);
    if (factorised) {
      for (int k = 1; k < NRHS; ++k) {
        Out o2 = guarded([&](Out& out) { tfm::vector<T> b2(n); loadv(b2, k); tfm::LUSolve::back_substitute(m, b2, x, p); grab(out, b2); });
        judge(c, "LUSolve::back_substitute(matrix)", k, o2);
      }
    }
  }
  // ---- LUDecomp<true> / LUDecomp<false> + back substitution (matrix right-hand side = NRHS columns)
  vf::set_case("LUDecomp+back_substitute", c.S, idx);
  for (int flavour = 0; flavour < 2; ++flavour) {
    const char* api = flavour ? "LUDecomp<false>+back_substitute" : "LUDecomp<true>+back_substitute";
    tfm::matrix<T> m(n, n); tfm::vector<T> x(n); tfm::Permutation<size_type> p(n);
    load(m);
    bool ok = false; std::string how;
    Out od = guarded([&](Out&) {
      if (flavour) { const auto r = tfm::LUDecomp<false>::exe(m, p); ok = r.first; if (!ok) how = "LUDecomp returned false"; }
      else { tfm::LUDecomp<true>::exe(m, p); ok = true; }
    });
    if (od.reported || !ok) {
      Out o; o.reported = true; o.how = od.reported ? od.how : how;
      judge(c, api, 0, o);
      continue;
    }
    for (int k = 0; k < NRHS; ++k) {
      Out o = guarded([&](Out& out) { tfm::vector<T> b(n); loadv(b, k); tfm::LUSolve::back_substitute(m, b, x, p); grab(out, b); });
      judge(c, api, k, o);
    }
  }
  // ---- QR: exe + tq_product + back_substitute.  Exactly reportable singularities: zero column / zero matrix
  vf::set_case("QRDecomp", c.S, idx);
  for (int k = 0; k < NRHS; ++k) {
    Out o = guarded([&](Out& out) {
      tfm::matrix<T> m(n, n); tfm::vector<T> rdiag(n), beta(n), b(n); load(m); loadv(b, k);
      tfm::QRDecomp::exe(m, rdiag, beta); tfm::QRDecomp::tq_product(b, m, beta); tfm::QRDecomp::back_substitute(b, m, rdiag); grab(out, b);
    });
    judge(c, "QRDecomp::exe+tq_product+back_substitute", k, o, c.st == S_ZERO_COL || c.st == S_ZERO);
  }
  // ---- LUSolve on fixed-size objects
  vf::set_case("LUSolve::exe(tmatrix,tvector)", c.S, idx);
  switch (n) {
    case 1: tmatrix_case<T, 1>(c); break; case 2: tmatrix_case<T, 2>(c); break; case 3: tmatrix_case<T, 3>(c); break;
    case 4: tmatrix_case<T, 4>(c); break; case 5: tmatrix_case<T, 5>(c); break; case 6: tmatrix_case<T, 6>(c); break;
    case 7: tmatrix_case<T, 7>(c); break; case 8: tmatrix_case<T, 8>(c); break; case 9: tmatrix_case<T, 9>(c); break;
    case 10: tmatrix_case<T, 10>(c); break; case 11: tmatrix_case<T, 11>(c); break; default: tmatrix_case<T, 12>(c);
  }
}

int main(int argc, char** argv) {
  vf::Args a(argc, argv);
  for (long i = 0; i < a.cases; ++i) {
    const uint64_t idx = a.only >= 0 ? uint64_t(a.only) : a.gidx(i);
    switch ((idx / NSTRATA) % 3) {
      case 0: one_case<double>(a, idx, "double"); break;
      case 1: one_case<float>(a, idx, "float"); break;
      default: one_case<long double>(a, idx, "ldouble");
    }
    if (a.only >= 0) break;
  }
  R.finish();
  return 0;
}
