"""C12 — Gauss-Kronrod quadrature and Runge-Kutta integrators achieve their stated order."""
import re

import vfcore

META = {
    "engine": "math", "level": "exploration", "design_ref": "DESIGN.md §4.1 C12",
    "technique": "ASan+UBSan harness: GaussKronrodQuadrature on random polynomials with exactly known integrals and on "
                 "analytic integrands with closed forms (finite, half-infinite, infinite ranges); RungeKutta2/4/42/54 on "
                 "y'=p(t) with the right-hand side logging every stage time",
    "text": "GK: degree 0..22 polynomials in the local variable of random intervals (length 1e-6..1e6, offsets up to 1e6, "
            "coefficient scales 1e-6..1e6; float, double, long double): 15-point value vs exact integral, error estimate "
            "vs 0 up to degree 13, bitwise sign change on swapped bounds, no value for NaN bounds / zero refinements / "
            "same-signed infinities, adaptive value within requested tolerance whenever a value is returned.  Analytic: "
            "seed-independent grid for e^{-x^2}, 1/(1+x^2), cos(wx+p) over 90 ordered pairs of finite bounds plus half-infinite "
            "and infinite ranges (inf and numeric_limits::max spellings) x tolerances {1e-6,1e-10} x refinements {3,8,12}; random "
            "e^{cx} and x^m (derivatives of constant sign).  RK: polynomial right-hand sides of degree < order "
            "(2,4,4,5), fixed-step exe() with exactly representable (dyadic) and generic h=(end-begin)/n steps, adaptive "
            "iterate() with dt0 >=, < and << the span; final state vs exact integral up to the time actually reached, and "
            "time reached vs requested final time.  Held on the cases executed only.",
    "note": "Trusted: long-double Horner evaluation and closed forms (erfl, atanl, sinl, expm1l).  The Kronrod/Gauss nodes and "
            "weights of the library are 15-digit decimal literals (their sum is 2-6e-15): K=2048 eps (256 for float) is sized on "
            "that, long double is judged with the double epsilon.  Intervals with eps*max|x|/halfwidth*deg > 1e-4 are skipped "
            "and counted.  The analytic grid is seed independent because |K15-G7| can vanish by coincidence for integrands "
            "whose derivatives change sign (the property restricts the claim to reliable estimates).  RungeKutta42/54 do "
            "not report their final time: it is read from the stage times handed to the right-hand side (t+dt of the last "
            "trial step, which is necessarily an accepted one).  RungeKutta54<1,...> and RungeKutta54<N,...,float> do not "
            "compile and are not exercised.",
}

SRC = vfcore.VERIF / "harness/math/c12.cxx"


def keymap(key, e):
    api, st = e.get("api", ""), e.get("stratum", "")
    m = re.match(r"(RungeKutta\d+)<[^>]*>/final-time$", api)
    if m:
        if m.group(1) in ("RungeKutta2", "RungeKutta4"):
            return "%s:exe:%s:final-time-overshoot" % (m.group(1), st)
        return "%s:iterate:final-time-not-reached" % m.group(1)
    return key


def build(ctx):
    bins = {"asan": vfcore.compile_cxx("c12", [SRC], "asan")}
    if ctx.thorough:
        bins["O2"] = vfcore.compile_cxx("c12", [SRC], "O2")
    return bins


def run(ctx):
    bins = build(ctx)
    ctx.cov["rule"] = ("case index mod 16 selects the family (GK polynomial x3 types, NaN bounds, random analytic, RK2/RK4 double+float, "
                       "RK42<1>, RK42<2> double+float, RK54<2>); inputs from (VERIF_SEED, index); the analytic grid (about 4600 "
                       "integrations) runs once in shard 0 and does not depend on the seed; distinct = hash of rounded inputs")
    req = []
    for t in ("double", "float", "ldouble"):
        for st in ("deg<=13", "deg14..22"):
            req += [("gk(f,a,b)/exact-degree<=22<%s>" % t, st, 50), ("gk(f,b,a)/antisymmetric<%s>" % t, st, 50),
                    ("gk(f,a,b,params)/within-tolerance<%s>" % t, st, 20)]
        req += [("gk(f,a,b)/error-estimate<%s>" % t, "deg<=13", 50), ("gk/nan-bounds<%s>" % t, None, 5)]
    for f in ("exp(-x^2)", "1/(1+x^2)"):
        for st in ("finite", "half-infinite", "infinite"):
            req.append(("gk(f,a,b,params)/%s" % f, st, 20))
    req += [("gk(f,a,b,params)/cos(5x+0)", "finite", 100), ("gk(f,a,b,params)/exp(cx)", None, 50), ("gk(f,a,b,params)/x^m", None, 50)]
    for c in ("RungeKutta2<2,double>", "RungeKutta4<2,double>", "RungeKutta2<2,float>", "RungeKutta4<2,float>"):
        for st in ("dyadic-step", "generic-step"):
            req += [(c + "/exact-for-degree<order", st, 10), (c + "/final-time", st, 10)]
    for c in ("RungeKutta42<1,double>", "RungeKutta42<2,double>", "RungeKutta42<2,float>", "RungeKutta54<2,double>"):
        for st in ("dt0>=span", "dt0<span", "dt0<<span"):
            req += [(c + "/exact-for-degree<order", st, 10), (c + "/final-time", st, 10)]
    ctx.run_events(bins["asan"], ctx.n(64000, 1000000), require=req, keymap=keymap, timeout=3600)
    if ctx.thorough:
        ctx.run_events(bins["O2"], 2000000, require=[], keymap=keymap, timeout=3600)
    ctx.assumptions += [
        "RK2/RK4 generic-step: h is (end-begin)/n rounded to the scalar type; the reported time may differ from the requested one by "
        "the accumulated rounding 8 eps (n+2) max|t|, not by a step",
        "RK polynomial exactness is judged up to the time actually reached so that it is independent of the final-time defect",
    ]
