"""C37 — generated material properties compute the declared law (DESIGN.md §4.4)."""
import math

import gen
import mpgen
import vfcore

META = {
    "engine": "gen", "level": "exploration", "design_ref": "DESIGN.md §4.4 C37",
    "technique": "random MaterialLaw programs (expression trees, locals, parameters, bounds, layouts, @Data tables) -> current mfront -> g++ -> c / c++ / generic interfaces called through ctypes in worker processes; values compared with the same fully parenthesised tree evaluated in Python with libm, with parameter defaults, after setParameter and with a parameter file",
    "text": "Material properties with 0..6 inputs, 0..4 parameters, local const temporaries, single-line / multi-line @Function bodies, optional bounds and physical bounds on inputs and output, @Material/@Law names, typed scalars, @UseQt, and @Data tables (linear / cubic spline, extrapolation on/off) are generated, compiled for the c, c++ (class call operator through a generated extern \"C\" driver) and generic interfaces and called on random points of their domain. Each value is compared (1e-12 relative + a running rounding-error bound) with the law evaluated independently in Python by the C library's own functions in the same association order; tables against an independent linear / natural-cubic-spline (second-derivative formulation) interpolation. Parameters: defaults, after <law>_setParameter / set<p>, and with a <law>-parameters.txt file in the cwd of a fresh process. A well-formed file that mfront refuses or whose generated code does not compile is a violation.",
    "note": "Trusted: g++, libm (same library on both sides), ctypes calling convention (layouts cross-checked with offsetof). Points where the reference is non-finite, outside a domain, or where a comparison of the law is decided by rounding are skipped and counted. Numbers are declared with <= 5 significant digits in the main stratum; the 'long-digits' stratum (8..12 digits) is where printing-precision defects of the generator show.",
}

QUICK = {"function": 24, "data": 18, "points": 200}
THOROUGH = {"function": 240, "data": 60, "points": 200}

# small fixed witnesses of front-end forms that the random programs avoid (each has its own key)
FORMS = [
    ("parameter-declared-with-braces", "@Parameter real a{2.5};", "documented in MaterialLaw-keywords.md: `@Parameter Q1{1000000000},b1{0.000001};`"),
    ("parameter-declared-with-parentheses", "@Parameter real a(2.5);", "documented in MaterialLaw-keywords.md: `@Parameter Q2(0),b2(0);`"),
    ("parameter-declared-with-list", "@Parameter real a = 2.5, b = 1.5;", "documented in MaterialLaw-keywords.md: `@Parameter Q1{..},b1{..};`"),
    ("two-sided-bounds-with-upper-only-physical-bounds", "@Parameter real a = 2.5;\n@PhysicalBounds x in ]*:100];\n@Bounds x in [-10:50];",
     "[-10:50] is contained in ]*:100]"),
    ("two-sided-bounds-with-lower-only-physical-bounds", "@Parameter real a = 2.5;\n@PhysicalBounds x in [-100:*[;\n@Bounds x in [-10:50];",
     "[-10:50] is contained in [-100:*["),
]


def build(ctx):
    vfcore.ensure_tree("plain")
    gen.check_layout()
    return mpgen.shim()


def make_programs(ctx):
    n = ctx.n(QUICK, THOROUGH)
    progs = []
    for i in range(n["function"]):
        rng = vfcore.rng(ctx.seed, "c37", "f", i)
        digits = "long" if i % 4 == 3 else "short"
        useqt = (i % 12 == 5)
        layout = mpgen.LAYOUTS[i % 3] if i < 9 else None
        # under @UseQt `c ? 2.5 : x` mixes double and qt<NoUnit> operands, which C++ rejects: no conditional there
        spec = mpgen.random_spec(rng, i, digits=digits, useqt=useqt, layout=layout, conditional=not useqt)
        progs.append({"spec": spec, "rng": rng, "text": mpgen.mfront_text(spec, rng)})
    combos = mpgen.DATA_COMBINATIONS
    for i in range(n["data"]):
        rng = vfcore.rng(ctx.seed, "c37", "d", i)
        # every documented spelling of (interpolation, extrapolation) on a real table (>= 2 nodes) in turn; after each full
        # cycle three free programs (no input, single node, random options)
        j = i % (len(combos) + 3)
        if j < len(combos):
            spec = mpgen.random_data_spec(rng, 1000 + i, interp=combos[j][0], extra=combos[j][1], has_in=True, nodes=rng.choice((2, 3, 4, 5, 8)))
        else:
            spec = mpgen.random_data_spec(rng, 1000 + i, has_in=(j != len(combos)), nodes=1 if j == len(combos) + 1 else None)
        progs.append({"spec": spec, "rng": rng, "text": mpgen.mfront_text(spec, rng)})
    return progs, n["points"]


def build_key(spec):
    """features that enter the key of a generation / compilation failure"""
    return "+".join(f for f in mpgen.features(spec).split("+") if f != "no-input")


def stratum(spec):
    s = mpgen.features(spec)
    if spec["digits"] == "long":
        s += "+long-digits"
    return s


def data_options(spec):
    d = spec["data"]
    if not spec["inputs"]:
        return "no-input"
    sp = lambda v: "absent" if v is None else ("true" if v is True else "false" if v is False else '"%s"' % v)
    return "interpolation=%s:extrapolation=%s%s" % (sp(d["interp_decl"]), sp(d["extrapolation"]), ":single-node" if len(d["x"]) == 1 else "")


def outside_table(spec, pt):
    if not spec["inputs"]:
        return False
    x = [float(v) for v in spec["data"]["x"]]
    return pt[0] < x[0] or pt[0] > x[-1]


def tolerance(spec, ref, eb):
    if spec["kind"] == "data":
        return 1e-10 * (mpgen.data_scale(spec) + abs(ref))
    return 1e-12 * abs(ref) + 16 * eb + 1e-300


def judge(ctx, prog, iface, scen, calls, pts, pvals, stats):
    """compare the observed values of one (program, interface, scenario) with the oracle"""
    spec = prog["spec"]
    p6 = {p["name"]: mpgen.printed6(p["value"]) for p in spec["params"]} if spec["params"] else None
    for pt, c in zip(pts, calls):
        r = mpgen.law_value(spec, pt, pvals)
        if r is None or not math.isfinite(r[0]) or r[2] == 0.0:
            stats["skipped"] += 1
            continue
        ref, eb, _ = r
        if spec["kind"] == "function" and eb > 1e-6 * abs(ref) + 1e-290:
            stats["skipped"] += 1
            continue
        pb = spec["output"].get("pbounds")
        if pb and pvals and any(k in pb and abs(ref - pb[k]) <= 1e-9 * abs(pb[k]) + 16 * eb or mpgen.outside(pb, ref) for k in ("lo", "hi")):
            # a changed parameter moved the law out of (or onto) the physical bounds of the output, which were derived
            # from the default values: the call contract there is C38's subject
            stats["skipped"] += 1
            continue
        obs = mpgen.unf(c["v"])
        tol = tolerance(spec, ref, eb)
        err = abs(obs - ref) if obs == obs else float("inf")
        stats["n"] += 1
        if spec["kind"] == "data" and outside_table(spec, pt):
            d = ctx.cov.setdefault("data_outside_table_points_judged", {})
            d[data_options(spec)] = d.get(data_options(spec), 0) + 1
        if err <= tol:          # ratio over the accepted values (the violating ones are reported one by one)
            stats["max_ratio"] = max(stats["max_ratio"], err / tol)
        case = {"file": mpgen.fname(spec) + ".mfront", "mfront": prog["text"], "interface": iface, "scenario": scen, "args": pt,
                "parameters": pvals, "observed": repr(obs), "expected": repr(ref), "tol": tol, "call": c}
        st = c.get("status", 0)
        if st != 0:
            ctx.violation("%s:%s:unexpected-status" % (iface, scen),
                          "%s interface reports status %s (%s) inside the declared bounds" % (iface, st, c.get("msg", "")[:200]), case)
            continue
        if err <= tol:
            continue
        key = "%s:%s:value-differs" % (iface, scen)
        if spec["kind"] == "data":
            key = "%s:data:%s:%s:value-differs" % (iface, data_options(spec), "outside-table" if outside_table(spec, pt) else "inside-table")
        if p6 and scen != "parameter-file" and spec["kind"] == "function":
            # would the value be explained by defaults written with a stream's default precision?
            r6 = mpgen.law_value(spec, pt, dict(p6, **(pvals or {})))
            if r6 is not None and abs(obs - r6[0]) <= tolerance(spec, r6[0], r6[1]):
                key = "%s:parameter-default-printed-with-6-digits" % iface
        ctx.violation(key, "%s(%s) = %r through the %s interface (%s), the declared law gives %r (|diff| %.3g > tol %.3g)"
                      % (mpgen.fname(spec), ", ".join(repr(a) for a in pt), obs, iface, scen, ref, err, tol), case)


def run(ctx):
    sh = build(ctx)
    progs, npts = make_programs(ctx)
    ctx.cov["rule"] = ("program = random MaterialLaw file (distinct by text hash); case = (program, interface, parameter scenario, point); "
                       "non-trivial = reference finite and decided; distinct = distinct (program, point)")
    root = ctx.work / "p"

    # ---- fixed front-end witnesses (mfront only)
    def form(f):
        tag, decl, doc = f
        spec = {"law": "VfForm%d" % FORMS.index(f), "material": ""}
        text = "@DSL MaterialProperty;\n@Law %s;\n@Input real x;\n%s\n@Function{\n  res = a*x;\n}\n" % (spec["law"], decl)
        return f, text, mpgen.generate_spec(root / spec["law"], spec, text, ["c"])
    for (tag, decl, doc), text, r in vfcore.pmap(form, FORMS):
        ctx.count("front-end-forms")
        if mpgen.tool_unavailable(r):
            ctx.inconc("mfront could not be run (tree being rebuilt?): rc=%s %s" % (r.rc, r.err[-300:]))
        elif r.rc != 0:
            ctx.violation("mfront:%s:does-not-generate" % tag,
                          "mfront refuses `%s` (%s): %s" % (decl.replace("\n", " "), doc, " / ".join((r.out + r.err).strip().splitlines()[1:3])),
                          {"mfront": text, "output": (r.out + r.err)[-1500:]})

    # ---- generate
    def g(k):
        p = progs[k]
        p["dir"] = root / ("%04d" % k)
        p["gen"] = mpgen.generate_spec(p["dir"], p["spec"], p["text"])
        return k
    vfcore.pmap(g, range(len(progs)))
    jobs = []
    for k, p in enumerate(progs):
        r = p["gen"]
        p["res"] = {}
        ctx.add_distinct(vfcore.sha(p["text"]))
        ctx.count("programs:" + p["spec"]["kind"])
        ctx.count("stratum:" + stratum(p["spec"]))
        if r.timed_out or mpgen.tool_unavailable(r):
            ctx.inconc("mfront could not be run on %s (watchdog, or tree being rebuilt): rc=%s %s" % (mpgen.fname(p["spec"]), r.rc, r.err[-300:]))
            continue
        if r.rc != 0:
            ctx.violation("mfront:%s:does-not-generate" % build_key(p["spec"]),
                          "mfront refuses a well-formed generated file: %s" % mpgen.first_error(r.out + r.err),
                          {"mfront": p["text"], "output": (r.out + r.err)[-2000:]})
            continue
        jobs += [(k, i) for i in mpgen.IFACES]

    def comp(j):
        k, i = j
        return j, mpgen.compile_iface(progs[k]["dir"], progs[k]["spec"], i)
    for (k, i), res in vfcore.pmap(comp, jobs):
        p = progs[k]
        p["res"][i] = res
        ctx.count("compiled:%s:%s" % (i, res["stage"]))
        if res["stage"] != "ok" and mpgen.link_race(res["log"]):
            ctx.inconc("compilation disturbed by a concurrent rebuild of the TFEL libraries: %s" % mpgen.first_error(res["log"]))
        elif res["stage"] != "ok":
            ctx.violation("%s:%s:does-not-compile" % (i, build_key(p["spec"])),
                          "the %s source generated from %s.mfront does not compile: %s" % (i, mpgen.fname(p["spec"]), mpgen.first_error(res["log"])),
                          {"mfront": p["text"], "interface": i, "compiler": res["log"][-2500:]})

    # ---- call (one fresh process per program and parameter scenario)
    env = {"LD_LIBRARY_PATH": vfcore.ld_path("plain")}
    work = []
    for k, p in enumerate(progs):
        spec = p["spec"]
        libs = {i: r["lib"] for i, r in p["res"].items() if r["lib"]}
        if not libs:
            continue
        rng = p["rng"]
        p["pts"] = mpgen.points(spec, rng, npts)
        hexpts = [[mpgen._f(x) for x in pt] for pt in p["pts"]]
        base = {"libs": libs, "name": mpgen.fname(spec), "nin": len(spec["inputs"]), "params": [q["name"] for q in spec["params"]],
                "points": hexpts, "shim_path": str(sh)}
        d0 = p["dir"] / "cwd0"
        d0.mkdir(exist_ok=True)
        setp = []
        for i, q in enumerate(spec["params"]):
            if rng.random() < 0.75:
                v = mpgen.numtext(q["value"] * rng.uniform(0.8, 1.2), rng.randint(3, 15))[1]
                setp.append([rng.choice((q["name"], mpgen.ext_name(q))), i, mpgen._f(v)])
        p["setp"] = setp
        work.append((k, "A", dict(base, cwd=str(d0), setp=setp)))
        if spec["params"] and "generic" in libs:
            d1 = p["dir"] / "cwd1"
            d1.mkdir(exist_ok=True)
            lines, filep = ["# parameters of %s written by the C37 monitor" % mpgen.fname(spec), ""], {}
            for q in spec["params"]:
                if rng.random() < 0.7:
                    v = mpgen.numtext(q["value"] * rng.uniform(0.8, 1.2), rng.randint(3, 15))[1]
                    filep[q["name"]] = v
                    lines.append("%s %s%r" % (rng.choice((q["name"], mpgen.ext_name(q))), rng.choice((" ", "\t", "   ")), v))
                    if rng.random() < 0.3:
                        lines.append("   ")
            (d1 / (mpgen.fname(spec) + "-parameters.txt")).write_text("\n".join(lines) + "\n")
            p["filep"] = filep
            work.append((k, "B", dict(base, libs={"generic": libs["generic"]}, cwd=str(d1), setp=None)))

    def call(w):
        k, scen, args = w
        return w, vfcore.call_worker(ctx, "mpgen", "w_values", args, timeout=1200, tag="c37-%d%s" % (k, scen), env=env)
    stats = {}
    for (k, scen, args), (res, r) in vfcore.pmap(call, work):
        p = progs[k]
        spec = p["spec"]
        if res is None:
            crash = ctx.classify_crash(r)
            if crash and crash != "hang":
                ctx.violation("crash:%s:%s" % (crash, mpgen.features(spec)), "generated material property crashed its caller: %s\n%s" % (crash, r.err[-1500:]),
                              {"mfront": p["text"], "stderr": r.err[-3000:]})
            else:
                ctx.inconc("worker failed on %s: rc=%s %s" % (mpgen.fname(spec), r.rc, r.err[-800:]))
            continue
        for iface, msg in res.get("open_errors", {}).items():
            ctx.violation("%s:entry-point-not-exported%s" % (iface, "" if spec["inputs"] else ":no-input"),
                          "the %s library of %s.mfront compiled with the project's flags (-fvisibility=hidden) does not export its entry point: %s"
                          % (iface, mpgen.fname(spec), msg), {"mfront": p["text"], "interface": iface, "error": msg})
        for iface, calls in res["first"].items():
            s = stats.setdefault((iface, "defaults" if scen == "A" else "parameter-file"), {"n": 0, "skipped": 0, "max_ratio": 0.0})
            if scen == "A":
                judge(ctx, p, iface, "defaults", calls, p["pts"], None, s)
            else:
                judge(ctx, p, iface, "parameter-file", calls, p["pts"], p["filep"], s)
        if scen == "A" and p["setp"]:
            pv = {spec["params"][i]["name"]: mpgen.unf(v) for _, i, v in p["setp"]}
            for iface, calls in res["set"].items():
                s = stats.setdefault((iface, "setParameter"), {"n": 0, "skipped": 0, "max_ratio": 0.0})
                judge(ctx, p, iface, "setParameter", calls, p["pts"], pv, s)
            if "generic" in res["set"]:
                ctx.count("setParameter-calls", len(res["setrc"]))
                if any(rc != 1 for rc in res["setrc"]):
                    ctx.count("setParameter-returned-0-for-a-declared-name")
        if len(ctx.cov["samples"]) < 4 and res["first"]:
            i0 = sorted(res["first"])[0]
            ctx.sample({"file": mpgen.fname(spec), "stratum": stratum(spec), "interface": i0, "args": p["pts"][0] if p["pts"] else [],
                        "value": repr(mpgen.unf(res["first"][i0][0]["v"])) if res["first"][i0] else None})
    seen = ctx.cov.get("data_outside_table_points_judged", {})
    for it, ex in mpgen.DATA_COMBINATIONS:
        spec0 = {"inputs": [1], "data": {"interp_decl": it, "extrapolation": ex, "x": [0, 1]}}
        k = data_options(spec0)
        ctx.require(seen.get(k, 0) >= 10, "@Data spelling %s: %d < 10 points outside the table judged" % (k, seen.get(k, 0)))
    tab = ctx.cov.setdefault("strata", {})
    for (iface, scen), s in sorted(stats.items()):
        ctx.add_eval(s["n"])
        tab["%s:%s" % (iface, scen)] = {"n": s["n"], "skipped": s["skipped"], "max_err_over_tol": float("%.3g" % s["max_ratio"])}
    for iface in mpgen.IFACES:
        for scen in ("defaults",) + (("setParameter",) if iface != "c" else ()) + (("parameter-file",) if iface == "generic" else ()):
            n = stats.get((iface, scen), {"n": 0})["n"]
            ctx.require(n >= 50, "planned stratum %s:%s judged %d < 50 values" % (iface, scen, n))
