// C23 — finite-strain tangent operator and stress conversions are exact (DESIGN.md §4.1).
// One binary per space dimension: compile c23.cxx + c23_p0..3.cxx with -DC23_DIM=1|2|3.
//
// A hyperelastic response with closed-form stresses (compressible neo-Hookean, Saint-Venant-Kirchhoff, Hencky) is
// evaluated in long double (fs_ref.hxx); every tangent operator flag gets a reference value from Richardson central
// differences of the *target* stress with respect to the *target* kinematic variable (definitions in fs_ref.hxx).  The
// library is asked at compile time which conversions exist (completeness of the specialisation
// FiniteStrainBehaviourTangentOperatorConverter<To,From>, c23_common.hxx); for each of them
//   convert<To,From>(double(K_From_ref), F0, F1, sigma) is judged against K_To_ref,
//   convert<A,C> against convert<A,B> o convert<B,C>, convert<A,B> o convert<B,A> against the identity,
// and the stress conversions against their definitions and round trips.
#define VFH_MAIN
#include "fs_ref.hxx"
#include "c23_common.hxx"
#include "TFEL/Math/T2toST2/ConvertKirchhoffStressJaumanRateModuliToKirchhoffStressDerivative.hxx"

using namespace ref;
using namespace c23;

static vf::Reporter R;
static constexpr L EPS = std::numeric_limits<double>::epsilon();
static constexpr L KC = 256;  // safety factor of the rounding allowance (see the tolerance rule below)
static_assert(ns == ssize(N) && nt == tsize(N));

// the reference enumeration must be the library's one
static_assert(int(FB::DSIG_DF) == fsr::DSIG_DF && int(FB::DSIG_DDF) == fsr::DSIG_DDF && int(FB::C_TRUESDELL) == fsr::C_TRUESDELL &&
              int(FB::SPATIAL_MODULI) == fsr::SPATIAL_MODULI && int(FB::C_TAU_JAUMANN) == fsr::C_TAU_JAUMANN &&
              int(FB::ABAQUS) == fsr::ABAQUS && int(FB::DSIG_DDE) == fsr::DSIG_DDE && int(FB::DTAU_DF) == fsr::DTAU_DF &&
              int(FB::DTAU_DDF) == fsr::DTAU_DDF && int(FB::DS_DF) == fsr::DS_DF && int(FB::DS_DDF) == fsr::DS_DDF &&
              int(FB::DS_DC) == fsr::DS_DC && int(FB::DS_DEGL) == fsr::DS_DEGL && int(FB::DT_DELOG) == fsr::DT_DELOG &&
              int(FB::DPK1_DF) == fsr::DPK1_DF && NF == fsr::NFLAGS, "flag enumeration changed: update fs_ref.hxx");

namespace c23 {
ConvFn TABLE[NF][NF];
int ROWS[NF], COLS[NF];
const char* TYPES[NF];
}

static void fill_table() {
  fill_part0(); fill_part1(); fill_part2(); fill_part3();
  for_flags([](auto a) {
    constexpr auto A = FB::Flag(decltype(a)::value);
    if constexpr (has_type<A>) {
      using KA = tmat::tangent_operator<A, N, real>;
      ROWS[A] = rows_of<KA>(); COLS[A] = cols_of<KA>(); TYPES[A] = type_of<KA>();
    } else {
      ROWS[A] = COLS[A] = 0; TYPES[A] = nullptr;
    }
  }, AllFlags{});
}

// ---- conversions between long-double matrices and library objects ------------------------------------------------
static TensorN mk_t(const M3& m) { TensorN t; const auto v = to_t(m, N); for (int k = 0; k < nt; ++k) t[k] = double(v[k]); return t; }
static StensorN mk_s(const M3& m) { StensorN s; const auto v = to_st(m, N); for (int k = 0; k < ns; ++k) s[k] = double(v[k]); return s; }
static AnyK round_km(const fsr::KM& k) {
  AnyK r; r.nr = k.nr; r.nc = k.nc;
  for (auto& row : r.a) for (double& x : row) x = 0;
  for (int p = 0; p < k.nr; ++p) for (int q = 0; q < k.nc; ++q) r.a[p][q] = double(k.a[p][q]);
  return r;
}
static L dist(const AnyK& a, const fsr::KM& b) {
  L s = 0;
  for (int p = 0; p < b.nr; ++p) for (int q = 0; q < b.nc; ++q) { const L d = L(a.a[p][q]) - b.a[p][q]; s += d * d; }
  return std::sqrt(s);
}
static L dist(const AnyK& a, const AnyK& b) {
  L s = 0;
  for (int p = 0; p < a.nr; ++p) for (int q = 0; q < a.nc; ++q) { const L d = L(a.a[p][q]) - L(b.a[p][q]); s += d * d; }
  return std::sqrt(s);
}

// ---- case generation ------------------------------------------------------------------------------------------
static const char* const STRATA[] = {"moderate", "large", "rot-pi", "pure-stretch", "equal-stretches", "near-identity"};
static constexpr int NSTRATA = 6;

// principal stretches, log-uniform in [lo,hi], pairwise at least `mingap` apart in logarithm
static void gen_stretches(vf::Rng& g, L lo, L hi, L mingap, L* a) {
  for (int tries = 0; tries < 1000; ++tries) {
    for (int i = 0; i < 3; ++i) a[i] = std::exp(g.uni(double(std::log(lo)), double(std::log(hi))));
    bool ok = true;
    for (int i = 0; i < 3; ++i) for (int j = i + 1; j < 3; ++j) ok = ok && std::fabs(std::log(a[i] / a[j])) >= mingap;
    if (ok) return;
  }
}
static M3 rot_axis_angle(vf::Rng& g, L theta) {
  if (N == 1) return eye();
  L n[3] = {0, 0, 1};
  if (N == 3) { L s = 0; do { s = 0; for (L& x : n) { x = g.normal(); s += x * x; } } while (s < 1e-6L); for (L& x : n) x /= std::sqrt(s); }
  const L c = std::cos(theta), sn = std::sin(theta);
  M3 r;
  const L K[3][3] = {{0, -n[2], n[1]}, {n[2], 0, -n[0]}, {-n[1], n[0], 0}};
  for (int i = 0; i < 3; ++i) for (int j = 0; j < 3; ++j) r[i][j] = c * (i == j ? 1 : 0) + sn * K[i][j] + (1 - c) * n[i] * n[j];
  return r;
}
static M3 gen_U(vf::Rng& g, const L* a) {
  const M3 q = random_rotation(g, N);
  M3 d = zero();
  for (int i = 0; i < 3; ++i) d[i][i] = a[i];
  return sym(mul(mul(q, d), tr(q)));
}
static M3 gen_F(vf::Rng& g, int st) {
  static const L PI = 3.14159265358979323846264338327950288L;
  L a[3];
  switch (st) {
    case 0: gen_stretches(g, 0.5L, 2, 0.02L, a); return mul(random_rotation(g, N), gen_U(g, a));
    case 1: gen_stretches(g, 0.2L, 5, 0.02L, a); return mul(random_rotation(g, N), gen_U(g, a));
    case 2: {
      gen_stretches(g, 0.3L, 3, 0.02L, a);
      const int k = g.irange(0, 3);
      const L theta = (k == 0) ? PI : PI * (1 - (k == 1 ? 0 : g.logmag(-12, -1))) * g.sign();
      return mul(rot_axis_angle(g, theta), gen_U(g, a));
    }
    case 3: gen_stretches(g, 0.2L, 5, 0.02L, a); return gen_U(g, a);
    case 4: {  // exactly equal stretches on the axes: two equal (any pair) or three equal; no rotation, so that C is exactly diagonal
      gen_stretches(g, 0.25L, 4, 0.05L, a);
      const int k = g.irange(0, 3);
      if (k == 3) a[1] = a[2] = a[0];
      else a[(k + 1) % 3] = a[(k + 2) % 3];
      M3 d = zero();
      for (int i = 0; i < 3; ++i) d[i][i] = a[i];
      return d;
    }
    default: {
      const L del = g.logmag(-8, -2);
      return add(eye(), random_gen(g, N, 1), del);
    }
  }
}

// Tolerance rule.  Every flag g is related to the spatial moduli by factors of |F| (A) and |F^-1| (B):
//   up(g)   bounds the amplification flag g -> spatial moduli,   down(g) the amplification spatial moduli -> flag g.
// Any intermediate quantity of a conversion chain is one of the flags (or a stress term), so the rounding error of a
// conversion towards `to` is bounded by  K eps E down(to)  with  E = max_g |K_g| up(g)  (stress terms included), the
// largest "spatial equivalent" magnitude met on the way.  |K_g| are the reference values of the case.
struct UpDown { L up, down; };
static UpDown updown(int f, L A, L B, L A0, L iA0, L J, L condC) {
  switch (f) {
    case fsr::SPATIAL_MODULI: case fsr::C_TAU_JAUMANN: return {1, 1};
    case fsr::C_TRUESDELL: case fsr::ABAQUS: case fsr::DSIG_DDE: return {J, 1 / J};
    case fsr::DTAU_DF: return {A, B};
    case fsr::DSIG_DF: return {A * J, B / J};
    case fsr::DTAU_DDF: return {A * iA0, B * A0};
    case fsr::DSIG_DDF: return {A * J * iA0, B * A0 / J};
    case fsr::DS_DEGL: case fsr::DS_DC: return {A * A * A * A, B * B * B * B};
    case fsr::DS_DF: return {A * A * A, B * B * B * B * A};
    case fsr::DS_DDF: return {A * A * A * iA0, B * B * B * B * A * A0};
    case fsr::DPK1_DF: return {A * A, B * B};
    case fsr::DT_DELOG: return {condC, condC};
  }
  return {1, 1};
}

static void registry_checks() {
  // "ask the library": the registry functions of src/Material/FiniteStrainBehaviourTangentOperator.cxx
  const auto flags = tmat::getFiniteStrainBehaviourTangentOperatorFlags();
  auto dump = [] { return std::string("{}"); };
  bool all = flags.size() == size_t(NF);
  bool seen[NF] = {};
  for (auto f : flags) { if (int(f) < 0 || int(f) >= NF || seen[int(f)]) all = false; else seen[int(f)] = true; }
  R.expect("registry:getFlags lists every flag once", "all", 0, 1, all, dump);
  for (int f = 0; f < NF; ++f) {
    bool ok = false, okt = false, okd = false;
    try {
      ok = tmat::convertFiniteStrainBehaviourTangentOperatorFlagToString(FB::Flag(f)) == fsr::FLAG_NAME[f];
      okt = TYPES[f] == nullptr || tmat::getFiniteStrainBehaviourTangentOperatorFlagType(FB::Flag(f)) == TYPES[f];
      if (TYPES[f] == nullptr) std::printf("@@VF {\"ev\":\"note\",\"what\":\"flag-without-tangent_operator-type<%d>:%s\",\"n\":1}\n", int(N), fsr::FLAG_NAME[f]);
      okd = !tmat::getFiniteStrainBehaviourTangentOperatorDescription(FB::Flag(f)).empty();
    } catch (std::exception&) {}
    char api[96];
    std::snprintf(api, sizeof api, "registry:flagToString(%s)", fsr::FLAG_NAME[f]); R.expect(api, "all", 0, f, ok, dump);
    std::snprintf(api, sizeof api, "registry:flagType(%s)==tangent_operator<>", fsr::FLAG_NAME[f]); R.expect(api, "all", 0, f, okt, dump);
    std::snprintf(api, sizeof api, "registry:description(%s)", fsr::FLAG_NAME[f]); R.expect(api, "all", 0, f, okd, dump);
  }
  int nsup = 0, nuns = 0;
  for (int a = 0; a < NF; ++a) for (int b = 0; b < NF; ++b) {
    if (a == b) continue;
    if (TABLE[a][b]) { ++nsup; std::printf("@@VF {\"ev\":\"note\",\"what\":\"supported<%d>:%s<-%s\",\"n\":1}\n", int(N), fsr::FLAG_NAME[a], fsr::FLAG_NAME[b]); }
    else ++nuns;
  }
  std::printf("@@VF {\"ev\":\"note\",\"what\":\"supported-pairs<%d>\",\"n\":%d}\n", int(N), nsup);
  std::printf("@@VF {\"ev\":\"note\",\"what\":\"unsupported-pairs<%d>\",\"n\":%d}\n", int(N), nuns);
}

static void one_case(const vf::Args& a, uint64_t idx) {
  vf::Rng g(a.seed, 2300 + N, idx);
  const int st = int(idx % NSTRATA);
  const char* S = STRATA[st];
  fsr::Mat m;
  m.kind = int((idx / NSTRATA) % 3);
  const L sc = (g.irange(0, 2) == 0) ? 1 : L(g.logmag(-3, 11));
  m.mu = sc * g.uni(0.3, 1.5);
  m.lam = sc * g.uni(0, 3);
  // inputs are rounded to double first: the reference sees exactly what the library sees
  const TensorN F1d = mk_t(gen_F(g, st));
  const TensorN F0d = mk_t(mul(random_rotation(g, N), [&] { L s[3]; gen_stretches(g, 0.5L, 2, 0, s); return gen_U(g, s); }()));
  const M3 F1 = from_t(F1d, N), F0 = from_t(F0d, N);
  const L J = det(F1);
  if (!(J > 0) || !(det(F0) > 0)) { R.skip("case", S); return; }
  uint64_t h = vf::hash_arr(&F1d[0], nt, vf::hash_arr(&F0d[0], nt));
  { const double mm[3] = {double(m.lam), double(m.mu), double(m.kind)}; h = vf::hash_arr(mm, 3, h); }
  auto dump = [&] {
    vf::J j;
    j.i("N", N).s("material", fsr::KIND_NAME[m.kind]).f("lambda", m.lam).f("mu", m.mu).arr("F0", &F0d[0], &F0d[0] + nt).arr("F1", &F1d[0], &F1d[0] + nt);
    return j.str();
  };
  char api[160];
  vf::Rng gw(a.seed, 2350 + N, idx);
  const fsr::Refs rf = fsr::build_refs<N>(m, F0, F1, gw);
  // the closed forms of the harness agree with each other (tau = F.S.F^T, T = R^T.tau.R)
  std::snprintf(api, sizeof api, "reference-selfcheck<%d>", int(N));
  R.check(api, S, idx, h, rf.selfcheck, 1e-13L * (rf.smax / rf.smin) * (rf.smax / rf.smin), dump);

  const StensorN sig = mk_s(rf.s.sig);
  const L A = norm(F1), B = norm(inv(F1)), A0 = norm(F0), iA0 = norm(inv(F0));
  const L condC = (rf.smax / rf.smin) * (rf.smax / rf.smin);
  L E = std::max(norm(rf.s.tau), std::max(norm(rf.s.S) * A * A, norm(rf.s.P) * A));
  for (int f = 0; f < NF; ++f) if (rf.k[f].ok && rf.k[f].nr) E = std::max(E, rf.k[f].norm() * updown(f, A, B, A0, iA0, J, condC).up);
  auto tol_round = [&](int to, int from) {
    // conversions from DT_DELOG go through the handler: inverse of dE_log/dC, conditioned like C
    return KC * EPS * E * updown(to, A, B, A0, iA0, J, condC).down * ((from == fsr::DT_DELOG) ? condC : 1);
  };

  // ---- every existing conversion against the finite-difference value of its target --------------------------------
  AnyK src[NF];
  static AnyK out[NF][NF];
  static bool have[NF][NF];
  for (int b = 0; b < NF; ++b) if (rf.k[b].ok && rf.k[b].nr) src[b] = round_km(rf.k[b]);
  for (int to = 0; to < NF; ++to) for (int from = 0; from < NF; ++from) {
    have[to][from] = false;
    if (!TABLE[to][from]) continue;
    std::snprintf(api, sizeof api, "convert<%s,%s><%d>", fsr::FLAG_NAME[to], fsr::FLAG_NAME[from], int(N));
    if (!rf.k[from].ok || !rf.k[to].ok) { R.skip(api, S); continue; }   // finite differences did not converge
    vf::set_case(api, S, idx);
    try {
      out[to][from] = TABLE[to][from](src[from], F0d, F1d, sig);
    } catch (std::exception& e) {
      R.check(api, S, idx, h, INFINITY, 1, dump, "exception");
      continue;
    }
    const L err = dist(out[to][from], rf.k[to]);
    // a conversion already in violation is not used as a leg of the composition / round-trip checks below
    have[to][from] = R.check(api, S, idx, h, err, 50 * rf.k[to].est + tol_round(to, from), dump);
  }
  // ---- composition and round trips ------------------------------------------------------------------------------
  for (int c = 0; c < NF; ++c) for (int b = 0; b < NF; ++b) {
    if (!have[b][c]) continue;
    for (int t = 0; t < NF; ++t) {
      if (!TABLE[t][b]) continue;
      if (t != c && TABLE[t][c] && !have[t][c]) { std::snprintf(api, sizeof api, "compose<%s,%s,%s><%d>", fsr::FLAG_NAME[t], fsr::FLAG_NAME[b], fsr::FLAG_NAME[c], int(N)); R.skip(api, S); continue; }
      if (!have[t][b] && rf.k[b].ok && rf.k[t].ok) {  // second leg in violation on its own reference input
        std::snprintf(api, sizeof api, "%s<%s,%s,%s><%d>", t == c ? "roundtrip" : "compose", fsr::FLAG_NAME[t], fsr::FLAG_NAME[b], fsr::FLAG_NAME[c], int(N));
        R.skip(api, S); continue;
      }
      if (t == c) {
        std::snprintf(api, sizeof api, "roundtrip<%s,%s,%s><%d>", fsr::FLAG_NAME[t], fsr::FLAG_NAME[b], fsr::FLAG_NAME[c], int(N));
        vf::set_case(api, S, idx);
        const AnyK back = TABLE[t][b](out[b][c], F0d, F1d, sig);
        R.check(api, S, idx, h, dist(back, src[c]), 8 * std::max(tol_round(t, b), tol_round(t, c)), dump);
      } else if (have[t][c]) {
        std::snprintf(api, sizeof api, "compose<%s,%s,%s><%d>", fsr::FLAG_NAME[t], fsr::FLAG_NAME[b], fsr::FLAG_NAME[c], int(N));
        vf::set_case(api, S, idx);
        const AnyK two = TABLE[t][b](out[b][c], F0d, F1d, sig);
        R.check(api, S, idx, h, dist(two, out[t][c]), 8 * std::max(tol_round(t, c), tol_round(t, b)), dump);
      }
    }
  }
  // the value-returning overload (the table uses the output-argument one), on the cheapest pair
  if (rf.k[fsr::DS_DEGL].ok) {
    std::snprintf(api, sizeof api, "convert(Ks,..)==convert(Kr,Ks,..)<%d>", int(N));
    vf::set_case(api, S, idx);
    tfm::st2tost2<N, real> ks;
    for (int p = 0; p < ns; ++p) for (int q = 0; q < ns; ++q) ks(p, q) = src[fsr::DS_DEGL].a[p][q];
    const auto kv = tmat::convert<FB::DS_DC, FB::DS_DEGL>(ks, F0d, F1d, sig);
    bool same = have[fsr::DS_DC][fsr::DS_DEGL];
    for (int p = 0; p < ns; ++p) for (int q = 0; q < ns; ++q) same = same && (kv(p, q) == out[fsr::DS_DC][fsr::DS_DEGL].a[p][q]);
    R.expect(api, S, idx, h, same, dump);
  }

  // ---- an extra, table-independent conversion: Jaumann moduli of tau -> d tau / dF -------------------------------
  if (rf.k[fsr::C_TAU_JAUMANN].ok && rf.k[fsr::DTAU_DF].ok) {
    std::snprintf(api, sizeof api, "ConvertKirchhoffStressJaumanRateModuliToKirchhoffStressDerivative<%d>", int(N));
    vf::set_case(api, S, idx);
    tfm::st2tost2<N, real> cj;
    for (int p = 0; p < ns; ++p) for (int q = 0; q < ns; ++q) cj(p, q) = src[fsr::C_TAU_JAUMANN].a[p][q];
    const StensorN tau = mk_s(rf.s.tau);
    const tfm::t2tost2<N, real> d = tfm::ConvertKirchhoffStressJaumanRateModuliToKirchhoffStressDerivative<N, real>::exe(cj, F1d, tau);
    AnyK o; o.nr = ns; o.nc = nt;
    for (int p = 0; p < ns; ++p) for (int q = 0; q < nt; ++q) o.a[p][q] = d(p, q);
    R.check(api, S, idx, h, dist(o, rf.k[fsr::DTAU_DF]), 50 * rf.k[fsr::DTAU_DF].est + tol_round(fsr::DTAU_DF, fsr::C_TAU_JAUMANN), dump);
  }

  // ---- stress measures: definitions and round trips -------------------------------------------------------------
  {
    const M3 sg = from_st(sig, N);          // the rounded Cauchy stress is the input
    const M3 iF = inv(F1);
    const L nsg = norm(sg);
    // the library divides by det(F) evaluated in double: relative error eps |F|^3 / J (>= 1 by the AM-GM inequality)
    const L dc = A * A * A / (5.196152422706632L * J);
    auto nm = [&](const char* f) { std::snprintf(api, sizeof api, "%s<%d>", f, int(N)); vf::set_case(api, S, idx); return api; };
    // PK2: S = J F^{-1}.sigma.F^{-T}
    const M3 Sref = scal(mul(mul(iF, sg), tr(iF)), J);
    const StensorN S2 = tfm::convertCauchyStressToSecondPiolaKirchhoffStress(sig, F1d);
    const L scS = A * A * A * A * nsg / J + J * B * B * nsg;
    R.check(nm("convertCauchyStressToSecondPiolaKirchhoffStress"), S, idx, h, dist(from_st(S2, N), Sref), 128 * EPS * scS * dc, dump);
    const StensorN sb = tfm::convertSecondPiolaKirchhoffStressToCauchyStress(S2, F1d);
    const M3 S2m = from_st(S2, N);
    const L scb = A * A * norm(S2m) / J;
    R.check(nm("convertSecondPiolaKirchhoffStressToCauchyStress"), S, idx, h,
            dist(from_st(sb, N), scal(mul(mul(F1, S2m), tr(F1)), 1 / J)), 128 * EPS * scb * dc, dump);
    R.check(nm("PK2->Cauchy(Cauchy->PK2)"), S, idx, h, dist(from_st(sb, N), sg), 256 * EPS * (scb + A * A * scS / J) * dc, dump);
    // Kirchhoff stress: push forward of S
    const StensorN tl = tfm::push_forward(S2, F1d);
    R.check(nm("push_forward(S,F)=F.S.F^T"), S, idx, h, dist(from_st(tl, N), mul(mul(F1, S2m), tr(F1))), 128 * EPS * A * A * norm(S2m), dump);
    const StensorN tl2 = tfm::pushForward(S2, F1d);
    bool same = true; for (int k = 0; k < ns; ++k) same = same && (tl2[k] == tl[k]);
    R.expect(nm("pushForward==push_forward"), S, idx, h, same, dump);
    // PK1: P = J sigma.F^{-T}
    const M3 Pref = scal(mul(sg, tr(iF)), J);
    const TensorN P = tfm::convertCauchyStressToFirstPiolaKirchhoffStress(sig, F1d);
    R.check(nm("convertCauchyStressToFirstPiolaKirchhoffStress"), S, idx, h, dist(from_t(P, N), Pref), 128 * EPS * (A * A * nsg + J * B * nsg), dump);
    const M3 Pm = from_t(P, N);
    const StensorN sp = tfm::convertFirstPiolaKirchhoffStressToCauchyStress(P, F1d);
    const L scp = A * norm(Pm) / J;
    R.check(nm("convertFirstPiolaKirchhoffStressToCauchyStress"), S, idx, h, dist(from_st(sp, N), sym(scal(mul(Pm, tr(F1)), 1 / J))), 128 * EPS * scp * dc, dump);
    R.check(nm("PK1->Cauchy(Cauchy->PK1)"), S, idx, h, dist(from_st(sp, N), sg), 256 * EPS * (scp + A * (A * A * nsg + J * B * nsg) / J) * dc, dump);
    // S = F^{-1}.P
    R.check(nm("PK2==F^-1.PK1"), S, idx, h, dist(S2m, mul(iF, Pm)), 256 * EPS * (scS * dc + B * (A * A * nsg + J * B * nsg)), dump);
    // corotational Cauchy stress: S = J U^{-1}.s.U^{-1} with the stretch tensor U (F = R.U)
    const M3 U = fsr::sqrtm(fsr::rcg(F1));
    const StensorN Ud = mk_s(U);
    const M3 Um = from_st(Ud, N), iU = inv(Um);
    const M3 Rr = mul(F1, inv(U));
    const StensorN sco = mk_s(mul(mul(tr(Rr), sg), Rr));
    const M3 scom = from_st(sco, N);
    const L JU = det(Um), nU = norm(Um), niU = norm(iU);
    const L dcu = nU * nU * nU / (5.196152422706632L * JU);
    const StensorN Sc = tfm::convertCorotationnalCauchyStressToSecondPiolaKirchhoffStress(sco, Ud);
    const L scc = JU * niU * niU * norm(scom) + nU * nU * nU * nU * norm(scom) / JU;
    R.check(nm("convertCorotationnalCauchyStressToSecondPiolaKirchhoffStress"), S, idx, h,
            dist(from_st(Sc, N), scal(mul(mul(iU, scom), iU), JU)), 128 * EPS * scc * dcu, dump);
    const M3 Scm = from_st(Sc, N);
    const StensorN sco2 = tfm::convertSecondPiolaKirchhoffStressToCorotationnalCauchyStress(Sc, Ud);
    R.check(nm("convertSecondPiolaKirchhoffStressToCorotationnalCauchyStress"), S, idx, h,
            dist(from_st(sco2, N), scal(mul(mul(Um, Scm), Um), 1 / JU)), 128 * EPS * nU * nU * norm(Scm) / JU * dcu, dump);
    R.check(nm("corotational->PK2->corotational"), S, idx, h, dist(from_st(sco2, N), scom),
            256 * EPS * (nU * nU * norm(Scm) / JU + nU * nU * scc / JU) * dcu, dump);
    // the corotational route and the direct one give the same PK2 stress (same sigma, F = R.U)
    R.check(nm("PK2(corotational,U)==PK2(Cauchy,F)"), S, idx, h, dist(Scm, S2m), 256 * EPS * (scc * dcu + scS * dc) * (rf.smax / rf.smin), dump);
  }
}

int main(int argc, char** argv) {
  vf::Args a(argc, argv);
  fill_table();
  if (a.shard == 0 && a.only < 0) registry_checks();
  auto guarded = [&](uint64_t idx) {
    try {
      one_case(a, idx);
    } catch (std::exception& e) {   // an exception escaping the library ends the case, never the run
      char api[64];
      std::snprintf(api, sizeof api, "exception-escapes<%d>", int(N));
      R.check(api, STRATA[idx % NSTRATA], idx, idx, INFINITY, 1, [&] { vf::J j; j.i("N", N).i("case", (long long)idx); return j.str(); }, "exception");
    }
  };
  if (a.only >= 0) { guarded(uint64_t(a.only)); R.finish(); return 0; }
  for (long i = 0; i < a.cases; ++i) guarded(a.gidx(i));
  R.finish();
  return 0;
}
