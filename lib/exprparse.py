"""exprparse — an independent precedence-climbing parser of the documented formula language of
tfel::math::Evaluator (docs/web/math.md: + - * / ** with the standard priority, parentheses, the listed
unary/binary functions, power<N>, Cste:: constants) extended, as the property does, with unary minus and
conditional / logical expressions.  It produces lib/exprgen.py trees.

parse(text) -> (tree, notes)   or raises Reject
notes: set of strings naming constructs whose meaning the documentation does not settle
  'chained-pow'    a**b**c without parentheses
  'mixed-logical'  && and || mixed without parentheses
  'unary-after-op' a unary minus directly after a binary operator (a*-b)
  'unary-plus'     never produced: unary plus is rejected
Grammar (lowest to highest priority):
  expr   := logical '?' expr ':' expr | sum
  sum    := term (('+'|'-') term)*                 left associative
  term   := factor (('*'|'/') factor)*             left associative
  factor := '-' factor | power
  power  := atom ('**' exponent)*                   ** binds tighter than unary minus on its left: -a**b = -(a**b)
  exponent := '-' exponent | atom
  atom   := number | name | 'Cste' '::' name | f '(' expr ')' | g '(' expr ',' expr ')'
          | 'power' '<' ['-'] integer '>' '(' expr ')' | '(' expr ')'
  logical := conj ('||' conj)* ;  conj := lfact ('&&' lfact)* ;  lfact := '!' lfact | '(' logical ')' | sum cmp sum
"""
import re
from exprgen import F1, F2, CONSTANT_NAMES


class Reject(Exception):
    pass


class Undocumented(Exception):
    """the text uses an extension of the Evaluator that the documentation does not describe (diff(...), names
    with '$' or '[i]', the unicode dot operator): neither well-formed nor malformed for this parser"""


_TOKEN = re.compile(r"""
    (?P<num>(?:\d+\.?\d*|\.\d+)(?:[eE][+-]?\d+)?)
  | (?P<name>[A-Za-z_][A-Za-z_0-9]*)
  | (?P<op>\*\*|<=|>=|==|&&|\|\||[-+*/(),?:<>!])
  | (?P<ws>\s+)
""", re.X)


def lex(text):
    pos, out = 0, []
    if "$" in text or "[" in text or "]" in text or "\u22c5" in text or re.search(r"\bdiff\b", text):
        raise Undocumented(text)
    while pos < len(text):
        m = _TOKEN.match(text, pos)
        if not m:
            raise Reject("unexpected character %r at %d" % (text[pos], pos))
        pos = m.end()
        if m.lastgroup == "ws":
            continue
        tok = m.group()
        if m.lastgroup == "num":
            # "1e" / "1.e+" are not numbers: the regular expression already refuses a dangling exponent, but
            # a number directly followed by a letter or a dot is malformed ("2x", "1.2.3")
            if pos < len(text) and (text[pos].isalnum() or text[pos] in "._"):
                raise Reject("malformed number near %r" % text[m.start():pos + 1])
        out.append((m.lastgroup, tok))
    return out


class _P:
    def __init__(self, toks):
        self.t, self.i, self.notes = toks, 0, set()

    def peek(self, k=0):
        return self.t[self.i + k][1] if self.i + k < len(self.t) else None

    def kind(self, k=0):
        return self.t[self.i + k][0] if self.i + k < len(self.t) else None

    def eat(self, v=None):
        if self.i >= len(self.t):
            raise Reject("unexpected end")
        tok = self.t[self.i]
        if v is not None and tok[1] != v:
            raise Reject("expected %r, read %r" % (v, tok[1]))
        self.i += 1
        return tok[1]

    # does a top-level '?' occur before the end of the current group (closing parenthesis / comma / ':' at depth 0) ?
    def has_question(self):
        d, j = 0, self.i
        while j < len(self.t):
            v = self.t[j][1]
            if v == "(":
                d += 1
            elif v == ")":
                if d == 0:
                    return False
                d -= 1
            elif v == ":" and j + 1 < len(self.t) and self.t[j + 1][1] == ":":
                j += 2          # the '::' of a qualified name
                continue
            elif d == 0 and v in (",", ":"):
                return False
            elif d == 0 and v == "?":
                return True
            j += 1
        return False

    def expr(self):
        if self.has_question():
            c = self.logical()
            self.eat("?")
            a = self.expr()
            self.eat(":")
            b = self.expr()
            return ("cond", c, a, b)
        return self.sum()

    def sum(self):
        a = self.term()
        while self.peek() in ("+", "-"):
            op = self.eat()
            if self.peek() == "-":
                self.notes.add("unary-after-op")
            a = (op, a, self.term())
        return a

    def term(self):
        a = self.factor()
        while self.peek() in ("*", "/"):
            op = self.eat()
            if self.peek() == "-":
                self.notes.add("unary-after-op")
            a = (op, a, self.factor())
        return a

    def factor(self):
        if self.peek() == "-":
            self.eat()
            if self.peek() == "-":
                raise Reject("two successive unary minus")
            return ("neg", self.factor())
        return self.power()

    def power(self):
        a = self.atom()
        n = 0
        while self.peek() == "**":
            self.eat()
            n += 1
            if n > 1:
                self.notes.add("chained-pow")
            a = ("**", a, self.exponent())   # left to right; a chained power is never judged
        return a

    def exponent(self):
        if self.peek() == "-":
            self.eat()
            self.notes.add("unary-after-op")
            if self.peek() == "-":
                raise Reject("two successive unary minus")
            return ("neg", self.exponent())
        return self.atom()

    def atom(self):
        k, v = self.kind(), self.peek()
        if k == "num":
            self.eat()
            return ("num", v, float(v))
        if v == "(":
            self.eat()
            e = self.expr()
            self.eat(")")
            return e
        if k != "name":
            raise Reject("unexpected token %r" % (v,))
        self.eat()
        if v == "Cste" and self.peek() == ":" and self.peek(1) == ":":
            self.eat(":")
            self.eat(":")
            n = self.eat()
            if n not in CONSTANT_NAMES:
                raise Reject("unknown constant %r" % n)
            return ("cst", n)
        if v == "power":
            self.eat("<")
            neg = False
            if self.peek() == "-":
                self.eat()
                neg = True
            n = self.eat()
            if not n.isdigit():
                raise Reject("power<%s>" % n)
            self.eat(">")
            self.eat("(")
            e = self.expr()
            self.eat(")")
            return ("ipow", -int(n) if neg else int(n), e)
        if v in F2:
            self.eat("(")
            a = self.expr()
            self.eat(",")
            b = self.expr()
            self.eat(")")
            return ("f2", v, a, b)
        if v in F1:
            self.eat("(")
            a = self.expr()
            self.eat(")")
            return ("f1", v, a)
        if self.peek() == "(":
            raise Reject("unknown function %r" % v)
        if self.peek() == ":" and self.peek(1) == ":":
            raise Reject("qualified name %r" % v)
        return ("var", v)

    # ---- logical expressions
    def logical(self):
        a = self.conj()
        while self.peek() == "||":
            self.eat()
            a = ("or", a, self.conj())
        return a

    def conj(self):
        a = self.lfact()
        while self.peek() == "&&":
            self.eat()
            a = ("and", a, self.lfact())
        return a

    def lfact(self):
        if self.peek() == "!":
            self.eat()
            return ("not", self.lfact())
        if self.peek() == "(":
            # a parenthesised logical expression, or a comparison whose left operand starts with '(' : try both
            save, notes = self.i, set(self.notes)
            try:
                self.eat("(")
                c = self.logical()
                self.eat(")")
                if self.peek() in ("<", ">", "<=", ">=", "==", "+", "-", "*", "/", "**"):
                    raise Reject("not a logical group")
                return c
            except Reject:
                self.i, self.notes = save, notes
        a = self.sum()
        op = self.peek()
        if op not in ("<", ">", "<=", ">=", "=="):
            raise Reject("comparison operator expected, read %r" % (op,))
        self.eat()
        b = self.sum()
        return ("cmp", op, a, b)


def _mixed(t, parent=None):
    """&& and || mixed at the same parenthesis level cannot be seen on the tree; detected on tokens instead"""
    return False


def parse(text):
    toks = lex(text)
    if not toks:
        raise Reject("empty formula")
    p = _P(toks)
    t = p.expr()
    if p.i != len(toks):
        raise Reject("unexpected token %r" % (p.peek(),))
    # mixed && / || without parentheses: scan every parenthesis level of the token stream
    stack = [set()]
    for _, v in toks:
        if v == "(":
            stack.append(set())
        elif v == ")":
            if len(stack) > 1:
                stack.pop()
        elif v in ("&&", "||"):
            stack[-1].add(v)
            if len(stack[-1]) == 2:
                p.notes.add("mixed-logical")
        elif v in ("?",):
            stack[-1] = set()
    return t, p.notes
