// C22 (part c) — Cazacu 2001, Cazacu 2004 (orthotropic) and the Hill tensor.
#define VFH_MAIN
#include "c22_common.hxx"
#include "TFEL/Material/IsotropicPlasticity.hxx"
#include "TFEL/Material/OrthotropicPlasticity.hxx"
#include "TFEL/Material/Drucker1949YieldCriterion.hxx"
#include "TFEL/Material/Cazacu2001YieldCriterion.hxx"
#include "TFEL/Material/Cazacu2004IsotropicYieldCriterion.hxx"
#include "TFEL/Material/Cazacu2004OrthotropicYieldCriterion.hxx"
#include "TFEL/Material/Hill.hxx"

namespace c22 { vf::Reporter R; }
using namespace c22;
namespace tmat = tfel::material;

// parameters shared by both criteria: 6 J2O coefficients, 11 J3O coefficients, c
struct OrthoP {
  L a[6], b[11], c = 0;
  bool iso = false;
  void gen(vf::Rng& g, int) {
    const int k = g.irange(0, 5);
    iso = g.irange(0, 4) == 0;
    // c = 1 keeps its own class (see findings/C22-*second-derivative*); J2O^3 - c J3O^2 > 0 and
    // J2O^(3/2) - c J3O > 0 are ensured by the ranges chosen here
    c = k == 0 ? 0.0L : (k == 1 ? 1.0L : L(double(g.uni(-0.5, 0.5))));
    const double lo = (c == 1) ? 0.9 : 0.8, hi = (c == 1) ? 1.1 : 1.2;
    for (auto& x : a) x = iso ? 1.0L : L(double(g.uni(lo, hi)));
    for (auto& x : b) x = iso ? 1.0L : L(double(g.uni(lo, hi)));
  }
  void dump(vf::J& j) const { j.f("c", c).arr("a", a, a + 6).arr("b", b, b + 11); }
  uint64_t hash() const { double d[18]; d[0] = double(c); for (int i = 0; i < 6; ++i) d[1 + i] = double(a[i]); for (int i = 0; i < 11; ++i) d[7 + i] = double(b[i]); return vf::hash_arr(d, 18); }
  template <unsigned short N, typename T> auto A() const { tmat::J2OCoefficients<tfm::stensor<N, T>> r; for (int i = 0; i < 6; ++i) r[i] = T(a[i]); return r; }
  template <unsigned short N, typename T> auto B() const { tmat::J3OCoefficients<tfm::stensor<N, T>> r; for (int i = 0; i < 11; ++i) r[i] = T(b[i]); return r; }
  // OrthotropicPlasticity.hxx: J2O = a6 syz^2 + a5 sxz^2 + a4 sxy^2 + a2/6 (syy-szz)^2 + a3/6 (sxx-szz)^2 + a1/6 (sxx-syy)^2
  L J2O(const M3& s) const {
    return a[5] * s[1][2] * s[1][2] + a[4] * s[0][2] * s[0][2] + a[3] * s[0][1] * s[0][1] + a[1] / 6 * (s[1][1] - s[2][2]) * (s[1][1] - s[2][2]) +
           a[2] / 6 * (s[0][0] - s[2][2]) * (s[0][0] - s[2][2]) + a[0] / 6 * (s[0][0] - s[1][1]) * (s[0][0] - s[1][1]);
  }
};
struct OrthoBase {
  using P = OrthoP;
  static constexpr bool isotropic = false, homogeneous = true, eigen = false, porous = false, has_ref = true;
  static constexpr double smin = -6, smax = 9;
  static L gaprel(const M3&, int, const P&) { return 1; }
  static L abs_tol(const M3&, const P&) { return 0; }
  // J3O is evaluated as a cubic polynomial of the *total* stress components: with a hydrostatic part
  // p and a deviator d it loses (p/d)^3 digits (terms ~p^3 cancel down to ~d^3): allowed for
  static L hydro_cond(const M3& A) { const L r = norm(A) / dmax(norm(dev(A)), 1e-300L); return 1 + r * r * r; }
  static bool differentiable(const M3& A, const P&) { return norm(dev(A)) > 0.05L * norm(A); }
  static void deriv_class(const P& p, char* b, size_t n) { std::snprintf(b, n, "%s", p.c == 1 ? "[c=1]" : "[c!=1]"); }
};

struct Cazacu01 : OrthoBase {
  static constexpr const char* name = "Cazacu2001";
  static constexpr int id = 6;
  template <unsigned short N, typename T>
  static T value(const tfm::stensor<N, T>& s, const P& p, T) { return tmat::computeCazacu2001StressCriterion(s, p.A<N, T>(), p.B<N, T>(), T(p.c)); }
  template <unsigned short N, typename T>
  static void normal(const tfm::stensor<N, T>& s, const P& p, T seps, Out& o) {
    auto [v, n] = tmat::computeCazacu2001StressCriterionNormal(s, p.A<N, T>(), p.B<N, T>(), T(p.c), seps);
    o.v = v; put_n<N, T>(o, n);
  }
  template <unsigned short N, typename T>
  static void second(const tfm::stensor<N, T>& s, const P& p, T seps, Out& o) {
    auto [v, n, dn] = tmat::computeCazacu2001StressCriterionSecondDerivative(s, p.A<N, T>(), p.B<N, T>(), T(p.c), seps);
    o.v = v; put_n<N, T>(o, n); put_dn<N, T>(o, dn);
  }
  // only the J2O part has an unambiguous documented formula: reference for c = 0, sqrt(3 J2O)
  static L ref(const M3& A, const P& p) { return p.c == 0 ? std::sqrt(3 * p.J2O(A)) : L(NAN); }
  static L value_cond(const M3& A, const P&) { return 4 * hydro_cond(A); }
  template <unsigned short N, typename D>
  static void extra(vf::Reporter& R, char* api, size_t na, const char* S, uint64_t idx, uint64_t h, const tfm::stensor<N, double>& sd, const P& p, double,
                    double v0, const Out&, const Out&, const Tol& K, D&& dump) {
    if (!p.iso) return;
    // all coefficients equal to one: J2O = J2, J3O = J3 (Cazacu & Barlat 2001), i.e. Drucker's criterion
    const L eps = std::numeric_limits<double>::epsilon();
    const double d = tmat::computeDrucker1949StressCriterion(sd, double(p.c));
    std::snprintf(api, na, "%s<%d>:%s", name, int(N), "Cazacu2001(a=b=1)=Drucker1949");
    R.check(api, S, idx, h, std::fabs(L(v0) - L(d)), K.invariance * eps * norm(from_st(sd, N)) * hydro_cond(from_st(sd, N)), dump);
  }
};

struct Cazacu04O : OrthoBase {
  static constexpr const char* name = "Cazacu2004Orthotropic";
  static constexpr int id = 7;
  static void deriv_class(const P&, char* b, size_t) { b[0] = 0; }
  template <unsigned short N, typename T>
  static T value(const tfm::stensor<N, T>& s, const P& p, T) { return tmat::computeCazacu2004OrthotropicStressCriterion(s, p.A<N, T>(), p.B<N, T>(), T(p.c)); }
  template <unsigned short N, typename T>
  static void normal(const tfm::stensor<N, T>& s, const P& p, T seps, Out& o) {
    auto [v, n] = tmat::computeCazacu2004OrthotropicStressCriterionNormal(s, p.A<N, T>(), p.B<N, T>(), T(p.c), seps);
    o.v = v; put_n<N, T>(o, n);
  }
  template <unsigned short N, typename T>
  static void second(const tfm::stensor<N, T>& s, const P& p, T seps, Out& o) {
    auto [v, n, dn] = tmat::computeCazacu2004OrthotropicStressCriterionSecondDerivative(s, p.A<N, T>(), p.B<N, T>(), T(p.c), seps);
    o.v = v; put_n<N, T>(o, n); put_dn<N, T>(o, dn);
  }
  static L ref(const M3& A, const P& p) { return p.c == 0 ? std::sqrt(p.J2O(A)) : L(NAN); }
  // J2O^(3/2) - c J3O may cancel (|c| <= 1/2, coefficients in [0.8,1.2] keep it above ~40% of J2O^(3/2))
  static L value_cond(const M3& A, const P& p) { return (p.c == 0 ? 4 : 32) * hydro_cond(A); }
  template <unsigned short N, typename D>
  static void extra(vf::Reporter& R, char* api, size_t na, const char* S, uint64_t idx, uint64_t h, const tfm::stensor<N, double>& sd, const P& p, double,
                    double v0, const Out&, const Out&, const Tol& K, D&& dump) {
    if (!p.iso) return;
    const L eps = std::numeric_limits<double>::epsilon();
    const double d = tmat::computeCazacu2004IsotropicStressCriterion(sd, double(p.c));
    std::snprintf(api, na, "%s<%d>:%s", name, int(N), "Cazacu2004Orthotropic(a=b=1)=Cazacu2004Isotropic");
    R.check(api, S, idx, h, std::fabs(L(v0) - L(d)), K.invariance * eps * norm(from_st(sd, N)) * 32 * hydro_cond(from_st(sd, N)), dump);
  }
};

// --------------------------------------------------------------------------------------- Hill
// Hill.hxx: s:H:s = F (s11-s22)^2 + G (s22-s33)^2 + H (s33-s11)^2 + 2 L s12^2 + 2 M s13^2 + 2 N s23^2
template <unsigned short N>
static void hill_case(const vf::Args& a, uint64_t idx) {
  vf::Rng g(a.seed, 2290 + N, idx);
  const int st = int(idx % NSTRATA);
  const char* S = STRATA[st];
  const L eps = std::numeric_limits<double>::epsilon();
  char api[128];
  auto nm = [&](const char* f) { std::snprintf(api, sizeof api, "Hill<%d>:%s", int(N), f); vf::set_case(api, S, idx); return api; };
  const bool iso = g.irange(0, 3) == 0;
  double c[6];
  for (int i = 0; i < 6; ++i) c[i] = iso ? (i < 3 ? 0.5 : 1.5) : g.uni(0.1, 3);
  const L scale = (idx / NSTRATA) % 2 ? 1.0L : L(g.logmag(-6, 9));
  const auto sd = mk<N, double>(scal(gen_unit_stress(g, N, st), scale));
  const M3 A = from_st(sd, N);
  const uint64_t h = vf::hash_arr(&sd[0], ssize(N), vf::hash_arr(c, 6));
  auto dump = [&] { vf::J j; j.i("N", N).arr("s", &sd[0], &sd[0] + ssize(N)).arr("FGHLMN", c, c + 6); return j.str(); };
  const auto H = tmat::hillTensor<N, double>(c[0], c[1], c[2], c[3], c[4], c[5]);
  const auto H2 = tmat::makeHillTensor<N, double>(c[0], c[1], c[2], c[3], c[4], c[5]);
  bool same = true;
  for (int i = 0; i < ssize(N); ++i) for (int j = 0; j < ssize(N); ++j) same = same && H(i, j) == H2(i, j);
  R.expect(nm("makeHillTensor=hillTensor"), S, idx, h, same, dump);
  const double q = sd | (H * sd);
  const L d12 = A[0][0] - A[1][1], d23 = A[1][1] - A[2][2], d31 = A[2][2] - A[0][0];
  const L expect = c[0] * d12 * d12 + c[1] * d23 * d23 + c[2] * d31 * d31 + 2 * c[3] * A[0][1] * A[0][1] + 2 * c[4] * A[0][2] * A[0][2] + 2 * c[5] * A[1][2] * A[1][2];
  const L nA = dmax(norm(A), 1e-300L);
  R.check(nm("s:H:s=documented-quadratic-form"), S, idx, h, std::fabs(L(q) - expect), 1024 * eps * 8 * 3 * nA * nA, dump);
  if (iso) {  // F=G=H=1/2, L=M=N=3/2: sqrt(s:H:s) = sigmaeq
    const L vm = mises_of(A);
    R.check(nm("Hill(F=G=H=1/2,L=M=N=3/2)=sigmaeq^2"), S, idx, h, std::fabs(L(q) - vm * vm), 1024 * eps * 8 * nA * nA, dump);
  }
}

int main(int argc, char** argv) {
  vf::Args a(argc, argv);
  Tol K;
  for (long i = 0; i < a.cases; ++i) {
    const uint64_t idx = a.only >= 0 ? uint64_t(a.only) : a.gidx(i);
    const uint64_t sub = idx / 3;
    switch (idx % 3) {
      case 0: run_all_dims<Cazacu01>(a, sub, K); break;
      case 1: run_all_dims<Cazacu04O>(a, sub, K); break;
      default:
        switch ((sub / NSTRATA) % 3) { case 0: hill_case<3>(a, sub); break; case 1: hill_case<2>(a, sub); break; default: hill_case<1>(a, sub); }
    }
    if (a.only >= 0) break;
  }
  R.finish();
  return 0;
}
