// C32 — tfel::utilities string algorithms vs naive reference implementations (DESIGN.md §4.2)
//   --mode exhaustive : every string over {a,b,','} (resp. {a,b,';'}) up to --maxlen, every
//                       delimiter / pattern of length <= 2 over the same alphabet
//   --mode random     : --cases random longer strings
//   --mode convert    : numeric literals from a grammar + token mutations
//   --mode emptydelim : tokenize(s, "") once (runs forever / exhausts memory in the unchanged tree;
//                       the Python side runs it under rlimit + watchdog)
#define VFH_MAIN
#include "vfh.hxx"
#include <cerrno>
#include <new>
#include <stdexcept>
#include <string_view>
#include "TFEL/Utilities/StringAlgorithms.hxx"

namespace tu = tfel::utilities;
using S = std::string;
using V = std::vector<std::string>;
static vf::Reporter R;

// ---------------------------------------------------------------- references (naive on purpose)
static V ref_split_char(const S& s, char c) {  // split at every delimiter: n delimiters -> n+1 fields
  V r; S cur;
  for (char x : s) { if (x == c) { r.push_back(cur); cur.clear(); } else cur += x; }
  r.push_back(cur);
  return r;
}
static V non_empty(const V& v) { V r; for (auto& x : v) if (!x.empty()) r.push_back(x); return r; }
static bool occurs_at(const S& s, size_t i, const S& d) {
  if (i + d.size() > s.size()) return false;
  for (size_t k = 0; k < d.size(); ++k) if (s[i + k] != d[k]) return false;
  return true;
}
static V ref_split_str(const S& s, const S& d) {  // non-overlapping, left to right, d non-empty
  V r; S cur; size_t i = 0;
  while (i < s.size()) {
    if (occurs_at(s, i, d)) { r.push_back(cur); cur.clear(); i += d.size(); }
    else { cur += s[i]; ++i; }
  }
  r.push_back(cur);
  return r;
}
static S ref_join(const V& v, const S& d) {
  S r;
  for (size_t i = 0; i < v.size(); ++i) { if (i) r += d; r += v[i]; }
  return r;
}
static S ref_replace(const S& s, const S& p, const S& n) {
  if (p.empty()) return s;
  S r; size_t i = 0;
  while (i < s.size()) {
    if (occurs_at(s, i, p)) { r += n; i += p.size(); }
    else { r += s[i]; ++i; }
  }
  return r;
}
static bool ref_starts(const S& s, const S& t) {
  if (t.size() > s.size()) return false;
  for (size_t i = 0; i < t.size(); ++i) if (s[i] != t[i]) return false;
  return true;
}
static bool ref_ends(const S& s, const S& t) {
  if (t.size() > s.size()) return false;
  for (size_t i = 0; i < t.size(); ++i) if (s[s.size() - t.size() + i] != t[i]) return false;
  return true;
}
static S show(const V& v) {
  S r = "[";
  for (size_t i = 0; i < v.size(); ++i) { if (i) r += "|"; r += "'" + v[i] + "'"; }
  return r + "]";
}
static uint64_t H(const S& a, const S& b = "", const S& c = "") {
  uint64_t h = vf::hash_bytes(a.data(), a.size());
  h = vf::hash_bytes("\x01", 1, h); h = vf::hash_bytes(b.data(), b.size(), h);
  h = vf::hash_bytes("\x02", 1, h); return vf::hash_bytes(c.data(), c.size(), h);
}

// ---------------------------------------------------------------- the judged calls
static void chk_tokenize_char(const S& s, char c, uint64_t idx, const char* st) {
  const S cs(1, c);
  {
    vf::set_case("tokenize-char-keep", st, idx);
    const V got = tu::tokenize(s, c, true), exp = ref_split_char(s, c);
    R.expect("tokenize-char-keep", st, idx, H(s, cs), got == exp,
             [&] { return vf::J().s("s", s).s("c", cs).s("got", show(got)).s("expected", show(exp)).str(); });
    // the property's own law: joining the fields with the delimiter reproduces the input
    R.expect("join-tokenize-char-keep", st, idx, H(s, cs), ref_join(got, cs) == s,
             [&] { return vf::J().s("s", s).s("c", cs).s("got", show(got)).str(); });
  }
  {
    // keep_empty_strings=false: "keeps empty fields exactly when asked" => the non-empty fields
    const char* cls = s.empty() ? "empty-input" : (s[0] == c ? "leading-delimiter" : st);
    vf::set_case("tokenize-char-nokeep", cls, idx);
    const V got = tu::tokenize(s, c, false), exp = non_empty(ref_split_char(s, c));
    R.expect("tokenize-char-nokeep", cls, idx, H(s, cs), got == exp,
             [&] { return vf::J().s("s", s).s("c", cs).s("got", show(got)).s("expected", show(exp)).str(); });
    // default argument is keep_empty_strings=false
    const V got2 = tu::tokenize(s, c);
    R.expect("tokenize-char-default", st, idx, H(s, cs), got2 == got,
             [&] { return vf::J().s("s", s).s("c", cs).s("got", show(got2)).s("expected", show(got)).str(); });
  }
}
static void chk_tokenize_str(const S& s, const S& d, uint64_t idx, const char* st) {
  const V exp = ref_split_str(s, d);
  // input classes: empty input (no delimiter occurrence; [] and [""] both join to the input),
  // inputs whose last field is empty (they end with a delimiter occurrence), the rest
  const char* cls = s.empty() ? "empty-input" : (exp.back().empty() ? "trailing-field" : st);
  vf::set_case("tokenize-string", cls, idx);
  const V got = tu::tokenize(std::string_view(s), std::string_view(d));
  const bool ok = (got == exp) || (s.empty() && got.empty());
  R.expect("tokenize-string", cls, idx, H(s, d), ok,
           [&] { return vf::J().s("s", s).s("d", d).s("got", show(got)).s("expected", show(exp)).str(); });
  // the join law is implied by equality with the reference; it is judged separately (it does not depend on
  // the reference) except in the class whose verdict is already given by the comparison above
  if (cls != std::string("trailing-field"))
    R.expect("join-tokenize-string", cls, idx, H(s, d), ref_join(got, d) == s,
             [&] { return vf::J().s("s", s).s("d", d).s("got", show(got)).str(); });
}
static void chk_replace(const S& s, const S& p, const S& n, uint64_t idx, const char* st) {
  const S exp = ref_replace(s, p, n);
  const char* cls = p.empty() ? "empty-pattern" : st;
  vf::set_case("replace_all-string", cls, idx);
  const S got = tu::replace_all(std::string_view(s), std::string_view(p), std::string_view(n));
  R.expect("replace_all-string", cls, idx, H(s, p, n), got == exp,
           [&] { return vf::J().s("s", s).s("s1", p).s("s2", n).s("got", got).s("expected", exp).str(); });
  S r = "previous content";
  vf::set_case("replace_all-string-out", cls, idx);
  tu::replace_all(r, std::string_view(s), std::string_view(p), std::string_view(n), S::size_type(0));
  R.expect("replace_all-string-out", cls, idx, H(s, p, n), r == exp,
           [&] { return vf::J().s("s", s).s("s1", p).s("s2", n).s("got", r).s("expected", exp).str(); });
  if (p.size() == 1) {
    if (n.size() == 1) {
      vf::set_case("replace_all-char", st, idx);
      const S g2 = tu::replace_all(std::string_view(s), p[0], n[0]);
      R.expect("replace_all-char", st, idx, H(s, p, n), g2 == exp,
               [&] { return vf::J().s("s", s).s("c1", p).s("c2", n).s("got", g2).s("expected", exp).str(); });
    }
    vf::set_case("replace_all-char-string", st, idx);
    S g3 = s;
    tu::replace_all(g3, p[0], std::string_view(n));
    R.expect("replace_all-char-string", st, idx, H(s, p, n), g3 == exp,
             [&] { return vf::J().s("s", s).s("c", p).s("n", n).s("got", g3).s("expected", exp).str(); });
  }
}
static void chk_affix(const S& s, const S& t, uint64_t idx, const char* st) {
  vf::set_case("starts_with", st, idx);
  const bool a = tu::starts_with(s, t), b = tu::ends_with(s, t);
  R.expect("starts_with", st, idx, H(s, t), a == ref_starts(s, t),
           [&] { return vf::J().s("s1", s).s("s2", t).i("got", a).str(); });
  R.expect("ends_with", st, idx, H(s, t), b == ref_ends(s, t),
           [&] { return vf::J().s("s1", s).s("s2", t).i("got", b).str(); });
}

// all strings over alphabet `al` with length <= L, in length-lexicographic order
static void all_strings(const S& al, int L, V& out) {
  out.clear(); out.push_back("");
  size_t b = 0;
  for (int l = 1; l <= L; ++l) {
    const size_t e = out.size();
    for (size_t i = b; i < e; ++i) for (char c : al) out.push_back(out[i] + c);
    b = e;
  }
}

static void exhaustive(const vf::Args& a) {
  const int L = std::atoi(a.get("--maxlen", "6").c_str());
  uint64_t idx = 0;
  auto mine = [&] { return int(idx++ % uint64_t(a.nshards)) == a.shard; };
  V strs, pats, reps;
  for (const char* al : {"ab,", "ab;"}) {
    const S A(al);
    const char c = A[2];
    all_strings(A, L, strs);
    all_strings(A, 2, pats);   // "", 3 of length 1, 9 of length 2
    for (const auto& s : strs) {
      if (mine()) chk_tokenize_char(s, c, idx, "exhaustive");
      if (mine()) chk_tokenize_char(s, 'a', idx, "exhaustive");
      for (const auto& d : pats) {
        if (d.empty()) continue;  // empty delimiter: --mode emptydelim
        if (mine()) chk_tokenize_str(s, d, idx, "exhaustive");
      }
    }
    // replace_all: every pattern of length <= 2 (incl. empty), replacements of length 0..3
    all_strings(A, L > 6 ? 7 : 6, strs);
    reps = {"", "a", S(1, c), "b" + S(1, c), "aa", "ab", S(1, c) + S(1, c), "aba", "a" + S(1, c) + "a"};
    for (const auto& s : strs)
      for (const auto& p : pats)
        for (const auto& n : reps)
          if (mine()) chk_replace(s, p, n, idx, "exhaustive");
  }
  // starts_with / ends_with: all pairs over {a,b}, |s| <= 6 (7), |t| <= 5
  V ss, ts;
  all_strings("ab", L > 6 ? 7 : 6, ss);
  all_strings("ab", 5, ts);
  for (const auto& s : ss) for (const auto& t : ts) if (mine()) chk_affix(s, t, idx, "exhaustive");
}

static S rnd_string(vf::Rng& g, const S& al, int lmin, int lmax, const S& d, double pd) {
  S s; const int n = g.irange(lmin, lmax);
  while (int(s.size()) < n) {
    if (!d.empty() && g.u01() < pd) s += d; else s += al[g.u64() % al.size()];
  }
  return s;
}
static void random_mode(const vf::Args& a) {
  static const S AL[] = {"ab,", "abc ;\t", "xyz0123456789_-.,:", S("a\0b\xff\n,", 7)};
  for (long i = 0; i < a.cases; ++i) {
    const uint64_t idx = a.only >= 0 ? uint64_t(a.only) : a.gidx(i);
    vf::Rng g(a.seed, 3201, idx);
    const S& al = AL[idx % 4];
    const int kind = int((idx / 4) % 4);
    if (kind == 0) {
      const char c = al[g.u64() % al.size()];
      chk_tokenize_char(rnd_string(g, al, 9, 64, S(1, c), 0.3), c, idx, "random");
    } else if (kind == 1) {
      const S d = rnd_string(g, al, 1, g.coin() ? 2 : 5, "", 0);
      chk_tokenize_str(rnd_string(g, al, 9, 80, d, 0.25), d, idx, "random");
    } else if (kind == 2) {
      const S p = rnd_string(g, al, 0, 4, "", 0), n = rnd_string(g, al, 0, 6, "", 0);
      chk_replace(rnd_string(g, al, 9, 80, p, 0.25), p, n, idx, "random");
    } else {
      const S s = rnd_string(g, al, 0, 40, "", 0);
      S t;
      switch (g.irange(0, 3)) {
        case 0: t = s.substr(0, g.u64() % (s.size() + 1)); break;
        case 1: t = s.substr(g.u64() % (s.size() + 1)); break;
        case 2: t = s + rnd_string(g, al, 0, 2, "", 0); break;
        default: t = rnd_string(g, al, 0, 6, "", 0);
      }
      if (!t.empty() && g.u01() < 0.2) t[g.u64() % t.size()] = al[g.u64() % al.size()];
      chk_affix(s, t, idx, "random");
    }
    if (a.only >= 0) break;
  }
}

// ---------------------------------------------------------------- convert<double>/<long double>
static S gen_literal(vf::Rng& g) {
  // [sign] digits [. digits] | [sign] . digits   then  [e|E [sign] digits], magnitude kept in the normal range
  S s;
  const int sg = g.irange(0, 3);
  if (sg == 0) s += '-'; else if (sg == 1) s += '+';
  const int form = g.irange(0, 3);
  auto digits = [&](int lo, int hi) { S d; int n = g.irange(lo, hi); for (int i = 0; i < n; ++i) d += char('0' + g.irange(0, 9)); return d; };
  if (form == 0) s += digits(1, 18);
  else if (form == 1) s += digits(1, 12) + "." + digits(0, 18);
  else if (form == 2) s += "." + digits(1, 18);
  else s += digits(1, 3) + "." + digits(1, 20);
  if (g.coin()) {
    s += g.coin() ? 'e' : 'E';
    const int es = g.irange(0, 2);
    if (es == 0) s += '-'; else if (es == 1) s += '+';
    s += std::to_string(g.irange(0, 250));
    if (g.u01() < 0.1) s.insert(s.size() - 1, "0");
  }
  return s;
}
static S mutate(vf::Rng& g, S s) {
  static const S extra = " \t\n+-.eExX0123456789abcdfinINFnaNpP,_'\"\0";
  const int n = g.irange(1, 2);
  for (int k = 0; k < n; ++k) {
    const size_t p = s.empty() ? 0 : g.u64() % (s.size() + 1);
    switch (g.irange(0, 4)) {
      case 0: s.insert(p, 1, extra[g.u64() % (extra.size() + 1)]); break;  // may insert NUL
      case 1: if (!s.empty()) s.erase(p < s.size() ? p : s.size() - 1, 1); break;
      case 2: if (!s.empty()) s[p < s.size() ? p : s.size() - 1] = extra[g.u64() % extra.size()]; break;
      case 3: s += extra[g.u64() % extra.size()]; break;
      default: {
        static const char* const words[] = {"inf", "nan", "-inf", "0x1p3", "1e400", "1e-400", "4e-320", " 1", "1 ", "", "0x", "1e", "1e+", ".", "-", "+.e1", "infinity", "nan(1)"};
        s = words[g.u64() % (sizeof words / sizeof *words)];
      }
    }
  }
  return s;
}
template <typename T> static T ref_strto(const char* s, char** e);
template <> double ref_strto<double>(const char* s, char** e) { return std::strtod(s, e); }
template <> long double ref_strto<long double>(const char* s, char** e) { return std::strtold(s, e); }

template <typename T>
static void chk_convert(const S& s, bool literal, uint64_t idx, const char* api) {
  const char* st = literal ? "literal" : "mutated";
  vf::set_case(api, st, idx);
  bool accepted = false; T v = 0; S what;
  try { v = tu::convert<T>(s); accepted = true; }
  catch (std::exception& e) { what = e.what(); }
  // reference: strtod/strtold on the C string
  errno = 0;
  char* end = nullptr;
  const T rv = ref_strto<T>(s.c_str(), &end);
  const int err = errno;
  const bool full = !s.empty() && (end == s.c_str() + s.size()) && (std::strlen(s.c_str()) == s.size()) && end != s.c_str();
  bool ok = true; const char* why = "";
  if (accepted) {
    if (!full) { ok = false; why = "accepted a string that strtod does not fully consume"; }
    else if (!((v == rv) || (std::isnan(v) && std::isnan(rv)))) { ok = false; why = "value differs from strtod"; }
    else if (std::signbit(v) != std::signbit(rv) && !std::isnan(v)) { ok = false; why = "sign differs from strtod"; }
  } else {
    if (literal) {
      if (full && err == 0) { ok = false; why = "rejected a normal-range literal"; }
    }
    // a rejected mutated string is never judged (ERANGE, sub-normal, garbage): recorded only
  }
  if (!accepted && full && err == ERANGE) R.skip(api, "erange-rejected");
  R.expect(api, st, idx, H(s), ok,
           [&] { return vf::J().s("s", s).i("accepted", accepted).d("value", v).d("strtod", rv).i("fully_consumed", full).i("errno", err).s("what", what).str(); }, why);
}
static void convert_mode(const vf::Args& a) {
  for (long i = 0; i < a.cases; ++i) {
    const uint64_t idx = a.only >= 0 ? uint64_t(a.only) : a.gidx(i);
    vf::Rng g(a.seed, 3202, idx);
    S s = gen_literal(g);
    const bool lit = (idx % 3) != 2;
    if (!lit) s = mutate(g, s);
    chk_convert<double>(s, lit, idx, "convert<double>");
    chk_convert<long double>(s, lit, idx, "convert<long double>");
    if (a.only >= 0) break;
  }
}

int main(int argc, char** argv) {
  vf::Args a(argc, argv);
  const S mode = a.get("--mode", "exhaustive");
  if (mode == "emptydelim") {
    const S s = a.get("--input", "ab");
    std::printf("@@VF {\"ev\":\"note\",\"what\":\"emptydelim-start\"}\n"); std::fflush(stdout);
    try {
      const V r = tu::tokenize(std::string_view(s), std::string_view(""));
      std::printf("@@VF {\"ev\":\"note\",\"what\":\"emptydelim-returned\",\"n\":%zu}\n", r.size());
    } catch (std::bad_alloc& e) {      // the result grew until memory was exhausted
      std::printf("@@VF {\"ev\":\"note\",\"what\":\"emptydelim-memory\"}\nEXC %s\n", e.what());
    } catch (std::length_error& e) {
      std::printf("@@VF {\"ev\":\"note\",\"what\":\"emptydelim-memory\"}\nEXC %s\n", e.what());
    } catch (std::exception& e) {      // refusing the empty delimiter is a proper way to terminate
      std::printf("@@VF {\"ev\":\"note\",\"what\":\"emptydelim-rejected\"}\nEXC %s\n", e.what());
    }
    std::fflush(stdout);
    return 0;
  }
  if (mode == "exhaustive") exhaustive(a);
  else if (mode == "random") random_mode(a);
  else if (mode == "convert") convert_mode(a);
  else { std::fprintf(stderr, "unknown mode\n"); return 3; }
  R.finish();
  return 0;
}
