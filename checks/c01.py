"""C01 — symmetric tensor algebra vs 3x3 matrix meaning."""
import vfcore

META = {
    "engine": "math", "level": "exploration", "design_ref": "DESIGN.md §4.1 C01",
    "technique": "ASan+UBSan+assert harness on the real stensor templates; every result compared to an independent long-double 3x3 matrix model",
    "text": "Randomised and structured (diagonal, single-component, badly scaled, near-singular) symmetric tensors for N=1,2,3 and float/double/long double are pushed through every stensor operation named by the property; each result is judged against a slow long-double 3x3 reference with a rounding-level tolerance. Held on the cases executed; no claim beyond them.",
    "note": "Trusted: the long-double reference model in harness/ref.hxx, g++ and the sanitizer runtimes. Tolerances are K*eps*conditioning with K fixed in the harness.",
}

APIS = ["trace", "det", "contract", "sigmaeq", "deviator", "square", "symmetric_product", "invert",
        "change_basis/random", "change_basis/perm", "exportTab", "importTab(exportTab)", "importVoigt",
        "import/write", "getComponent", "setComponent", "buildFromMatrix", "buildFromEigenValuesAndVectors"]


def build(ctx):
    bins = {"asan": vfcore.compile_cxx("c01", [vfcore.VERIF / "harness/math/c01.cxx"], "asan")}
    if ctx.thorough:
        bins["O2"] = vfcore.compile_cxx("c01", [vfcore.VERIF / "harness/math/c01.cxx"], "O2")
    return bins


def run(ctx):
    bins = build(ctx)
    ctx.cov["rule"] = ("case = (N, scalar type, stratum, two symmetric tensors, rotations) drawn from (VERIF_SEED, index); "
                       "distinct = distinct hash of the rounded input components per (API, stratum); non-trivial = every case "
                       "(inputs are never all zero except by chance in the 'single' stratum)")
    req = []
    for n in (1, 2, 3):
        for t in ("double", "float", "ldouble"):
            for a in APIS:
                if n == 1 and a.startswith("change_basis/perm"):
                    pass
                req.append(("%s<%d,%s>" % (a, n, t), None, 10))
    ctx.run_events(bins["asan"], ctx.n(60000, 3000000), require=req)
    if ctx.thorough:
        ctx.run_events(bins["O2"], 10000000, require=[])
    ctx.assumptions += ["change_basis(s,r) means r^T.S.r (docs/web/tensors.md and the uses in square_root)",
                        "extreme scales beyond 1e±12 are not sampled (closed forms overflow by construction)"]
