"""C04 — requested eigenvalue ordering honoured, ties included."""
import vfcore

META = {
    "engine": "math", "level": "exploration", "design_ref": "DESIGN.md §4.1 C04",
    "technique": "exhaustive enumeration of the 13 weak orders of three values x {ASCENDING, DESCENDING, UNSORTED} fed to every "
                 "sorting entry point (direct helpers and the 8 solvers in 1D/2D/3D); exact combinatorial oracle: permutation of the "
                 "unsorted result, monotone, eigenvector columns travelling with their eigenvalues",
    "text": "tfel::math::sortEigenValues, internals::SortEigenValues<N>, internals::SortEigenVectors<N>, fses::sort are called on "
            "every weak-order pattern of three values (integers, random reals, neighbouring floating-point numbers, mixed "
            "magnitudes); computeEigenValues(o) / computeEigenVectors(o) of the 8 solvers are called on tensors carrying these "
            "eigenvalues (diagonal, signed-permutation frame, generic frame; N=1,2,3; float and double) and compared with the "
            "UNSORTED call: exact multiset equality, requested monotonicity (2D: in-plane pair only, third pair untouched; 1D: "
            "no effect, as documented), and existence of one permutation mapping (values, columns) of the unsorted result onto "
            "the sorted one. No tolerance is involved. Held on the cases executed.",
    "note": "Cases where the solver itself returns non-finite values or trips a library assertion are skipped and counted (that "
            "is C03). Violation keys are <entry point>:<ORDERING>:ranks<r0r1r2> (dense ranks of the unsorted values; 2D: "
            "inplane01|10|00); the solver and scalar type are in the replay data, not in the key.",
}

SOLVERS = ["TFEL", "FSESJACOBI", "FSESQL", "FSESCUPPEN", "FSESANALYTICAL", "FSESHYBRID", "GTESYMMETRICQR", "HARARI"]
PATTERNS = ["000", "001", "010", "100", "011", "101", "110", "012", "021", "102", "120", "201", "210"]
# the harness recovers from SIGSEGV itself (unbounded recursion in the library): keep the ASan runtime off that signal
SEGV_ENV = {"ASAN_OPTIONS": vfcore.SAN_ENV["ASAN_OPTIONS"] + ":handle_segv=0"}
SRC = vfcore.VERIF / "harness/math/c04.cxx"


def build(ctx):
    jobs = [("c04d", "double"), ("c04f", "float")]
    out = vfcore.pmap(lambda j: vfcore.compile_cxx(j[0], [SRC], "asan", flags=("-DC04_REAL=" + j[1],)), jobs)
    return dict(zip([j[1] for j in jobs], out))


def keymap(key, e):
    # "<entry>/<solver>:<ORDERING>:<pattern>" -> "<entry>:<ORDERING>:<pattern>"
    return "%s:%s" % (e.get("api", "?").split("/")[0], e.get("stratum", "?"))


def run(ctx):
    bins = build(ctx)
    ctx.cov["rule"] = ("case = (weak-order pattern, ordering, value family, frame, refine flag) enumerated from the case index "
                       "(random parts from VERIF_SEED); each case feeds 8 direct entry points and 8 solvers x N=1,2,3 x "
                       "{values, vectors}; distinct = distinct hash of (values or tensor, ordering) per (entry point, pattern); "
                       "non-trivial = every case (the pattern/ordering grid is exhaustive by construction)")
    if ctx.replay:
        c = ctx.replay.get("case") or {}
        e = c.get("event") or {}
        b = bins["float" if (e.get("in") or {}).get("T") == "float" else "double"]
        r = vfcore.run([b, "--seed", ctx.seed, "--only", e.get("case", 0)], timeout=300, cwd=ctx.work, env=SEGV_ENV)
        summ = {}
        ctx.fold_events(r, summ, where="replay", keymap=keymap, replay_base=c)
        return ctx.merge_summary(summ)
    req = []
    for o in ("ASCENDING", "DESCENDING", "UNSORTED"):
        for p in PATTERNS:
            for ep in ("sortEigenValues", "SortEigenValues<3>::exe", "SortEigenVectors<3>::exe", "SortEigenValues<1>::exe",
                       "SortEigenVectors<1>::exe") + (("fses::sort",) if o != "UNSORTED" else ()):
                req.append((ep, "%s:ranks%s" % (o, p), 20))
        for p in ("00", "01", "10"):
            for ep in ("SortEigenValues<2>::exe", "SortEigenVectors<2>::exe"):
                req.append((ep, "%s:inplane%s" % (o, p), 20))
    for s in SOLVERS:
        for n in (1, 2, 3):
            req.append(("computeEigenValues(o)<%d>/%s" % (n, s), None, 1000))
            req.append(("computeEigenVectors(o)<%d>/%s" % (n, s), None, 1000))
    for t, n in (("double", ctx.n(60000, 600000)), ("float", ctx.n(30000, 240000))):
        summ = ctx.run_events(bins[t], n, require=req, keymap=keymap, timeout=3000, env=SEGV_ENV)
        # tie patterns actually met in the unsorted output of the solvers in 3D (every solver must have met exact ties)
        for s in SOLVERS:
            pats = sorted({st.split(":ranks")[1] for (a, st), v in summ.items()
                           if a == "computeEigenVectors(o)<3>/" + s and ":ranks" in st and v["n"] > 0})
            ctx.cov.setdefault("tie_patterns_seen_3D", {})["%s<%s>" % (s, t)] = pats
            ties = [p for p in pats if len(set(p)) < 3]
            ctx.require(len(ties) >= 3, "solver %s<%s> produced fewer than 3 tie patterns in its unsorted 3D output" % (s, t))
        # 2D: which in-plane patterns the unsorted output of the solvers showed (some solvers always return vp0 >= vp1)
        seen2 = sorted({st.split(":inplane")[1] for (a, st), v in summ.items()
                        if a.startswith("computeEigenVectors(o)<2>/") and ":inplane" in st and v["n"] > 0})
        ctx.cov.setdefault("inplane_patterns_seen_2D", {})[t] = seen2
        ctx.require(set(seen2) >= {"01", "10"}, "2D solvers never produced both in-plane orders in their unsorted output (%s)" % t)
    ctx.assumptions += [
        "ordering in 2D concerns the in-plane pair only and has no effect in 1D (docs/web/tensors.md, stensor.hxx notes)",
        "in 2D the in-plane eigenvectors have no z component (layout established by C03), which SortEigenVectors<2> relies on",
    ]
