// C19 — kriging interpolants reproduce their training data (DESIGN.md §4.1)
//
// Subjects: Kriging<1|2|3> (header), Kriging1D/2D/3D (libTFELMathKriging, normalised
// coordinates), FactorizedKriging<1,1>, <1,2> (header, default models),
// FactorizedKriging1D1D/1D2D/1D3D (library), KrigedFunction<1|2|3> through tfel::math::Evaluator.
// Nugget = 0.  At every training point |k(x_i) - y_i| <= K eps kappa max|y|, with
// kappa = ||M||_inf ||M^-1||_inf of the dual-kriging matrix M = [C P; P^T 0] assembled here in
// long double from the *definition* of each model (covariance and drift functions restated
// below) and inverted by Gauss-Jordan with full pivoting.  Point sets with eps*kappa > 1e-4
// (nearly collinear / coplanar, tight clusters) are skipped and counted; an exception thrown by
// the library is an explicit report and is accepted for those and for the "few-points" stratum
// (n <= number of drift functions: KrigingErrorInsufficientData or a null pivot); when the
// library answers there, the answer is judged like any other whenever kappa is finite.
#define VFH_MAIN
#include "vfh.hxx"
#include <algorithm>
#include <array>
#include <functional>
#include <memory>
#include "TFEL/Math/Kriging.hxx"
#include "TFEL/Math/Kriging1D.hxx"
#include "TFEL/Math/Kriging2D.hxx"
#include "TFEL/Math/Kriging3D.hxx"
#include "TFEL/Math/FactorizedKriging.hxx"
#include "TFEL/Math/FactorizedKriging1D1D.hxx"
#include "TFEL/Math/FactorizedKriging1D2D.hxx"
#include "TFEL/Math/FactorizedKriging1D3D.hxx"
#include "TFEL/Math/Kriging/KrigingPieceWiseLinearModel1D.hxx"
#include "TFEL/Math/Evaluator.hxx"
#include "TFEL/Math/Parser/KrigedFunction.hxx"

typedef long double L;
namespace tfm = tfel::math;
static vf::Reporter R;

// ---- the models, restated from their definition
enum Cov { C_CUBE_1D, C_THINPLATE_2D, C_NORM_3D, C_ABS_1D };
static L cov(Cov c, const L* h) {
  switch (c) {
    case C_CUBE_1D: return std::fabs(h[0] * h[0] * h[0]);
    case C_THINPLATE_2D: { const L h2 = h[0] * h[0] + h[1] * h[1]; return h2 < 10 * L(std::numeric_limits<double>::epsilon()) ? 0 : 0.5L * h2 * std::log(h2); }
    case C_NORM_3D: return std::sqrt(h[0] * h[0] + h[1] * h[1] + h[2] * h[2]);
    default: return std::fabs(h[0]);
  }
}
struct Spec {
  int d1, d2;              // dimensions of the (one or two) variable groups
  Cov c1, c2;              // covariance of each group (product when d2 > 0)
  std::vector<int> drift;  // coordinates entering the linear drift, besides the constant
  bool normalise;          // coordinates mapped to [0,1] per axis first (library classes)
  int dim() const { return d1 + d2; }
  int nb() const { return 1 + int(drift.size()); }
};
static Cov default_cov(int d) { return d == 1 ? C_CUBE_1D : d == 2 ? C_THINPLATE_2D : C_NORM_3D; }

typedef std::array<double, 4> Pt;

// kappa_inf of the dual kriging matrix; inf when numerically singular
static L kappa(const Spec& s, const std::vector<Pt>& pts) {
  const int n = int(pts.size()), D = s.dim(), N = n + s.nb();
  std::vector<std::array<L, 4>> x(static_cast<size_t>(n));
  for (int k = 0; k < D; ++k) {
    L mn = pts[0][size_t(k)], mx = mn;
    for (auto& p : pts) { mn = std::min<L>(mn, p[size_t(k)]); mx = std::max<L>(mx, p[size_t(k)]); }
    for (int i = 0; i < n; ++i) x[size_t(i)][size_t(k)] = s.normalise ? (L(pts[size_t(i)][size_t(k)]) - mn) / (mx - mn) : L(pts[size_t(i)][size_t(k)]);
  }
  std::vector<std::vector<L>> M(size_t(N), std::vector<L>(size_t(N), 0));
  for (int i = 0; i < n; ++i) for (int j = 0; j < i; ++j) {
    L h[4]; for (int k = 0; k < D; ++k) h[k] = x[size_t(i)][size_t(k)] - x[size_t(j)][size_t(k)];
    L c = cov(s.c1, h);
    if (s.d2 > 0) c *= cov(s.c2, h + s.d1);
    M[size_t(i)][size_t(j)] = M[size_t(j)][size_t(i)] = c;
  }
  for (int i = 0; i < n; ++i) {
    M[size_t(i)][size_t(n)] = M[size_t(n)][size_t(i)] = 1;
    for (size_t q = 0; q < s.drift.size(); ++q) M[size_t(i)][size_t(n) + 1 + q] = M[size_t(n) + 1 + q][size_t(i)] = x[size_t(i)][size_t(s.drift[q])];
  }
  L nM = 0; for (auto& r : M) { L t = 0; for (L v : r) t += std::fabs(v); nM = std::max(nM, t); }
  // Gauss-Jordan, full pivoting
  std::vector<std::vector<L>> A = M, I(size_t(N), std::vector<L>(size_t(N), 0));
  for (int i = 0; i < N; ++i) I[size_t(i)][size_t(i)] = 1;
  std::vector<int> colperm(static_cast<size_t>(N)); for (int i = 0; i < N; ++i) colperm[size_t(i)] = i;
  for (int c = 0; c < N; ++c) {
    int pr = c, pc = c; L best = 0;
    for (int i = c; i < N; ++i) for (int j = c; j < N; ++j) if (std::fabs(A[size_t(i)][size_t(j)]) > best) { best = std::fabs(A[size_t(i)][size_t(j)]); pr = i; pc = j; }
    if (!(best > 1e-4000L) || !(best > nM * 1e-30L)) return INFINITY;
    std::swap(A[size_t(c)], A[size_t(pr)]); std::swap(I[size_t(c)], I[size_t(pr)]);
    if (pc != c) { for (int i = 0; i < N; ++i) std::swap(A[size_t(i)][size_t(c)], A[size_t(i)][size_t(pc)]); std::swap(colperm[size_t(c)], colperm[size_t(pc)]); }
    const L p = A[size_t(c)][size_t(c)];
    for (int j = 0; j < N; ++j) { A[size_t(c)][size_t(j)] /= p; I[size_t(c)][size_t(j)] /= p; }
    for (int r = 0; r < N; ++r) if (r != c) {
      const L f = A[size_t(r)][size_t(c)]; if (f == 0) continue;
      for (int j = 0; j < N; ++j) { A[size_t(r)][size_t(j)] -= f * A[size_t(c)][size_t(j)]; I[size_t(r)][size_t(j)] -= f * I[size_t(c)][size_t(j)]; }
    }
  }
  // rows of the inverse are permuted by the column permutation; the infinity norm over rows is not affected by a row permutation
  L nI = 0; for (auto& r : I) { L t = 0; for (L v : r) t += std::fabs(v); nI = std::max(nI, t); }
  return nM * nI;
}

// ---- point sets
static const char* KIND[] = {"random", "lattice", "clustered", "degenerate"};
static bool gen_points(vf::Rng& g, int D, int n, int kind, std::vector<Pt>& pts) {
  const double size = g.logmag(-2, 3);
  double off[4]; for (int k = 0; k < 4; ++k) off[k] = g.irange(0, 1) ? 0 : g.uni(-10, 10) * size;
  double asp[4]; for (int k = 0; k < 4; ++k) asp[k] = g.irange(0, 2) ? 1 : g.logmag(-1, 1);  // anisotropic boxes
  pts.clear();
  auto far_enough = [&](const Pt& p) {
    for (auto& q : pts) { double d2 = 0; for (int k = 0; k < D; ++k) d2 += (p[size_t(k)] - q[size_t(k)]) * (p[size_t(k)] - q[size_t(k)]) / (asp[k] * asp[k]); if (d2 < 1e-6 * size * size * 4) return false; }
    return true;
  };
  if (kind == 1) {  // lattice, truncated to n points
    int m[4] = {1, 1, 1, 1}; int tot = 1;
    while (tot < n) { int k = g.irange(0, D - 1); m[k]++; tot = 1; for (int q = 0; q < D; ++q) tot *= m[q]; }
    std::vector<Pt> all;
    for (int a = 0; a < m[0]; ++a) for (int b = 0; b < m[1]; ++b) for (int c = 0; c < m[2]; ++c) for (int d = 0; d < m[3]; ++d) {
      int ix[4] = {a, b, c, d}; Pt p{};
      for (int k = 0; k < D; ++k) p[size_t(k)] = off[k] + size * asp[k] * (m[k] > 1 ? double(ix[k]) / (m[k] - 1) : 0.5);
      all.push_back(p);
    }
    for (size_t i = all.size(); i > 1; --i) std::swap(all[i - 1], all[g.u64() % i]);
    all.resize(size_t(n)); pts = all;
    return true;
  }
  int guard = 0;
  while (int(pts.size()) < n && guard++ < 20000) {
    Pt p{};
    if (kind == 0) for (int k = 0; k < D; ++k) p[size_t(k)] = off[k] + size * asp[k] * g.u01();
    else if (kind == 2) {  // clusters around a few centres
      if (pts.size() < 3 || g.irange(0, 2) == 0) for (int k = 0; k < D; ++k) p[size_t(k)] = off[k] + size * asp[k] * g.u01();
      else { const Pt& c = pts[g.u64() % pts.size()]; const double r = size * g.logmag(-2.5, -1); for (int k = 0; k < D; ++k) p[size_t(k)] = c[size_t(k)] + r * asp[k] * g.uni(-1, 1); }
    } else {  // degenerate: all points on a line (D >= 2) / repeated-coordinate sets
      const double t = g.u01();
      for (int k = 0; k < D; ++k) p[size_t(k)] = off[k] + size * asp[k] * (k == 0 ? t : (0.3 + 0.5 * k) * t);
    }
    if (far_enough(p)) pts.push_back(p);
  }
  return int(pts.size()) == n;
}

struct Subject {
  const char* name;
  Spec spec;
  // builds the interpolant from (points, values), returns an evaluator; may throw
  std::function<std::function<double(const Pt&)>(const std::vector<Pt>&, const std::vector<double>&)> build;
};

template <unsigned short N> static typename tfm::KrigingVariable<N, double>::type var(const Pt& p, int o = 0) {
  if constexpr (N == 1) return p[size_t(o)];
  else { tfm::tvector<N, double> v; for (unsigned short k = 0; k < N; ++k) v(k) = p[size_t(o + k)]; return v; }
}
static std::vector<double> column(const std::vector<Pt>& p, int k) { std::vector<double> c; for (auto& q : p) c.push_back(q[size_t(k)]); return c; }
// the same column as a tfel::math::vector: every wrapper class has a second constructor overload taking those
static tfm::vector<double> tcolumn(const std::vector<Pt>& p, int k) { tfm::vector<double> c; for (auto& q : p) c.push_back(q[size_t(k)]); return c; }
static tfm::vector<double> tvalues(const std::vector<double>& y) { tfm::vector<double> c; for (auto v : y) c.push_back(v); return c; }

template <unsigned short N>
static Subject plain() {
  static const char* nm[] = {"", "Kriging<1>", "Kriging<2>", "Kriging<3>"};
  Spec s{N, 0, default_cov(N), C_ABS_1D, {}, false};
  for (int k = 0; k < N; ++k) s.drift.push_back(k);
  return {nm[N], s, [](const std::vector<Pt>& p, const std::vector<double>& y) {
            auto k = std::make_shared<tfm::Kriging<N, double>>();
            for (size_t i = 0; i < p.size(); ++i) k->addValue(var<N>(p[i]), y[i]);
            k->buildInterpolation();
            return std::function<double(const Pt&)>([k](const Pt& q) { return (*k)(var<N>(q)); });
          }};
}
template <unsigned short N>
static Subject kriged_function() {
  static const char* nm[] = {"", "KrigedFunction<1>/Evaluator", "KrigedFunction<2>/Evaluator", "KrigedFunction<3>/Evaluator"};
  Spec s{N, 0, default_cov(N), C_ABS_1D, {}, false};
  for (int k = 0; k < N; ++k) s.drift.push_back(k);
  return {nm[N], s, [](const std::vector<Pt>& p, const std::vector<double>& y) {
            using KF = tfm::parser::KrigedFunction<N>;
            std::vector<typename KF::Point> data;
            for (size_t i = 0; i < p.size(); ++i) data.push_back({var<N>(p[i]), y[i]});
            auto m = std::make_shared<tfm::parser::ExternalFunctionManager>();
            (*m)["k"] = std::make_shared<KF>(data, 0.);
            static const std::vector<std::string> names[] = {{}, {"x"}, {"x", "y"}, {"x", "y", "z"}};
            static const char* expr[] = {"", "k(x)", "k(x,y)", "k(x,y,z)"};
            auto ev = std::make_shared<tfm::Evaluator>(names[N], expr[N], m);
            return std::function<double(const Pt&)>([ev](const Pt& q) {
              static const char* v[] = {"x", "y", "z"};
              for (int k = 0; k < N; ++k) ev->setVariableValue(v[k], q[size_t(k)]);
              return ev->getValue();
            });
          }};
}
static std::vector<Subject> subjects() {
  std::vector<Subject> S;
  S.push_back(plain<1>()); S.push_back(plain<2>()); S.push_back(plain<3>());
  S.push_back({"Kriging1D", Spec{1, 0, C_CUBE_1D, C_ABS_1D, {0}, true}, [](const std::vector<Pt>& p, const std::vector<double>& y) {
                 auto k = std::make_shared<tfm::Kriging1D>(column(p, 0), y);
                 return std::function<double(const Pt&)>([k](const Pt& q) { return (*k)(q[0]); }); }});
  S.push_back({"Kriging2D", Spec{2, 0, C_THINPLATE_2D, C_ABS_1D, {0, 1}, true}, [](const std::vector<Pt>& p, const std::vector<double>& y) {
                 auto k = std::make_shared<tfm::Kriging2D>(column(p, 0), column(p, 1), y);
                 return std::function<double(const Pt&)>([k](const Pt& q) { return (*k)(q[0], q[1]); }); }});
  S.push_back({"Kriging3D", Spec{3, 0, C_NORM_3D, C_ABS_1D, {0, 1, 2}, true}, [](const std::vector<Pt>& p, const std::vector<double>& y) {
                 auto k = std::make_shared<tfm::Kriging3D>(column(p, 0), column(p, 1), column(p, 2), y);
                 return std::function<double(const Pt&)>([k](const Pt& q) { return (*k)(q[0], q[1], q[2]); }); }});
  S.push_back({"FactorizedKriging<1,1>", Spec{1, 1, C_CUBE_1D, C_CUBE_1D, {0, 1}, false}, [](const std::vector<Pt>& p, const std::vector<double>& y) {
                 auto k = std::make_shared<tfm::FactorizedKriging<1, 1>>();
                 for (size_t i = 0; i < p.size(); ++i) k->addValue(p[i][0], p[i][1], y[i]);
                 k->buildInterpolation();
                 return std::function<double(const Pt&)>([k](const Pt& q) { return (*k)(q[0], q[1]); }); }});
  S.push_back({"FactorizedKriging<1,2>", Spec{1, 2, C_CUBE_1D, C_THINPLATE_2D, {0, 1, 2}, false}, [](const std::vector<Pt>& p, const std::vector<double>& y) {
                 auto k = std::make_shared<tfm::FactorizedKriging<1, 2>>();
                 for (size_t i = 0; i < p.size(); ++i) k->addValue(p[i][0], var<2>(p[i], 1), y[i]);
                 k->buildInterpolation();
                 return std::function<double(const Pt&)>([k](const Pt& q) { return (*k)(q[0], var<2>(q, 1)); }); }});
  S.push_back({"FactorizedKriging1D1D", Spec{1, 1, C_ABS_1D, C_CUBE_1D, {1}, true}, [](const std::vector<Pt>& p, const std::vector<double>& y) {
                 auto k = std::make_shared<tfm::FactorizedKriging1D1D>(column(p, 0), column(p, 1), y);
                 return std::function<double(const Pt&)>([k](const Pt& q) { return (*k)(q[0], q[1]); }); }});
  S.push_back({"FactorizedKriging1D2D", Spec{1, 2, C_ABS_1D, C_THINPLATE_2D, {1, 2}, true}, [](const std::vector<Pt>& p, const std::vector<double>& y) {
                 auto k = std::make_shared<tfm::FactorizedKriging1D2D>(column(p, 0), column(p, 1), column(p, 2), y);
                 return std::function<double(const Pt&)>([k](const Pt& q) { return (*k)(q[0], q[1], q[2]); }); }});
  S.push_back({"FactorizedKriging1D3D", Spec{1, 3, C_ABS_1D, C_NORM_3D, {1, 2, 3}, true}, [](const std::vector<Pt>& p, const std::vector<double>& y) {
                 auto k = std::make_shared<tfm::FactorizedKriging1D3D>(column(p, 0), column(p, 1), column(p, 2), column(p, 3), y);
                 return std::function<double(const Pt&)>([k](const Pt& q) { return (*k)(q[0], q[1], q[2], q[3]); }); }});
  S.push_back({"Kriging1D(tfel::math::vector)", Spec{1, 0, C_CUBE_1D, C_ABS_1D, {0}, true}, [](const std::vector<Pt>& p, const std::vector<double>& y) {
                 auto k = std::make_shared<tfm::Kriging1D>(tcolumn(p, 0), tvalues(y));
                 return std::function<double(const Pt&)>([k](const Pt& q) { return (*k)(q[0]); }); }});
  S.push_back({"Kriging2D(tfel::math::vector)", Spec{2, 0, C_THINPLATE_2D, C_ABS_1D, {0, 1}, true}, [](const std::vector<Pt>& p, const std::vector<double>& y) {
                 auto k = std::make_shared<tfm::Kriging2D>(tcolumn(p, 0), tcolumn(p, 1), tvalues(y));
                 return std::function<double(const Pt&)>([k](const Pt& q) { return (*k)(q[0], q[1]); }); }});
  S.push_back({"Kriging3D(tfel::math::vector)", Spec{3, 0, C_NORM_3D, C_ABS_1D, {0, 1, 2}, true}, [](const std::vector<Pt>& p, const std::vector<double>& y) {
                 auto k = std::make_shared<tfm::Kriging3D>(tcolumn(p, 0), tcolumn(p, 1), tcolumn(p, 2), tvalues(y));
                 return std::function<double(const Pt&)>([k](const Pt& q) { return (*k)(q[0], q[1], q[2]); }); }});
  S.push_back({"FactorizedKriging1D1D(tfel::math::vector)", Spec{1, 1, C_ABS_1D, C_CUBE_1D, {1}, true}, [](const std::vector<Pt>& p, const std::vector<double>& y) {
                 auto k = std::make_shared<tfm::FactorizedKriging1D1D>(tcolumn(p, 0), tcolumn(p, 1), tvalues(y));
                 return std::function<double(const Pt&)>([k](const Pt& q) { return (*k)(q[0], q[1]); }); }});
  S.push_back({"FactorizedKriging1D2D(tfel::math::vector)", Spec{1, 2, C_ABS_1D, C_THINPLATE_2D, {1, 2}, true}, [](const std::vector<Pt>& p, const std::vector<double>& y) {
                 auto k = std::make_shared<tfm::FactorizedKriging1D2D>(tcolumn(p, 0), tcolumn(p, 1), tcolumn(p, 2), tvalues(y));
                 return std::function<double(const Pt&)>([k](const Pt& q) { return (*k)(q[0], q[1], q[2]); }); }});
  S.push_back({"FactorizedKriging1D3D(tfel::math::vector)", Spec{1, 3, C_ABS_1D, C_NORM_3D, {1, 2, 3}, true}, [](const std::vector<Pt>& p, const std::vector<double>& y) {
                 auto k = std::make_shared<tfm::FactorizedKriging1D3D>(tcolumn(p, 0), tcolumn(p, 1), tcolumn(p, 2), tcolumn(p, 3), tvalues(y));
                 return std::function<double(const Pt&)>([k](const Pt& q) { return (*k)(q[0], q[1], q[2], q[3]); }); }});
  S.push_back(kriged_function<1>()); S.push_back(kriged_function<2>()); S.push_back(kriged_function<3>());
  return S;
}

int main(int argc, char** argv) {
  vf::Args a(argc, argv);
  R.viol_cap = 3;
  const auto SUB = subjects();
  const L eps = std::numeric_limits<double>::epsilon();
  const L K = 256;
  for (long i = 0; i < a.cases; ++i) {
    const uint64_t idx = a.only >= 0 ? uint64_t(a.only) : a.gidx(i);
    const Subject& sj = SUB[idx % SUB.size()];
    vf::Rng g(a.seed, 1900 + idx % SUB.size(), idx / SUB.size());
    const int D = sj.spec.dim(), nb = sj.spec.nb();
    const uint64_t sel = (idx / SUB.size());
    // one case in 16: fewer points than needed
    const bool insufficient = sel % 16 == 15;
    int kind = insufficient ? 0 : int(sel % 8 == 7 ? 3 : sel % 3);
    if (kind == 3 && D == 1) kind = 2;
    const char* S = insufficient ? "few-points" : KIND[kind];
    const int n = insufficient ? g.irange(1, nb) : g.irange(nb + 1, 40);
    vf::set_case(sj.name, S, idx);
    std::vector<Pt> pts;
    if (!gen_points(g, D, n, kind, pts)) { R.skip(sj.name, S); continue; }
    // values: smooth trend + noise, scales 1e-6..1e6
    std::vector<double> y(static_cast<size_t>(n));
    const double ys = g.logmag(-6, 6), yo = g.irange(0, 2) ? 0 : g.uni(-5, 5) * ys;
    double gr[4]; for (auto& v : gr) v = g.normal();
    L ymax = 0;
    for (int q = 0; q < n; ++q) {
      double t = 0; for (int k = 0; k < D; ++k) t += gr[k] * pts[size_t(q)][size_t(k)];
      y[size_t(q)] = yo + ys * (std::sin(t) + 0.3 * g.normal());
      ymax = std::max<L>(ymax, std::fabs(L(y[size_t(q)])));
    }
    uint64_t h = vf::hash_arr(y.data(), y.size()); for (auto& p : pts) h = vf::hash_arr(p.data(), size_t(D), h);
    L worst = 0; int wi = -1; double got = 0; std::string what;
    auto dump = [&] {
      vf::J j; j.s("subject", sj.name).i("n", n).i("dim", D);
      for (int k = 0; k < D; ++k) { auto c = column(pts, k); char nm[8]; std::snprintf(nm, sizeof nm, "x%d", k); j.arr(nm, c.begin(), c.end()); }
      j.arr("y", y.begin(), y.end()).i("worst_point", wi).f("got", got).s("exception", what);
      return j.str();
    };
    std::function<double(const Pt&)> ev; bool threw = false;
    bool insufficient_data_error = false;
    try { ev = sj.build(pts, y); }
    catch (tfm::KrigingErrorInsufficientData& e) { threw = true; insufficient_data_error = true; what = e.what(); }
    catch (std::exception& e) { threw = true; what = e.what(); }
    if (insufficient && threw) {
      // explicit report: accepted (counted, not judged)
      R.skip(insufficient_data_error ? "few-points/refused:KrigingErrorInsufficientData" : "few-points/refused:other-exception", S);
      R.skip(sj.name, S);
      continue;
    }
    const L kap = kappa(sj.spec, pts);
    if (!(kap * eps < 1e-4L)) {
      R.skip(sj.name, S);
      R.skip(threw ? "ill-conditioned/library-threw" : "ill-conditioned/library-answered", S);
      continue;
    }
    auto dumpk = [&] { std::string s = dump(); s.pop_back(); char b[64]; std::snprintf(b, sizeof b, ",\"kappa\":%.3Lg}", kap); return s + b; };
    if (threw) { R.expect((std::string(sj.name) + "/accepts").c_str(), S, idx, h, false, dumpk, "exception for a well-conditioned point set"); continue; }
    try {
      for (int q = 0; q < n; ++q) {
        const double v = ev(pts[size_t(q)]);
        const L e = std::fabs(L(v) - L(y[size_t(q)]));
        if (wi < 0 || !(e <= worst)) { worst = e; wi = q; got = v; }
      }
    } catch (std::exception& e) { what = e.what(); R.expect((std::string(sj.name) + "/evaluates").c_str(), S, idx, h, false, dumpk, "exception while evaluating at a training point"); continue; }
    R.check(sj.name, S, idx, h, worst, K * eps * kap * ymax, dumpk, "largest |k(x_i)-y_i| over the training points vs K eps kappa max|y|");
  }
  R.finish();
  return 0;
}
