"""C22 — equivalent-stress criteria: values, normals, second derivatives, invariances."""
import vfcore

META = {
    "engine": "math", "level": "exploration", "design_ref": "DESIGN.md §4.1 C22",
    "technique": "ASan+UBSan+assert harnesses on the criterion templates; double results judged against Richardson-extrapolated central differences of the library's own long-double instantiation, against documented closed forms / defining residuals in long double, and against the documented invariances",
    "text": "For Hosford 1972, Barlat 2004, Drucker 1949, Cazacu 2001, Cazacu 2004 (isotropic and orthotropic), Mohr-Coulomb, Gurson-Tvergaard-Needleman, Rousselier-Tanguy-Besson, Michel-Suquet (N=1,2,3) and the Hill tensor, stresses from 8 strata (uniaxial, biaxial, shear, hydrostatic+deviatoric, random, nearly equal and equal principal stresses, high triaxiality; scales 1e-6..1e9, random rotations) and parameters over their admissible ranges are pushed through the value / normal / second-derivative variants: the three values must agree, the normal must be the finite-difference gradient of the value and the second derivative that of the normal (long-double FD, non-converging points and principal stresses closer than 100 seps skipped and counted), degree-one homogeneity, isotropy, Hosford(a=2)=Mises, Barlat(identity)=Hosford, Drucker/Cazacu(c=0) = J2 forms, orthotropic invariants with unit coefficients = isotropic criteria, porous criteria at f=0 = Mises, implicit criteria satisfy their defining equation, equivalent stresses are non-negative and no exception escapes. Held on the cases executed; nothing is claimed beyond them.",
    "note": "Trusted: harness/ref.hxx, harness/material/{fd,mat_ref,c22_common}.hxx, g++, sanitizer runtimes. The FD engine is the library's own template in long double (so a wrong value formula is only caught by the closed forms / invariances, which exist for every criterion but Michel-Suquet and the J3O part of Cazacu). Tolerance = 50 x FD error estimate + K*eps*conditioning (eigenvalue gap, deviator/hydrostatic ratio, criterion-specific cancellation).",
}

H = vfcore.VERIF / "harness/material"
LIBS = ("TFELMaterial", "TFELMath", "TFELUtilities", "TFELException")
PARTS = {
    # part: (criteria, quick cases, thorough cases)
    "c22a": (("Hosford1972", "Drucker1949", "Cazacu2004Isotropic", "MohrCoulomb"), 160000, 2000000),
    "c22b": (("Barlat2004",), 60000, 700000),
    "c22c": (("Cazacu2001", "Cazacu2004Orthotropic"), 120000, 1500000),
    "c22d": (("GursonTvergaardNeedleman1982", "RousselierTanguyBesson2002", "MichelAndSuquet1992HollowSphere"), 100000, 1200000),
}


def build(ctx):
    out = vfcore.pmap(lambda p: (p, vfcore.compile_cxx(p, [H / (p + ".cxx")], "asan", libs=LIBS)), PARTS, workers=4)
    return dict(out)


def keymap(key, e):
    # the parameter class is the input class of these defects, whatever the stress stratum
    if "[c!=1]" in key:
        return key.rsplit(":", 1)[0]
    return key


def run(ctx):
    b = build(ctx)
    ctx.cov["rule"] = ("case = (criterion, N, stratum, stress scale, rotated principal stresses, parameters) drawn from (VERIF_SEED, index); "
                       "distinct = hash of the rounded stress and parameters per (API, stratum); non-trivial = every case (the stress is never zero)")
    for part, (crits, nq, nt) in PARTS.items():
        req = []
        for c in crits:
            for n in (1, 2, 3):
                for a in ("value(normal)=value", "value(second)=value", "normal=FD(value)"):
                    req.append(("%s<%d>:%s" % (c, n, a), None, 100))
                if c in ("Drucker1949", "Cazacu2001"):
                    req.append(("%s<%d>:second=FD(normal)[c=1]" % (c, n), None, 30))
                    req.append(("%s<%d>:second=FD(normal)[c!=1]" % (c, n), None, 100))
                else:
                    req.append(("%s<%d>:second=FD(normal)" % (c, n), None, 100))
                if c != "MohrCoulomb":
                    req.append(("%s<%d>:homogeneity f(a.s)=a.f(s)" % (c, n), None, 100))
        if part == "c22c":
            req += [("Hill<%d>:s:H:s=documented-quadratic-form" % n, None, 100) for n in (1, 2, 3)]
        ctx.run_events(b[part], ctx.n(nq, nt), require=req, timeout=3600, keymap=keymap)
    ctx.assumptions += [
        "seps = 1e-10 x stress scale (1e-12 for the implicit porous criteria); derivatives are judged only when the principal stresses the formulas divide by differ by more than 100 seps and the deviator is more than 1e-3 of the stress",
        "Mandel components of stensor are orthonormal coordinates: the normal is the plain gradient with respect to them",
        "value tolerances allow for the documented lower accuracy of the default analytical eigen-solver (half of the digits at coalescing eigenvalues)",
        "Mohr-Coulomb: stresses >= 1 in magnitude (the implementation floors J2 and |J3| at an absolute 1e-14); the closed form of docs/web/MohrCoulomb.md is not used for Lode angles <= -theta_T, where the equations of the page and its code listing / the library differ (sign(theta) in the cos(theta_T) - sin(phi) sin(theta_T)/sqrt3 term); second derivatives are not judged within 0.02 rad of the transition angle",
        "Hosford exponents 1 <= a < 2 are sampled but their derivatives are only judged away from coinciding principal stresses (|x|^a is not twice differentiable at 0)",
        "Cazacu 2001/2004 orthotropic coefficients in [0.8,1.2], |c| <= 1/2 (keeps J2O^3 - c J3O^2 and J2O^(3/2) - c J3O positive); Drucker -27/8 <= c <= 9/4; Cazacu 2004 isotropic -2.5 <= c <= 1.25; GTN q3 <= q1^2 (documented restriction)",
        "unit coefficients reduce J2O, J3O to J2, J3 (Cazacu & Barlat): Cazacu2001(a=b=1) = Drucker1949, Cazacu2004Orthotropic(a=b=1) = Cazacu2004Isotropic",
        "an exception thrown by the long-double FD engine counts as a non-converged finite difference; an exception thrown by the judged double call is a violation",
    ]
