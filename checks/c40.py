"""C40 — a failed behaviour integration leaves the output state untouched (DESIGN.md §4.4)."""
import vfcore
import gen
from checks import c39

META = {
    "engine": "gen", "level": "fault_enumeration", "design_ref": "DESIGN.md §4.4 C40",
    "technique": "failure injected at every stage of the generic integration (12 stages x return-false/throw x K[0] requests x hypotheses) through a scripted behaviour; outputs pre-poisoned and compared byte-wise after each call returning -1",
    "text": "The control behaviour fails on request at each stage of mfront::gb::integrate (initialisation, prediction operator, a-priori factor, integrator, tangent operator, auxiliary update, a-posteriori factor, internal energy, dissipated energy, speed of sound, Strict bounds, physical bounds), by returning false/FAILURE and by throwing. Output thermodynamic forces, internal state variables and both energies are filled with a recognisable pattern before the call; any change when the call returns -1 is a violation. The stage list is enumerated completely for the Default DSL entry point (exhaustive over stages), states are random.",
    "note": "Trusted: ctypes layouts (cross-checked), the scripted behaviour really fails at the named stage (the evidence counts reached/not-reached per stage; a stage never reached makes the run inconclusive). Other DSLs share Integrate.hxx, the code anchored by the property.",
}

build = c39.build


def run(ctx):
    l = c39.lib(ctx)
    if l is None:
        return
    ctx.cov["rule"] = ("case = (hypothesis, failing stage in 12, mode return-false|throw, K[0] in 8 requests, random state); distinct = (stage, mode) pairs that "
                       "really produced -1; non-trivial = the call returned -1")
    res, r = vfcore.call_worker(ctx, "checks.gen_vfctl", "c40", {"lib": str(l), "seed": ctx.seed, "per_combo": ctx.n(2, 40)},
                                env={"LD_LIBRARY_PATH": vfcore.ld_path("plain")})
    crash = ctx.classify_crash(r)
    if res is None:
        if crash:
            ctx.violation("crash:%s" % crash, "generated behaviour crashed the caller: %s\n%s" % (crash, r.err[-2000:]), {"stderr": r.err[-4000:]})
        else:
            ctx.inconc("worker failed: rc=%s %s" % (r.rc, r.err[-1500:]))
        return
    ctx.add_eval(res["n"])
    ctx.add_distinct_n(len(res["reached"]))
    ctx.cov.update({"hypotheses": res["hyps"], "failing_calls_per_stage": res["reached"], "calls_not_failing_per_stage": res["notreached"],
                    "exhaustive": True, "exhaustive_over": "the 12 failure stages of the scripted Default-DSL behaviour"})
    for s in res["samples"]:
        ctx.sample(s)
    for v in res["viol"]:
        ctx.violation(v["key"], "outputs modified by a call returning -1: %s" % v["case"], v["case"])
    from checks.gen_vfctl import STAGES
    for st, name in STAGES.items():
        if not any(k.startswith(name + "/") for k in res["reached"]):
            ctx.inconc("failure stage %s never produced a failing call" % name)
