// mat_ref.hxx — long-double reference helpers shared by the material monitors (C21, C22,
// C25, C28).  Everything is written from the textbook definitions (Hooke's law in index
// notation, Gauss-Jordan, Cholesky), never from the TFEL code paths.
#ifndef VERIF_MAT_REF_HXX
#define VERIF_MAT_REF_HXX
#include "ref.hxx"

namespace mref {
using ref::L;
using ref::M3;
using ref::T4;

struct M6 { L a[6][6]; };

// Mandel 6x6 matrix of a minor-symmetric fourth order tensor (TFEL ordering xx yy zz xy xz yz)
inline M6 to_m6(const T4& t) {
  M6 m;
  for (int p = 0; p < 6; ++p) for (int q = 0; q < 6; ++q) m.a[p][q] = ref::st2tost2_comp(t, p, q);
  return m;
}
inline T4 from_m6(const M6& m) {
  T4 t = ref::t4zero();
  for (int p = 0; p < 6; ++p) for (int q = 0; q < 6; ++q) {
    L w = m.a[p][q];
    if (p >= 3) w /= ref::SQ2;
    if (q >= 3) w /= ref::SQ2;
    int i = ref::SI[p], j = ref::SJ[p], k = ref::SI[q], l = ref::SJ[q];
    t.v[i][j][k][l] = w; t.v[j][i][k][l] = w; t.v[i][j][l][k] = w; t.v[j][i][l][k] = w;
  }
  return t;
}
// Gauss-Jordan with partial pivoting on an n x n block (n<=6); false when singular
inline bool inv6(const M6& in, M6& out, int n = 6) {
  L a[6][12];
  for (int i = 0; i < n; ++i) for (int j = 0; j < n; ++j) { a[i][j] = in.a[i][j]; a[i][n + j] = (i == j) ? 1 : 0; }
  for (int c = 0; c < n; ++c) {
    int p = c;
    for (int r = c + 1; r < n; ++r) if (std::fabs(a[r][c]) > std::fabs(a[p][c])) p = r;
    if (a[p][c] == 0 || !std::isfinite((double)a[p][c])) return false;
    if (p != c) for (int j = 0; j < 2 * n; ++j) std::swap(a[p][j], a[c][j]);
    L d = a[c][c];
    for (int j = 0; j < 2 * n; ++j) a[c][j] /= d;
    for (int r = 0; r < n; ++r) if (r != c) { L f = a[r][c]; if (f != 0) for (int j = 0; j < 2 * n; ++j) a[r][j] -= f * a[c][j]; }
  }
  for (int i = 0; i < 6; ++i) for (int j = 0; j < 6; ++j) out.a[i][j] = 0;
  for (int i = 0; i < n; ++i) for (int j = 0; j < n; ++j) out.a[i][j] = a[i][n + j];
  return true;
}
inline L m6norm(const M6& m, int n = 6) { L s = 0; for (int i = 0; i < n; ++i) for (int j = 0; j < n; ++j) s += m.a[i][j] * m.a[i][j]; return std::sqrt(s); }
// Cholesky of the leading n x n block of the *symmetrised* matrix restricted to the index
// set idx; returns true when all pivots are > 0; minratio = min pivot / max diagonal
inline bool cholesky(const M6& m, const int* idx, int n, L& minratio) {
  L a[6][6];
  L dmax = 0;
  for (int i = 0; i < n; ++i) for (int j = 0; j < n; ++j) a[i][j] = 0.5L * (m.a[idx[i]][idx[j]] + m.a[idx[j]][idx[i]]);
  for (int i = 0; i < n; ++i) dmax = std::max(dmax, std::fabs(a[i][i]));
  minratio = INFINITY;
  for (int j = 0; j < n; ++j) {
    L d = a[j][j];
    for (int k = 0; k < j; ++k) d -= a[j][k] * a[j][k];
    minratio = std::min(minratio, d / dmax);
    if (!(d > 0)) return false;
    a[j][j] = std::sqrt(d);
    for (int i = j + 1; i < n; ++i) {
      L s = a[i][j];
      for (int k = 0; k < j; ++k) s -= a[i][k] * a[j][k];
      a[i][j] = s / a[j][j];
    }
  }
  return true;
}
// t'[i][j][k][l] = t[p[i]][p[j]][p[k]][p[l]] : the tensor seen in the frame whose i-th axis
// is the p[i]-th axis of the original frame
inline T4 permute(const T4& t, const int p[3]) {
  T4 r;
  for (int i = 0; i < 3; ++i) for (int j = 0; j < 3; ++j) for (int k = 0; k < 3; ++k) for (int l = 0; l < 3; ++l)
    r.v[i][j][k][l] = t.v[p[i]][p[j]][p[k]][p[l]];
  return r;
}
inline M3 permute(const M3& m, const int p[3]) {
  M3 r;
  for (int i = 0; i < 3; ++i) for (int j = 0; j < 3; ++j) r[i][j] = m[p[i]][p[j]];
  return r;
}
// Hooke: lambda d_ij d_kl + mu (d_ik d_jl + d_il d_jk)
inline T4 iso_t4(L lambda, L mu) {
  T4 t = ref::t4zero();
  for (int i = 0; i < 3; ++i) for (int j = 0; j < 3; ++j) for (int k = 0; k < 3; ++k) for (int l = 0; l < 3; ++l)
    t.v[i][j][k][l] = lambda * (i == j) * (k == l) + mu * ((i == k) * (j == l) + (i == l) * (j == k));
  return t;
}
// orthotropic stiffness from the 9 engineering constants: the compliance is written down
// (eps_11 = s_11/E1 - nu12 s_22/E1 - nu13 s_33/E1, ..., 2 eps_12 = s_12/G12) and inverted.
// cond = Frobenius condition number of the 3x3 normal block of the compliance
inline bool ortho_t4(T4& out, L& cond, L E1, L E2, L E3, L n12, L n23, L n13, L G12, L G23, L G13) {
  M3 S = ref::zero();
  S[0][0] = 1 / E1; S[1][1] = 1 / E2; S[2][2] = 1 / E3;
  S[0][1] = S[1][0] = -n12 / E1;
  S[0][2] = S[2][0] = -n13 / E1;
  S[1][2] = S[2][1] = -n23 / E2;
  const L d = ref::det(S);
  if (!(std::fabs(d) > 0)) return false;
  M3 C = ref::inv(S);
  cond = ref::norm(S) * ref::norm(C);
  out = ref::t4zero();
  for (int i = 0; i < 3; ++i) for (int j = 0; j < 3; ++j) out.v[i][i][j][j] = C[i][j];
  auto shear = [&](int i, int j, L G) { out.v[i][j][i][j] = out.v[i][j][j][i] = out.v[j][i][i][j] = out.v[j][i][j][i] = G; };
  shear(0, 1, G12); shear(0, 2, G13); shear(1, 2, G23);
  return true;
}
// plane-stress static condensation of the normal direction `ax`:
// C'_ijkl = C_ijkl - C_ij,ax,ax C_ax,ax,kl / C_ax,ax,ax,ax ; rows/columns (ax,ax) become zero
inline T4 condense(const T4& t, int ax) {
  T4 r;
  const L d = t.v[ax][ax][ax][ax];
  for (int i = 0; i < 3; ++i) for (int j = 0; j < 3; ++j) for (int k = 0; k < 3; ++k) for (int l = 0; l < 3; ++l)
    r.v[i][j][k][l] = t.v[i][j][k][l] - t.v[i][j][ax][ax] * t.v[ax][ax][k][l] / d;
  for (int i = 0; i < 3; ++i) for (int j = 0; j < 3; ++j) { r.v[i][j][ax][ax] = 0; r.v[ax][ax][i][j] = 0; }
  return r;
}
inline L t4maxabs(const T4& a) { L s = 0; const L* p = &a.v[0][0][0][0]; for (int i = 0; i < 81; ++i) s = std::max(s, std::fabs(p[i])); return s; }
inline L major_asym(const T4& a) {
  L s = 0;
  for (int i = 0; i < 3; ++i) for (int j = 0; j < 3; ++j) for (int k = 0; k < 3; ++k) for (int l = 0; l < 3; ++l)
    s = std::max(s, std::fabs(a.v[i][j][k][l] - a.v[k][l][i][j]));
  return s;
}
}  // namespace mref
#endif
