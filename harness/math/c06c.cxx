// C06 (part c) — TFEL/Material helpers: first and second derivatives of the orthotropic invariants J2O, J3O
// (Cazacu-Barlat) and the J3 synonyms of IsotropicPlasticity.hxx.
// The differentiated functions computeJ2O / computeJ3O are templated on the scalar type: the oracle is the
// Richardson central difference (harness/math/fd.hxx) of the *library's own* function instantiated in long
// double (the documented closed form of J3O in docs/web/tensors.md carries typos - s_zz^3, "b3" - and is not
// used); second derivatives are judged against differences of the library's first derivative in long double,
// itself judged against the function in the same run.  J3 = det(dev s) is written in index notation.
#define VFH_MAIN
#include "math/ref4.hxx"
#include "math/fd.hxx"
#include "TFEL/Math/stensor.hxx"
#include "TFEL/Math/st2tost2.hxx"
#include "TFEL/Material/IsotropicPlasticity.hxx"
#include "TFEL/Material/OrthotropicPlasticity.hxx"

using namespace ref;
namespace tfm = tfel::math;
namespace tfmat = tfel::material;

static vf::Reporter R;

template <unsigned short N, typename T>
static tfm::stensor<N, T> mks(const M3& m) {
  tfm::stensor<N, T> s;
  auto v = to_st(m, N);
  for (int k = 0; k < ssize(N); ++k) s[k] = static_cast<T>(v[k]);
  return s;
}
static M3 scalar_m(L v) { M3 m = zero(); m[0][0] = v; return m; }

struct Ctx6 { const char* S; uint64_t idx; uint64_t h; const char* tname; int N; };
template <typename Dump>
static void report(const Ctx6& c, const char* f, const fd::Verdict& v, Dump&& dump, const char* msg = "") {
  char api[128];
  std::snprintf(api, sizeof api, "%s<%d,%s>", f, c.N, c.tname);
  if (v.judged == 0) { R.skip(api, c.S); return; }
  for (int i = 0; i < v.skipped; ++i) R.skip(api, c.S);
  R.check(api, c.S, c.idx, c.h, v.err, v.tol, dump, msg);
}

template <unsigned short N, typename T>
static void one_case(const vf::Args& a, uint64_t idx, const char* tname) {
  vf::Rng g(a.seed, 6301 + N * 7 + sizeof(T), idx);
  const int st = int(idx % ST_NSTRATA);
  const char* S = STRATA4[st];
  const L eps = EpsOf<T>::v;
  const int ns = ssize(N);
  auto s1 = mks<N, T>(gen_sym4(g, N, st, sizeof(T) == 4 ? 2 : 4));
  const M3 S1 = from_st(s1, N);
  const L nS = norm(S1);
  // orthotropy coefficients: isotropic values (1) perturbed, or arbitrary
  tfm::tvector<6u, T> a6; tfm::tvector<11u, T> b11;
  tfm::tvector<6u, L> a6l; tfm::tvector<11u, L> b11l;
  const bool wide = g.coin();
  for (int i = 0; i < 6; ++i) { a6[i] = static_cast<T>(wide ? g.uni(-2, 2) : 1 + g.uni(-0.3, 0.3)); a6l[i] = L(a6[i]); }
  for (int i = 0; i < 11; ++i) { b11[i] = static_cast<T>(wide ? g.uni(-2, 2) : 1 + g.uni(-0.3, 0.3)); b11l[i] = L(b11[i]); }
  L amax = 0, bmax = 0;
  for (int i = 0; i < 6; ++i) amax = std::max(amax, std::fabs(a6l[i]));
  for (int i = 0; i < 11; ++i) bmax = std::max(bmax, std::fabs(b11l[i]));
  uint64_t h = vf::hash_arr(&s1[0], ns); h = vf::hash_arr(&a6[0], 6, h); h = vf::hash_arr(&b11[0], 11, h);
  auto dump = [&] {
    vf::J j; j.s("T", tname).i("N", N).arr("s", &s1[0], &s1[0] + ns).arr("a", &a6[0], &a6[0] + 6).arr("b", &b11[0], &b11[0] + 11);
    return j.str();
  };
  const Ctx6 c{S, idx, h, tname, int(N)};
  auto sc = [&](const char* f) { char api[128]; std::snprintf(api, sizeof api, "%s<%d,%s>", f, int(N), tname); vf::set_case(api, S, idx); };
  const L K = 256;
  const L hp = (nS > 0 ? nS : 1) / 64;
  auto toL = [](const M3& x) { return mks<N, L>(x); };

  // ---- J2O
  {
    sc("computeJ2ODerivative");
    const auto G = tfmat::computeJ2ODerivative(s1, a6);
    const M3 Gm = from_st(G, N);
    auto v = fd::judge([&](const M3& x) { return scalar_m(L(tfmat::computeJ2O(toL(x), a6l))); }, [&](const M3& d) { return scalar_m(dot(Gm, d)); },
                       S1, N, true, g, hp, K * eps * 4 * amax * nS);
    report(c, "computeJ2ODerivative", v, dump);
    sc("computeJ2OSecondDerivative");
    const auto H = tfmat::computeJ2OSecondDerivative(s1, a6);
    const T4 Hm = from_st2tost2(H, N);
    auto w = fd::judge([&](const M3& x) { return from_st(tfmat::computeJ2ODerivative(toL(x), a6l), N); }, [&](const M3& d) { return ddot(Hm, d); },
                       S1, N, true, g, hp, K * eps * 4 * amax);
    report(c, "computeJ2OSecondDerivative", w, dump);
  }
  // ---- J3O
  {
    sc("computeJ3ODerivative");
    const auto G = tfmat::computeJ3ODerivative(s1, b11);
    const M3 Gm = from_st(G, N);
    auto v = fd::judge([&](const M3& x) { return scalar_m(L(tfmat::computeJ3O(toL(x), b11l))); }, [&](const M3& d) { return scalar_m(dot(Gm, d)); },
                       S1, N, true, g, hp, K * eps * 8 * bmax * nS * nS);
    report(c, "computeJ3ODerivative", v, dump);
    sc("computeJ3OSecondDerivative");
    const auto H = tfmat::computeJ3OSecondDerivative(s1, b11);
    const T4 Hm = from_st2tost2(H, N);
    auto w = fd::judge([&](const M3& x) { return from_st(tfmat::computeJ3ODerivative(toL(x), b11l), N); }, [&](const M3& d) { return ddot(Hm, d); },
                       S1, N, true, g, hp, K * eps * 16 * bmax * nS);
    report(c, "computeJ3OSecondDerivative", w, dump);
  }
  // ---- with all coefficients equal to one the orthotropic invariants reduce to J2 and J3 (Cazacu-Barlat)
  {
    tfm::tvector<6u, L> one6; tfm::tvector<11u, L> one11;
    for (int i = 0; i < 6; ++i) one6[i] = 1;
    for (int i = 0; i < 11; ++i) one11[i] = 1;
    const auto sl = toL(S1);
    const M3 D = dev(S1);
    char api[128];
    std::snprintf(api, sizeof api, "computeJ2O(a=1)=J2<%d,ldouble>", int(N));
    R.check(api, S, idx, h, std::fabs(L(tfmat::computeJ2O(sl, one6)) - 0.5L * dot(D, D)), 256 * std::numeric_limits<L>::epsilon() * nS * nS, dump);
    std::snprintf(api, sizeof api, "computeJ3O(b=1)=J3<%d,ldouble>", int(N));
    R.check(api, S, idx, h, std::fabs(L(tfmat::computeJ3O(sl, one11)) - det(D)), 256 * std::numeric_limits<L>::epsilon() * nS * nS * nS, dump);
  }
  // ---- J3 = det(dev s)
  {
    sc("computeJ3Derivative");
    const auto G = tfmat::computeJ3Derivative(s1);
    const M3 Gm = from_st(G, N);
    auto v = fd::judge([](const M3& x) { return scalar_m(det(dev(x))); }, [&](const M3& d) { return scalar_m(dot(Gm, d)); },
                       S1, N, true, g, hp, K * eps * 3 * nS * nS);
    report(c, "computeJ3Derivative", v, dump);
    sc("computeJ3SecondDerivative");
    const auto H = tfmat::computeJ3SecondDerivative(s1);
    const T4 Hm = from_st2tost2(H, N);
    auto w = fd::judge([&](const M3& x) { return from_st(tfmat::computeJ3Derivative(toL(x)), N); }, [&](const M3& d) { return ddot(Hm, d); },
                       S1, N, true, g, hp, K * eps * 6 * nS);
    report(c, "computeJ3SecondDerivative", w, dump);
  }
}

template <typename T>
static void dispatch(const vf::Args& a, uint64_t idx, const char* tname) {
  switch ((idx / 4) % 3) {
    case 0: one_case<1, T>(a, idx, tname); break;
    case 1: one_case<2, T>(a, idx, tname); break;
    default: one_case<3, T>(a, idx, tname);
  }
}

int main(int argc, char** argv) {
  vf::Args a(argc, argv);
  for (long i = 0; i < a.cases; ++i) {
    const uint64_t idx = a.only >= 0 ? uint64_t(a.only) : a.gidx(i);
    switch ((idx / 12) % 2) {
      case 0: dispatch<double>(a, idx, "double"); break;
      default: dispatch<float>(a, idx, "float");
    }
    if (a.only >= 0) break;
  }
  R.finish();
  return 0;
}
