// fd.hxx — finite-difference machinery of the derivative monitors (DESIGN.md §3, C06; reusable by C05, C14,
// C22-C24): central differences with Richardson extrapolation over the steps h, h/2, h/4 in long double,
// with an error estimate and a convergence test.  Functions are maps 3x3 -> 3x3 (ref::M3); a scalar
// function returns its value in [0][0].
#ifndef VERIF_FD_HXX
#define VERIF_FD_HXX
#include "ref.hxx"

namespace fd {
using ref::L;
using ref::M3;

struct Estimate {
  M3 d;            // extrapolated directional derivative  d/dt f(x + t dir) at t=0
  L est = 0;       // estimated error of d (difference of the two last Richardson levels + round-off floor)
  bool converged = false;
};

inline M3 lin(const M3& a, L ca, const M3& b, L cb) {
  M3 r;
  for (int i = 0; i < 3; ++i) for (int j = 0; j < 3; ++j) r[i][j] = ca * a[i][j] + cb * b[i][j];
  return r;
}

// f: callable M3 -> M3.  h: first step (absolute).
template <typename F>
inline Estimate richardson(F&& f, const M3& x, const M3& dir, L h) {
  const L epsL = std::numeric_limits<L>::epsilon();
  L fscale = 0;
  auto D = [&](L hh) {
    const M3 fp = f(ref::add(x, dir, hh)), fm = f(ref::add(x, dir, -hh));
    fscale = std::max(fscale, std::max(ref::norm(fp), ref::norm(fm)));
    return lin(fp, 1 / (2 * hh), fm, -1 / (2 * hh));
  };
  const M3 d1 = D(h), d2 = D(h / 2), d3 = D(h / 4);
  const M3 r1 = lin(d2, 4 / 3.0L, d1, -1 / 3.0L), r2 = lin(d3, 4 / 3.0L, d2, -1 / 3.0L);
  Estimate e;
  e.d = lin(r2, 16 / 15.0L, r1, -1 / 15.0L);
  // round-off of a difference quotient with the smallest step, amplified by the extrapolation weights
  const L floor_ = 4 * epsL * fscale / (h / 4);
  const L e12 = ref::dist(d1, d2), e23 = ref::dist(d2, d3);
  e.est = ref::dist(r2, r1) + floor_;
  // smooth f: successive differences shrink by ~4; a kink / pole within the stencil makes them stall or grow.
  // Differences already at the 1e-10 relative level are round-off of an (almost) exact quotient (polynomials,
  // cancellation inside f): accepted, their size is part of est.
  const L dn = ref::norm(d3) + ref::norm(d2);
  e.converged = std::isfinite(double(e.est)) && std::isfinite(double(ref::norm(e.d))) &&
                (e23 <= 0.5L * e12 + floor_ || e23 <= 1e-10L * dn);
  return e;
}

// basis of the directions representable in dimension N: general tensors (tsize(N) of them) ...
inline M3 gen_dir(int k) { M3 d = ref::zero(); d[ref::TI[k]][ref::TJ[k]] = 1; return d; }
// ... and symmetric tensors (ssize(N) of them, unit Frobenius norm: the Mandel basis)
inline M3 sym_dir(int k) {
  M3 d = ref::zero();
  if (k < 3) d[k][k] = 1;
  else { d[ref::SI[k]][ref::SJ[k]] = 1 / ref::SQ2; d[ref::SJ[k]][ref::SI[k]] = 1 / ref::SQ2; }
  return d;
}
inline M3 random_dir(vf::Rng& g, int N, bool symmetric) {
  M3 d = symmetric ? ref::random_sym(g, N) : ref::random_gen(g, N);
  const L n = ref::norm(d);
  return n > 0 ? ref::scal(d, 1 / n) : (symmetric ? sym_dir(0) : gen_dir(0));
}

// Judge an analytic derivative against FD along all basis directions + nrand random ones.
//   apply(dir)  -> analytic directional derivative (M3) computed from the library's result
//   f           -> the function differentiated (long double)
//   tol_round   -> K * eps_T * scale  (rounding allowance of the library's evaluation, per unit direction)
// Returns the worst err/tol over the converged directions in (err, tol) and the numbers of judged / skipped directions.
struct Verdict { L err = 0, tol = 1, ratio = -1; int judged = 0, skipped = 0; L fd_est = 0; };

template <typename F, typename A>
inline Verdict judge(F&& f, A&& apply, const M3& x, int N, bool symmetric, vf::Rng& g, L h, L tol_round, int nrand = 2) {
  Verdict v;
  const int nb = symmetric ? ref::ssize(N) : ref::tsize(N);
  for (int k = 0; k < nb + nrand; ++k) {
    const M3 dir = k < nb ? (symmetric ? sym_dir(k) : gen_dir(k)) : random_dir(g, N, symmetric);
    const Estimate e = richardson(f, x, dir, h);
    if (!e.converged) { ++v.skipped; continue; }
    const M3 a = apply(dir);
    L err = ref::dist(a, e.d);
    if (!std::isfinite(double(err))) err = INFINITY;  // NaN in the analytic result is a failure
    const L tol = 50 * e.est + tol_round;
    const L ratio = tol > 0 ? err / tol : (err > 0 ? INFINITY : 0);
    ++v.judged;
    if (ratio > v.ratio) { v.ratio = ratio; v.err = err; v.tol = tol; v.fd_est = e.est; }
  }
  return v;
}

}  // namespace fd
#endif
