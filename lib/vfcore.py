"""Core of the /verif runtime-monitoring framework (see DESIGN.md section 2).

Everything a check needs: build trees of /repo (hooks ON), cached compilation of
harnesses against the *current* /repo headers, child processes under a SIGKILL
watchdog, violation routing through known_findings.json, evidence files.
"""
import concurrent.futures as cf
import contextlib
import fcntl
import fnmatch
import hashlib
import json
import os
import re
import shlex
import shutil
import signal
import subprocess
import sys
import time
from pathlib import Path

VERIF = Path(__file__).resolve().parent.parent
REPO = Path(os.environ.get("VF_REPO", "/repo"))
BUILD = VERIF / "build"
CACHE = BUILD / "cache"
GUARD = "TFEL_VERIF"
NCPU = os.cpu_count() or 4

LIBDIRS = ["Exception", "Math", "Material", "Utilities", "System", "Glossary",
           "UnicodeSupport", "NUMODIS", "Config", "Tests"]

# vptr is excluded: with TFEL's -fvisibility=hidden the type_info objects are duplicated across
# the shared libraries and UBSan's vptr check reports false "does not point to an object of type"
# errors on perfectly valid calls (seen on mfront::MFront at start-up).
SAN_FLAGS = ["-fsanitize=address,undefined", "-fno-sanitize=vptr", "-fno-sanitize-recover=all",
             "-fno-omit-frame-pointer"]
FLAVOURS = {
    # flavour: (tree, compile flags, link flags)
    "asan": ("asan", ["-O1", "-g1"] + SAN_FLAGS, SAN_FLAGS),
    "asanO2": ("asan", ["-O2", "-g1"] + SAN_FLAGS, SAN_FLAGS),
    "plain": ("plain", ["-O2", "-g1"], []),
    "O2": ("plain", ["-O2", "-DNDEBUG"], []),
    "Ofast": ("plain", ["-Ofast", "-DNDEBUG"], []),
    "tsan": ("plain", ["-O1", "-g1", "-fsanitize=thread"], ["-fsanitize=thread"]),
}

# TFEL's cmake wipes CMAKE_CXX_FLAGS unless USE_EXTERNAL_COMPILER_FLAGS is ON: the full flag
# sets are therefore given here (the project's own flags, taken from a default configure,
# plus the hook guard; the asan tree swaps the optimisation part for sanitizer flags and
# keeps assert() enabled).
_COMMON = ("-fvisibility-inlines-hidden -fvisibility=hidden -DTFEL_HAVE_NORETURN_ATTRIBUTE "
           "-DLINUX64 -DUNIX64 -DTHREAD -fno-fast-math -w -D" + GUARD)
_CCOMMON = "-DLINUX64 -DUNIX64 -DTHREAD -w -D" + GUARD
_PLAIN = " -ftree-vectorize -march=native -DTFEL_NO_RUNTIME_CHECK_BOUNDS -O2 -DNDEBUG"
_ASAN = " -O1 -g1 -fno-omit-frame-pointer -fsanitize=address,undefined -fno-sanitize=vptr -fno-sanitize-recover=all"
TREE_CFG = {
    "plain": ["-DUSE_EXTERNAL_COMPILER_FLAGS=ON", "-DCMAKE_BUILD_TYPE=Release",
              "-DCMAKE_CXX_FLAGS_RELEASE=", "-DCMAKE_C_FLAGS_RELEASE=",
              "-DCMAKE_CXX_FLAGS=" + _COMMON + _PLAIN, "-DCMAKE_C_FLAGS=" + _CCOMMON + " -O2 -DNDEBUG"],
    "asan": ["-DUSE_EXTERNAL_COMPILER_FLAGS=ON", "-DCMAKE_BUILD_TYPE=Release",
             "-DCMAKE_CXX_FLAGS_RELEASE=", "-DCMAKE_C_FLAGS_RELEASE=",
             "-DCMAKE_CXX_FLAGS=" + _COMMON + _ASAN, "-DCMAKE_C_FLAGS=" + _CCOMMON + _ASAN,
             "-DCMAKE_EXE_LINKER_FLAGS=-fsanitize=address,undefined",
             "-DCMAKE_SHARED_LINKER_FLAGS=-fsanitize=address,undefined",
             "-DCMAKE_MODULE_LINKER_FLAGS=-fsanitize=address,undefined"],
}
DEFAULT_TARGETS = ["mfront", "mtest", "tfel-check", "mfront-query", "tfel-unicode-filt"]

SAN_ENV = {
    "ASAN_OPTIONS": "abort_on_error=1:detect_leaks=0:halt_on_error=1:"
                    "allocator_may_return_null=1:handle_abort=0",
    "UBSAN_OPTIONS": "print_stacktrace=1:halt_on_error=1",
    "TSAN_OPTIONS": "halt_on_error=0:second_deadlock_stack=1",
}


class HarnessFailure(Exception):
    """The machinery itself failed (exit 2), as opposed to the code under test."""


class Result:
    def __init__(self, rc, out, err, timed_out, wall):
        self.rc, self.out, self.err, self.timed_out, self.wall = rc, out, err, timed_out, wall

    @property
    def signal(self):
        return -self.rc if self.rc is not None and self.rc < 0 else 0

    def __repr__(self):
        return "Result(rc=%r, timed_out=%r, wall=%.2f)" % (self.rc, self.timed_out, self.wall)


def run(cmd, timeout=120, cwd=None, env=None, stdin=None, binary=False, merge=False):
    """Run a child in its own process group; on timeout SIGKILL the whole group
    (ProcessManager installs a SIGTERM handler that can deadlock)."""
    e = dict(os.environ)
    e.update(SAN_ENV)
    if env:
        e.update({k: str(v) for k, v in env.items()})
    t0 = time.time()
    p = subprocess.Popen([str(c) for c in cmd], cwd=cwd, env=e,
                         stdin=subprocess.PIPE if stdin is not None else subprocess.DEVNULL,
                         stdout=subprocess.PIPE,
                         stderr=subprocess.STDOUT if merge else subprocess.PIPE,
                         start_new_session=True)
    to = False
    try:
        if stdin is not None and not isinstance(stdin, bytes):
            stdin = stdin.encode()
        out, err = p.communicate(stdin, timeout=timeout)
    except subprocess.TimeoutExpired:
        to = True
        with contextlib.suppress(ProcessLookupError):
            os.killpg(p.pid, signal.SIGKILL)
        out, err = p.communicate()
    finally:
        with contextlib.suppress(ProcessLookupError):
            os.killpg(p.pid, signal.SIGKILL)
    if not binary:
        out = out.decode("utf-8", "replace")
        err = err.decode("utf-8", "replace") if err is not None else ""
    return Result(p.returncode, out, err if err is not None else "", to, time.time() - t0)


def pmap(fn, items, workers=None):
    items = list(items)
    if not items:
        return []
    with cf.ThreadPoolExecutor(max_workers=workers or NCPU) as ex:
        return list(ex.map(fn, items))


@contextlib.contextmanager
def flock(path):
    path = Path(path)
    path.parent.mkdir(parents=True, exist_ok=True)
    with open(path, "w") as f:
        fcntl.flock(f, fcntl.LOCK_EX)
        try:
            yield
        finally:
            fcntl.flock(f, fcntl.LOCK_UN)


def sha(*parts):
    h = hashlib.sha1()
    for p in parts:
        if isinstance(p, str):
            p = p.encode()
        h.update(p)
        h.update(b"\0")
    return h.hexdigest()


# ----------------------------------------------------------------------------- trees

def tree(flavour_tree):
    return BUILD / flavour_tree


def libdirs(t):
    d = [tree(t) / "src" / x for x in LIBDIRS]
    d += [tree(t) / "mfront" / "src", tree(t) / "mtest" / "src", tree(t) / "tfel-check" / "src",
          tree(t) / "mfront" / "mfront-query" / "src"]
    return [x for x in d]


def ld_path(t):
    return ":".join(str(x) for x in libdirs(t))


_TREE_DONE = set()


def ensure_tree(t, targets=None, quiet=True):
    """Bring /verif/build/<t> up to date with /repo's working tree (once per process)."""
    targets = targets or DEFAULT_TARGETS
    b = tree(t)
    if (t, tuple(targets)) in _TREE_DONE:
        return b
    _TREE_DONE.add((t, tuple(targets)))
    if os.environ.get("VF_DEBUG_SKIP_TREE_REBUILD") and (b / "build.ninja").exists():
        # sensitivity campaigns only (tools/revert_campaign.py, tools/try_seed.sh) and only for changes confined to headers that the
        # harness itself compiles: the libraries the harness links are left as built.  Never set by a registered command.
        print("NOTE: VF_DEBUG_SKIP_TREE_REBUILD set: %s tree not brought up to date" % t, flush=True)
        return b
    with flock(BUILD / (t + ".lock")):
        if not (b / "build.ninja").exists():
            r = run(["cmake", "-G", "Ninja", "-S", REPO, "-B", b, "-Denable-testing=OFF"] + TREE_CFG[t],
                    timeout=1800)
            if r.rc != 0:
                raise HarnessFailure("cmake configure failed for %s:\n%s\n%s" % (t, r.out[-3000:], r.err[-3000:]))
        r = run(["ninja", "-C", b, "-j", str(NCPU)] + targets, timeout=7200)
        if r.rc != 0:
            raise HarnessFailure("ninja failed for %s:\n%s\n%s" % (t, r.out[-6000:], r.err[-3000:]))
    return b


def tool(t, name):
    p = {
        "mfront": "mfront/src/mfront",
        "mfront-query": "mfront-query/src/mfront-query",
        "mtest": "mtest/src/mtest",
        "tfel-check": "tfel-check/src/tfel-check",
        "tfel-unicode-filt": "tfel-unicode-filt/src/tfel-unicode-filt",
    }[name]
    return tree(t) / p


def include_flags(t="plain"):
    return ["-I" + str(REPO / "include"), "-I" + str(REPO / "mfront" / "include"),
            "-I" + str(tree(t) / "include"), "-I" + str(REPO / "mtest" / "include"),
            "-I" + str(REPO / "tfel-check" / "include"),
            "-I" + str(VERIF / "harness")]


def link_flags(t, libs):
    fl = []
    for d in libdirs(t):
        fl += ["-L" + str(d), "-Wl,-rpath," + str(d)]
    fl += ["-l" + l for l in libs]
    return fl


def _deps_key(flags, depfile):
    """hash of compile flags + content of every dependency named in a gcc .d file"""
    try:
        txt = Path(depfile).read_text()
    except OSError:
        return None
    txt = txt.replace("\\\n", " ")
    deps = []
    for line in txt.splitlines():
        if ":" in line:
            deps += line.split(":", 1)[1].split()
    h = hashlib.sha1(" ".join(flags).encode())
    for d in sorted(set(deps)):
        try:
            h.update(d.encode())
            h.update(hashlib.sha1(Path(d).read_bytes()).digest())
        except OSError:
            return None
    return h.hexdigest()


def compile_cxx(name, sources, flavour="asan", libs=("TFELMath", "TFELException"), flags=(), cxx="g++", std="c++20",
                shared=False, allow_fail=False):
    """Compile a harness (or generated code) against the current /repo tree.
    Cached: recompiled whenever any file it depends on (incl. every /repo header)
    or a flag changes.  Returns the binary path; raises HarnessFailure on error
    unless allow_fail (then returns (None, compiler output))."""
    t, cfl, lfl = FLAVOURS[flavour]
    ensure_tree(t)
    sources = [str(s) for s in sources]
    slot = CACHE / ("%s.%s" % (name, flavour))
    slot.mkdir(parents=True, exist_ok=True)
    out = slot / (name + (".so" if shared else ""))
    flags_all = [cxx, "-std=" + std, "-D" + GUARD, "-DCYRANO_ARCH=64"] + cfl + list(flags) + include_flags(t)
    if shared:
        flags_all += ["-fPIC", "-shared"]
    link = lfl + link_flags(t, libs) + ["-lpthread", "-ldl"]
    with flock(slot / "lock"):
        keyfile = slot / "key"
        key = _deps_key(flags_all + link + sources, slot / "deps.d")
        if key and out.exists() and keyfile.exists() and keyfile.read_text() == key:
            # libraries may have been rebuilt: the binary is dynamically linked, fine.
            return out if not allow_fail else (out, "")
        cmd = flags_all + ["-MMD", "-MF", str(slot / "deps.d"), "-o", str(out)] + sources + link
        if len(sources) > 1:
            # -MF with several sources: compile objects separately
            objs = []
            deps_txt = ""
            for i, s in enumerate(sources):
                o = slot / ("o%d.o" % i)
                c = flags_all + ["-c", "-MMD", "-MF", str(slot / ("d%d.d" % i)), "-o", str(o), s]
                if shared:
                    pass
                r = run(c, timeout=3600)
                if r.rc != 0:
                    if allow_fail:
                        return None, r.err + r.out
                    raise HarnessFailure("compilation of %s failed:\n%s" % (s, (r.err + r.out)[-8000:]))
                objs.append(str(o))
                deps_txt += (slot / ("d%d.d" % i)).read_text() + "\n"
            (slot / "deps.d").write_text(deps_txt)
            cmd = flags_all + ["-o", str(out)] + objs + link
        r = run(cmd, timeout=3600)
        if r.rc != 0:
            if allow_fail:
                return None, r.err + r.out
            raise HarnessFailure("compilation of %s failed:\n%s" % (name, (r.err + r.out)[-8000:]))
        key = _deps_key(flags_all + link + sources, slot / "deps.d")
        keyfile.write_text(key or "")
    return out if not allow_fail else (out, "")


# ----------------------------------------------------------------------------- findings

def load_known():
    p = VERIF / "known_findings.json"
    if not p.exists():
        return []
    return json.loads(p.read_text()).get("findings", [])


# ----------------------------------------------------------------------------- ctx

class Ctx:
    def __init__(self, pid, tier="quick", seed=0, replay=None, level="exploration"):
        self.pid, self.tier, self.seed, self.replay = pid, tier, int(seed), replay
        self.level = level
        self.t0 = time.time()
        self.work = VERIF / "work" / ("%s.%d" % (pid, os.getpid()))
        if self.work.exists():
            shutil.rmtree(self.work, ignore_errors=True)
        self.work.mkdir(parents=True)
        self.replays = VERIF / "replays"
        self.replays.mkdir(exist_ok=True)
        self.cov = {"evaluations": 0, "distinct_nontrivial": 0, "rule": "", "samples": []}
        self.assumptions = []
        self.violations = []      # (key, what, path)
        self.known_hits = {}      # key -> what
        self.inconclusive = []
        self.known = [k for k in load_known() if k.get("property") == pid]
        self._seen_keys = set()
        self._distinct = set()

    # -- tiers
    def n(self, quick, thorough):
        if os.environ.get("VF_N"):  # debugging aid only: scale down a check
            return max(1, int(os.environ["VF_N"]))
        return thorough if self.tier == "thorough" else quick

    @property
    def thorough(self):
        return self.tier == "thorough"

    # -- coverage helpers
    def add_eval(self, n=1):
        self.cov["evaluations"] += n

    def add_distinct(self, h):
        """count a distinct non-trivial case by hash"""
        self._distinct.add(h)

    def add_distinct_n(self, n):
        self.cov["distinct_nontrivial"] += n

    def sample(self, s, cap=6):
        if len(self.cov["samples"]) < cap:
            self.cov["samples"].append(s)

    def count(self, key, n=1):
        d = self.cov.setdefault("counters", {})
        d[key] = d.get(key, 0) + n

    def maxstat(self, key, v):
        d = self.cov.setdefault("max", {})
        if key not in d or v > d[key]:
            d[key] = v

    # -- verdicts
    def violation(self, key, what, replay=None):
        """Report one violation.  key is specific (call site + input class)."""
        full = key if key.startswith(self.pid + ":") else "%s:%s" % (self.pid, key)
        for k in self.known:
            if k.get("status") == "open" and fnmatch.fnmatchcase(full, k["key"]):
                if full not in self.known_hits:
                    self.known_hits[full] = k.get("what", what)
                    print("KNOWN-FINDING: property=%s %s [%s]" % (self.pid, k.get("what", what), full), flush=True)
                return False
        if full in self._seen_keys and len(self.violations) >= 1:
            # one replay file per key is enough
            self.count("violations_suppressed_same_key")
            return True
        self._seen_keys.add(full)
        path = self.replays / ("%s-%s.json" % (self.pid, sha(full)[:10]))
        path.write_text(json.dumps({"property": self.pid, "key": full, "what": what,
                                    "seed": self.seed, "tier": self.tier,
                                    "case": replay}, indent=1, default=str))
        self.violations.append((full, what, str(path)))
        print("VIOLATION property=%s replay=%s" % (self.pid, path), flush=True)
        print("  key=%s\n  what=%s" % (full, str(what)[:2000]), flush=True)
        return True

    def inconc(self, reason):
        self.inconclusive.append(reason)
        print("INCONCLUSIVE: %s" % reason, flush=True)

    def require(self, cond, reason):
        if not cond:
            self.inconc(reason)

    # -- classification of a child's death
    def classify_crash(self, r, recognised_terminate=False):
        """Return None if the process ended in a regular way, else a short crash class.
        recognised_terminate: the tool deliberately lets std::exception reach terminate
        (mtest / mfront-query under libstdc++): SIGABRT with the libstdc++ banner naming
        an exception type is then a *report*, not a crash."""
        txt = (r.err or "") + (r.out or "" if isinstance(r.out, str) else "")
        if r.timed_out:
            return "hang"
        m = re.search(r"ERROR: AddressSanitizer: ([\w-]+)", txt)
        if m:
            return "asan:" + m.group(1) + ":" + _first_repo_frame(txt)
        m = re.search(r"([\w./+-]+):(\d+):\d+: runtime error: ([^\n]{0,80})", txt)
        if m:
            return "ubsan:" + os.path.basename(m.group(1)) + ":" + m.group(2)
        m = re.search(r"([\w./+-]+):(\d+): [^\n]*Assertion `([^']*)' failed", txt)
        if m:
            return "assert:" + os.path.basename(m.group(1)) + ":" + m.group(2)
        if r.rc is not None and r.rc < 0:
            sig = -r.rc
            if sig == signal.SIGABRT and recognised_terminate and \
                    re.search(r"terminate called after throwing an instance of '[^']+'\s*\n\s*what\(\):", txt):
                return None
            try:
                return "signal:" + signal.Signals(sig).name
            except ValueError:
                return "signal:%d" % sig
        return None

    # -- finish
    def finish(self):
        if self._distinct:
            self.cov["distinct_nontrivial"] += len(self._distinct)
        if not self.cov["samples"]:
            # a monitor that only keeps aggregates: the evidence still shows something it observed (first aggregate entries)
            agg = {k: (dict(list(v.items())[:4]) if isinstance(v, dict) else v) for k, v in self.cov.items()
                   if k not in ("samples", "rule", "evaluations", "distinct_nontrivial") and v not in (None, {}, [])}
            self.cov["samples"].append({"aggregate_only": True, "observed": dict(list(agg.items())[:6])})
        ev = {
            "property_id": self.pid, "tier": self.tier, "seed": self.seed, "level": self.level,
            "coverage": self.cov, "assumptions": self.assumptions,
            "wall_s": round(time.time() - self.t0, 2), "violations": len(self.violations),
            "known_findings_hit": sorted(self.known_hits),
            "inconclusive": self.inconclusive,
            "verdict": "violated" if self.violations else ("inconclusive" if self.inconclusive else "held-on-observed"),
        }
        (VERIF / "evidence").mkdir(exist_ok=True)
        (VERIF / "evidence" / (self.pid + ".json")).write_text(json.dumps(ev, indent=1, default=str) + "\n")
        shutil.rmtree(self.work, ignore_errors=True)
        if self.violations:
            return 1
        if self.inconclusive:
            return 2
        c = self.cov
        print("OK property=%s tier=%s seed=%d evaluations=%d distinct=%d wall=%.1fs" %
              (self.pid, self.tier, self.seed, c["evaluations"], c["distinct_nontrivial"], ev["wall_s"]), flush=True)
        return 0

    # ------------------------------------------------------------------ event harness runner
    def run_events(self, binary, cases, shards=None, extra=(), timeout=900, env=None,
                   require=(), keymap=None, stdin=None):
        """Run an event-emitting harness (harness/vfh.hxx protocol) in `shards` parallel
        processes and fold its events into coverage / violations.
        require: list of (api, stratum or None, min_count) that must have been observed."""
        shards = shards or min(NCPU, max(1, cases // 2000))
        per = (cases + shards - 1) // shards

        def one(i):
            cmd = [binary, "--seed", self.seed, "--cases", per, "--shard", i, "--nshards", shards,
                   "--tier", self.tier] + list(extra)
            return i, run(cmd, timeout=timeout, cwd=self.work, env=env, stdin=stdin)

        summ = {}
        for i, r in pmap(one, range(shards), workers=shards):
            self.fold_events(r, summ, where="%s shard %d/%d" % (Path(binary).name, i, shards), keymap=keymap,
                             replay_base={"harness": str(binary), "shard": i, "nshards": shards, "cases": per,
                                          "extra": list(extra)})
        self.merge_summary(summ, require)
        return summ

    def fold_events(self, r, summ, where="", keymap=None, replay_base=None):
        last_case = None
        n_ev = 0
        for line in r.out.splitlines():
            if not line.startswith("@@VF "):
                continue
            try:
                e = json.loads(line[5:])
            except ValueError:
                continue
            n_ev += 1
            k = e.get("ev")
            if k == "viol":
                key = "%s:%s" % (e.get("api"), e.get("stratum"))
                if keymap:
                    key = keymap(key, e)
                rp = dict(replay_base or {})
                rp["event"] = e
                self.violation(key, "%s: err=%s tol=%s %s" % (key, e.get("err"), e.get("tol"), e.get("msg", "")), rp)
            elif k == "sample":
                self.sample(e, cap=8)
            elif k == "sum":
                a = (e["api"], e["stratum"])
                s = summ.setdefault(a, {"n": 0, "distinct": 0, "skipped": 0, "max_ratio": 0.0, "viol": 0})
                s["n"] += e["n"]
                s["distinct"] += e["distinct"]
                s["skipped"] += e.get("skipped", 0)
                s["viol"] += e.get("viol", 0)
                s["max_ratio"] = max(s["max_ratio"], e.get("max_ratio", 0.0))
            elif k == "note":
                self.count("note:" + e.get("what", "?"), e.get("n", 1))
            elif k == "case":
                last_case = e
        crash = self.classify_crash(r)
        if crash:
            rp = dict(replay_base or {})
            rp.update({"last_case": last_case, "stderr": r.err[-6000:]})
            if crash == "hang":
                self.inconc("watchdog fired in %s (last case %s)" % (where, last_case))
            else:
                m = re.search(r'@@VFCASE (\S+)', r.err)
                site = m.group(1) if m else (last_case or {}).get("api", "?")
                self.violation("%s:%s" % (crash, site), "%s in %s\n%s" % (crash, where, r.err[-3000:]), rp)
        elif r.rc != 0:
            self.inconc("harness %s exited %s: %s" % (where, r.rc, r.err[-2000:]))
        elif n_ev == 0:
            self.inconc("harness %s emitted no events" % where)

    def merge_summary(self, summ, require=()):
        tab = self.cov.setdefault("strata", {})
        for (api, st), s in sorted(summ.items()):
            self.cov["evaluations"] += s["n"]
            self.cov["distinct_nontrivial"] += s["distinct"]
            tab["%s:%s" % (api, st)] = {"n": s["n"], "distinct": s["distinct"], "skipped": s["skipped"],
                                        "max_err_over_tol": float("%.3g" % s["max_ratio"])}
        for api, st, mn in require:
            tot = sum(s["n"] for (a, t), s in summ.items() if a == api and (st is None or t == st))
            if tot < mn:
                self.inconc("planned stratum %s:%s observed %d < %d events" % (api, st, tot, mn))


def _first_repo_frame(txt):
    for m in re.finditer(r"#\d+ 0x[0-9a-f]+ in ([^\n]+?) (/[^\s:]+):(\d+)", txt):
        fn, f = m.group(1), m.group(2)
        if f.startswith(str(REPO)) or "/verif/" in f:
            return "%s:%s" % (os.path.basename(f), m.group(3))
    m = re.search(r"#0 0x[0-9a-f]+ in (\S+)", txt)
    return m.group(1) if m else "?"


# ----------------------------------------------------------------------------- mfront pipeline

_UNSHARE = None


def unshare_prefix():
    """Private /dev/shm per tool run (the mfront named semaphore is machine-global)."""
    global _UNSHARE
    if _UNSHARE is None:
        r = run(["unshare", "-m", "sh", "-c", "mount -t tmpfs tmpfs /dev/shm && echo ok"], timeout=20)
        _UNSHARE = (r.rc == 0 and "ok" in r.out)
    return _UNSHARE


def isolated(cmd):
    if unshare_prefix():
        return ["unshare", "-m", "sh", "-c", "mount -t tmpfs tmpfs /dev/shm && exec \"$@\"", "sh"] + [str(c) for c in cmd]
    return [str(c) for c in cmd]


def mfront(t, args, cwd, timeout=120, env=None, isolate=True):
    cmd = [tool(t, "mfront")] + list(args)
    e = {"LD_LIBRARY_PATH": ld_path(t)}
    if env:
        e.update(env)
    return run(isolated(cmd) if isolate else cmd, timeout=timeout, cwd=cwd, env=e)


def compile_generated(cwd, libname, t="plain", flags=("-O1",), extra_sources=(), timeout=1800, san=False):
    """Compile the sources mfront generated in cwd/src into cwd/src/lib<libname>.so with the
    project's include dirs.  Returns (path or None, compiler output)."""
    cwd = Path(cwd)
    srcs = sorted(str(p) for p in (cwd / "src").glob("*.cxx")) + [str(s) for s in extra_sources]
    out = cwd / "src" / ("lib%s.so" % libname)
    fl = ["g++", "-std=c++20", "-fPIC", "-shared", "-DNDEBUG", "-DTFEL_NO_RUNTIME_CHECK_BOUNDS", "-fvisibility=hidden",
          "-fvisibility-inlines-hidden"] + list(flags)
    if san:
        fl += SAN_FLAGS + ["-g1"]
    fl += ["-I" + str(cwd / "include")] + include_flags(t)

    def one(s):
        o = s[:-4] + ".o"
        return s, o, run(fl + ["-c", s, "-o", o], timeout=timeout)
    objs = []
    log = ""
    for s, o, r in pmap(one, srcs, workers=min(8, len(srcs) or 1)):
        log += r.err
        if r.rc != 0:
            return None, log
        objs.append(o)
    libs = ["TFELMaterial", "TFELMath", "TFELUtilities", "TFELException", "TFELPhysicalConstants"] \
        if False else ["TFELMaterial", "TFELMath", "TFELUtilities", "TFELException"]
    r = run(fl + ["-o", str(out)] + objs + link_flags(t, libs), timeout=timeout)
    log += r.err
    if r.rc != 0:
        return None, log
    return out, log


def compile_c(name, sources, flags=(), shared=False, cc="gcc"):
    """Small C helpers (hook library, semaphore reader...).  Cached by source content."""
    sources = [str(s) for s in sources]
    slot = CACHE / ("%s.c" % name)
    slot.mkdir(parents=True, exist_ok=True)
    out = slot / (name + (".so" if shared else ""))
    key = sha(" ".join(flags), *[Path(s).read_bytes() for s in sources])
    with flock(slot / "lock"):
        kf = slot / "key"
        if out.exists() and kf.exists() and kf.read_text() == key:
            return out
        cmd = [cc, "-O1", "-g"] + (["-shared", "-fPIC"] if shared else []) + list(flags) + ["-o", str(out)] + sources + ["-lpthread"]
        r = run(cmd, timeout=300)
        if r.rc != 0:
            raise HarnessFailure("C compilation of %s failed:\n%s" % (name, r.err[-4000:]))
        kf.write_text(key)
    return out


def hooklib():
    return compile_c("libverifhooks", [VERIF / "harness/conc/verifhooks.c"], shared=True)


def read_hooklog(path):
    """-> list of (ns, pid, tid, site, id) sorted by time"""
    ev = []
    try:
        for line in Path(path).read_text().splitlines():
            p = line.split()
            if len(p) == 5:
                ev.append((int(p[2]), int(p[0]), int(p[1]), p[3], int(p[4])))
    except OSError:
        pass
    ev.sort()
    return ev


import random as _random


def rng(seed, *stream):
    """deterministic python RNG for (seed, stream...)"""
    return _random.Random(sha(str(seed), *[str(s) for s in stream]))


def call_worker(ctx, module, function, args, timeout=900, tag="w", env=None):
    """run module.function(**args) in a child python; returns (result or None, Result)"""
    f = ctx.work / ("%s-%s.json" % (tag, sha(json.dumps(args, sort_keys=True, default=str))[:10]))
    f.write_text(json.dumps(args, default=str))
    r = run([sys.executable, str(VERIF / "lib/worker.py"), module, function, str(f)], timeout=timeout, cwd=ctx.work, env=env)
    res = None
    for line in reversed(r.out.splitlines()):
        if line.startswith("@@RESULT "):
            res = json.loads(line[9:])
            break
    return res, r
