// C33 — unicode mangling (DESIGN.md §4.2).  This harness only *observes*: it dumps the table and the
// results of getMangledString; the verdicts are computed by checks/c33.py from these observations with
// an independent UTF-8 decoder, and the demangling half runs the real tfel-unicode-filt binary.
//   --mode table : one line  T <hex(uc)> <hex(m)> <category>  per table entry
//   --mode gen   : --cases random strings; one line  G <stratum> <hex(original)> <hex(getMangledString(original))>
//   --mode stdin : one hex string per input line; one line  G stdin <hex(original)> <hex(mangled)>  each
#define VFH_MAIN
#include "vfh.hxx"
#include <iostream>
#include "TFEL/UnicodeSupport/UnicodeSupport.hxx"

using S = std::string;
static S hex(const S& s) {
  static const char* d = "0123456789abcdef";
  S r;
  for (unsigned char c : s) { r += d[c >> 4]; r += d[c & 15]; }
  return r.empty() ? S("-") : r;
}
static S unhex(const S& h) {
  S r;
  if (h == "-") return r;
  for (size_t i = 0; i + 1 < h.size(); i += 2) r += char(std::stoi(h.substr(i, 2), nullptr, 16));
  return r;
}

int main(int argc, char** argv) {
  vf::Args a(argc, argv);
  const S mode = a.get("--mode", "table");
  const auto& tab = tfel::unicode::getSupportedUnicodeCharactersDescriptions();
  if (mode == "table") {
    for (const auto& d : tab) std::printf("T %s %s %d\n", hex(d.uc).c_str(), hex(d.m).c_str(), int(d.c));
    return 0;
  }
  if (mode == "stdin") {
    S l;
    while (std::getline(std::cin, l)) {
      const S s = unhex(l);
      vf::set_case("getMangledString", "stdin", 0);
      std::printf("G stdin %s %s\n", hex(s).c_str(), hex(tfel::unicode::getMangledString(s)).c_str());
    }
    return 0;
  }
  // characters that are valid UTF-8 but not in the table (filtered against the table below)
  std::vector<S> others = {"é", "ß", "€", "你", "\U0001F600", "×", "²", "≠", "∞",
                           "Ж", "א", "∂́", " ", "ς", "ᵪ", "₀̈", "ⁿ"};
  {
    std::vector<S> keep;
    for (const auto& o : others) {
      bool in = false;
      for (const auto& d : tab) if (o.find(d.uc) != S::npos) in = true;
      if (!in) keep.push_back(o);
    }
    others.swap(keep);
  }
  // printable ASCII without newline; hexadecimal digits and '_' are over-represented so that a
  // supported character is often followed by text that could extend a mangled name
  static const S ASCII = " !\"#$%&'()*+,-./0123456789:;<=>?@ABCDEFGHIJKLMNOPQRSTUVWXYZ[\\]^_`abcdefghijklmnopqrstuvwxyz{|}~\t"
                         "0123456789ABCDEFabcdef____";
  static const char* const WORDS[] = {"tfel", "_unicode", "mangling_", "tfel_unicode", "unicode_mangling", "tfel_unicode_mangling",
                                      "0391", "03B1", "2202", "_", "sig", "eps", "this->"};
  static const char* ST[] = {"ascii", "supported", "mixed", "mixed+other"};
  for (long i = 0; i < a.cases; ++i) {
    const uint64_t idx = a.only >= 0 ? uint64_t(a.only) : a.gidx(i);
    vf::Rng g(a.seed, 3301, idx);
    const int st = int(idx % 4);
    const int n = g.irange(0, st == 1 ? 12 : 40);
    S s;
    for (int k = 0; k < n; ++k) {
      const double u = g.u01();
      if (st == 0) { if (u < 0.1) s += WORDS[g.u64() % 13]; else s += ASCII[g.u64() % ASCII.size()]; }
      else if (st == 1) s += tab[g.u64() % tab.size()].uc;
      else if (u < 0.35) s += tab[g.u64() % tab.size()].uc;
      else if (u < 0.42) s += WORDS[g.u64() % 13];
      else if (st == 3 && u < 0.55 && !others.empty()) s += others[g.u64() % others.size()];
      else s += ASCII[g.u64() % ASCII.size()];
    }
    vf::set_case("getMangledString", ST[st], idx);
    std::printf("G %s %s %s\n", ST[st], hex(s).c_str(), hex(tfel::unicode::getMangledString(s)).c_str());
    if (a.only >= 0) break;
  }
  return 0;
}
