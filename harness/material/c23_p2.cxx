// C23 — conversion table, part 2 of 4 (see c23_common.hxx)
#include "c23_common.hxx"
namespace c23 { void fill_part2() { fill_table_part<2>(); } }
