// C11 — linear and cubic-spline interpolation reproduce and extend data (DESIGN.md §4.1)
//
// Subject: tfel::math::CubicSpline<T> (T = double, float), the free functions
// computeCubicSplineInterpolation<extrapolate>(AndDerivative) and
// computeLinearInterpolation<extrapolate>(AndDerivative).
// Reference: an independent natural spline in long double written in the *moment*
// formulation (unknowns = second derivatives, Thomas algorithm), from which reference first
// derivatives follow; the library solves for first derivatives.  All tolerances are
// K * eps * (rounding model of the quantity), the model being built from reference
// quantities only:
//   - evaluation of a cubic piece:  es_i = |y_i|+|y_i+1|+5|dy_i| + 4 h_i (|d_i|+|d_i+1|)
//   - first derivatives d_i: componentwise forward bound |A^-1| (|A||d| + |b|) of the
//     (diagonally dominant) tridiagonal system, A^-1 computed here in long double
//   - jumps of S'' at interior nodes and S'' at the ends: residual of one equation of the
//     system (local, no inverse)
//   - derivative vs finite differences: 4-point Lagrange differentiation of getValue, exact
//     for cubics on any abscissae, amplification sum |l_j'(x)| computed
//   - computeIntegral vs 4-point Gauss-Legendre of getValue piece by piece (exact for
//     cubics), extrapolated parts included
#define VFH_MAIN
#include "vfh.hxx"
#include <algorithm>
#include <array>
#include "TFEL/Math/CubicSpline.hxx"
#include "TFEL/Math/LinearInterpolation.hxx"

typedef long double L;
namespace tfm = tfel::math;
static vf::Reporter R;

struct RefSpline {
  int n;
  std::vector<L> x, y, h, D, d, M;       // nodes, values, lengths, slopes, first and second derivatives
  std::vector<L> es;                      // evaluation scale per interval
  std::vector<L> dunc;                    // forward error scale of d (to be multiplied by K eps)
  std::vector<L> eqs;                     // scale of equation k of the tridiagonal system (residual bound / eps)
};

// dense solve without pivoting (diagonally dominant matrices only), returns inverse
static std::vector<std::vector<L>> invert_dd(std::vector<std::vector<L>> a) {
  const int n = int(a.size());
  std::vector<std::vector<L>> inv(size_t(n), std::vector<L>(size_t(n), 0));
  for (int i = 0; i < n; ++i) inv[size_t(i)][size_t(i)] = 1;
  for (int c = 0; c < n; ++c) {
    const L p = a[size_t(c)][size_t(c)];
    for (int j = 0; j < n; ++j) { a[size_t(c)][size_t(j)] /= p; inv[size_t(c)][size_t(j)] /= p; }
    for (int r = 0; r < n; ++r) if (r != c) {
      const L f = a[size_t(r)][size_t(c)];
      if (f == 0) continue;
      for (int j = 0; j < n; ++j) { a[size_t(r)][size_t(j)] -= f * a[size_t(c)][size_t(j)]; inv[size_t(r)][size_t(j)] -= f * inv[size_t(c)][size_t(j)]; }
    }
  }
  return inv;
}

static RefSpline build_ref(const std::vector<L>& x, const std::vector<L>& y) {
  RefSpline s; s.n = int(x.size()); s.x = x; s.y = y;
  const int n = s.n;
  s.h.assign(size_t(std::max(0, n - 1)), 0); s.D = s.h; s.d.assign(size_t(n), 0); s.M.assign(size_t(n), 0);
  for (int i = 0; i + 1 < n; ++i) { s.h[size_t(i)] = x[size_t(i + 1)] - x[size_t(i)]; s.D[size_t(i)] = (y[size_t(i + 1)] - y[size_t(i)]) / s.h[size_t(i)]; }
  if (n >= 3) {
    // moments: h_{i-1} M_{i-1} + 2 (h_{i-1}+h_i) M_i + h_i M_{i+1} = 6 (D_i - D_{i-1}), M_0 = M_{n-1} = 0
    const int m = n - 2;
    const size_t ms = static_cast<size_t>(m);
    std::vector<L> a(ms, 0), b(ms, 0), c(ms, 0), r(ms, 0);
    for (int k = 0; k < m; ++k) {
      const int i = k + 1;
      a[size_t(k)] = s.h[size_t(i - 1)]; b[size_t(k)] = 2 * (s.h[size_t(i - 1)] + s.h[size_t(i)]); c[size_t(k)] = s.h[size_t(i)];
      r[size_t(k)] = 6 * (s.D[size_t(i)] - s.D[size_t(i - 1)]);
    }
    for (int k = 1; k < m; ++k) { const L w = a[size_t(k)] / b[size_t(k - 1)]; b[size_t(k)] -= w * c[size_t(k - 1)]; r[size_t(k)] -= w * r[size_t(k - 1)]; }
    std::vector<L> sol(static_cast<size_t>(m));
    sol[size_t(m - 1)] = r[size_t(m - 1)] / b[size_t(m - 1)];
    for (int k = m - 2; k >= 0; --k) sol[size_t(k)] = (r[size_t(k)] - c[size_t(k)] * sol[size_t(k + 1)]) / b[size_t(k)];
    for (int k = 0; k < m; ++k) s.M[size_t(k + 1)] = sol[size_t(k)];
  }
  if (n >= 2) {
    for (int i = 0; i + 1 < n; ++i) s.d[size_t(i)] = s.D[size_t(i)] - s.h[size_t(i)] * (2 * s.M[size_t(i)] + s.M[size_t(i + 1)]) / 6;
    s.d[size_t(n - 1)] = s.D[size_t(n - 2)] + s.h[size_t(n - 2)] * (2 * s.M[size_t(n - 1)] + s.M[size_t(n - 2)]) / 6;
  }
  s.es.assign(s.h.size(), 0);
  for (int i = 0; i + 1 < n; ++i)
    // sum of the magnitudes of the terms of y_i + t (d_i + t (a2 + t a3)), t <= h, with
    // a2 h = 3 D - d_{i+1} - 2 d_i and a3 h^2 = -2 D + d_{i+1} + d_i
    s.es[size_t(i)] = std::fabs(y[size_t(i)]) + std::fabs(y[size_t(i + 1)]) + 5 * std::fabs(y[size_t(i + 1)] - y[size_t(i)]) +
                      4 * s.h[size_t(i)] * (std::fabs(s.d[size_t(i)]) + std::fabs(s.d[size_t(i + 1)]));
  // conditioning of the first-derivative system (the one any Hermite-form implementation solves)
  s.dunc.assign(size_t(n), 0); s.eqs.assign(size_t(n), 0);
  if (n >= 2) {
    std::vector<std::vector<L>> A(size_t(n), std::vector<L>(size_t(n), 0));
    std::vector<L> babs(size_t(n), 0);
    for (int i = 0; i + 1 < n; ++i) {
      const L hp = 1 / s.h[size_t(i)];
      A[size_t(i)][size_t(i)] += 2 * hp; A[size_t(i + 1)][size_t(i + 1)] += 2 * hp;
      A[size_t(i)][size_t(i + 1)] = hp; A[size_t(i + 1)][size_t(i)] = hp;
      const L u = 3 * hp * std::fabs(s.D[size_t(i)]);
      babs[size_t(i)] += u; babs[size_t(i + 1)] += u;
    }
    for (int j = 0; j < n; ++j) {
      L w = babs[size_t(j)];
      for (int k = std::max(0, j - 1); k <= std::min(n - 1, j + 1); ++k) w += std::fabs(A[size_t(j)][size_t(k)]) * std::fabs(s.d[size_t(k)]);
      s.eqs[size_t(j)] = w;
    }
    auto inv = invert_dd(A);
    for (int i = 0; i < n; ++i) { L t = 0; for (int j = 0; j < n; ++j) t += std::fabs(inv[size_t(i)][size_t(j)]) * s.eqs[size_t(j)]; s.dunc[size_t(i)] = t; }
  }
  return s;
}

// interval index for a point strictly inside (x_i, x_i+1], -1 left of / at x_0, n-1 right of x_last
static int locate(const RefSpline& s, L x) {
  if (x <= s.x[0]) return -1;
  if (x > s.x[size_t(s.n - 1)]) return s.n - 1;
  int i = 0; while (x > s.x[size_t(i + 1)]) ++i;
  return i;
}

// 4-point Lagrange differentiation weights at x
static void lagrange_d(const L t[4], L x, L w[4]) {
  for (int j = 0; j < 4; ++j) {
    L den = 1; for (int k = 0; k < 4; ++k) if (k != j) den *= (t[j] - t[k]);
    L num = 0;
    for (int m = 0; m < 4; ++m) if (m != j) { L p = 1; for (int k = 0; k < 4; ++k) if (k != j && k != m) p *= (x - t[k]); num += p; }
    w[j] = num / den;
  }
}

static const L GLX[4] = {-0.861136311594052575223946488893L, -0.339981043584856264802665759103L, 0.339981043584856264802665759103L, 0.861136311594052575223946488893L};
static const L GLW[4] = {0.347854845137453857373063949222L, 0.652145154862546142626936050778L, 0.652145154862546142626936050778L, 0.347854845137453857373063949222L};

static const char* KIND[] = {"uniform", "geometric", "clustered", "random", "linear-data"};

template <typename T>
static bool gen_table(vf::Rng& g, int n, int kind, std::vector<T>& xv, std::vector<T>& yv) {
  const L len = g.logmag(-3, 3);
  const L off = g.irange(0, 2) == 0 ? 0 : g.sign() * g.uni(0, 10) * len;
  std::vector<L> x(static_cast<size_t>(n));
  if (n == 1) x[0] = off;
  else if (kind == 0 || kind == 4) for (int i = 0; i < n; ++i) x[size_t(i)] = off + len * i / (n - 1);
  else if (kind == 1) {
    const L tot = g.logmag(0.3, 6);  // ratio last/first spacing
    const L rho = n > 2 ? std::pow(tot, 1.0L / (n - 2)) : 1;
    L hh = 1, s = 0; std::vector<L> c(size_t(n), 0);
    for (int i = 1; i < n; ++i) { s += hh; c[size_t(i)] = s; hh *= rho; }
    const bool rev = g.coin();
    for (int i = 0; i < n; ++i) x[size_t(i)] = off + len * (rev ? (s - c[size_t(n - 1 - i)]) : c[size_t(i)]) / s;
  } else if (kind == 2) {
    for (int i = 0; i < n; ++i) {
      x[size_t(i)] = off + len * g.u01();
      if (i > 0 && g.irange(0, 2) == 0) x[size_t(i)] = x[size_t(i - 1)] + len * g.logmag(-5, -3);  // cluster
    }
    std::sort(x.begin(), x.end());
  } else {
    for (int i = 0; i < n; ++i) x[size_t(i)] = off + len * g.u01();
    std::sort(x.begin(), x.end());
  }
  const L ys = g.logmag(-6, 6), yoff = g.irange(0, 3) == 0 ? g.sign() * g.uni(0, 5) * ys : 0;
  const L la = g.normal() * ys / len, lb = g.normal() * ys;
  xv.resize(size_t(n)); yv.resize(size_t(n));
  for (int i = 0; i < n; ++i) {
    xv[size_t(i)] = T(x[size_t(i)]);
    yv[size_t(i)] = kind == 4 ? T(la * (x[size_t(i)] - off) + lb) : T(yoff + ys * g.normal());
  }
  // strictly increasing after rounding, gaps of at least 64 ulp (domain: distinct abscissae)
  const L eps = std::numeric_limits<T>::epsilon();
  for (int i = 0; i + 1 < n; ++i)
    if (!(L(xv[size_t(i + 1)]) - L(xv[size_t(i)]) > 64 * eps * (std::fabs(L(xv[size_t(i)])) + std::fabs(L(xv[size_t(i + 1)]))))) return false;
  return true;
}

template <typename T>
static void one(const vf::Args& a, uint64_t idx, const char* tname) {
  vf::Rng g(a.seed, 1100 + sizeof(T), idx);
  const L eps = std::numeric_limits<T>::epsilon();
  int n;
  switch (idx % 8) { case 0: n = 1; break; case 1: n = 2; break; case 2: n = 3; break; default: n = g.irange(4, 50); }
  const int kind = int((idx / 8) % 5);
  const char* S = n == 1 ? "n=1" : n == 2 ? "n=2" : KIND[kind];
  char api[96];
  auto nm = [&](const char* f) { std::snprintf(api, sizeof api, "%s<%s>", f, tname); vf::set_case(api, S, idx); return api; };
  std::vector<T> xv, yv;
  if (!gen_table<T>(g, n, kind, xv, yv)) { R.skip(nm("table"), S); return; }
  std::vector<L> X(xv.begin(), xv.end()), Y(yv.begin(), yv.end());
  const RefSpline rs = build_ref(X, Y);
  const uint64_t h = vf::hash_arr(xv.data(), xv.size(), vf::hash_arr(yv.data(), yv.size()));
  auto dump = [&] { vf::J j; j.s("T", tname).i("n", n).arr("x", xv.begin(), xv.end()).arr("y", yv.begin(), yv.end()); return j.str(); };
  auto dumpq = [&](L q, L got, L want) {
    return [&, q, got, want] { vf::J j; j.s("T", tname).i("n", n).arr("x", xv.begin(), xv.end()).arr("y", yv.begin(), yv.end()).f("query", q).f("got", got).f("expected", want); return j.str(); };
  };
  const L K = 128;
  L ymax = 0; for (auto v : Y) ymax = std::max(ymax, std::fabs(v));
  const L range = n > 1 ? X.back() - X.front() : 1;

  // ------------------------------------------------------------------ cubic spline class
  tfm::CubicSpline<T> sp;
  try { sp.setCollocationPoints(xv, yv); }
  catch (std::exception& e) { R.expect(nm("CubicSpline/accepts"), S, idx, h, false, dump, "exception for a strictly increasing table"); return; }
  const auto& pts = sp.getCollocationPoints();
  auto val = [&](T x) { return L(sp.getValue(x)); };
  auto es_at = [&](int i) {  // evaluation scale for a query located by `locate`
    if (n == 1) return std::fabs(Y[0]);
    if (i < 0) return std::fabs(Y[0]);
    if (i >= n - 1) return std::fabs(Y[size_t(n - 1)]);
    return rs.es[size_t(i)];
  };
  // (1) stored first derivatives vs the independent moment formulation
  if (n >= 2) {
    L worst = 0, wt = 1; int wi = 0;
    for (int i = 0; i < n; ++i) {
      const L err = std::fabs(L(pts[size_t(i)].d) - rs.d[size_t(i)]), tol = K * eps * rs.dunc[size_t(i)];
      if (i == 0 || err * wt > worst * tol) { worst = err; wt = tol; wi = i; }
    }
    R.check(nm("CubicSpline/d=reference"), S, idx, h, worst, wt, dumpq(X[size_t(wi)], L(pts[size_t(wi)].d), rs.d[size_t(wi)]),
            "first derivative at a node vs independent long-double natural spline");
  }
  // (2) node reproduction + C0/C1/C2 at interior nodes + natural ends
  {
    L w0 = 0, t0 = 1, w1 = 0, t1 = 1, w2 = 0, t2 = 1, wn = 0, tn = 1; L q0 = 0, q1 = 0, q2 = 0, qn = 0, g0 = 0, g1 = 0, g2 = 0, gn = 0, e0 = 0;
    auto upd = [](L err, L tol, L& w, L& t) { if (err * t > w * tol || (w == 0 && t == 1)) { w = err; t = tol; return true; } return false; };
    for (int k = 0; k < n; ++k) {
      const T xk = xv[size_t(k)];
      const L esl = k > 0 ? rs.es[size_t(k - 1)] : std::fabs(Y[0]), esr = k + 1 < n ? rs.es[size_t(k)] : std::fabs(Y[size_t(n - 1)]);
      const L tolv = K * eps * std::max(esl, esr);
      const L v = val(xk);
      if (upd(std::fabs(v - Y[size_t(k)]), tolv, wn, tn)) { qn = xk; gn = v; }
      if (n < 2) continue;
      // neighbours one ulp away
      const T xm = std::nextafter(xk, -std::numeric_limits<T>::infinity()), xp = std::nextafter(xk, std::numeric_limits<T>::infinity());
      const L ulp = L(xp) - L(xm);
      const L dk = std::fabs(rs.d[size_t(k)]);
      const L Dl = k > 0 ? std::fabs(rs.D[size_t(k - 1)]) : 0, Dr = k + 1 < n ? std::fabs(rs.D[size_t(k)]) : 0;
      const L dl = k > 0 ? std::fabs(rs.d[size_t(k - 1)]) : 0, dr = k + 1 < n ? std::fabs(rs.d[size_t(k + 1)]) : 0;
      const L slope = dk + dl + dr + 2 * (Dl + Dr);
      for (T xq : {xm, xp}) {
        const L vq = val(xq);
        // the interpolant one ulp away: y_k + S'(x_k) (xq - x_k) (+ S'' ulp^2, negligible); the
        // remaining slope*ulp/8 covers the difference between the library's and the reference d_k
        const L want = Y[size_t(k)] + rs.d[size_t(k)] * (L(xq) - L(xk));
        if (upd(std::fabs(vq - want), tolv + slope * ulp / 8, w0, t0)) { q0 = xq; g0 = vq; e0 = want; }
      }
      if (k == 0 || k == n - 1) {
        // natural end condition: second derivative just inside the table
        T f, df; typename std::remove_cv<decltype(pts[0].d)>::type dummy; (void)dummy;
        tfm::derivative_type<T, T, T> d2;
        const T xin = k == 0 ? xp : xk;
        sp.getValues(f, df, d2, xin);
        const int iv = k == 0 ? 0 : n - 2;
        const L hp = 1 / rs.h[size_t(iv)];
        const L third = 6 * (2 * std::fabs(rs.D[size_t(iv)]) + std::fabs(rs.d[size_t(iv)]) + std::fabs(rs.d[size_t(iv + 1)])) * hp * hp;
        // S''(xin) = S''(end) + S''' (xin - end) with S''(end) = 0 demanded; S''' from the reference
        const L s3 = (rs.M[size_t(iv + 1)] - rs.M[size_t(iv)]) * hp;
        const L want2 = k == 0 ? s3 * (L(xin) - L(xk)) : 0;
        const L tol = K * eps * 4 * rs.eqs[size_t(k)] + third * ulp / 16;
        if (upd(std::fabs(L(d2) - want2), tol, w2, t2)) { q2 = xin; g2 = d2; }
        continue;
      }
      // interior node: left limit (the node itself lies in the left interval) vs right limit
      T fl, dfl, fr, dfr; tfm::derivative_type<T, T, T> d2l, d2r;
      sp.getValues(fl, dfl, d2l, xk);
      sp.getValues(fr, dfr, d2r, xp);
      const L hl = rs.h[size_t(k - 1)], hr = rs.h[size_t(k)];
      const L sec = (6 * Dl + 4 * dk + 2 * dl) / hl + (6 * Dr + 4 * dk + 2 * dr) / hr;
      // right value is taken one ulp inside the right interval: S'(x_k+u) = S'(x_k) + S''(x_k) u
      const L u1 = L(xp) - L(xk);
      const L tol1 = K * eps * (dk + dl + dr + Dl + Dr) * 8 + sec * ulp / 8;
      if (upd(std::fabs(L(dfr) - L(dfl) - rs.M[size_t(k)] * u1), tol1, w1, t1)) { q1 = xk; g1 = L(dfl) - L(dfr); }
      const L third = 6 * ((2 * Dl + dk + dl) / (hl * hl) + (2 * Dr + dk + dr) / (hr * hr));
      const L s3r = (rs.M[size_t(k + 1)] - rs.M[size_t(k)]) / hr;
      const L tol2 = K * eps * 8 * rs.eqs[size_t(k)] + third * ulp / 16;
      if (upd(std::fabs(L(d2r) - L(d2l) - s3r * u1), tol2, w2, t2)) { q2 = xk; g2 = L(d2l) - L(d2r); }
    }
    R.check(nm("CubicSpline/node-value"), S, idx, h, wn, tn, dumpq(qn, gn, 0), "getValue(x_k) vs y_k");
    if (n >= 2) {
      R.check(nm("CubicSpline/C0"), S, idx, h, w0, t0, dumpq(q0, g0, e0), "value one ulp left/right of a node vs y_k");
      R.check(nm("CubicSpline/C2+natural"), S, idx, h, w2, t2, dumpq(q2, g2, 0), "jump of S'' at interior nodes / S'' at the ends");
    }
    if (n >= 3) R.check(nm("CubicSpline/C1"), S, idx, h, w1, t1, dumpq(q1, g1, 0), "left minus right first derivative at an interior node");
  }
  // (3) getValues consistent with getValue, operator()
  {
    bool ok = true; L qq = 0;
    for (int r = 0; r < 6; ++r) {
      const T x = T(X.front() + (g.uni(-0.5, 1.5)) * range);
      T f1, d1, f2, d2; tfm::derivative_type<T, T, T> dd;
      sp.getValues(f1, d1, x); sp.getValues(f2, d2, dd, x);
      const T f0 = sp.getValue(x), f3 = sp(x);
      if (!(f0 == f1 && f0 == f2 && f0 == f3 && d1 == d2)) { ok = false; qq = x; }
    }
    R.expect(nm("CubicSpline/getValues=getValue"), S, idx, h, ok, dumpq(qq, 0, 0));
  }
  // (4) extrapolation: the end tangent, with the stored end derivative
  if (n >= 1) {
    L w = 0, t = 1, q = 0, gg = 0, ee = 0; bool exact = true;
    for (int side = 0; side < 2; ++side) for (int r = 0; r < 3; ++r) {
      const L dist = r == 0 ? g.logmag(-6, -1) * range : r == 1 ? g.uni(0.1, 2) * range : g.logmag(0.5, 3) * range;
      const T x = side == 0 ? T(X.front() - dist) : T(X.back() + dist);
      if (side == 0 ? !(L(x) < X.front()) : !(L(x) > X.back())) continue;
      const int e = side == 0 ? 0 : n - 1;
      const L de = n == 1 ? 0 : L(pts[size_t(e)].d);
      const L want = Y[size_t(e)] + de * (L(x) - X[size_t(e)]);
      T f, df; tfm::derivative_type<T, T, T> d2; sp.getValues(f, df, d2, x);
      const L tol = 2 * K * eps * (std::fabs(Y[size_t(e)]) + std::fabs(de * (L(x) - X[size_t(e)])));
      const L err = std::fabs(L(f) - want);
      if (err * t > w * tol || (w == 0 && t == 1)) { w = err; t = tol; q = x; gg = f; ee = want; }
      if (!(L(df) == de && L(d2) == 0)) exact = false;
      // free functions
      const T ft = tfm::computeCubicSplineInterpolation<true>(pts, x);
      const T ff = tfm::computeCubicSplineInterpolation<false>(pts, x);
      const auto pt = tfm::computeCubicSplineInterpolationAndDerivative<true>(pts, x);
      const auto pf = tfm::computeCubicSplineInterpolationAndDerivative<false>(pts, x);
      if (!(ft == f && pt.first == f && L(pt.second) == de)) exact = false;
      if (!(L(ff) == Y[size_t(e)] && L(pf.first) == Y[size_t(e)] && L(pf.second) == 0)) exact = false;
    }
    R.check(nm("CubicSpline/extrapolation"), S, idx, h, w, t, dumpq(q, gg, ee), "value outside the table vs end tangent");
    R.expect(nm("spline-free-functions/outside"), S, idx, h, exact, dump,
             "<true>: same value as the class and derivative = end derivative; <false>: clamped to the end value, derivative 0");
  }
  // (5) derivative = derivative of the returned value (4-point Lagrange differentiation, exact for cubics)
  if (n >= 2) {
    L w = 0, t = 1, q = 0, gg = 0, ee = 0; bool same = true;
    for (int r = 0; r < 8; ++r) {
      int i; L lo, hi;
      if (r < 6) { i = g.irange(0, n - 2); lo = X[size_t(i)]; hi = X[size_t(i + 1)]; }
      else if (r == 6) { i = -1; hi = X.front() - 0.01L * range; lo = hi - range; }
      else { i = n - 1; lo = X.back() + 0.01L * range; hi = lo + range; }
      const L hh = hi - lo, delta = hh / 64;
      const T x = T(lo + g.uni(0.1, 0.9) * hh);
      L tt[4], ff[4], ww[4]; bool inside = true;
      const L cj[4] = {-1, -1.0L / 3, 1.0L / 3, 1};
      for (int j = 0; j < 4; ++j) { const T xt = T(L(x) + cj[j] * delta); tt[j] = xt; ff[j] = val(xt); if (!(tt[j] > lo && tt[j] < hi)) inside = false; }
      if (!inside || tt[0] == tt[1] || tt[1] == tt[2] || tt[2] == tt[3]) continue;
      lagrange_d(tt, x, ww);
      L fd = 0, amp = 0; for (int j = 0; j < 4; ++j) { fd += ww[j] * ff[j]; amp += std::fabs(ww[j]); }
      T f, df; sp.getValues(f, df, x);
      const L tol = K * eps * (es_at(i) + (i < 0 || i >= n - 1 ? std::fabs(L(pts[size_t(i < 0 ? 0 : n - 1)].d)) * (range + hh) : 0)) * amp;
      const L err = std::fabs(L(df) - fd);
      if (err * t > w * tol || (w == 0 && t == 1)) { w = err; t = tol; q = x; gg = df; ee = fd; }
      const auto pr = tfm::computeCubicSplineInterpolationAndDerivative<true>(pts, x);
      const T fv = tfm::computeCubicSplineInterpolation<true>(pts, x);
      const auto pf = tfm::computeCubicSplineInterpolationAndDerivative<false>(pts, x);
      if (!(pr.first == f && pr.second == df && fv == f)) same = false;
      if (i >= 0 && i < n - 1 && !(pf.first == f && pf.second == df)) same = false;
    }
    R.check(nm("CubicSpline/derivative=FD"), S, idx, h, w, t, dumpq(q, gg, ee), "returned derivative vs differentiation of getValue");
    R.expect(nm("spline-free-functions/inside"), S, idx, h, same, dump, "free functions agree bitwise with the class inside the table");
  }
  // (6) integrals
  {
    // reference: Gauss-Legendre of the library's getValue on every piece; tolerance from touched intervals
    auto gl = [&](L lo, L hi, L& tolacc) {
      // pieces between breakpoints
      std::vector<L> br; br.push_back(lo);
      for (int k = 0; k < n; ++k) if (X[size_t(k)] > lo && X[size_t(k)] < hi) br.push_back(X[size_t(k)]);
      br.push_back(hi);
      L sum = 0;
      for (size_t p = 0; p + 1 < br.size(); ++p) {
        const L u = br[p], v = br[p + 1], mid = (u + v) / 2, half = (v - u) / 2;
        L s = 0;
        for (int j = 0; j < 4; ++j) s += GLW[j] * val(T(mid + half * GLX[j]));
        sum += s * half;
        const int i = n == 1 ? -1 : locate(rs, mid);
        const L xm = std::max(std::fabs(u), std::fabs(v));
        if (n == 1) tolacc += (v - u) * std::fabs(Y[0]);
        else if (i < 0 || i >= n - 1) {
          const int e = i < 0 ? 0 : n - 1;
          const L de = std::fabs(rs.d[size_t(e)]);
          const L far = std::max(std::fabs(u - X[size_t(e)]), std::fabs(v - X[size_t(e)]));
          tolacc += (v - u) * (std::fabs(Y[size_t(e)]) + de * (far + xm)) + de * far * far;
        } else {
          const L slope = std::fabs(rs.d[size_t(i)]) + std::fabs(rs.d[size_t(i + 1)]) + 2 * std::fabs(rs.D[size_t(i)]);
          tolacc += rs.h[size_t(i)] * rs.es[size_t(i)] + (v - u) * slope * xm;
        }
      }
      return sum;
    };
    auto pick = [&] {
      switch (g.irange(0, 5)) {
        case 0: return T(X.front() - g.uni(0, 1.5) * range);
        case 1: return T(X.back() + g.uni(0, 1.5) * range);
        case 2: return xv[size_t(g.irange(0, n - 1))];
        default: return T(X.front() + g.u01() * range);
      }
    };
    L w = 0, t = 1, wa = 0, ta = 1, wm = 0, tm_ = 1; L qa = 0, qb = 0, gg = 0, ee = 0, qa2 = 0, qb2 = 0, qc2 = 0; bool anti = true;
    for (int r = 0; r < 6; ++r) {
      T abc[3] = {pick(), pick(), pick()};
      std::sort(abc, abc + 3);
      if (g.coin()) std::swap(abc[0], abc[2]);  // also descending
      const T A = abc[0], B = abc[1], C = abc[2];
      const L iab = sp.computeIntegral(A, B), ibc = sp.computeIntegral(B, C), iac = sp.computeIntegral(A, C), iba = sp.computeIntegral(B, A);
      L tolab = 0, tolbc = 0;
      const L rab = L(A) <= L(B) ? gl(A, B, tolab) : -gl(B, A, tolab);
      const L rbc_dummy = L(B) <= L(C) ? gl(B, C, tolbc) : -gl(C, B, tolbc); (void)rbc_dummy;
      const L tol = 4 * K * eps * tolab, err = std::fabs(iab - rab);
      if (err * t > w * tol || (w == 0 && t == 1)) { w = err; t = tol; qa = A; qb = B; gg = iab; ee = rab; }
      const L tola = K * eps * 8 * (tolab + tolbc), erra = std::fabs(iab + ibc - iac);
      if (erra * ta > wa * tola || (wa == 0 && ta == 1)) { wa = erra; ta = tola; qa2 = A; qb2 = B; qc2 = C; }
      if (!(iab == -iba)) anti = false;
      if (A != B) {
        const L mv = sp.computeMeanValue(A, B), want = iab / (L(B) - L(A));
        const L tolm = K * eps * std::fabs(want), errm = std::fabs(mv - want);
        if (errm * tm_ > wm * tolm || (wm == 0 && tm_ == 1)) { wm = errm; tm_ = tolm; }
      }
    }
    auto dumpi = [&] { vf::J j; j.s("T", tname).i("n", n).arr("x", xv.begin(), xv.end()).arr("y", yv.begin(), yv.end()).f("a", qa).f("b", qb).f("computeIntegral", gg).f("gauss_legendre_of_getValue", ee); return j.str(); };
    auto dumpa = [&] { vf::J j; j.s("T", tname).i("n", n).arr("x", xv.begin(), xv.end()).arr("y", yv.begin(), yv.end()).f("a", qa2).f("b", qb2).f("c", qc2); return j.str(); };
    R.check(nm("CubicSpline/integral=GL"), S, idx, h, w, t, dumpi, "computeIntegral(a,b) vs piecewise Gauss-Legendre of getValue");
    R.check(nm("CubicSpline/integral-additive"), S, idx, h, wa, ta, dumpa, "I(a,b)+I(b,c) vs I(a,c)");
    R.expect(nm("CubicSpline/integral-antisymmetric"), S, idx, h, anti, dump, "I(a,b) == -I(b,a) bitwise");
    R.check(nm("CubicSpline/mean-value"), S, idx, h, wm, tm_, dump, "computeMeanValue(a,b) vs computeIntegral(a,b)/(b-a)");
  }

  // ------------------------------------------------------------------ linear interpolation
  {
    L wn = 0, tn = 1, wi = 0, ti = 1, wd = 0, td = 1, we = 0, te = 1; L qn = 0, gn = 0, en = 0, qi = 0, gi = 0, ei = 0, qe = 0, ge = 0, ee = 0; bool clamp = true, dnode = true;
    auto upd = [](L err, L tol, L& w, L& t) { if (err * t > w * tol || (w == 0 && t == 1)) { w = err; t = tol; return true; } return false; };
    auto lin = [&](T x) { return L(tfm::computeLinearInterpolation<true>(xv, yv, x)); };
    for (int k = 0; k < n; ++k) {
      const T xk = xv[size_t(k)];
      const L sc = std::fabs(Y[size_t(k)]) + (k > 0 ? std::fabs(Y[size_t(k - 1)]) : 0) + (k + 1 < n ? std::fabs(Y[size_t(k + 1)]) : 0);
      const auto pr = tfm::computeLinearInterpolationAndDerivative<true>(xv, yv, xk);
      const auto pf = tfm::computeLinearInterpolationAndDerivative<false>(xv, yv, xk);
      if (upd(std::fabs(L(pr.first) - Y[size_t(k)]), 2 * K * eps * sc, wn, tn)) { qn = xk; gn = pr.first; en = Y[size_t(k)]; }
      upd(std::fabs(L(pf.first) - Y[size_t(k)]), 2 * K * eps * sc, wn, tn);
      if (n >= 2) {
        // derivative at a node: one of the adjacent slopes (one-sided derivative of the interpolant)
        const L sl = k > 0 ? rs.D[size_t(k - 1)] : rs.D[0], sr = k + 1 < n ? rs.D[size_t(k)] : rs.D[size_t(n - 2)];
        const L dv = pr.second;
        if (!(std::fabs(dv - sl) <= 8 * eps * std::fabs(sl) || std::fabs(dv - sr) <= 8 * eps * std::fabs(sr))) dnode = false;
        const T xm = std::nextafter(xk, -std::numeric_limits<T>::infinity()), xp = std::nextafter(xk, std::numeric_limits<T>::infinity());
        const L ulp = L(xp) - L(xm);
        for (T xq : {xm, xp}) {
          const L v = lin(xq);
          // the chord on the side of the query (extended beyond the ends when extrapolating)
          const L want = Y[size_t(k)] + (L(xq) < L(xk) ? sl : sr) * (L(xq) - L(xk));
          if (upd(std::fabs(v - want), 2 * K * eps * sc + (std::fabs(sl) + std::fabs(sr)) * ulp / 16, wn, tn)) { qn = xq; gn = v; en = want; }
        }
      }
    }
    if (n >= 2) {
      for (int r = 0; r < 8; ++r) {
        const int i = g.irange(0, n - 2);
        const L lo = X[size_t(i)], hh = rs.h[size_t(i)];
        const T x = T(lo + g.uni(0.05, 0.95) * hh);
        if (!(L(x) > lo && L(x) < X[size_t(i + 1)])) continue;
        const L want = Y[size_t(i)] + rs.D[size_t(i)] * (L(x) - lo);
        const L sc = std::fabs(Y[size_t(i)]) + std::fabs(Y[size_t(i + 1)]);
        const auto pt = tfm::computeLinearInterpolationAndDerivative<true>(xv, yv, x);
        const auto pf = tfm::computeLinearInterpolationAndDerivative<false>(xv, yv, x);
        const T vt = tfm::computeLinearInterpolation<true>(xv, yv, x), vf_ = tfm::computeLinearInterpolation<false>(xv, yv, x);
        if (upd(std::fabs(L(pt.first) - want), 2 * K * eps * sc, wi, ti)) { qi = x; gi = pt.first; ei = want; }
        if (!(pt.first == vt && pf.first == vt && vf_ == vt && pf.second == pt.second)) clamp = false;
        // derivative: slope of the interval, and differentiation of the returned values
        upd(std::fabs(L(pt.second) - rs.D[size_t(i)]), 2 * K * eps * std::fabs(rs.D[size_t(i)]), wd, td);
        const L delta = hh / 64; L tt[4], ff[4], ww[4]; bool inside = true;
        const L cj[4] = {-1, -1.0L / 3, 1.0L / 3, 1};
        for (int j = 0; j < 4; ++j) { const T xt = T(L(x) + cj[j] * delta); tt[j] = xt; ff[j] = lin(xt); if (!(tt[j] > lo && tt[j] < X[size_t(i + 1)])) inside = false; }
        if (inside && tt[0] != tt[1] && tt[1] != tt[2] && tt[2] != tt[3]) {
          lagrange_d(tt, x, ww); L fd = 0, amp = 0; for (int j = 0; j < 4; ++j) { fd += ww[j] * ff[j]; amp += std::fabs(ww[j]); }
          upd(std::fabs(L(pt.second) - fd), K * eps * sc * amp, wd, td);
        }
      }
      for (int side = 0; side < 2; ++side) for (int r = 0; r < 3; ++r) {
        const L dist = r == 0 ? g.logmag(-6, -1) * range : r == 1 ? g.uni(0.1, 2) * range : g.logmag(0.5, 3) * range;
        const T x = side == 0 ? T(X.front() - dist) : T(X.back() + dist);
        if (side == 0 ? !(L(x) < X.front()) : !(L(x) > X.back())) continue;
        const int e = side == 0 ? 0 : n - 1, iv = side == 0 ? 0 : n - 2;
        // the line through the end interval, written from the end node
        const L want = Y[size_t(e)] + rs.D[size_t(iv)] * (L(x) - X[size_t(e)]);
        const auto pt = tfm::computeLinearInterpolationAndDerivative<true>(xv, yv, x);
        const auto pf = tfm::computeLinearInterpolationAndDerivative<false>(xv, yv, x);
        const L sc = std::fabs(Y[size_t(iv)]) + std::fabs(Y[size_t(iv + 1)]) + std::fabs(rs.D[size_t(iv)]) * (std::fabs(L(x) - X[size_t(e)]) + rs.h[size_t(iv)]);
        if (upd(std::fabs(L(pt.first) - want), 2 * K * eps * sc, we, te)) { qe = x; ge = pt.first; ee = want; }
        upd(std::fabs(L(pt.second) - rs.D[size_t(iv)]), 2 * K * eps * std::fabs(rs.D[size_t(iv)]), wd, td);
        if (!(L(pf.first) == Y[size_t(e)] && L(pf.second) == 0 && L(tfm::computeLinearInterpolation<false>(xv, yv, x)) == Y[size_t(e)] &&
              tfm::computeLinearInterpolation<true>(xv, yv, x) == pt.first)) clamp = false;
      }
    } else {
      for (int r = 0; r < 4; ++r) {
        const T x = T(X[0] + g.uni(-2, 2) * (std::fabs(X[0]) + 1));
        const auto pt = tfm::computeLinearInterpolationAndDerivative<true>(xv, yv, x);
        const auto pf = tfm::computeLinearInterpolationAndDerivative<false>(xv, yv, x);
        if (!(L(pt.first) == Y[0] && L(pf.first) == Y[0] && L(pt.second) == 0 && L(pf.second) == 0)) clamp = false;
      }
    }
    R.check(nm("linear/node-value+C0"), S, idx, h, wn, tn, dumpq(qn, gn, en), "value at a node and one ulp around it vs y_k");
    if (n >= 2) {
      R.check(nm("linear/inside"), S, idx, h, wi, ti, dumpq(qi, gi, ei), "value inside an interval vs the chord");
      R.check(nm("linear/derivative"), S, idx, h, wd, td, dump, "derivative vs chord slope and vs differentiation of the returned values");
      R.check(nm("linear/extrapolation<true>"), S, idx, h, we, te, dumpq(qe, ge, ee), "outside: line through the end interval");
      R.expect(nm("linear/derivative-at-node"), S, idx, h, dnode, dump, "derivative at a node is the slope of an adjacent interval");
    }
    R.expect(nm("linear/clamp<false>+consistency"), S, idx, h, clamp, dump,
             "<false>: end value and zero derivative outside; value-only and value+derivative variants agree bitwise");
  }
}

int main(int argc, char** argv) {
  vf::Args a(argc, argv);
  R.viol_cap = 3;
  for (long i = 0; i < a.cases; ++i) {
    const uint64_t idx = a.only >= 0 ? uint64_t(a.only) : a.gidx(i);
    if ((idx / 40) % 3 == 2) one<float>(a, idx, "float"); else one<double>(a, idx, "double");
    if (a.only >= 0) break;
  }
  R.finish();
  return 0;
}
