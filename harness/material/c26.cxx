// C26 — approximations of the inverse Langevin function (DESIGN.md §4.1 C26)
// Oracle: the Langevin function L(x) = coth(x) - 1/x itself (long double, series near 0) and its
// exact inverse obtained by safeguarded Newton iterations; accuracy figures from the papers the
// documentation cites (maximal relative error of the approximation of L^-1).
#define VFH_MAIN
#include "vfh.hxx"
#include "fd.hxx"
#include "TFEL/Config/TFELConfig.hxx"  // InverseLangevinFunction.hxx does not include it itself
#include "TFEL/Material/InverseLangevinFunction.hxx"

using L = long double;
namespace tmat = tfel::material;
using A = tmat::InverseLangevinFunctionApproximations;
static vf::Reporter R;

static L langevin(L x) {
  const L ax = std::fabs(x);
  if (ax < 1e-2L) { const L x2 = x * x; return x * (1 / 3.0L - x2 * (1 / 45.0L - x2 * (2 / 945.0L - x2 * (1 / 4725.0L - x2 * 2 / 93555.0L)))); }
  if (ax > 50) return (x > 0 ? 1 : -1) * (1 - 1 / ax);  // coth = 1 up to 4e-44
  return 1 / std::tanh(x) - 1 / x;
}
static L dlangevin(L x) {
  const L ax = std::fabs(x);
  if (ax < 1e-2L) { const L x2 = x * x; return 1 / 3.0L - x2 * (1 / 15.0L - x2 * (2 / 189.0L - x2 / 675.0L)); }
  if (ax > 50) return 1 / (x * x);
  const L s = std::sinh(x);
  return 1 / (x * x) - 1 / (s * s);
}
// exact inverse for 0 <= y < 1
static L inv_langevin(L y) {
  if (y == 0) return 0;
  const L s = y < 0 ? -1 : 1; y = std::fabs(y);
  L lo = 0, hi = 1 / (1 - y) + 3;  // L(x) > 1 - 1/x
  L x = y < 0.5L ? 3 * y : 1 / (1 - y);
  for (int it = 0; it < 200; ++it) {
    const L f = langevin(x) - y;
    if (f > 0) hi = x; else lo = x;
    L xn = x - f / dlangevin(x);
    if (!(xn > lo && xn < hi)) xn = 0.5L * (lo + hi);
    if (std::fabs(xn - x) <= 4e-19L * std::fabs(xn)) { x = xn; break; }
    x = xn;
  }
  return s * x;
}

struct Info { const char* name; L relerr; L ymax; const char* source; };
// maximal relative errors of the approximations of L^-1 on [0,1): Cohen 1991 (4.94 %, quoted by
// Jedynak 2015), Jedynak 2015 [3/2] approximant (1.5 %), Bergstrom-Boyce 1998 (0.064 %, quoted by
// Jedynak); Taylor polynomial of degree 19 (Kuhn-Grun / Morch, "the Taylor expression is of order
// 19"): remainder O(y^21) of a series whose radius of convergence is ~0.904, i.e. a relative error
// below 2 y^20 / (1 - (y/0.9)^2) (observed: 0.28 % at 0.75, bound 2 %), judged for |y| <= 0.75
static const Info INFO[5] = {{"COHEN_1991", 0.06L, 1, "Cohen 1991: 4.94 %"}, {"JEDYNAK_2015", 0.03L, 1, "Jedynak 2015: 1.5 % (3 % allowed: 2.2 % observed at the pole with the optimised coefficients)"},
                             {"KUHN_GRUN_1942", 0.01L, 0.75L, "Taylor series, degree 19"}, {"MORCH_2022", 0.01L, 0.75L, "Taylor series, degree 19"},
                             {"BERGSTROM_BOYCE_1998", 0.005L, 1, "Bergstrom-Boyce 1998: 0.064 % (0.5 % allowed)"}};

template <int K, typename T>
static T value(T y) {
  if constexpr (K == 0) return tmat::computeApproximateInverseLangevinFunction<A::COHEN_1991>(y);
  else if constexpr (K == 1) return tmat::computeApproximateInverseLangevinFunction<A::JEDYNAK_2015>(y);
  else if constexpr (K == 2) return tmat::computeApproximateInverseLangevinFunction<A::KUHN_GRUN_1942>(y);
  else if constexpr (K == 3) return tmat::computeApproximateInverseLangevinFunction<A::MORCH_2022>(y);
  else return tmat::computeBergstromBoyce1998ApproximateInverseLangevinFunction(y);
}
template <int K, typename T>
static std::pair<T, T> value_der(T y) {
  if constexpr (K == 0) return tmat::computeApproximateInverseLangevinFunctionAndDerivative<A::COHEN_1991>(y);
  else if constexpr (K == 1) return tmat::computeApproximateInverseLangevinFunctionAndDerivative<A::JEDYNAK_2015>(y);
  else if constexpr (K == 2) return tmat::computeApproximateInverseLangevinFunctionAndDerivative<A::KUHN_GRUN_1942>(y);
  else if constexpr (K == 3) return tmat::computeApproximateInverseLangevinFunctionAndDerivative<A::MORCH_2022>(y);
  else return tmat::computeBergstromBoyce1998ApproximateInverseLangevinFunctionAndDerivative(y);
}

static const char* STRATA[] = {"uniform", "near-zero", "near-one", "mid"};
// |y| in (0,1)
static L gen_abs(vf::Rng& g, int st) {
  switch (st) {
    case 0: return g.uni(0, 1);
    case 1: return std::pow(10.0L, -g.uni(0.3, 12));
    case 2: return 1 - std::pow(10.0L, -g.uni(0.3, 6));
    default: return g.uni(0.3, 0.9);
  }
}

template <int K>
static void one_case(const vf::Args& a, uint64_t idx) {
  vf::Rng g(a.seed, 2600 + K, idx);
  const int st = int(idx % 4);
  const L eps = std::numeric_limits<double>::epsilon();
  const Info& I = INFO[K];
  const double ya = double(gen_abs(g, st));
  if (!(ya > 0 && ya < 1)) return;
  for (int sg = 1; sg >= -1; sg -= 2) {
    char S[48]; std::snprintf(S, sizeof S, "%s/%s", STRATA[st], sg > 0 ? "y>0" : "y<0");
    char api[96];
    auto nm = [&](const char* f) { std::snprintf(api, sizeof api, "%s:%s", I.name, f); vf::set_case(api, S, idx); return api; };
    const double y = sg * ya;
    const uint64_t h = vf::hash_arr(&y, 1);
    auto dump = [&] { vf::J j; j.s("approximation", I.name).f("y", y); return j.str(); };
    const double v = value<K, double>(y);
    const auto vd = value_der<K, double>(y);
    const L sc = std::fabs(L(v)) + 1e-300L;
    // the pole: 1/(1-|y|) amplifies the rounding of 1-y^2 etc.
    const L cond = 1 + 1 / (1 - L(ya));
    R.check(nm("value(AndDerivative)=value"), S, idx, h, std::fabs(L(vd.first) - L(v)), 64 * eps * sc * cond, dump);
    // accuracy: documented maximal relative error of the approximation of L^-1, and L(approx(y)) ~ y
    if (ya <= I.ymax && ya <= 1 - 1e-6L) {
      const L xe = inv_langevin(y);
      // Taylor polynomials: the bound follows the order of the expansion
      const L rel = (K == 2 || K == 3) ? 2 * std::pow(L(ya), 20) / (1 - (L(ya) / 0.9L) * (L(ya) / 0.9L)) + 64 * eps : I.relerr;
      R.check(nm("relative-error-vs-exact-inverse"), S, idx, h, std::fabs(L(v) - xe), rel * std::fabs(xe), dump, I.source);
      // |L(x(1+r)) - L(x)| <= r x L'(x): the same accuracy seen through the Langevin function
      R.check(nm("Langevin(approx(y))=y"), S, idx, h, std::fabs(langevin(L(v)) - L(y)), rel * std::fabs(xe) * dlangevin(xe) * 1.5L + 8 * eps, dump, I.source);
    } else R.skip(nm("relative-error-vs-exact-inverse"), S);
    if (sg > 0) {  // odd
      const double vm = value<K, double>(-y);
      R.check(nm("odd:f(-y)=-f(y)"), STRATA[st], idx, h, std::fabs(L(vm) + L(v)), 64 * eps * sc * cond, dump);
      // increasing: a second point above y
      const double y2 = std::min(double(ya + (1 - ya) * g.uni(1e-9, 0.5)), std::nextafter(1.0, 0.0));
      if (y2 > y) {
        const double v2 = value<K, double>(y2);
        // strict up to rounding of the two values
        R.check(nm("increasing"), STRATA[st], idx, h, std::max(L(0), L(v) - L(v2)), 64 * eps * (std::fabs(L(v2)) + sc) * (1 + 1 / (1 - L(y2))), dump);
        const double vb = value<K, double>(-y2);
        R.check(nm("increasing(y<0)"), STRATA[st], idx, h, std::max(L(0), L(vb) - L(vm)), 64 * eps * (std::fabs(L(vb)) + std::fabs(L(vm)) + 1e-300L) * (1 + 1 / (1 - L(y2))), dump);
      }
    }
    // derivative variant = derivative of the returned value (long double instantiation as FD engine)
    {
      // keep the stencil away from the pole and, for Bergstrom-Boyce, from the switching point 0.84136
      // ... and from 0, where approximations built on |y| have a discontinuous second derivative
      L hstep = std::min(std::min(L(1e-4), (1 - L(ya)) / 8) * std::max(L(ya), L(1e-3)), L(ya) / 8);
      const L ysw = 0.84136L;
      bool ok = true;
      if (K == 4 && std::fabs(L(ya) - ysw) < 4 * hstep) ok = false;
      if (ok) {
        auto f = [&](L x) { return std::array<L, 1>{value<K, L>(x)}; };
        auto r = fd::diff<1>(f, L(y), hstep, sc);
        if (r.ok) R.check(nm("derivative=FD(value)"), S, idx, h, std::fabs(L(vd.second) - r.d[0]), 50 * r.err[0] + 256 * eps * std::fabs(r.d[0]) * cond, dump);
        else ok = false;
      }
      if (!ok) R.skip(nm("derivative=FD(value)"), S);
    }
  }
}

int main(int argc, char** argv) {
  vf::Args a(argc, argv);
  for (long i = 0; i < a.cases; ++i) {
    const uint64_t idx = a.only >= 0 ? uint64_t(a.only) : a.gidx(i);
    const uint64_t sub = idx / 5;
    switch (idx % 5) {
      case 0: one_case<0>(a, sub); break;
      case 1: one_case<1>(a, sub); break;
      case 2: one_case<2>(a, sub); break;
      case 3: one_case<3>(a, sub); break;
      default: one_case<4>(a, sub);
    }
    if (a.only >= 0) break;
  }
  R.finish();
  return 0;
}
