"""C18 — tfel::fsalgo algorithms equal their std:: counterparts on the first N elements."""
import vfcore

META = {
    "engine": "math", "level": "exploration", "design_ref": "DESIGN.md §4.1 C18",
    "technique": "differential execution of every fsalgo<N> (N=0..64, all instantiated) against the std:: algorithm on "
                 "identical guard-patterned buffers under ASan+UBSan; destination and source images, return value and "
                 "the logged sequence of functor/operator calls are compared bitwise",
    "text": "copy (pointers, overlapping shift-left, list iterators), fill, transform (unary, in-place, binary), accumulate "
            "(+ and binary op), inner_product (default, two ops, no-init overload), equal (== and predicate, ranges "
            "differing at a random position), for_each (mutating functor), generate (stateful generator by value), iota, "
            "min_element / max_element (with and without comparator, inputs with many ties), swap_ranges; element types "
            "int, double and a struct with logged non-commutative + and *.  Functors are non-commutative and log their "
            "arguments, so a different call order or argument order is observed even when the value agrees.  Held on the "
            "cases executed only.",
    "note": "Trusted: libstdc++'s algorithms as the reference.  accumulate(+), accumulate(op) and max_element(comp) are each "
            "compared twice: once with the same functor given to std (the property as stated) and once as a control that "
            "accepts the std result with the functor/operands taken either way round (silent whichever convention the "
            "library adopts) so that other defects of these algorithms are still seen.  fsalgo::loop is not instantiable (do_loop::exe is a non-static member called "
            "without object) and is not in the property's list: not exercised.",
}

SRC = vfcore.VERIF / "harness/math/c18.cxx"
ALGS = ["copy", "copy/overlap-left", "copy/list-iterators", "fill", "transform(unary)", "transform(unary)/in-place",
        "transform(binary)", "accumulate(+)", "accumulate(+):either-operand-order", "accumulate(op):std-argument-order",
        "accumulate(op):either-convention",
        "inner_product(+,*)", "inner_product(op1,op2)", "inner_product<T>(no init)", "equal(==)", "equal(pred)", "for_each",
        "generate", "iota", "min_element(<)", "min_element(comp)", "max_element(>)",
        "max_element(comp):std-comparator-meaning", "max_element(comp):either-convention", "swap_ranges"]
BUCKETS = ["N=0", "N=1", "N=2..10", "N=11..64"]


def keymap(key, e):
    api = e.get("api", "")
    if api.startswith("accumulate(op):std-argument-order<"):
        return "accumulate(binary_op):argument-order-differs-from-std"
    if api == "accumulate(+)<struct>":
        return "accumulate(+):operand-order-differs-from-std"
    if api.startswith("max_element(comp):std-comparator-meaning<"):
        return "max_element(comp):comparator-meaning-differs-from-std"
    return key


def build(ctx):
    bins = {"asan": vfcore.compile_cxx("c18", [SRC], "asan")}
    if ctx.thorough:
        bins["O2"] = vfcore.compile_cxx("c18", [SRC], "O2")
    return bins


def run(ctx):
    bins = build(ctx)
    ctx.cov["rule"] = ("case = (repetition index, N in 0..64, element type, algorithm variant); every repetition runs all 65 sizes x 25 "
                       "variants x 3 types with fresh random contents (half of them from a 5-value alphabet to force ties); "
                       "distinct = hash of the reference's destination image and call log; N=0 cases are trivial (one hash)")
    req = [("%s<%s>" % (a, t), b, 1) for a in ALGS for t in ("int", "double", "struct") for b in BUCKETS]
    ctx.run_events(bins["asan"], ctx.n(96, 2000), shards=16, require=req, keymap=keymap, timeout=3600)
    if ctx.thorough:
        ctx.run_events(bins["O2"], 2000, shards=16, require=[], keymap=keymap, timeout=3600)
    ctx.cov["sizes_instantiated"] = "0..64 (std::make_integer_sequence<unsigned, 65>)"
