// C06 (part b) — derivative helpers evaluated at a deformation gradient F (det F > 0): dC/dF, dB/dF, the
// conversions between derivatives of stress measures (Cauchy / Kirchhoff / PK1 / PK2), the push-forward
// derivatives and the velocity-gradient family.
// Oracle: Richardson central differences (harness/math/fd.hxx) of the function written in long-double index
// notation.  A helper that *converts* a derivative (chain rule) is tested on an explicit path: the input
// stress is an affine function of F (resp. of the Green-Lagrange strain) whose slope is the fourth-order
// tensor handed to the helper, and the output stress along that path is differentiated numerically.
#define VFH_MAIN
#include "math/ref4.hxx"
#include "math/fd.hxx"
#include "TFEL/Math/stensor.hxx"
#include "TFEL/Math/tensor.hxx"
#include "TFEL/Math/st2tost2.hxx"
#include "TFEL/Math/t2tot2.hxx"
#include "TFEL/Math/t2tost2.hxx"
#include "TFEL/Math/st2tot2.hxx"
#include "TFEL/Math/T2toT2/ConvertToPK1Derivative.hxx"
#include "TFEL/Math/T2toT2/ConvertFromPK1Derivative.hxx"

using namespace ref;
namespace tfm = tfel::math;

static vf::Reporter R;

template <unsigned short N, typename T>
static tfm::tensor<N, T> mkt(const M3& m) {
  tfm::tensor<N, T> t;
  auto v = to_t(m, N);
  for (int k = 0; k < tsize(N); ++k) t[k] = static_cast<T>(v[k]);
  return t;
}
template <unsigned short N, typename T>
static tfm::stensor<N, T> mks(const M3& m) {
  tfm::stensor<N, T> s;
  auto v = to_st(m, N);
  for (int k = 0; k < ssize(N); ++k) s[k] = static_cast<T>(v[k]);
  return s;
}
template <typename A4>
static void fill4(A4& a, int rows, int cols, vf::Rng& g, int st, double kmax) {
  using T = tfm::numeric_type<A4>;
  L v[81];
  gen_values(g, st, rows * cols, v, kmax);
  for (int p = 0; p < rows; ++p) for (int q = 0; q < cols; ++q) a(p, q) = static_cast<T>(v[p * cols + q]);
}
template <typename A4>
static std::vector<L> flat4(const A4& a, int rows, int cols) {
  std::vector<L> v;
  for (int p = 0; p < rows; ++p) for (int q = 0; q < cols; ++q) v.push_back(L(a(p, q)));
  return v;
}

static const char* FS[] = {"mild", "identity", "largerotation", "scaled", "diagonal", "shear"};
static M3 gen_F(vf::Rng& g, int N, int fs) {
  M3 D = zero();
  for (int i = 0; i < 3; ++i) D[i][i] = g.uni(0.5, 2);
  if (N == 1) return fs == 1 ? eye() : (fs == 3 ? scal(D, g.logmag(-2, 2)) : D);
  const M3 q = random_rotation(g, N);
  switch (fs) {
    case 0: return mul(random_rotation(g, N), mul(mul(q, D), tr(q)));
    case 1: return eye();
    case 2: {  // rotation by an angle close to pi
      M3 r = random_rotation(g, N, 2);
      return mul(r, mul(mul(q, D), tr(q)));
    }
    case 3: return scal(mul(random_rotation(g, N), mul(mul(q, D), tr(q))), g.logmag(-2, 2));
    case 4: return D;
    default: {  // simple shear superposed on a stretch
      M3 s = eye(); s[0][1] = g.uni(-1, 1); if (N == 3) { s[0][2] = g.uni(-1, 1); s[1][2] = g.uni(-1, 1); }
      return mul(s, D);
    }
  }
}

struct Ctx6 { const char* S; uint64_t idx; uint64_t h; const char* tname; int N; };
template <typename Dump>
static void report(const Ctx6& c, const char* f, const fd::Verdict& v, Dump&& dump, const char* msg = "") {
  char api[128];
  std::snprintf(api, sizeof api, "%s<%d,%s>", f, c.N, c.tname);
  if (v.judged == 0) { R.skip(api, c.S); return; }
  for (int i = 0; i < v.skipped; ++i) R.skip(api, c.S);
  R.check(api, c.S, c.idx, c.h, v.err, v.tol, dump, msg);
}

template <unsigned short N, typename T>
static void one_case(const vf::Args& a, uint64_t idx, const char* tname) {
  vf::Rng g(a.seed, 6201 + N * 7 + sizeof(T), idx);
  const int fs = int(idx % 6);
  const char* S = FS[fs];
  const L eps = EpsOf<T>::v;
  const int ns = ssize(N), nt = tsize(N);
  auto tF = mkt<N, T>(gen_F(g, N, fs));
  auto s1 = mks<N, T>(gen_sym4(g, N, g.irange(0, 1), 2));         // a Cauchy stress / a symmetric tensor
  tfm::t2tost2<N, T> LTS; fill4(LTS, ns, nt, g, g.irange(0, 1) ? ST_RANDOM : ST_MIXED, 2);   // d(sym stress)/dF
  tfm::st2tost2<N, T> DSS; fill4(DSS, ns, ns, g, g.irange(0, 1) ? ST_RANDOM : ST_MIXED, 2);  // dS/dE
  const M3 F0 = from_t(tF, N), S0 = from_st(s1, N);
  const T4 rL = from_t2tost2(LTS, N), rD = from_st2tost2(DSS, N);
  const L J0 = det(F0);
  const M3 Fi = inv(F0), FiT = tr(Fi);
  const L nF = norm(F0), nFi = norm(Fi), nS = norm(S0), nL = t4norm(rL), nD = t4norm(rD);
  const L kF = nF * nFi;
  uint64_t h = vf::hash_arr(&tF[0], nt); h = vf::hash_arr(&s1[0], ns, h);
  for (int p = 0; p < ns; ++p) for (int q = 0; q < nt; ++q) { const T x = LTS(p, q); h = vf::hash_bytes(&x, sizeof x, h); }
  for (int p = 0; p < ns; ++p) for (int q = 0; q < ns; ++q) { const T x = DSS(p, q); h = vf::hash_bytes(&x, sizeof x, h); }
  auto dump = [&] {
    auto f1 = flat4(LTS, ns, nt), f2 = flat4(DSS, ns, ns);
    vf::J j; j.s("T", tname).i("N", N).arr("F", &tF[0], &tF[0] + nt).arr("s", &s1[0], &s1[0] + ns)
        .arr("t2tost2", f1.begin(), f1.end()).arr("st2tost2", f2.begin(), f2.end());
    return j.str();
  };
  const Ctx6 c{S, idx, h, tname, int(N)};
  auto sc = [&](const char* f) { char api[128]; std::snprintf(api, sizeof api, "%s<%d,%s>", f, int(N), tname); vf::set_case(api, S, idx); };
  const L K = 256;
  const L hp = nF / 64;      // polynomial functions
  const L hr = nF / 4096;    // rational functions (pole of 1/det F at distance >= |F|/kF)
  const M3 Z = zero();
  if (!(J0 > 0)) { R.skip("det(F)<=0", S); return; }

  // ---- Cauchy-Green tensors
  {
    sc("t2tost2::dCdF");
    const tfm::t2tost2<N, T> H = tfm::t2tost2<N, T>::dCdF(tF);
    const T4 Hm = from_t2tost2(H, N);
    auto v = fd::judge([](const M3& x) { return mul(tr(x), x); }, [&](const M3& d) { return ddot(Hm, d); }, F0, N, false, g, hp, K * eps * 2 * nF);
    report(c, "t2tost2::dCdF", v, dump);
    sc("t2tost2::dBdF");
    const tfm::t2tost2<N, T> H2 = tfm::t2tost2<N, T>::dBdF(tF);
    const T4 Hm2 = from_t2tost2(H2, N);
    auto w = fd::judge([](const M3& x) { return mul(x, tr(x)); }, [&](const M3& d) { return ddot(Hm2, d); }, F0, N, false, g, hp, K * eps * 2 * nF);
    report(c, "t2tost2::dBdF", w, dump);
  }
  // ---- sigma(F) = s + L:(F-F0)  ->  P(F) = det(F) sigma(F) F^-T
  {
    sc("convertCauchyStressDerivativeToFirstPiolaKirchoffStressDerivative");
    const tfm::t2tot2<N, T> H = tfm::convertCauchyStressDerivativeToFirstPiolaKirchoffStressDerivative(LTS, tF, s1);
    const T4 Hm = from_t2tot2(H, N);
    auto f = [&](const M3& x) { const M3 sig = add(S0, ddot(rL, add(x, F0, -1))); return scal(mul(sig, tr(inv(x))), det(x)); };
    auto v = fd::judge(f, [&](const M3& d) { return ddot(Hm, d); }, F0, N, false, g, hr, K * eps * kF * J0 * nFi * (nL + 2 * nS * nFi));
    report(c, "convertCauchyStressDerivativeToFirstPiolaKirchoffStressDerivative", v, dump);
  }
  // ---- S(E) = S0 + D:(E-E0), E = (F^T F - I)/2, S0 = J F^-1 s F^-T  ->  P(F) = F S
  {
    sc("convertSecondPiolaKirchhoffStressDerivativeToFirstPiolaKirchoffStressDerivative");
    const tfm::t2tot2<N, T> H = tfm::convertSecondPiolaKirchhoffStressDerivativeToFirstPiolaKirchoffStressDerivative(DSS, tF, s1);
    const T4 Hm = from_t2tot2(H, N);
    const M3 PK2 = scal(mul(mul(Fi, S0), FiT), J0);
    const M3 E0 = scal(add(mul(tr(F0), F0), eye(), -1), 0.5L);
    auto f = [&](const M3& x) { const M3 E = scal(add(mul(tr(x), x), eye(), -1), 0.5L); return mul(x, add(PK2, ddot(rD, add(E, E0, -1)))); };
    auto v = fd::judge(f, [&](const M3& d) { return ddot(Hm, d); }, F0, N, false, g, hp, 4 * K * eps * kF * (nF * nF * nD + J0 * nFi * nFi * nS));
    report(c, "convertSecondPiolaKirchhoffStressDerivativeToFirstPiolaKirchoffStressDerivative", v, dump);
  }
  // ---- tau(F) = J s + L:(F-F0), P(F) = tau(F) F^-T ; the helper gets dP/dF (rounded) and must return dtau/dF
  {
    sc("convertFirstPiolaKirchoffStressDerivativeToKirchhoffStressDerivative");
    const M3 tau0 = scal(S0, J0);
    T4 Mr;  // dP_ij/dF_kl = L_imkl Fi_jm - tau_im Fi_lm Fi_jk
    VF_FOR4 {
      L x = 0;
      for (int m = 0; m < 3; ++m) x += rL.v[i][m][k][l] * Fi[j][m] - tau0[i][m] * Fi[l][m] * Fi[j][k];
      Mr.v[i][j][k][l] = x;
    }
    tfm::t2tot2<N, T> dP;
    for (int p = 0; p < nt; ++p) for (int q = 0; q < nt; ++q) dP(p, q) = static_cast<T>(Mr.v[TI[p]][TJ[p]][TI[q]][TJ[q]]);
    const T4 rM = from_t2tot2(dP, N);
    const M3 P0 = mul(tau0, FiT);
    const tfm::t2tost2<N, T> H = tfm::convertFirstPiolaKirchoffStressDerivativeToKirchhoffStressDerivative(dP, tF, s1);
    const T4 Hm = from_t2tost2(H, N);
    auto f = [&](const M3& x) { return sym(mul(add(P0, ddot(rM, add(x, F0, -1))), tr(x))); };
    auto v = fd::judge(f, [&](const M3& d) { return ddot(Hm, d); }, F0, N, false, g, hp, K * eps * kF * (t4norm(rM) * nF + norm(P0)));
    report(c, "convertFirstPiolaKirchoffStressDerivativeToKirchhoffStressDerivative", v, dump);
  }
  // ---- Kirchhoff <-> Cauchy: tau = J sigma
  {
    sc("computeCauchyStressDerivativeFromKirchhoffStressDerivative");
    const tfm::t2tost2<N, T> H = tfm::computeCauchyStressDerivativeFromKirchhoffStressDerivative(LTS, s1, tF);
    const T4 Hm = from_t2tost2(H, N);
    const M3 tau0 = scal(S0, J0);
    auto f = [&](const M3& x) { return scal(add(tau0, ddot(rL, add(x, F0, -1))), 1 / det(x)); };
    auto v = fd::judge(f, [&](const M3& d) { return ddot(Hm, d); }, F0, N, false, g, hr, K * eps * kF * (nL / J0 + nS * nFi));
    report(c, "computeCauchyStressDerivativeFromKirchhoffStressDerivative", v, dump);
    sc("computeKirchhoffStressDerivativeFromCauchyStressDerivative");
    const tfm::t2tost2<N, T> H2 = tfm::computeKirchhoffStressDerivativeFromCauchyStressDerivative(LTS, s1, tF);
    const T4 Hm2 = from_t2tost2(H2, N);
    auto f2 = [&](const M3& x) { return scal(add(S0, ddot(rL, add(x, F0, -1))), det(x)); };
    auto w = fd::judge(f2, [&](const M3& d) { return ddot(Hm2, d); }, F0, N, false, g, hp, K * eps * kF * J0 * (nL + nS * nFi));
    report(c, "computeKirchhoffStressDerivativeFromCauchyStressDerivative", w, dump);
  }
  // ---- push forward T = F S F^T
  {
    sc("computePushForwardDerivative(dS_dF,S,F)");
    const tfm::t2tost2<N, T> H = tfm::computePushForwardDerivative(LTS, s1, tF);
    const T4 Hm = from_t2tost2(H, N);
    auto f = [&](const M3& x) { return mul(mul(x, add(S0, ddot(rL, add(x, F0, -1)))), tr(x)); };
    auto v = fd::judge(f, [&](const M3& d) { return ddot(Hm, d); }, F0, N, false, g, hp, K * eps * (nF * nF * nL + 2 * nF * nS));
    report(c, "computePushForwardDerivative(dS_dF,S,F)", v, dump);
    sc("computePushForwardDerivativeWithRespectToDeformationGradient");
    tfm::t2tost2<N, T> H2;
    tfm::computePushForwardDerivativeWithRespectToDeformationGradient(H2, s1, tF);
    const T4 Hm2 = from_t2tost2(H2, N);
    auto f2 = [&](const M3& x) { return mul(mul(x, S0), tr(x)); };
    auto w = fd::judge(f2, [&](const M3& d) { return ddot(Hm2, d); }, F0, N, false, g, hp, K * eps * 2 * nF * nS);
    report(c, "computePushForwardDerivativeWithRespectToDeformationGradient", w, dump);
    sc("computePushForwardDerivative(st2tost2&,F)");
    tfm::st2tost2<N, T> H3;
    tfm::computePushForwardDerivative(H3, tF);
    const T4 Hm3 = from_st2tost2(H3, N);
    auto f3 = [&](const M3& x) { return mul(mul(F0, x), tr(F0)); };
    auto u = fd::judge(f3, [&](const M3& d) { return ddot(Hm3, d); }, S0, N, true, g, (nS > 0 ? nS : 1) / 64, K * eps * nF * nF);
    report(c, "computePushForwardDerivative(st2tost2&,F)", u, dump);
  }
  // ---- velocity gradient family: linear maps of the increment dF at fixed F
  {
    sc("computeVelocityGradientDerivative");
    const auto H = tfm::computeVelocityGradientDerivative(tF);
    const T4 Hm = from_t2tot2(H, N);
    auto v = fd::judge([&](const M3& x) { return mul(x, Fi); }, [&](const M3& d) { return ddot(Hm, d); }, Z, N, false, g, 1 / 64.0L, K * eps * kF * kF * nFi);
    report(c, "computeVelocityGradientDerivative", v, dump, "dF -> dF.F^-1");
    sc("computeSpinRateDerivative");
    const auto H2 = tfm::computeSpinRateDerivative(tF);
    const T4 Hm2 = from_t2tot2(H2, N);
    auto w = fd::judge([&](const M3& x) { const M3 l = mul(x, Fi); return scal(add(l, tr(l), -1), 0.5L); }, [&](const M3& d) { return ddot(Hm2, d); },
                       Z, N, false, g, 1 / 64.0L, K * eps * kF * kF * nFi);
    report(c, "computeSpinRateDerivative", w, dump, "dF -> skew(dF.F^-1)");
    sc("computeRateOfDeformationDerivative");
    const auto H3 = tfm::computeRateOfDeformationDerivative(tF);
    const T4 Hm3 = from_t2tost2(H3, N);
    auto u = fd::judge([&](const M3& x) { return sym(mul(x, Fi)); }, [&](const M3& d) { return ddot(Hm3, d); },
                       Z, N, false, g, 1 / 64.0L, K * eps * kF * kF * nFi);
    report(c, "computeRateOfDeformationDerivative", u, dump, "dF -> sym(dF.F^-1) (documented in t2tost2.hxx)");
  }
}

template <typename T>
static void dispatch(const vf::Args& a, uint64_t idx, const char* tname) {
  switch ((idx / 6) % 3) {
    case 0: one_case<1, T>(a, idx, tname); break;
    case 1: one_case<2, T>(a, idx, tname); break;
    default: one_case<3, T>(a, idx, tname);
  }
}

int main(int argc, char** argv) {
  vf::Args a(argc, argv);
  for (long i = 0; i < a.cases; ++i) {
    const uint64_t idx = a.only >= 0 ? uint64_t(a.only) : a.gidx(i);
    switch ((idx / 18) % 2) {
      case 0: dispatch<double>(a, idx, "double"); break;
      default: dispatch<float>(a, idx, "float");
    }
    if (a.only >= 0) break;
  }
  R.finish();
  return 0;
}
