// C28 — modelling hypotheses (names, dimension tables) and orthotropic axes conventions
// (DESIGN.md §4.1 C28).  Oracle: the documented tables, and the documented axis permutation
// (PIPE: 2nd and 3rd material axes exchanged in plane stress / plane strain / generalised plane
// strain; PLATE, DEFAULT: none) applied in long double to the 3D object built from its
// documented definition (Hill quadratic form, Barlat linear transformation C:M, Hooke's law).
#define VFH_MAIN
#include <set>
#include <stdexcept>
#include "mat_ref.hxx"
#include "TFEL/Math/stensor.hxx"
#include "TFEL/Math/st2tost2.hxx"
#include "TFEL/Math/tensor.hxx"
#include "TFEL/Material/ModellingHypothesis.hxx"
#include "TFEL/Material/OrthotropicAxesConvention.hxx"
#include "TFEL/Material/Hill.hxx"
#include "TFEL/Material/Barlat2004YieldCriterion.hxx"
#include "TFEL/Material/StiffnessTensor.hxx"

using namespace ref;
namespace tfm = tfel::math;
namespace tmat = tfel::material;
using MH = tmat::ModellingHypothesis;
using OC = tmat::OrthotropicAxesConvention;
using SA = tmat::StiffnessTensorAlterationCharacteristic;
static vf::Reporter R;
static const L EPS = std::numeric_limits<double>::epsilon();
static const L KF = 256;

template <MH::Hypothesis H> struct HT;
#define HT_DEF(h, nm, pl, n_, ss, ts) \
  template <> struct HT<MH::h> { static constexpr const char* name = nm; static constexpr bool plane = pl; static constexpr unsigned short N = n_, S = ss, T = ts; };
HT_DEF(AXISYMMETRICALGENERALISEDPLANESTRAIN, "AxisymmetricalGeneralisedPlaneStrain", false, 1, 3, 3)
HT_DEF(AXISYMMETRICALGENERALISEDPLANESTRESS, "AxisymmetricalGeneralisedPlaneStress", false, 1, 3, 3)
HT_DEF(AXISYMMETRICAL, "Axisymmetrical", false, 2, 4, 5)
HT_DEF(PLANESTRESS, "PlaneStress", true, 2, 4, 5)
HT_DEF(PLANESTRAIN, "PlaneStrain", true, 2, 4, 5)
HT_DEF(GENERALISEDPLANESTRAIN, "GeneralisedPlaneStrain", true, 2, 4, 5)
HT_DEF(TRIDIMENSIONAL, "Tridimensional", false, 3, 6, 9)
static const char* oc_name(OC c) { return c == OC::DEFAULT ? "DEFAULT" : (c == OC::PIPE ? "PIPE" : "PLATE"); }

// ---------------------------------------------------------------------------------- tables
template <MH::Hypothesis H>
static void table_one(uint64_t idx) {
  const char* S = "exhaustive";
  char api[160];
  auto nm = [&](const char* f) { std::snprintf(api, sizeof api, "%s(%s)", f, HT<H>::name); vf::set_case(api, S, idx); return api; };
  auto dump = [&] { vf::J j; j.s("hypothesis", HT<H>::name); return j.str(); };
  const uint64_t h = vf::hash_bytes(HT<H>::name, std::strlen(HT<H>::name));
  std::string up = HT<H>::name; for (auto& c : up) c = char(std::toupper(static_cast<unsigned char>(c)));
  bool ok = false;
  try { ok = MH::toString(H) == HT<H>::name; } catch (std::exception&) {}
  R.expect(nm("toString"), S, idx, h, ok, dump);
  ok = false; try { ok = MH::fromString(HT<H>::name) == H; } catch (std::exception&) {}
  R.expect(nm("fromString"), S, idx, h, ok, dump);
  ok = false; try { ok = MH::fromString(MH::toString(H)) == H; } catch (std::exception&) {}
  R.expect(nm("fromString(toString(h))=h"), S, idx, h, ok, dump);
  ok = false; try { ok = MH::toUpperCaseString(H) == up; } catch (std::exception&) {}
  R.expect(nm("toUpperCaseString"), S, idx, h, ok, dump);
  R.expect(nm("isModellingHypothesis"), S, idx, h, MH::isModellingHypothesis(HT<H>::name), dump);
  ok = false; try { ok = tmat::getSpaceDimension(H) == HT<H>::N && tmat::getStensorSize(H) == HT<H>::S && tmat::getTensorSize(H) == HT<H>::T; } catch (std::exception&) {}
  R.expect(nm("getSpaceDimension/getStensorSize/getTensorSize"), S, idx, h, ok, dump, "documented table: 1D 3/3, 2D 4/5, 3D 6/9");
  R.expect(nm("ModellingHypothesisTo{SpaceDimension,StensorSize,TensorSize}"), S, idx, h,
           tmat::ModellingHypothesisToSpaceDimension<H>::value == HT<H>::N && tmat::ModellingHypothesisToStensorSize<H>::value == HT<H>::S &&
               tmat::ModellingHypothesisToTensorSize<H>::value == HT<H>::T, dump);
  R.expect(nm("StensorDimeToSize/TensorDimeToSize"), S, idx, h,
           tfm::StensorDimeToSize<HT<H>::N>::value == HT<H>::S && tfm::TensorDimeToSize<HT<H>::N>::value == HT<H>::T &&
               tfm::stensor<HT<H>::N, double>().size() == HT<H>::S && tfm::tensor<HT<H>::N, double>().size() == HT<H>::T, dump);
  // names that must be refused: case variants, padding, truncation, the upper-case form
  const std::string base = HT<H>::name;
  std::string low = base; for (auto& c : low) c = char(std::tolower(static_cast<unsigned char>(c)));
  const std::string bad[] = {up, low, base + " ", " " + base, base.substr(0, base.size() - 1), base + "s", std::string(base).replace(0, 1, 1, char(std::tolower(static_cast<unsigned char>(base[0]))))};
  for (const auto& b : bad) {
    bool refused = false, said_no = !MH::isModellingHypothesis(b);
    try { (void)MH::fromString(b); } catch (std::exception&) { refused = true; }
    auto d2 = [&] { vf::J j; j.s("name", b); return j.str(); };
    R.expect(nm("fromString refuses unknown names"), S, idx, vf::hash_bytes(b.data(), b.size()), refused && said_no, d2);
  }
}
static void tables(uint64_t idx) {
  table_one<MH::AXISYMMETRICALGENERALISEDPLANESTRAIN>(idx); table_one<MH::AXISYMMETRICALGENERALISEDPLANESTRESS>(idx); table_one<MH::AXISYMMETRICAL>(idx);
  table_one<MH::PLANESTRESS>(idx); table_one<MH::PLANESTRAIN>(idx); table_one<MH::GENERALISEDPLANESTRAIN>(idx); table_one<MH::TRIDIMENSIONAL>(idx);
  const char* S = "exhaustive";
  auto dump = [] { return std::string("{}"); };
  vf::set_case("getModellingHypotheses", S, idx);
  const auto& v = MH::getModellingHypotheses();
  std::set<int> s(v.begin(), v.end());
  R.expect("getModellingHypotheses:7 distinct defined hypotheses", S, idx, 1, v.size() == 7 && s.size() == 7 && !s.count(int(MH::UNDEFINEDHYPOTHESIS)), dump);
  bool thrown = false; try { (void)MH::toString(MH::UNDEFINEDHYPOTHESIS); } catch (std::exception&) { thrown = true; }
  R.expect("toString(UNDEFINEDHYPOTHESIS) raises", S, idx, 2, thrown, dump);
  for (const char* b : {"", "UndefinedHypothesis", "UNDEFINEDHYPOTHESIS", "3D", "Tridimensionnal", "Plane Stress", "GeneralizedPlaneStrain"}) {
    bool refused = false; try { (void)MH::fromString(b); } catch (std::exception&) { refused = true; }
    auto d2 = [&] { vf::J j; j.s("name", b); return j.str(); };
    R.expect("fromString refuses unknown names", S, idx, vf::hash_bytes(b, std::strlen(b)), refused && !MH::isModellingHypothesis(b), d2);
  }
}

// ------------------------------------------------------------------------------ conventions
struct Mat {
  double F, G, Hh, Lh, M, Nh;  // Hill
  double cb[9];                // Barlat c12 c21 c13 c31 c23 c32 c44 c55 c66
  double E1, E2, E3, n12, n23, n13, G12, G23, G13;
  double a1, a2, a3;           // stress-free expansions along the material axes
};
// Hill.hxx: s:H:s = F (s11-s22)^2 + G (s22-s33)^2 + H (s33-s11)^2 + 2 L s12^2 + 2 M s13^2 + 2 N s23^2
static T4 hill3d(const Mat& m) {
  mref::M6 a; for (auto& r : a.a) for (auto& x : r) x = 0;
  a.a[0][0] = L(m.F) + m.Hh; a.a[1][1] = L(m.G) + m.F; a.a[2][2] = L(m.Hh) + m.G;
  a.a[0][1] = a.a[1][0] = -L(m.F); a.a[0][2] = a.a[2][0] = -L(m.Hh); a.a[1][2] = a.a[2][1] = -L(m.G);
  a.a[3][3] = m.Lh; a.a[4][4] = m.M; a.a[5][5] = m.Nh;
  return mref::from_m6(a);
}
// tfel-material.md: L = C:M, M = I - 1/3 I x I, C the documented matrix acting on (xx yy zz xy xz yz)
static T4 barlat3d(const Mat& m) {
  const double* c = m.cb;
  // s' = C : dev(sigma), written as a fourth order tensor through its action on the basis
  T4 t = t4zero();
  for (int k = 0; k < 3; ++k) for (int l = 0; l < 3; ++l) {
    M3 e = zero(); e[k][l] += 0.5L; e[l][k] += 0.5L;
    const M3 s = dev(e);
    M3 r = zero();
    r[0][0] = -L(c[0]) * s[1][1] - L(c[2]) * s[2][2];
    r[1][1] = -L(c[1]) * s[0][0] - L(c[4]) * s[2][2];
    r[2][2] = -L(c[3]) * s[0][0] - L(c[5]) * s[1][1];
    r[0][1] = r[1][0] = L(c[6]) * s[0][1]; r[0][2] = r[2][0] = L(c[7]) * s[0][2]; r[1][2] = r[2][1] = L(c[8]) * s[1][2];
    for (int i = 0; i < 3; ++i) for (int j = 0; j < 3; ++j) t.v[i][j][k][l] = r[i][j];
  }
  return t;
}
static const int PSWAP[3] = {0, 2, 1}, PID[3] = {0, 1, 2};

template <MH::Hypothesis H, OC c>
static void conv_one(uint64_t idx, uint64_t h, const char* S, const Mat& m, vf::Rng& g, const std::string& js) {
  constexpr unsigned short N = HT<H>::N;
  const int* p = (HT<H>::plane && c == OC::PIPE) ? PSWAP : PID;
  char api[192];
  auto nm = [&](const char* f) { std::snprintf(api, sizeof api, "%s<%s,%s>", f, HT<H>::name, oc_name(c)); vf::set_case(api, S, idx); return api; };
  auto dump = [&] { return js; };
  // a stress / strain representable in the hypothesis, in the hypothesis frame, and its image in the material frame
  tfm::stensor<N, double> s2;
  for (int k = 0; k < ssize(N); ++k) s2[k] = g.uni(-1, 1);
  const M3 A2 = from_st(s2, N);
  const M3 A3 = mref::permute(A2, p);  // (p is an involution)
  const auto s3 = [&] { tfm::stensor<3u, double> r; auto v = to_st(A3, 3); for (int k = 0; k < 6; ++k) r[k] = double(v[k]); return r; }();
  const M3 A3r = from_st(s3, 3);
  const L nA = norm(A2) + 1e-300L;
  // ---- Hill tensor
  {
    const auto Hl = tmat::computeHillTensor<H, c, double>(m.F, m.G, m.Hh, m.Lh, m.M, m.Nh);
    const T4 expect = restrict_dim(mref::permute(hill3d(m), p), N);
    const L sc = t4norm(expect) + 1e-300L;
    R.check(nm("computeHillTensor=permuted-3D-definition"), S, idx, h, t4dist(from_st2tost2(Hl, N), expect), KF * EPS * sc, dump);
    const auto Hm = tmat::makeHillTensor<H, c, double>(m.F, m.G, m.Hh, m.Lh, m.M, m.Nh);
    bool same = true; for (int i = 0; i < ssize(N); ++i) for (int j = 0; j < ssize(N); ++j) same = same && Hm(i, j) == Hl(i, j);
    R.expect(nm("makeHillTensor=computeHillTensor"), S, idx, h, same, dump);
    // same material in 3D: identical Hill stress for a stress representable in the hypothesis
    const auto H3 = tmat::computeHillTensor<MH::TRIDIMENSIONAL, c, double>(m.F, m.G, m.Hh, m.Lh, m.M, m.Nh);
    const L q2 = dot(A2, ddot(from_st2tost2(Hl, N), A2)), q3 = dot(A3r, ddot(from_st2tost2(H3, 3), A3r));
    R.check(nm("Hill:s:H(reduced):s=s:H(3D):s"), S, idx, h, std::fabs(q2 - q3), KF * EPS * sc * nA * nA * 4, dump);
  }
  // ---- stress-free expansion
  {
    tfm::stensor<N, double> e(double(0));
    e[0] = m.a1; e[1] = m.a2; e[2] = m.a3;
    tmat::convertStressFreeExpansionStrain<H, c>(e);
    M3 d3 = zero(); d3[0][0] = m.a1; d3[1][1] = m.a2; d3[2][2] = m.a3;
    const M3 ex = mref::permute(d3, p);
    bool ok = e[0] == double(ex[0][0]) && e[1] == double(ex[1][1]) && e[2] == double(ex[2][2]);
    for (int k = 3; k < ssize(N); ++k) ok = ok && e[k] == 0;
    R.expect(nm("convertStressFreeExpansionStrain=permuted-diagonal"), S, idx, h, ok, dump);
  }
  // ---- Barlat linear transformation
  {
    const double* cb = m.cb;
    const auto Ll = tmat::makeBarlatLinearTransformation<H, c, double>(cb[0], cb[1], cb[2], cb[3], cb[4], cb[5], cb[6], cb[7], cb[8]);
    const T4 expect = restrict_dim(mref::permute(barlat3d(m), p), N);
    R.check(nm("makeBarlatLinearTransformation=permuted-3D-definition"), S, idx, h, t4dist(from_st2tost2(Ll, N), expect), KF * EPS * (t4norm(expect) + 1e-300L), dump);
    const auto L3 = tmat::makeBarlatLinearTransformation<MH::TRIDIMENSIONAL, c, double>(cb[0], cb[1], cb[2], cb[3], cb[4], cb[5], cb[6], cb[7], cb[8]);
    const M3 r2 = ddot(from_st2tost2(Ll, N), A2), r3 = mref::permute(ddot(from_st2tost2(L3, 3), A3r), p);
    // the transformed stress of the 3D description, restricted to the components the hypothesis stores
    M3 r3r = r3; for (int i = 0; i < 3; ++i) for (int j = 0; j < 3; ++j) if (!in_dim(i, j, N)) r3r[i][j] = 0;
    R.check(nm("Barlat:L(reduced):s=L(3D):s"), S, idx, h, dist(r2, r3r), KF * EPS * (t4norm(expect) + 1e-300L) * nA * 4, dump);
  }
  // ---- stiffness (DEFAULT and PIPE; PLATE only when the library provides it, see C21)
#ifndef VF_C28_PLATE
  if constexpr (c != OC::PLATE)
#endif
  {
    tfm::st2tost2<N, double> C2; tfm::st2tost2<3u, double> C3;
    tmat::computeOrthotropicStiffnessTensor<H, SA::UNALTERED, c>(C2, m.E1, m.E2, m.E3, m.n12, m.n23, m.n13, m.G12, m.G23, m.G13);
    tmat::computeOrthotropicStiffnessTensor<MH::TRIDIMENSIONAL, SA::UNALTERED, c>(C3, m.E1, m.E2, m.E3, m.n12, m.n23, m.n13, m.G12, m.G23, m.G13);
    T4 c3d; L cond = 0;
    if (mref::ortho_t4(c3d, cond, m.E1, m.E2, m.E3, m.n12, m.n23, m.n13, m.G12, m.G23, m.G13) && cond * EPS < 1e-3L) {
      const T4 expect = restrict_dim(mref::permute(c3d, p), N);
      const L sc = t4norm(c3d);
      R.check(nm("computeOrthotropicStiffnessTensor=permuted-3D-definition"), S, idx, h, t4dist(from_st2tost2(C2, N), expect), KF * EPS * cond * sc, dump);
      // same material, strain representable in the hypothesis: identical stresses on the stored components
      const M3 r2 = ddot(from_st2tost2(C2, N), A2);
      M3 r3 = mref::permute(ddot(from_st2tost2(C3, 3), A3r), p);
      for (int i = 0; i < 3; ++i) for (int j = 0; j < 3; ++j) if (!in_dim(i, j, N)) r3[i][j] = 0;
      R.check(nm("stiffness:C(reduced):e=C(3D):e"), S, idx, h, dist(r2, r3), KF * EPS * cond * sc * nA * 4, dump);
    } else R.skip(nm("computeOrthotropicStiffnessTensor=permuted-3D-definition"), S);
  }
}

static const char* C_STRATA[] = {"random", "isotropic-like", "one-coefficient"};
static void conv_case(const vf::Args& a, uint64_t idx) {
  vf::Rng g(a.seed, 2800, idx);
  const int st = int(idx % 3);
  const char* S = C_STRATA[st];
  Mat m;
  double* hc[6] = {&m.F, &m.G, &m.Hh, &m.Lh, &m.M, &m.Nh};
  if (st == 0) for (auto* x : hc) *x = g.uni(0.1, 3);
  else if (st == 1) { m.F = m.G = m.Hh = 0.5; m.Lh = m.M = m.Nh = 1.5; }
  else { for (auto* x : hc) *x = 0; *hc[g.irange(0, 5)] = g.uni(0.5, 2); }
  for (int i = 0; i < 9; ++i) m.cb[i] = st == 1 ? 1.0 : (st == 2 ? 0.0 : g.uni(0.5, 1.5));
  if (st == 2) m.cb[g.irange(0, 8)] = g.uni(0.5, 1.5);
  const double sc = g.logmag(-3, 11);
  // admissible orthotropic constants (as in C21)
  L ra = 0, rb = 0, rc = 0;
  for (int t = 0; t < 50; ++t) { ra = g.uni(-0.6, 0.6); rb = g.uni(-0.6, 0.6); rc = g.uni(-0.6, 0.6); if (1 - ra * ra - rb * rb - rc * rc - 2 * ra * rb * rc > 0.05L) break; }
  const L r1 = st == 1 ? 1 : g.logmag(-0.5, 0.5), r2 = st == 1 ? 1 : g.logmag(-0.5, 0.5), r3 = st == 1 ? 1 : g.logmag(-0.5, 0.5);
  m.E1 = double(sc * r1); m.E2 = double(sc * r2); m.E3 = double(sc * r3);
  m.n12 = double(ra * std::sqrt(r1 / r2)); m.n13 = double(rb * std::sqrt(r1 / r3)); m.n23 = double(rc * std::sqrt(r2 / r3));
  m.G12 = double(sc * g.logmag(-1, 1)); m.G23 = double(sc * g.logmag(-1, 1)); m.G13 = double(sc * g.logmag(-1, 1));
  m.a1 = g.uni(-1, 1) * 1e-3; m.a2 = g.uni(-1, 1) * 1e-3; m.a3 = g.uni(-1, 1) * 1e-3;
  const uint64_t h = vf::hash_bytes(&m, sizeof m);
  vf::J j; j.arr("FGHLMN", &m.F, &m.F + 6).arr("barlat_c", m.cb, m.cb + 9).arr("E_nu_G", &m.E1, &m.E1 + 9).arr("alpha", &m.a1, &m.a1 + 3);
  const std::string js = j.str();
#define ALLC(h_) conv_one<MH::h_, OC::DEFAULT>(idx, h, S, m, g, js); conv_one<MH::h_, OC::PIPE>(idx, h, S, m, g, js);
#define PLATE(h_) conv_one<MH::h_, OC::PLATE>(idx, h, S, m, g, js);
  ALLC(AXISYMMETRICALGENERALISEDPLANESTRAIN) ALLC(AXISYMMETRICALGENERALISEDPLANESTRESS) ALLC(AXISYMMETRICAL)
  ALLC(PLANESTRESS) ALLC(PLANESTRAIN) ALLC(GENERALISEDPLANESTRAIN) ALLC(TRIDIMENSIONAL)
  // PLATE is documented for 3D, plane stress, plane strain and generalised plane strain only
  PLATE(PLANESTRESS) PLATE(PLANESTRAIN) PLATE(GENERALISEDPLANESTRAIN) PLATE(TRIDIMENSIONAL)
}

int main(int argc, char** argv) {
  vf::Args a(argc, argv);
  if (a.only < 0) tables(uint64_t(a.shard));
  for (long i = 0; i < a.cases; ++i) {
    const uint64_t idx = a.only >= 0 ? uint64_t(a.only) : a.gidx(i);
    conv_case(a, idx);
    if (a.only >= 0) break;
  }
  R.finish();
  return 0;
}
