"""bhvgen — small behaviours with random *declarations* (C45): names, glossary / entry names, scalar / Stensor / array
types, bounds, physical bounds, parameters, hypotheses.  The spec is the ground truth the exported metadata
(ExternalLibraryManager, mfront-query) is compared with.  Mechanics are trivial on purpose (linear elasticity scaled
by the parameters) so that a behaviour compiles in a few seconds and setParameter has a visible effect."""
import mpgen

HYPS = ["AxisymmetricalGeneralisedPlaneStrain", "Axisymmetrical", "PlaneStrain", "GeneralisedPlaneStrain", "Tridimensional"]
GLOSSARY = {"mp": ["PoissonRatio", "ThermalExpansion", "MassDensity", "ShearModulus", "BulkModulus", "YieldStrength"],
            "sv": ["EquivalentPlasticStrain", "EquivalentViscoplasticStrain", "Porosity", "Damage", "EquivalentStrain"],
            "esv": ["NeutronFluence", "FissionDensity", "GrainSize", "IrradiationDamage", "NeutronFlux"]}
SCALARS = ["real", "real", "strain", "stress", "temperature", "length"]


def _b(rng, nd, kinds=("both", "lower", "upper")):
    lo = rng.uniform(-10, 10) * rng.choice((1, 1, 100, 0.01))
    b = mpgen._bounds(rng, lo, lo + abs(lo) * rng.uniform(0.1, 3) + 1, nd, kinds)
    return b


def random_behaviour(rng, k, digits="short"):
    nd = (lambda: rng.randint(2, 5)) if digits == "short" else (lambda: rng.randint(8, 12))
    dsl = rng.choice(("Default", "Default", "Implicit"))
    s = {"k": k, "name": "VfB%d" % k, "material": rng.choice(("", "", "VfMat")), "dsl": dsl, "digits": digits,
         "hypotheses": sorted(rng.sample(HYPS, rng.randint(1, 3)), key=HYPS.index), "orthotropic": rng.random() < 0.25,
         "vars": [], "params": []}
    pool = {c: rng.sample(v, len(v)) for c, v in GLOSSARY.items()}

    def var(cat, i, types, arrays):
        n = "%s%d" % ({"mp": "m", "sv": "s", "asv": "x", "esv": "e"}[cat], i)
        t = rng.choice(types)
        v = {"cat": cat, "name": n, "type": t, "size": rng.choice((1, 1, 1, 2, 3)) if (arrays and t != "Stensor") else 1, "ext": None}
        u = rng.random()
        gl = pool.get("sv" if cat == "asv" else cat)
        if u < 0.3 and gl and t != "Stensor" and v["size"] == 1:
            v["ext"] = ("glossary", gl.pop())
        elif u < 0.6:
            v["ext"] = ("entry", "%s%s%d" % (cat.capitalize(), rng.choice(("Var", "Q", "_x")), i))
        if rng.random() < 0.4:
            v["bounds"] = _b(rng, nd())
        if rng.random() < 0.3:
            b = v.get("bounds")
            if b:
                lo, hi = b.get("lo", -1e3), b.get("hi", 1e3)
                v["pbounds"] = mpgen._bounds(rng, lo, hi, nd(), mpgen._pkinds(b))
            else:
                v["pbounds"] = _b(rng, nd())
        return v
    s["vars"].append({"cat": "mp", "name": "young", "type": "stress", "size": 1, "ext": ("glossary", "YoungModulus"),
                      "bounds": {"kind": "lower", "lo": 1e9, "lo_text": "1e9"} if rng.random() < 0.5 else None})
    if s["vars"][0]["bounds"] is None:
        del s["vars"][0]["bounds"]
    for i in range(rng.randint(0, 3)):
        s["vars"].append(var("mp", i, SCALARS, True))
    for i in range(rng.randint(0, 3)):
        s["vars"].append(var("sv", i, ["real", "real", "strain", "Stensor"], True))
    for i in range(rng.randint(0, 2)):
        s["vars"].append(var("asv", i, ["real", "Stensor"], False))
    for i in range(rng.randint(0, 2)):
        s["vars"].append(var("esv", i, ["real", "real", "temperature"], False))
    for i in range(rng.randint(1, 3)):
        t, val = mpgen.numtext(rng.uniform(0.11, 9.9) * rng.choice((1, 10, 0.01)), nd())
        p = {"name": "c%d" % i, "text": t, "value": val, "ext": ("entry", "Coef%d" % i) if rng.random() < 0.4 else None}
        if rng.random() < 0.3:
            p["bounds"] = mpgen._bounds(rng, val, val, nd())
        s["params"].append(p)
    if dsl == "Implicit":
        s["itermax"] = rng.randint(20, 200)
        s["theta_text"], s["theta"] = mpgen.numtext(rng.uniform(0.5, 1.0), nd())
        s["epsilon_text"], s["epsilon"] = mpgen.numtext(10.0 ** rng.uniform(-14, -8), nd())
    return s


def entry(s):
    return s["material"] + s["name"]


def ext_name(v):
    return v["ext"][1] if v.get("ext") else v["name"]


def expanded(v):
    e = ext_name(v)
    return [e] if v["size"] == 1 else ["%s[%d]" % (e, i) for i in range(v["size"])]


def text(s, overrides=None):
    """overrides: {parameter name: text of another default value} (the 'regenerated with default v' library)"""
    o = ["@DSL %s;" % s["dsl"], "@Behaviour %s;" % s["name"]]
    if s["material"]:
        o.append("@Material %s;" % s["material"])
    o += ["@Author Verif Monitor;", "@Description{\n  behaviour with generated declarations (C45)\n}"]
    o.append("@ModellingHypotheses {%s};" % ", ".join(s["hypotheses"]))
    if s["orthotropic"]:
        o.append("@OrthotropicBehaviour;")
    if s["dsl"] == "Implicit":
        o += ["@Epsilon %s;" % s["epsilon_text"], "@Theta %s;" % s["theta_text"], "@IterMax %d;" % s["itermax"]]
    kw = {"mp": "@MaterialProperty", "sv": "@StateVariable", "asv": "@AuxiliaryStateVariable", "esv": "@ExternalStateVariable"}
    for v in s["vars"]:
        o.append("%s %s %s%s;" % (kw[v["cat"]], v["type"], v["name"], "[%d]" % v["size"] if v["size"] > 1 else ""))
        if v.get("ext"):
            o.append('%s.set%sName("%s");' % (v["name"], "Glossary" if v["ext"][0] == "glossary" else "Entry", v["ext"][1]))
    for p in s["params"]:
        o.append("@Parameter real %s = %s;" % (p["name"], (overrides or {}).get(p["name"], p["text"])))
        if p.get("ext"):
            o.append('%s.setEntryName("%s");' % (p["name"], p["ext"][1]))
    for v in s["vars"] + s["params"]:
        if v.get("pbounds"):
            o.append("@PhysicalBounds %s in %s;" % (v["name"], mpgen.bounds_text(v["pbounds"])))
        if v.get("bounds"):
            o.append("@Bounds %s in %s;" % (v["name"], mpgen.bounds_text(v["bounds"])))
    factor = " + ".join(["real(1)"] + ["%s * %s" % (repr(0.25 * (i + 1)), p["name"]) for i, p in enumerate(s["params"])])
    if s["dsl"] == "Default":
        o += ["@ProvidesSymmetricTangentOperator;", "@Integrator{", "  const real fct = %s;" % factor,
              "  sig = fct * young * (eto + deto);", "  if (computeTangentOperator_) {", "    Dt = fct * young * Stensor4::Id();", "  }", "}"]
    else:
        o += ["@ComputeStress{", "  const real fct = %s;" % factor, "  sig = fct * young * eel;", "}",
              "@Integrator{", "  feel -= deto;", "}", "@TangentOperator{", "  const real fct = %s;" % factor, "  Dt = fct * young * Stensor4::Id();", "}"]
    return "\n".join(o) + "\n"


def truth(s, hyp):
    """what the declarations say, in the vocabulary of ExternalLibraryManager"""
    tcode = {"Stensor": 1}
    mps, isvs, isvt, esvs = [], [], [], []
    if s["dsl"] == "Implicit":
        isvs.append("ElasticStrain")
        isvt.append(1)
    for cat in ("sv", "asv"):
        for v in s["vars"]:
            if v["cat"] == cat:
                isvs += expanded(v)
                isvt += [tcode.get(v["type"], 0)] * v["size"]
    for v in s["vars"]:
        if v["cat"] == "mp":
            mps += expanded(v)
        elif v["cat"] == "esv":
            esvs += expanded(v)
    return {"hypotheses": sorted(s["hypotheses"]), "material_properties": mps, "internal_state_variables": isvs,
            "internal_state_variables_types": isvt, "external_state_variables": esvs,
            "parameters": [ext_name(p) for p in s["params"]], "symmetry": 1 if s["orthotropic"] else 0}
